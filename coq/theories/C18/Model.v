(* C18 Model: labelled transition systems transcribing lib/syncx at the granularity of the
   synchronisation actions (definitions only).  One module per primitive.  A state has the shared
   variables of the Go object, the thread-local control state [ts : nat -> tstate] (program
   counter + locals + the rest of the thread's script + the results it has received), the set of
   opened gates (user callbacks block on gates: fn is arbitrary user code that may take arbitrarily
   long), and a ghost trace of externally visible events (newest first).
   [step (Thr t)] = the next synchronisation action of thread t; None = blocked / finished. *)
From God Require Import Base.Prelude C18.Conc.

(* a scripted user fn with value 0 panics instead of returning *)
Definition pan_flag (v : nat) : nat := if Nat.eqb v 0 then 1 else 0.

(* ============================================================== singleflight.go *)
Module SF.
  (* script op: o_code ignored (Do/DoEx differ only in what they return), o_a = key,
     o_b = gate the user fn waits on, o_c = the value the user fn returns; o_c = 0: the user fn
     PANICS (after its gate): c.val stays nil (= 0), the deferred cleanup of makeCall runs, and the
     panic reaches the caller of Do (result (2, nil)) *)
  Inductive pc :=
  | Idle
  | CLock                (* createCall: about to g.lock.Lock()            l.56 *)
  | CLook                (* holding lock: c, ok := g.calls[key]            l.57 *)
  | CHitUnlock (c : nat) (* hit: g.lock.Unlock()                            l.58 *)
  | CWait (c : nat)      (* c.wg.Wait(); return c, true                     l.59-60 *)
  | CPut                 (* miss: c = new(call); c.wg.Add(1); g.calls[key]=c l.63-65 *)
  | CMissUnlock (c : nat)(* g.lock.Unlock(); return c, false                l.66-68 *)
  | FnB (c : nat)        (* makeCall: fn starts                             l.79 *)
  | FnE (c : nat)        (* fn returns; c.val, c.err = ...                  l.79 *)
  | DLock (c : nat)      (* deferred: g.lock.Lock()                         l.73 *)
  | DDel (c : nat)       (* delete(g.calls, key)                            l.74 *)
  | DUnlock (c : nat)    (* g.lock.Unlock()                                 l.75 *)
  | DDone (c : nat).     (* c.wg.Done(); return c.val, c.err                l.76, l.42 *)

  Record tstate := mkt { t_pc : pc; t_key : nat; t_gate : nat; t_val : nat;
                         t_todo : list op; t_res : list (nat * nat) (* (fresh, value), newest first *) }.

  Record state := mk {
    lock : option nat;            (* g.lock: owner *)
    calls : list (nat * nat);     (* g.calls: key -> call id *)
    wg : nat -> nat;              (* c.wg counter of call id c *)
    cval : nat -> nat;            (* c.val (0 = nil) *)
    next : nat;                   (* allocator of call ids *)
    open : list nat;              (* opened gates *)
    ts : nat -> tstate;
    trace : list ev;              (* ghost: history, newest first *)
    panicked : bool;              (* sync: negative WaitGroup counter *)
    cre : nat -> nat;             (* ghost: creator thread of call id *)
    ckey : nat -> nat             (* ghost: key of call id *)
  }.

  Definition init (scripts : nat -> list op) : state :=
    mk None [] (fun _ => 0) (fun _ => 0) 0 [] (fun t => mkt Idle 0 0 0 (scripts t) []) [] false
       (fun _ => 0) (fun _ => 0).

  Definition setpc (x : tstate) (p : pc) : tstate :=
    mkt p (t_key x) (t_gate x) (t_val x) (t_todo x) (t_res x).

  Definition step (l : lbl) (s : state) : option state :=
    match l with
    | Open g => Some (mk (lock s) (calls s) (wg s) (cval s) (next s) (g :: open s) (ts s) (trace s) (panicked s) (cre s) (ckey s))
    | Adv _ => None
    | Thr t =>
        let x := ts s t in
        let go (lk : option nat) (x' : tstate) :=
          Some (mk lk (calls s) (wg s) (cval s) (next s) (open s) (upd (ts s) t x') (trace s) (panicked s) (cre s) (ckey s)) in
        match t_pc x with
        | Idle =>
            match t_todo x with
            | [] => None
            | o :: rest =>
                Some (mk (lock s) (calls s) (wg s) (cval s) (next s) (open s)
                         (upd (ts s) t (mkt CLock (o_a o) (o_b o) (o_c o) rest (t_res x)))
                         (mkev t KInv 0 (o_a o) 0 0 :: trace s) (panicked s) (cre s) (ckey s))
            end
        | CLock => match lock s with None => go (Some t) (setpc x CLook) | Some _ => None end
        | CLook =>
            match alookup Nat.eqb (t_key x) (calls s) with
            | Some c => go (lock s) (setpc x (CHitUnlock c))
            | None => go (lock s) (setpc x CPut)
            end
        | CHitUnlock c => go None (setpc x (CWait c))
        | CWait c =>
            if Nat.eqb (wg s c) 0 then
              Some (mk (lock s) (calls s) (wg s) (cval s) (next s) (open s)
                       (upd (ts s) t (mkt Idle (t_key x) (t_gate x) (t_val x) (t_todo x) ((0, cval s c) :: t_res x)))
                       (mkev t KRet 0 (t_key x) (cval s c) 0 :: trace s) (panicked s) (cre s) (ckey s))
            else None
        | CPut =>
            let c := next s in
            Some (mk (lock s) (aset Nat.eqb (t_key x) c (calls s)) (upd (wg s) c 1) (upd (cval s) c 0) (S c) (open s)
                     (upd (ts s) t (setpc x (CMissUnlock c))) (trace s) (panicked s)
                     (upd (cre s) c t) (upd (ckey s) c (t_key x)))
        | CMissUnlock c => go None (setpc x (FnB c))
        | FnB c =>
            Some (mk (lock s) (calls s) (wg s) (cval s) (next s) (open s)
                     (upd (ts s) t (setpc x (FnE c)))
                     (mkev t KBegin 0 (t_key x) 0 0 :: trace s) (panicked s) (cre s) (ckey s))
        | FnE c =>
            if gate_open (open s) (t_gate x) then
              Some (mk (lock s) (calls s) (wg s) (upd (cval s) c (t_val x)) (next s) (open s)
                       (upd (ts s) t (setpc x (DLock c)))
                       (mkev t KEnd 0 (t_key x) (t_val x) (pan_flag (t_val x)) :: trace s) (panicked s) (cre s) (ckey s))
            else None
        | DLock c => match lock s with None => go (Some t) (setpc x (DDel c)) | Some _ => None end
        | DDel c =>
            Some (mk (lock s) (aremove Nat.eqb (t_key x) (calls s)) (wg s) (cval s) (next s) (open s)
                     (upd (ts s) t (setpc x (DUnlock c))) (trace s) (panicked s) (cre s) (ckey s))
        | DUnlock c => go None (setpc x (DDone c))
        | DDone c =>
            Some (mk (lock s) (calls s) (upd (wg s) c (wg s c - 1)) (cval s) (next s) (open s)
                     (upd (ts s) t (mkt Idle (t_key x) (t_gate x) (t_val x) (t_todo x) ((S (pan_flag (t_val x)), cval s c) :: t_res x)))
                     (mkev t KRet 0 (t_key x) (cval s c) (S (pan_flag (t_val x))) :: trace s)
                     (panicked s || Nat.eqb (wg s c) 0) (cre s) (ckey s))
        end
    end.

  Definition busy (s : state) (t : nat) : bool :=
    match t_pc (ts s t) with Idle => false | _ => true end.
End SF.

(* ============================================================== lockedcalls.go *)
Module LC.
  (* script op: o_a = key, o_b = gate of the user fn, o_c = value the user fn returns; o_c = 0: the
     user fn panics: makeCall's deferred function (delete, Done) runs and the panic reaches the
     caller (result (2, 0)) *)
  Inductive pc :=
  | Idle
  | LLock                (* begin: lg.mu.Lock()                             l.27-28 *)
  | LLook                (* holding mu: wg, ok := lg.m[key]                 l.29 *)
  | LHitUnlock (c : nat) (* hit: lg.mu.Unlock()                             l.30 *)
  | LWait (c : nat)      (* wg.Wait(); goto begin                           l.31-32 *)
  | LPut                 (* makeCall: var wg; wg.Add(1); lg.m[key] = &wg    l.39-41 *)
  | LMissUnlock (c : nat)(* lg.mu.Unlock()                                  l.42 *)
  | FnB (c : nat)        (* fn starts                                       l.53 *)
  | FnE (c : nat)        (* fn returns                                      l.53 *)
  | DLock (c : nat)      (* deferred: lg.mu.Lock()                          l.47 *)
  | DDel (c : nat)       (* delete(lg.m, key)                               l.48 *)
  | DUnlock (c : nat)    (* lg.mu.Unlock()                                  l.49 *)
  | DDone (c : nat).     (* wg.Done(); Do returns fn's results              l.50 *)

  Record tstate := mkt { t_pc : pc; t_key : nat; t_gate : nat; t_val : nat;
                         t_todo : list op; t_res : list (nat * nat) }.

  Record state := mk {
    lock : option nat;            (* lg.mu owner *)
    calls : list (nat * nat);     (* lg.m: key -> waitgroup id *)
    wg : nat -> nat;              (* counter of waitgroup id *)
    next : nat;
    open : list nat;
    ts : nat -> tstate;
    trace : list ev;
    panicked : bool;
    cre : nat -> nat              (* ghost: creator of waitgroup id *)
  }.

  Definition init (scripts : nat -> list op) : state :=
    mk None [] (fun _ => 0) 0 [] (fun t => mkt Idle 0 0 0 (scripts t) []) [] false (fun _ => 0).

  Definition setpc (x : tstate) (p : pc) : tstate :=
    mkt p (t_key x) (t_gate x) (t_val x) (t_todo x) (t_res x).

  Definition step (l : lbl) (s : state) : option state :=
    match l with
    | Open g => Some (mk (lock s) (calls s) (wg s) (next s) (g :: open s) (ts s) (trace s) (panicked s) (cre s))
    | Adv _ => None
    | Thr t =>
        let x := ts s t in
        let go (lk : option nat) (x' : tstate) :=
          Some (mk lk (calls s) (wg s) (next s) (open s) (upd (ts s) t x') (trace s) (panicked s) (cre s)) in
        match t_pc x with
        | Idle =>
            match t_todo x with
            | [] => None
            | o :: rest =>
                Some (mk (lock s) (calls s) (wg s) (next s) (open s)
                         (upd (ts s) t (mkt LLock (o_a o) (o_b o) (o_c o) rest (t_res x)))
                         (mkev t KInv 1 (o_a o) 0 0 :: trace s) (panicked s) (cre s))
            end
        | LLock => match lock s with None => go (Some t) (setpc x LLook) | Some _ => None end
        | LLook =>
            match alookup Nat.eqb (t_key x) (calls s) with
            | Some c => go (lock s) (setpc x (LHitUnlock c))
            | None => go (lock s) (setpc x LPut)
            end
        | LHitUnlock c => go None (setpc x (LWait c))
        | LWait c => if Nat.eqb (wg s c) 0 then go (lock s) (setpc x LLock) else None
        | LPut =>
            let c := next s in
            Some (mk (lock s) (aset Nat.eqb (t_key x) c (calls s)) (upd (wg s) c 1) (S c) (open s)
                     (upd (ts s) t (setpc x (LMissUnlock c))) (trace s) (panicked s) (upd (cre s) c t))
        | LMissUnlock c => go None (setpc x (FnB c))
        | FnB c =>
            Some (mk (lock s) (calls s) (wg s) (next s) (open s) (upd (ts s) t (setpc x (FnE c)))
                     (mkev t KBegin 1 (t_key x) 0 0 :: trace s) (panicked s) (cre s))
        | FnE c =>
            if gate_open (open s) (t_gate x) then
              Some (mk (lock s) (calls s) (wg s) (next s) (open s) (upd (ts s) t (setpc x (DLock c)))
                       (mkev t KEnd 1 (t_key x) (t_val x) (pan_flag (t_val x)) :: trace s) (panicked s) (cre s))
            else None
        | DLock c => match lock s with None => go (Some t) (setpc x (DDel c)) | Some _ => None end
        | DDel c =>
            Some (mk (lock s) (aremove Nat.eqb (t_key x) (calls s)) (wg s) (next s) (open s)
                     (upd (ts s) t (setpc x (DUnlock c))) (trace s) (panicked s) (cre s))
        | DUnlock c => go None (setpc x (DDone c))
        | DDone c =>
            Some (mk (lock s) (calls s) (upd (wg s) c (wg s c - 1)) (next s) (open s)
                     (upd (ts s) t (mkt Idle (t_key x) (t_gate x) (t_val x) (t_todo x) ((S (pan_flag (t_val x)), t_val x) :: t_res x)))
                     (mkev t KRet 1 (t_key x) (t_val x) (S (pan_flag (t_val x))) :: trace s)
                     (panicked s || Nat.eqb (wg s c) 0) (cre s))
        end
    end.

  Definition busy (s : state) (t : nat) : bool :=
    match t_pc (ts s t) with Idle => false | _ => true end.
End LC.

(* ============================================================== objects whose methods are ONE
   synchronisation action (channel send/receive, atomic CAS/swap) or one critical section under the
   object's own mutex without callbacks that escape it: limit.go, refresource.go, onceguard.go,
   spinlock.go, donechan.go.  A thread first announces the call (KInv), then performs the action,
   which also delivers the response (KRet); [sstep obj t o = None] means the action blocks. *)
Module AO.
  Section S.
    Context {Ob : Type} (sstep : Ob -> nat -> op -> option (Ob * nat)).
    Record tstate := mkt { t_pend : option op; t_todo : list op; t_res : list nat }.
    Record state := mk { obj : Ob; ts : nat -> tstate; trace : list ev }.

    Definition init (o0 : Ob) (scripts : nat -> list op) : state :=
      mk o0 (fun t => mkt None (scripts t) []) [].

    Definition step (l : lbl) (s : state) : option state :=
      match l with
      | Thr t =>
          let x := ts s t in
          match t_pend x with
          | None =>
              match t_todo x with
              | [] => None
              | o :: rest => Some (mk (obj s) (upd (ts s) t (mkt (Some o) rest (t_res x)))
                                      (mkev t KInv (o_code o) (o_a o) (o_b o) (o_c o) :: trace s))
              end
          | Some o =>
              match sstep (obj s) t o with
              | Some (ob', r) => Some (mk ob' (upd (ts s) t (mkt None (t_todo x) (r :: t_res x)))
                                         (mkev t KRet (o_code o) r 0 0 :: trace s))
              | None => None
              end
          end
      | _ => None
      end.

    Definition busy (s : state) (t : nat) : bool :=
      match t_pend (ts s t) with None => false | Some _ => true end.
  End S.
  Arguments mk {Ob}. Arguments obj {Ob}. Arguments ts {Ob}. Arguments trace {Ob}.
End AO.

(* ---- limit.go: Limit{pool chan struct{}} with capacity n; the state is len(pool) ---- *)
Module LIM.
  Record st := mk { out : nat; nb : nat (* ghost: successful borrows *); nr : nat (* ghost: successful returns *) }.
  Definition sstep (n : nat) (s : st) (_ : nat) (o : op) : option (st * nat) :=
    match o_code o with
    | 0 => (* Borrow: l.pool <- x, blocks while full          l.25-27 *)
        if Nat.ltb (out s) n then Some (mk (S (out s)) (S (nb s)) (nr s), 0) else None
    | 1 => (* TryBorrow: select send / default               l.31-38 *)
        if Nat.ltb (out s) n then Some (mk (S (out s)) (S (nb s)) (nr s), 1) else Some (s, 0)
    | _ => (* Return: if cap(l.pool) == 0 { return ErrLimitReturn } (a limit of 0 never lends anything; without
              this test the receive would pair with a sender blocked in Borrow); then select receive /
              default: ErrLimitReturn; result 0 = nil, 1 = ErrLimitReturn *)
        if Nat.eqb n 0 then Some (s, 1) else
        match out s with
        | S k => Some (mk k (nb s) (S (nr s)), 0)
        | O => Some (s, 1)
        end
    end.
  Definition init : st := mk 0 0 0.
End LIM.

(* ---- refresource.go as a sequential object (the specification used for linearizability; the
   interleaving model at the granularity of the code is REFL below) ---- *)
Module REF.
  Record st := mk { ref : Z; cleaned : bool; ncb : nat (* ghost: runs of the clean callback *);
                    nuse : nat (* ghost: successful Use *); ncl : nat (* ghost: Clean calls that decremented *) }.
  Definition sstep (s : st) (_ : nat) (o : op) : option (st * nat) :=
    match o_code o with
    | 0 => (* Use l.27-38: result 0 = nil, 1 = ErrUseOfCleaned *)
        if cleaned s then Some (s, 1) else Some (mk (ref s + 1) false (ncb s) (S (nuse s)) (ncl s), 0)
    | _ => (* Clean l.41-54: result 1 = the clean callback ran in this call, 2 = it ran and panicked
              (o_a <> 0 scripts a panicking callback; cleaned is set before the callback is called) *)
        if cleaned s then Some (s, 0)
        else if Z.eqb (ref s - 1) 0 then Some (mk 0 true (S (ncb s)) (nuse s) (S (ncl s)), if Nat.eqb (o_a o) 0 then 1 else 2)
        else Some (mk (ref s - 1) false (ncb s) (nuse s) (S (ncl s)), 0)
    end.
  Definition init : st := mk 0 false 0 0 0.
End REF.

(* ---- onceguard.go ---- *)
Module ONCE.
  Record st := mk { done : bool; ntaken : nat (* ghost *) }.
  Definition sstep (s : st) (_ : nat) (o : op) : option (st * nat) :=
    match o_code o with
    | 0 => (* Take: CAS(&done,0,1) *) if done s then Some (s, 0) else Some (mk true (S (ntaken s)), 1)
    | _ => (* Taken: load *) Some (s, if done s then 1 else 0)
    end.
  Definition init : st := mk false 0.
End ONCE.

(* ---- spinlock.go; cs = ghost set of threads that acquired and have not released ---- *)
Module SPIN.
  Record st := mk { locked : bool; cs : list nat; misuse : bool (* ghost: Unlock by a non-holder *) }.
  Definition sstep (s : st) (t : nat) (o : op) : option (st * nat) :=
    match o_code o with
    | 0 => (* Lock: for !TryLock() { Gosched() } -- a failed attempt changes nothing *)
        if locked s then None else Some (mk true (t :: cs s) (misuse s), 1)
    | 1 => (* TryLock: CAS(&lock,0,1) *)
        if locked s then Some (s, 0) else Some (mk true (t :: cs s) (misuse s), 1)
    | _ => (* Unlock: Swap(&lock,0) *)
        Some (mk false (filter (fun u => negb (Nat.eqb u t)) (cs s))
                 (misuse s || negb (existsb (Nat.eqb t) (cs s))), 0)
    end.
  Definition init : st := mk false [] false.
End SPIN.

(* ---- donechan.go ---- *)
Module DONE.
  Record st := mk { closed : bool; ncloses : nat (* ghost: executions of close(dc.done) *) }.
  Definition sstep (s : st) (_ : nat) (o : op) : option (st * nat) :=
    match o_code o with
    | 0 => (* Close: once.Do(close(done)) *) if closed s then Some (s, 0) else Some (mk true (S (ncloses s)), 0)
    | _ => (* poll of <-dc.Done(): 1 = closed *) Some (s, if closed s then 1 else 0)
    end.
  Definition init : st := mk false 0.
End DONE.

(* ============================================================== pool.go *)
Module POOL.
  (* script op: o_code 0 = Get (o_a <> 0: the create callback panics if this Get calls it, o_b = gate
     inside the create callback, o_c = 1: the destroy callback panics if this Get calls it; o_c = 2: it is slow: waits on gate 80 + id);
     1 = Put of the most recently obtained resource still held; 2 = Put(nil).
     Both callbacks run under p.lock; `defer p.lock.Unlock()` releases it when they panic. *)
  Inductive pc :=
  | Idle
  | GLock            (* Get: p.lock.Lock()                                  l.62 *)
  | GLoop            (* holding the lock: one iteration of the for loop     l.65-83 *)
  | GCb              (* p.created++ done; p.create() running (lock held)    l.79-80 *)
  | GWait            (* inside p.cond.Wait(): lock released, queued          l.83 *)
  | GRelock          (* notified: re-acquire the lock inside cond.Wait       l.83 *)
  | GRet (r : nat)   (* deferred p.lock.Unlock(); return r                   l.63,74,80 *)
  | GPanic           (* deferred p.lock.Unlock(); the callback's panic reaches the caller  l.63 *)
  | PNil             (* Put(nil): if x == nil { return }                     l.89-91 *)
  | PLock (x : nat)  (* Put: p.lock.Lock()                                   l.93 *)
  | PPush (x : nat)  (* p.head = &node{x, p.head, timex.Now()}               l.96-100 *)
  | PSignal          (* p.cond.Signal()                                      l.101 *)
  | PUnlock.         (* deferred p.lock.Unlock()                             l.94 *)

  Record tstate := mkt { t_pc : pc; t_cpan : nat; t_gate : nat; t_dpan : nat;
                         t_todo : list op; t_res : list (nat * nat); t_held : list nat }.

  Record state := mk {
    lock : option nat;
    created : Z;                    (* p.created *)
    head : list (nat * nat);        (* idle list: (resource, lastUsed), head first *)
    waiters : list nat;             (* cond's notify list, FIFO *)
    nextres : nat;                  (* ids handed out by the create callback *)
    now : nat;                      (* timex.Now() *)
    open : list nat;
    ts : nat -> tstate;
    trace : list ev;
    loc : nat -> nat;               (* ghost: 0 unborn, 1 idle in pool, 2 destroyed, 3+t held by t *)
    ncreate : Z; ndestroy : Z;      (* ghost: resources returned by create / passed to destroy *)
    nleak : Z                       (* ghost: p.created++ whose create() is running or panicked *)
  }.

  Definition init (scripts : nat -> list op) : state :=
    mk None 0 [] [] 1 0 [] (fun t => mkt Idle 0 0 0 (scripts t) [] []) [] (fun _ => 0) 0 0 0.

  Definition expired (maxage lu now : nat) : bool := Nat.ltb 0 maxage && Nat.ltb (lu + maxage) now.

  Definition setpc (x : tstate) (p : pc) : tstate :=
    mkt p (t_cpan x) (t_gate x) (t_dpan x) (t_todo x) (t_res x) (t_held x).

  Definition step (limit : Z) (maxage : nat) (l : lbl) (s : state) : option state :=
    match l with
    | Adv d => Some (mk (lock s) (created s) (head s) (waiters s) (nextres s) (now s + d) (open s) (ts s) (trace s) (loc s) (ncreate s) (ndestroy s) (nleak s))
    | Open g => Some (mk (lock s) (created s) (head s) (waiters s) (nextres s) (now s) (g :: open s) (ts s) (trace s) (loc s) (ncreate s) (ndestroy s) (nleak s))
    | Thr t =>
        let x := ts s t in
        let setp (lk : option nat) (p : pc) :=
          Some (mk lk (created s) (head s) (waiters s) (nextres s) (now s) (open s)
                   (upd (ts s) t (setpc x p)) (trace s) (loc s) (ncreate s) (ndestroy s) (nleak s)) in
        match t_pc x with
        | Idle =>
            match t_todo x with
            | [] => None
            | o :: rest =>
                match o_code o with
                | 0 => Some (mk (lock s) (created s) (head s) (waiters s) (nextres s) (now s) (open s)
                                (upd (ts s) t (mkt GLock (o_a o) (o_b o) (o_c o) rest (t_res x) (t_held x)))
                                (mkev t KInv 0 0 (now s) 0 :: trace s) (loc s) (ncreate s) (ndestroy s) (nleak s))
                | 2 => Some (mk (lock s) (created s) (head s) (waiters s) (nextres s) (now s) (open s)
                                (upd (ts s) t (mkt PNil 0 0 0 rest (t_res x) (t_held x)))
                                (mkev t KInv 2 0 (now s) 0 :: trace s) (loc s) (ncreate s) (ndestroy s) (nleak s))
                | _ =>
                    match t_held x with
                    | [] => Some (mk (lock s) (created s) (head s) (waiters s) (nextres s) (now s) (open s)
                                     (upd (ts s) t (mkt Idle 0 0 0 rest ((0, 1) :: t_res x) [])) (trace s) (loc s) (ncreate s) (ndestroy s) (nleak s))
                    | r :: h' => Some (mk (lock s) (created s) (head s) (waiters s) (nextres s) (now s) (open s)
                                          (upd (ts s) t (mkt (PLock r) 0 0 0 rest (t_res x) h'))
                                          (mkev t KInv 1 r (now s) 0 :: trace s) (loc s) (ncreate s) (ndestroy s) (nleak s))
                    end
                end
            end
        | GLock => match lock s with None => setp (Some t) GLoop | Some _ => None end
        | GLoop =>
            match head s with
            | (r, lu) :: rest =>
                if expired maxage lu (now s) then
                  (* p.created--; p.destroy(head.item); continue -- or the callback's panic unwinds Get.
                     The destroy callback may be slow (o_c = 2: it waits on gate 80 + r): Get sits in it, still
                     holding p.lock, so nothing -- in particular no replacement -- is created meanwhile; the
                     step completes when destroy returns *)
                  if negb (gate_open (open s) (if Nat.eqb (t_dpan x) 2 then 80 + r else 0)) then None else
                  Some (mk (lock s) (created s - 1) rest (waiters s) (nextres s) (now s) (open s)
                           (upd (ts s) t (setpc x (if Nat.eqb (t_dpan x) 1 then GPanic else GLoop)))
                           (mkev t KEnd 3 r (now s) (if Nat.eqb (t_dpan x) 1 then 1 else 0) :: trace s)
                           (upd (loc s) r 2) (ncreate s) (ndestroy s + 1) (nleak s))
                else
                  Some (mk (lock s) (created s) rest (waiters s) (nextres s) (now s) (open s)
                           (upd (ts s) t (setpc x (GRet r))) (trace s)
                           (upd (loc s) r (3 + t)) (ncreate s) (ndestroy s) (nleak s))
            | [] =>
                if Z.ltb (created s) limit then
                  Some (mk (lock s) (created s + 1) [] (waiters s) (nextres s) (now s) (open s)
                           (upd (ts s) t (setpc x GCb)) (mkev t KBegin 3 0 (now s) 2 :: trace s)
                           (loc s) (ncreate s) (ndestroy s) (nleak s + 1))
                else
                  Some (mk None (created s) [] (waiters s ++ [t]) (nextres s) (now s) (open s)
                           (upd (ts s) t (setpc x GWait)) (trace s) (loc s) (ncreate s) (ndestroy s) (nleak s))
            end
        | GCb =>
            if gate_open (open s) (t_gate x) then
              if Nat.eqb (t_cpan x) 0 then
                let r := nextres s in
                Some (mk (lock s) (created s) (head s) (waiters s) (S r) (now s) (open s)
                         (upd (ts s) t (setpc x (GRet r)))
                         (mkev t KBegin 3 r (now s) 0 :: trace s) (upd (loc s) r (3 + t)) (ncreate s + 1) (ndestroy s) (nleak s - 1))
              else
                Some (mk (lock s) (created s) (head s) (waiters s) (nextres s) (now s) (open s)
                         (upd (ts s) t (setpc x GPanic))
                         (mkev t KBegin 3 0 (now s) 1 :: trace s) (loc s) (ncreate s) (ndestroy s) (nleak s))
            else None
        | GWait => if existsb (Nat.eqb t) (waiters s) then None else setp (lock s) GRelock
        | GRelock => match lock s with None => setp (Some t) GLoop | Some _ => None end
        | GRet r =>
            Some (mk None (created s) (head s) (waiters s) (nextres s) (now s) (open s)
                     (upd (ts s) t (mkt Idle (t_cpan x) (t_gate x) (t_dpan x) (t_todo x) ((r, 0) :: t_res x) (r :: t_held x)))
                     (mkev t KRet 0 r (now s) 0 :: trace s) (loc s) (ncreate s) (ndestroy s) (nleak s))
        | GPanic =>
            Some (mk None (created s) (head s) (waiters s) (nextres s) (now s) (open s)
                     (upd (ts s) t (mkt Idle (t_cpan x) (t_gate x) (t_dpan x) (t_todo x) ((0, 2) :: t_res x) (t_held x)))
                     (mkev t KRet 0 0 (now s) 2 :: trace s) (loc s) (ncreate s) (ndestroy s) (nleak s))
        | PNil =>   (* a nil is not a resource: nothing is touched, no slot is given back *)
            Some (mk (lock s) (created s) (head s) (waiters s) (nextres s) (now s) (open s)
                     (upd (ts s) t (mkt Idle (t_cpan x) (t_gate x) (t_dpan x) (t_todo x) ((0, 0) :: t_res x) (t_held x)))
                     (mkev t KRet 2 0 (now s) 0 :: trace s) (loc s) (ncreate s) (ndestroy s) (nleak s))
        | PLock r => match lock s with None => setp (Some t) (PPush r) | Some _ => None end
        | PPush r =>
            Some (mk (lock s) (created s) ((r, now s) :: head s) (waiters s) (nextres s) (now s) (open s)
                     (upd (ts s) t (mkt PSignal (t_cpan x) (t_gate x) (t_dpan x) (t_todo x) ((r, 0) :: t_res x) (t_held x))) (trace s)
                     (upd (loc s) r 1) (ncreate s) (ndestroy s) (nleak s))
        | PSignal =>
            Some (mk (lock s) (created s) (head s) (tl (waiters s)) (nextres s) (now s) (open s)
                     (upd (ts s) t (setpc x PUnlock)) (trace s) (loc s) (ncreate s) (ndestroy s) (nleak s))
        | PUnlock =>
            Some (mk None (created s) (head s) (waiters s) (nextres s) (now s) (open s)
                     (upd (ts s) t (setpc x Idle))
                     (mkev t KRet 1 0 (now s) 0 :: trace s) (loc s) (ncreate s) (ndestroy s) (nleak s))
        end
    end.

  Definition busy (s : state) (t : nat) : bool :=
    match t_pc (ts s t) with Idle => false | _ => true end.

  (* what thread t currently possesses *)
  Definition holding (x : tstate) : list nat :=
    match t_pc x with GRet r | PLock r | PPush r => r :: t_held x | _ => t_held x end.

  Definition holds (p : pc) : bool :=
    match p with GLoop | GCb | GRet _ | GPanic | PPush _ | PSignal | PUnlock => true | _ => false end.
End POOL.

(* ============================================================== resourcemanager.go
   m.singleFlight.Do is modelled by its contract's atomic core (register-or-join, deregister+Done:
   SF above proves that the lock-protected map operations of singleflight.go behave atomically);
   the body of the fn passed to it is transcribed action by action, with m.lock as a
   readers/writer lock. *)
Module RM.
  (* script op: o_code 2 = Get that is held up by gate o_b just before it enters m.singleFlight.Do;
     o_code 0 = Get (o_a key, o_b gate inside create, o_c = 1: create returns an error,
     o_c = 2: create panics -- no defer of fn is active then, the flight's cleanup runs and the panic
     reaches the caller of Get; o_c = 3: create succeeds but the resource's Close() will fail); 1 = Close *)
  Inductive pc :=
  | Idle
  | SGate              (* about to call m.singleFlight.Do (o_code 2: the call is held up at this point by gate o_b) *)
  | SReg               (* singleFlight.Do: join the key's flight or register a new one      l.44 *)
  | SWait (c : nat)    (* joined: wait for the flight; take its val/err; val.(io.Closer)    l.44,63-67 *)
  | FRLock (c : nat)   (* fn: m.lock.RLock()                                                l.45 *)
  | FRead (c : nat)    (* resource, ok := m.resources[key]                                  l.46 *)
  | FRUnlockHit (c : nat)  (* m.lock.RUnlock(); return resource, nil                        l.47-50 *)
  | FRUnlockMiss (c : nat) (* m.lock.RUnlock()                                              l.47 *)
  | CrB (c : nat)      (* create() starts                                                   l.52 *)
  | CrE (c : nat)      (* create() returns; if err != nil return nil, err                   l.52-55 *)
  | FWLock (c : nat)   (* m.lock.Lock()                                                     l.57 *)
  | FPut (c : nat)     (* m.resources[key] = resource  (panics when the map is nil)         l.59 *)
  | FWUnlock (c : nat) (* deferred m.lock.Unlock()                                          l.58 *)
  | SDel (c : nat)     (* flight ends: delete entry, wg.Done; Get returns                   l.44,63-67 *)
  | CLock              (* Close: m.lock.Lock()                                              l.27 *)
  | CClose             (* close every resource; m.resources = nil                           l.31-37 *)
  | CUnlock.           (* deferred m.lock.Unlock(); return                                  l.28 *)

  Record tstate := mkt { t_pc : pc; t_key : nat; t_gate : nat; t_fail : nat;
                         t_rv : nat; t_re : nat;   (* fn's result: resource id, error code 0 ok / 1 err / 2 panic *)
                         t_todo : list op; t_res : list (nat * nat) }.

  Record state := mk {
    calls : list (nat * nat); wg : nat -> nat; cval : nat -> nat; cerr : nat -> nat; next : nat;
    resources : list (nat * nat); closed : bool;
    readers : nat; writer : option nat;
    nextid : nat; open : list nat;
    ts : nat -> tstate; trace : list ev;
    cre : nat -> nat;               (* ghost: creator of call id *)
    ncre : nat -> nat;              (* ghost: successful create() calls per key *)
    closedids : list nat            (* ghost: resources whose Close ran *)
  }.

  Definition init (scripts : nat -> list op) : state :=
    mk [] (fun _ => 0) (fun _ => 0) (fun _ => 0) 0 [] false 0 None 1 []
       (fun t => mkt Idle 0 0 0 0 0 (scripts t) []) [] (fun _ => 0) (fun _ => 0) [].

  Definition setpc (x : tstate) (p : pc) : tstate :=
    mkt p (t_key x) (t_gate x) (t_fail x) (t_rv x) (t_re x) (t_todo x) (t_res x).
  (* a resource whose Close() fails is scripted by its handle *)
  Definition close_fails (id : nat) : bool := Nat.leb 1000 id.
  Definition close_events (t : nat) (rs : list (nat * nat)) : list ev :=
    map (fun kv => mkev t KEnd 1 (snd kv) 0 (if close_fails (snd kv) then 1 else 0)) rs.
  Definition close_err (rs : list (nat * nat)) : nat :=
    if existsb (fun kv => close_fails (snd kv)) rs then 1 else 0.
  Definition setpcr (x : tstate) (p : pc) (rv re : nat) : tstate :=
    mkt p (t_key x) (t_gate x) (t_fail x) rv re (t_todo x) (t_res x).

  Definition step (l : lbl) (s : state) : option state :=
    match l with
    | Open g => Some (mk (calls s) (wg s) (cval s) (cerr s) (next s) (resources s) (closed s) (readers s) (writer s)
                         (nextid s) (g :: open s) (ts s) (trace s) (cre s) (ncre s) (closedids s))
    | Adv _ => None
    | Thr t =>
        let x := ts s t in
        (* only the thread-local state and the readers/writer lock change *)
        let go (rd : nat) (wr : option nat) (x' : tstate) :=
          Some (mk (calls s) (wg s) (cval s) (cerr s) (next s) (resources s) (closed s) rd wr
                   (nextid s) (open s) (upd (ts s) t x') (trace s) (cre s) (ncre s) (closedids s)) in
        let ret (x' : tstate) (e : ev) :=
          Some (mk (calls s) (wg s) (cval s) (cerr s) (next s) (resources s) (closed s) (readers s) (writer s)
                   (nextid s) (open s) (upd (ts s) t x') (e :: trace s) (cre s) (ncre s) (closedids s)) in
        match t_pc x with
        | Idle =>
            match t_todo x with
            | [] => None
            | o :: rest =>
                match o_code o with
                | 0 => ret (mkt SReg (o_a o) (o_b o) (o_c o) 0 0 rest (t_res x)) (mkev t KInv 0 (o_a o) 0 0)
                | 2 => ret (mkt SGate (o_a o) (o_b o) (o_c o) 0 0 rest (t_res x)) (mkev t KInv 0 (o_a o) 0 0)
                | _ => ret (mkt CLock 0 0 0 0 0 rest (t_res x)) (mkev t KInv 1 0 0 0)
                end
            end
        | SGate =>
            (* nothing of Get has happened yet: the "is it already there?" lookup is part of the flight's fn *)
            if gate_open (open s) (t_gate x)
            then go (readers s) (writer s) (mkt SReg (t_key x) 0 (t_fail x) (t_rv x) (t_re x) (t_todo x) (t_res x))
            else None
        | SReg =>
            match alookup Nat.eqb (t_key x) (calls s) with
            | Some c => go (readers s) (writer s) (setpc x (SWait c))
            | None =>
                let c := next s in
                Some (mk (aset Nat.eqb (t_key x) c (calls s)) (upd (wg s) c 1) (upd (cval s) c 0) (upd (cerr s) c 2) (S c)
                         (resources s) (closed s) (readers s) (writer s) (nextid s) (open s)
                         (upd (ts s) t (setpc x (FRLock c))) (trace s) (upd (cre s) c t) (ncre s) (closedids s))
            end
        | SWait c =>
            if Nat.eqb (wg s c) 0 then
              let r := match cerr s c with 0 => (cval s c, 0) | 1 => (0, 1) | _ => (0, 2) end in
              ret (mkt Idle (t_key x) (t_gate x) (t_fail x) (t_rv x) (t_re x) (t_todo x) (r :: t_res x))
                  (mkev t KRet 0 (t_key x) (fst r) (snd r))
            else None
        | FRLock c => match writer s with None => go (S (readers s)) None (setpc x (FRead c)) | Some _ => None end
        | FRead c =>
            match alookup Nat.eqb (t_key x) (resources s) with
            | Some id => go (readers s) (writer s) (setpcr x (FRUnlockHit c) id 0)
            | None => go (readers s) (writer s) (setpc x (FRUnlockMiss c))
            end
        | FRUnlockHit c => go (readers s - 1) (writer s) (setpc x (SDel c))
        | FRUnlockMiss c => go (readers s - 1) (writer s) (setpc x (CrB c))
        | CrB c => ret (setpc x (CrE c)) (mkev t KBegin 0 (t_key x) 0 0)
        | CrE c =>
            if gate_open (open s) (t_gate x) then
              if Nat.eqb (t_fail x) 0 || Nat.eqb (t_fail x) 3 then
                (* o_c = 3: the resource's own Close() will return an error; the handle encodes it (+1000) *)
                let id := nextid s + (if Nat.eqb (t_fail x) 3 then 1000 else 0) in
                Some (mk (calls s) (wg s) (cval s) (cerr s) (next s) (resources s) (closed s) (readers s) (writer s)
                         (S (nextid s)) (open s) (upd (ts s) t (setpcr x (FWLock c) id 0))
                         (mkev t KEnd 0 (t_key x) id 0 :: trace s) (cre s)
                         (upd (ncre s) (t_key x) (S (ncre s (t_key x)))) (closedids s))
              else let code := if Nat.eqb (t_fail x) 1 then 1 else 2 in   (* create returned an error / panicked *)
                   ret (setpcr x (SDel c) 0 code) (mkev t KEnd 0 (t_key x) 0 code)
            else None
        | FWLock c =>
            match writer s, readers s with
            | None, 0 => go 0 (Some t) (setpc x (FPut c))
            | _, _ => None
            end
        | FPut c =>
            if closed s then go (readers s) (writer s) (setpcr x (FWUnlock c) 0 2)   (* assignment to entry in nil map *)
            else
              Some (mk (calls s) (wg s) (cval s) (cerr s) (next s) (aset Nat.eqb (t_key x) (t_rv x) (resources s)) (closed s)
                       (readers s) (writer s) (nextid s) (open s) (upd (ts s) t (setpc x (FWUnlock c))) (trace s)
                       (cre s) (ncre s) (closedids s))
        | FWUnlock c => go (readers s) None (setpc x (SDel c))
        | SDel c =>
            let r := match t_re x with 0 => (t_rv x, 0) | 1 => (0, 1) | _ => (0, 2) end in
            Some (mk (aremove Nat.eqb (t_key x) (calls s)) (upd (wg s) c 0)
                     (upd (cval s) c (match t_re x with 0 => t_rv x | _ => 0 end)) (upd (cerr s) c (t_re x)) (next s)
                     (resources s) (closed s) (readers s) (writer s) (nextid s) (open s)
                     (upd (ts s) t (mkt Idle (t_key x) (t_gate x) (t_fail x) (t_rv x) (t_re x) (t_todo x) (r :: t_res x)))
                     (mkev t KRet 0 (t_key x) (fst r) (snd r) :: trace s) (cre s) (ncre s) (closedids s))
        | CLock =>
            match writer s, readers s with
            | None, 0 => go 0 (Some t) (setpc x CClose)
            | _, _ => None
            end
        | CClose =>
            (* for _, r := range m.resources { if err := r.Close(); err != nil { be.Add(err) } }; m.resources = nil:
               every resource is closed, failing ones included; the error is only collected *)
            Some (mk (calls s) (wg s) (cval s) (cerr s) (next s) [] true (readers s) (writer s) (nextid s) (open s)
                     (upd (ts s) t (setpcr x CUnlock 0 (close_err (resources s))))
                     (rev (close_events t (resources s)) ++ trace s)
                     (cre s) (ncre s) (map snd (resources s) ++ closedids s))
        | CUnlock =>
            Some (mk (calls s) (wg s) (cval s) (cerr s) (next s) (resources s) (closed s) (readers s) None (nextid s) (open s)
                     (upd (ts s) t (mkt Idle (t_key x) (t_gate x) (t_fail x) (t_rv x) (t_re x) (t_todo x) ((t_re x, 0) :: t_res x)))
                     (mkev t KRet 1 (t_re x) 0 0 :: trace s) (cre s) (ncre s) (closedids s))
        end
    end.

  Definition busy (s : state) (t : nat) : bool :=
    match t_pc (ts s t) with Idle => false | _ => true end.
End RM.

(* ============================================================== timeoutlimit.go + condition.go
   One call of TimeoutLimit.Borrow(timeout) as a function of what happens to it: the outcome of
   the first TryBorrow, then for every Cond.WaitWithTimeout either a signal after [elapsed]
   (measured by timex) or the timer firing after [waited]; each signal is followed by a TryBorrow.
   Result: Some 0 = nil, Some 1 = ErrTimeout, None = the inputs end while it is still waiting.
   [spent] accumulates the time that has passed since the call began. *)
Module TL.
  Inductive outcome := Signal (elapsed : Z) (borrow_ok : bool) | Timer (waited : Z).

  (* condition.go l.19-33: WaitWithTimeout returns (timeout - elapsed, true) or (0, false) *)
  Fixpoint loop (timeout : Z) (spent : Z) (outs : list outcome) : option (nat * Z) :=
    match outs with
    | [] => None
    | Signal e ok :: r =>
        let timeout' := (timeout - e)%Z in               (* timeoutlimit.go l.38 *)
        if ok then Some (0, (spent + e)%Z)                (* l.39-41 *)
        else if Z.leb timeout' 0 then Some (1, (spent + e)%Z)  (* l.43-45 *)
        else loop timeout' (spent + e)%Z r
    | Timer w :: _ => Some (1, (spent + w)%Z)             (* (0,false): ok = false, timeout = 0 <= 0 *)
    end.

  Definition borrow (timeout : Z) (first_ok : bool) (outs : list outcome) : option (nat * Z) :=
    if first_ok then Some (0, 0%Z) else loop timeout 0 outs.   (* l.32-34 *)

  (* time.NewTimer(d) does not fire before d has passed: every Timer outcome waited at least the
     timeout that was current when the wait began *)
  Fixpoint timers_ok (timeout : Z) (outs : list outcome) : Prop :=
    match outs with
    | [] => True
    | Signal e ok :: r => if ok then True else if Z.leb (timeout - e) 0 then True else timers_ok (timeout - e) r
    | Timer w :: _ => (timeout <= w)%Z
    end.
End TL.

(* ============================================================== barrier.go: Guard(fn) *)
Module BAR.
  (* script op: o_b = gate of fn, o_c = a value fn publishes (unused by the lock) *)
  Inductive pc := Idle | BLock | FnB | FnE | BUnlock.
  Record tstate := mkt { t_pc : pc; t_gate : nat; t_val : nat; t_todo : list op; t_res : list (nat * nat) }.
  Record state := mk { lock : option nat; open : list nat; ts : nat -> tstate; trace : list ev }.
  Definition init (scripts : nat -> list op) : state := mk None [] (fun t => mkt Idle 0 0 (scripts t) []) [].
  Definition step (l : lbl) (s : state) : option state :=
    match l with
    | Open g => Some (mk (lock s) (g :: open s) (ts s) (trace s))
    | Adv _ => None
    | Thr t =>
        let x := ts s t in
        match t_pc x with
        | Idle => match t_todo x with
                  | [] => None
                  | o :: rest => Some (mk (lock s) (open s) (upd (ts s) t (mkt BLock (o_b o) (o_c o) rest (t_res x)))
                                          (mkev t KInv 1 0 0 0 :: trace s))
                  end
        | BLock => match lock s with   (* lock.Lock() l.17 *)
                   | None => Some (mk (Some t) (open s) (upd (ts s) t (mkt FnB (t_gate x) (t_val x) (t_todo x) (t_res x))) (trace s))
                   | Some _ => None
                   end
        | FnB => Some (mk (lock s) (open s) (upd (ts s) t (mkt FnE (t_gate x) (t_val x) (t_todo x) (t_res x)))
                          (mkev t KBegin 1 0 0 0 :: trace s))   (* fn() l.19 *)
        | FnE => if gate_open (open s) (t_gate x)
                 then Some (mk (lock s) (open s) (upd (ts s) t (mkt BUnlock (t_gate x) (t_val x) (t_todo x) (t_res x)))
                               (mkev t KEnd 1 0 (t_val x) (pan_flag (t_val x)) :: trace s))
                 else None
        | BUnlock => (* deferred lock.Unlock() l.18 -- it runs whether fn returned or panicked (scripted value 0:
                        fn panics, the caller of Guard sees the panic: result (2, 0)) *)
                     Some (mk None (open s) (upd (ts s) t (mkt Idle (t_gate x) (t_val x) (t_todo x) ((S (pan_flag (t_val x)), t_val x) :: t_res x)))
                              (mkev t KRet 1 0 (t_val x) (S (pan_flag (t_val x))) :: trace s))
        end
    end.
  Definition busy (s : state) (t : nat) : bool := match t_pc (ts s t) with Idle => false | _ => true end.
  Definition inside (p : pc) : bool := match p with FnB | FnE | BUnlock => true | _ => false end.
End BAR.

(* ============================================================== refresource.go, action by action:
   r.lock.Lock(); deferred r.lock.Unlock(); test of r.cleaned; the counter update together with
   r.cleaned = true; then -- still holding the lock -- the clean callback, which may block (gate)
   or panic; the deferred Unlock runs in either case. *)
Module REFL.
  (* script op: o_code 0 = Use; otherwise Clean with o_a <> 0: the callback panics if it runs in this
     call, o_b = gate inside the callback *)
  Inductive pc :=
  | Idle
  | ULock              (* Use: r.lock.Lock()                                  l.28 *)
  | UBody              (* if r.cleaned { return ErrUseOfCleaned }; r.ref++    l.31-37 *)
  | UUnlock (r : nat)  (* deferred r.lock.Unlock(); return                    l.29 *)
  | CLock              (* Clean: r.lock.Lock()                                l.42 *)
  | CBody              (* if r.cleaned {return}; r.ref--; if r.ref == 0 { r.cleaned = true   l.45-51 *)
  | CCb                (* r.clean() running (lock held)                       l.52 *)
  | CUnlock (r : nat). (* deferred r.lock.Unlock(); return / panic propagates l.43 *)

  Record tstate := mkt { t_pc : pc; t_pan : nat; t_gate : nat; t_todo : list op; t_res : list (nat * nat) }.
  Record state := mk { lock : option nat; ref : Z; cleaned : bool;
                       ncb : nat (* ghost: starts of the callback *); nuse : nat; ncl : nat;
                       open : list nat; ts : nat -> tstate; trace : list ev }.
  Definition init (scripts : nat -> list op) : state :=
    mk None 0 false 0 0 0 [] (fun t => mkt Idle 0 0 (scripts t) []) [].

  Definition step (l : lbl) (s : state) : option state :=
    match l with
    | Open g => Some (mk (lock s) (ref s) (cleaned s) (ncb s) (nuse s) (ncl s) (g :: open s) (ts s) (trace s))
    | Adv _ => None
    | Thr t =>
        let x := ts s t in
        let setp (lk : option nat) (p : pc) :=
          Some (mk lk (ref s) (cleaned s) (ncb s) (nuse s) (ncl s) (open s)
                   (upd (ts s) t (mkt p (t_pan x) (t_gate x) (t_todo x) (t_res x))) (trace s)) in
        match t_pc x with
        | Idle =>
            match t_todo x with
            | [] => None
            | o :: rest =>
                Some (mk (lock s) (ref s) (cleaned s) (ncb s) (nuse s) (ncl s) (open s)
                         (upd (ts s) t (mkt (match o_code o with 0 => ULock | _ => CLock end) (o_a o) (o_b o) rest (t_res x)))
                         (mkev t KInv (o_code o) (o_a o) (o_b o) 0 :: trace s))
            end
        | ULock => match lock s with None => setp (Some t) UBody | Some _ => None end
        | UBody =>
            if cleaned s then setp (lock s) (UUnlock 1)
            else Some (mk (lock s) (ref s + 1) false (ncb s) (S (nuse s)) (ncl s) (open s)
                          (upd (ts s) t (mkt (UUnlock 0) (t_pan x) (t_gate x) (t_todo x) (t_res x))) (trace s))
        | UUnlock r =>
            Some (mk None (ref s) (cleaned s) (ncb s) (nuse s) (ncl s) (open s)
                     (upd (ts s) t (mkt Idle (t_pan x) (t_gate x) (t_todo x) ((r, 0) :: t_res x)))
                     (mkev t KRet 0 r 0 0 :: trace s))
        | CLock => match lock s with None => setp (Some t) CBody | Some _ => None end
        | CBody =>
            if cleaned s then setp (lock s) (CUnlock 0)
            else if Z.eqb (ref s - 1) 0 then
              Some (mk (lock s) 0 true (S (ncb s)) (nuse s) (S (ncl s)) (open s)
                       (upd (ts s) t (mkt CCb (t_pan x) (t_gate x) (t_todo x) (t_res x)))
                       (mkev t KBegin 1 0 0 0 :: trace s))
            else Some (mk (lock s) (ref s - 1) false (ncb s) (nuse s) (S (ncl s)) (open s)
                          (upd (ts s) t (mkt (CUnlock 0) (t_pan x) (t_gate x) (t_todo x) (t_res x))) (trace s))
        | CCb =>
            if gate_open (open s) (t_gate x) then
              Some (mk (lock s) (ref s) (cleaned s) (ncb s) (nuse s) (ncl s) (open s)
                       (upd (ts s) t (mkt (CUnlock (if Nat.eqb (t_pan x) 0 then 1 else 2)) (t_pan x) (t_gate x) (t_todo x) (t_res x)))
                       (mkev t KEnd 1 0 0 (if Nat.eqb (t_pan x) 0 then 0 else 1) :: trace s))
            else None
        | CUnlock r =>
            Some (mk None (ref s) (cleaned s) (ncb s) (nuse s) (ncl s) (open s)
                     (upd (ts s) t (mkt Idle (t_pan x) (t_gate x) (t_todo x) ((r, 0) :: t_res x)))
                     (mkev t KRet 1 r 0 0 :: trace s))
        end
    end.

  Definition busy (s : state) (t : nat) : bool := match t_pc (ts s t) with Idle => false | _ => true end.
  Definition holds (p : pc) : bool :=
    match p with UBody | UUnlock _ | CBody | CCb | CUnlock _ => true | _ => false end.
End REFL.

(* ============================================================== managedresource.go
   mr.lock is a readers/writer lock.  The user's `equal` callback runs under the write lock and may
   block (gate); `generate` runs under the write lock.  Resources are numbered by generate: the
   k-th call returns k (0 = nil); equal compares numbers (equal(nil, r) = false). *)
Module MR.
  (* script op: o_code 0 = Take; otherwise MarkBroken(o_a) with o_b = gate inside the equal callback *)
  Inductive pc :=
  | Idle
  | TRLock              (* Take: mr.lock.RLock()                                    l.33 *)
  | TRead               (* resource := mr.resource                                  l.34 *)
  | TRUnlock (r : nat)  (* mr.lock.RUnlock(); if resource != nil { return resource } l.35-39 *)
  | TWLock              (* mr.lock.Lock()                                           l.41 *)
  | TGen                (* if mr.resource == nil { mr.resource = mr.generate() }    l.44-46 *)
  | TWUnlock (r : nat)  (* deferred Unlock; return mr.resource                      l.42,47 *)
  | MLock               (* MarkBroken: mr.lock.Lock()                               l.23 *)
  | MEq                 (* mr.equal(mr.resource, resource) running (write lock held) l.26 *)
  | MSet (eq : bool)    (* if equal { mr.resource = nil }                           l.26-28 *)
  | MUnlock.            (* deferred Unlock                                          l.24 *)

  Record tstate := mkt { t_pc : pc; t_arg : nat; t_gate : nat; t_todo : list op; t_res : list (nat * nat) }.
  Record state := mk { cur : nat; ngen : nat; readers : nat; writer : option nat;
                       open : list nat; ts : nat -> tstate; trace : list ev }.
  Definition init (scripts : nat -> list op) : state :=
    mk 0 0 0 None [] (fun t => mkt Idle 0 0 (scripts t) []) [].

  Definition step (l : lbl) (s : state) : option state :=
    match l with
    | Open g => Some (mk (cur s) (ngen s) (readers s) (writer s) (g :: open s) (ts s) (trace s))
    | Adv _ => None
    | Thr t =>
        let x := ts s t in
        let setp (rd : nat) (wr : option nat) (p : pc) :=
          Some (mk (cur s) (ngen s) rd wr (open s) (upd (ts s) t (mkt p (t_arg x) (t_gate x) (t_todo x) (t_res x))) (trace s)) in
        let ret (wr : option nat) (code r : nat) :=
          Some (mk (cur s) (ngen s) (readers s) wr (open s)
                   (upd (ts s) t (mkt Idle (t_arg x) (t_gate x) (t_todo x) ((r, 0) :: t_res x)))
                   (mkev t KRet code r 0 0 :: trace s)) in
        match t_pc x with
        | Idle =>
            match t_todo x with
            | [] => None
            | o :: rest =>
                Some (mk (cur s) (ngen s) (readers s) (writer s) (open s)
                         (upd (ts s) t (mkt (match o_code o with 0 => TRLock | _ => MLock end) (o_a o) (o_b o) rest (t_res x)))
                         (mkev t KInv (o_code o) (o_a o) (o_b o) 0 :: trace s))
            end
        | TRLock => match writer s with None => setp (S (readers s)) None TRead | Some _ => None end
        | TRead => setp (readers s) (writer s) (TRUnlock (cur s))
        | TRUnlock r =>
            match r with
            | 0 => setp (readers s - 1) (writer s) TWLock
            | _ => Some (mk (cur s) (ngen s) (readers s - 1) (writer s) (open s)
                            (upd (ts s) t (mkt Idle (t_arg x) (t_gate x) (t_todo x) ((r, 0) :: t_res x)))
                            (mkev t KRet 0 r 0 0 :: trace s))
            end
        | TWLock => match writer s, readers s with None, 0 => setp 0 (Some t) TGen | _, _ => None end
        | TGen =>
            match cur s with
            | 0 => Some (mk (S (ngen s)) (S (ngen s)) (readers s) (writer s) (open s)
                            (upd (ts s) t (mkt (TWUnlock (S (ngen s))) (t_arg x) (t_gate x) (t_todo x) (t_res x)))
                            (mkev t KBegin 2 (S (ngen s)) 0 0 :: trace s))
            | r => setp (readers s) (writer s) (TWUnlock r)
            end
        | TWUnlock r => ret None 0 r
        | MLock => match writer s, readers s with None, 0 => setp 0 (Some t) MEq | _, _ => None end
        | MEq =>
            if gate_open (open s) (t_gate x)
            then setp (readers s) (writer s) (MSet (negb (Nat.eqb (cur s) 0) && Nat.eqb (cur s) (t_arg x)))
            else None
        | MSet eq =>
            Some (mk (if eq then 0 else cur s) (ngen s) (readers s) (writer s) (open s)
                     (upd (ts s) t (mkt MUnlock (t_arg x) (t_gate x) (t_todo x) (t_res x))) (trace s))
        | MUnlock => ret None 1 0
        end
    end.

  Definition busy (s : state) (t : nat) : bool := match t_pc (ts s t) with Idle => false | _ => true end.
  Definition wholds (p : pc) : bool :=
    match p with TGen | TWUnlock _ | MEq | MSet _ | MUnlock => true | _ => false end.

  (* the sequential specification: state = (current resource, number of generate calls) *)
  Definition sstep (s : nat * nat) (_ : nat) (o : op) : option ((nat * nat) * nat) :=
    let (c, n) := s in
    match o_code o with
    | 0 => match c with 0 => Some ((S n, S n), S n) | r => Some ((r, n), r) end
    | _ => if negb (Nat.eqb c 0) && Nat.eqb c (o_a o) then Some ((0, n), 0) else Some ((c, n), 0)
    end.
End MR.

(* ============================================================== immutableresource.go
   Get: read under RLock; if nil: maybeRefresh (timex.Now, lastTime.Load, compare with the refresh
   interval, lastTime.Set, fetch, store under Lock); read again under RLock.  Each lock-protected
   region is one step; Load and Set of lastTime are separate steps (they are not atomic together). *)
Module IR.
  (* script op: Get with o_a = the value the user fetch returns if this Get calls it (0 = nil; it may be
     non-nil although the fetch fails), o_b = gate inside fetch, o_c <> 0: fetch returns an error *)
  Inductive pc :=
  | Idle
  | IRead1                  (* RLock; resource := ir.resource; RUnlock                    l.38-43 *)
  | ILoad                   (* now := timex.Now(); lastTime := ir.lastTime.Load()         l.64-65 *)
  | IDecide (l n : nat)     (* if lastTime == 0 || lastTime+interval < now { Set(now) ... l.66-67 *)
  | IFetchB                 (* fetch starts                                               l.47 *)
  | IFetchE                 (* fetch returns                                              l.47 *)
  | IStore                  (* Lock; if err != nil { ir.err = err } else { ir.resource, ir.err = res, nil }; Unlock  l.48-54 *)
  | IRead2.                 (* RLock; resource, err := ir.resource, ir.err; RUnlock; return l.57-60 *)

  Record tstate := mkt { t_pc : pc; t_val : nat; t_gate : nat; t_fail : nat; t_todo : list op; t_res : list (nat * nat) }.
  Record state := mk { res : nat; err : nat; last : nat; now : nat; open : list nat; ts : nat -> tstate; trace : list ev;
                       goods : list nat (* ghost: values returned by successful fetches *) }.
  Definition init (scripts : nat -> list op) : state :=
    mk 0 0 0 1 [] (fun t => mkt Idle 0 0 0 (scripts t) []) [] [].

  Definition step (interval : nat) (l : lbl) (s : state) : option state :=
    match l with
    | Open g => Some (mk (res s) (err s) (last s) (now s) (g :: open s) (ts s) (trace s) (goods s))
    | Adv d => Some (mk (res s) (err s) (last s) (now s + d) (open s) (ts s) (trace s) (goods s))
    | Thr t =>
        let x := ts s t in
        let setp (p : pc) :=
          Some (mk (res s) (err s) (last s) (now s) (open s)
                   (upd (ts s) t (mkt p (t_val x) (t_gate x) (t_fail x) (t_todo x) (t_res x))) (trace s) (goods s)) in
        let ret (r e : nat) :=
          Some (mk (res s) (err s) (last s) (now s) (open s)
                   (upd (ts s) t (mkt Idle (t_val x) (t_gate x) (t_fail x) (t_todo x) ((r, e) :: t_res x)))
                   (mkev t KRet 0 r e 0 :: trace s) (goods s)) in
        match t_pc x with
        | Idle =>
            match t_todo x with
            | [] => None
            | o :: rest =>
                Some (mk (res s) (err s) (last s) (now s) (open s)
                         (upd (ts s) t (mkt IRead1 (o_a o) (o_b o) (o_c o) rest (t_res x)))
                         (mkev t KInv 0 (o_a o) (now s) (o_c o) :: trace s) (goods s))
            end
        | IRead1 => match res s with 0 => setp ILoad | r => ret r 0 end
        | ILoad => setp (IDecide (last s) (now s))
        | IDecide l n =>
            if Nat.eqb l 0 || Nat.ltb (l + interval) n
            then Some (mk (res s) (err s) n (now s) (open s)
                          (upd (ts s) t (mkt IFetchB (t_val x) (t_gate x) (t_fail x) (t_todo x) (t_res x))) (trace s) (goods s))
            else setp IRead2
        | IFetchB =>
            Some (mk (res s) (err s) (last s) (now s) (open s)
                     (upd (ts s) t (mkt IFetchE (t_val x) (t_gate x) (t_fail x) (t_todo x) (t_res x)))
                     (mkev t KBegin 0 0 (now s) 0 :: trace s) (goods s))
        | IFetchE =>
            if gate_open (open s) (t_gate x) then
              Some (mk (res s) (err s) (last s) (now s) (open s)
                       (upd (ts s) t (mkt IStore (t_val x) (t_gate x) (t_fail x) (t_todo x) (t_res x)))
                       (mkev t KEnd 0 (t_val x) (now s) (if Nat.eqb (t_fail x) 0 then 0 else 1) :: trace s)
                       (if Nat.eqb (t_fail x) 0 then t_val x :: goods s else goods s))
            else None
        | IStore =>
            if Nat.eqb (t_fail x) 0
            then Some (mk (t_val x) 0 (last s) (now s) (open s)
                          (upd (ts s) t (mkt IRead2 (t_val x) (t_gate x) (t_fail x) (t_todo x) (t_res x))) (trace s) (goods s))
            else Some (mk (res s) 1 (last s) (now s) (open s)
                          (upd (ts s) t (mkt IRead2 (t_val x) (t_gate x) (t_fail x) (t_todo x) (t_res x))) (trace s) (goods s))
        | IRead2 => ret (res s) (err s)
        end
    end.

  Definition busy (s : state) (t : nat) : bool := match t_pc (ts s t) with Idle => false | _ => true end.
End IR.

(* ============================================================== spinlock.go, the contended path step by step
   Lock() = for !TryLock() { Gosched() }: every attempt and every yield is a step, so any number of
   goroutines can be spinning when the holder unlocks.  [cas = true] is the code: TryLock is ONE
   atomic compare-and-swap.  [cas = false] is the tempting wrong variant "load, see 0, then store 1"
   (two steps): Props refutes mutual exclusion for it with a computed schedule. *)
Module SPINL.
  (* script op: o_code 0 = Lock, 1 = TryLock, otherwise Unlock *)
  Inductive pc :=
  | Idle
  | LTry                 (* Lock: the next TryLock attempt                       l.15 *)
  | LYield               (* runtime.Gosched()                                   l.17 *)
  | TTry                 (* TryLock: CompareAndSwapUint32(&l.lock, 0, 1)        l.23 *)
  | Obs (lk seen : bool) (* cas = false only: the value was loaded (seen), the store / return is still to come;
                            lk = the attempt belongs to Lock *)
  | UGo.                 (* Unlock: SwapUint32(&l.lock, 0)                      l.28 *)
  Record tstate := mkt { t_pc : pc; t_todo : list op; t_res : list (nat * nat) }.
  Record state := mk { lockw : bool; cs : list nat (* ghost: acquired and not released *);
                       misuse : bool (* ghost: Unlock by a non-holder *); ts : nat -> tstate; trace : list ev }.
  Definition init (scripts : nat -> list op) : state := mk false [] false (fun t => mkt Idle (scripts t) []) [].

  Definition step (cas : bool) (l : lbl) (s : state) : option state :=
    match l with
    | Thr t =>
        let x := ts s t in
        let setp (p : pc) := Some (mk (lockw s) (cs s) (misuse s) (upd (ts s) t (mkt p (t_todo x) (t_res x))) (trace s)) in
        let acquire (code : nat) :=
          Some (mk true (t :: cs s) (misuse s) (upd (ts s) t (mkt Idle (t_todo x) ((1, 0) :: t_res x)))
                   (mkev t KRet code 1 0 0 :: trace s)) in
        let fail_try :=
          Some (mk (lockw s) (cs s) (misuse s) (upd (ts s) t (mkt Idle (t_todo x) ((0, 0) :: t_res x)))
                   (mkev t KRet 1 0 0 0 :: trace s)) in
        match t_pc x with
        | Idle =>
            match t_todo x with
            | [] => None
            | o :: rest =>
                Some (mk (lockw s) (cs s) (misuse s)
                         (upd (ts s) t (mkt (match o_code o with 0 => LTry | 1 => TTry | _ => UGo end) rest (t_res x)))
                         (mkev t KInv (o_code o) 0 0 0 :: trace s))
            end
        | LTry => if cas then (if lockw s then setp LYield else acquire 0) else setp (Obs true (lockw s))
        | LYield => setp LTry
        | TTry => if cas then (if lockw s then fail_try else acquire 1) else setp (Obs false (lockw s))
        | Obs lk seen =>
            if seen then (if lk then setp LYield else fail_try)
            else acquire (if lk then 0 else 1)       (* the store of 1, whatever the lock word is by now *)
        | UGo =>
            Some (mk false (filter (fun u => negb (Nat.eqb u t)) (cs s))
                     (misuse s || negb (existsb (Nat.eqb t) (cs s)))
                     (upd (ts s) t (mkt Idle (t_todo x) ((0, 0) :: t_res x)))
                     (mkev t KRet 2 0 0 0 :: trace s))
        end
    | _ => None
    end.
End SPINL.

(* ============================================================== donechan.go, Close step by step
   Close() = dc.once.Do(func() { close(dc.done) }).  sync.Once.Do: fast path: if done flag set,
   return; else lock its mutex, if the flag is still clear run f and then set the flag, unlock.
   So a caller that loses the race WAITS (on the mutex) until the winner has closed the channel.
   [waits = false] is the tempting wrong variant "CAS a flag, the winner closes" in which a loser
   returns at once: Props refutes "Done() is closed once any Close has returned" for it. *)
Module DONEL.
  (* script op: o_code 0 = Close, otherwise a poll of <-dc.Done() *)
  Inductive pc :=
  | Idle
  | OFast                (* once.Do: if o.done.Load() == 0 -> slow path          *)
  | OLock                (* o.m.Lock()                                          *)
  | OBody                (* if o.done.Load() == 0 { f() = close(dc.done); o.done.Store(1) } *)
  | OUnlock              (* o.m.Unlock(); Close returns                         *)
  | WCas                 (* waits = false: CompareAndSwap(&flag, 0, 1)          *)
  | WClose               (* waits = false, winner: close(dc.done)               *)
  | PGo.                 (* poll                                                *)
  Record tstate := mkt { t_pc : pc; t_todo : list op; t_res : list (nat * nat) }.
  Record state := mk { closed : bool; ncloses : nat; flag : bool; mu : option nat;
                       returned : bool (* ghost: some Close call has returned *);
                       early : bool (* ghost: a Close returned while the channel was still open *);
                       ts : nat -> tstate; trace : list ev }.
  Definition init (scripts : nat -> list op) : state := mk false 0 false None false false (fun t => mkt Idle (scripts t) []) [].

  Definition step (waits : bool) (l : lbl) (s : state) : option state :=
    match l with
    | Thr t =>
        let x := ts s t in
        let setp (m : option nat) (p : pc) :=
          Some (mk (closed s) (ncloses s) (flag s) m (returned s) (early s) (upd (ts s) t (mkt p (t_todo x) (t_res x))) (trace s)) in
        let ret (m : option nat) :=   (* Close returns *)
          Some (mk (closed s) (ncloses s) (flag s) m true (early s || negb (closed s))
                   (upd (ts s) t (mkt Idle (t_todo x) ((0, 0) :: t_res x))) (mkev t KRet 0 0 0 0 :: trace s)) in
        match t_pc x with
        | Idle =>
            match t_todo x with
            | [] => None
            | o :: rest =>
                Some (mk (closed s) (ncloses s) (flag s) (mu s) (returned s) (early s)
                         (upd (ts s) t (mkt (match o_code o with 0 => if waits then OFast else WCas | _ => PGo end) rest (t_res x)))
                         (mkev t KInv (o_code o) 0 0 0 :: trace s))
            end
        | OFast => if flag s then ret (mu s) else setp (mu s) OLock
        | OLock => match mu s with None => setp (Some t) OBody | Some _ => None end
        | OBody =>
            if flag s then setp (mu s) OUnlock
            else Some (mk true (if closed s then ncloses s else S (ncloses s)) true (mu s) (returned s) (early s)
                          (upd (ts s) t (mkt OUnlock (t_todo x) (t_res x))) (trace s))
        | OUnlock => ret None
        | WCas => if flag s then ret (mu s)
                  else Some (mk (closed s) (ncloses s) true (mu s) (returned s) (early s)
                                (upd (ts s) t (mkt WClose (t_todo x) (t_res x))) (trace s))
        | WClose => Some (mk true (S (ncloses s)) (flag s) (mu s) (returned s) (early s)
                             (upd (ts s) t (mkt OUnlock (t_todo x) (t_res x))) (trace s))
        | PGo => Some (mk (closed s) (ncloses s) (flag s) (mu s) (returned s) (early s)
                          (upd (ts s) t (mkt Idle (t_todo x) ((if closed s then 1 else 0, 0) :: t_res x)))
                          (mkev t KRet 1 (if closed s then 1 else 0) 0 0 :: trace s))
        end
    | _ => None
    end.
End DONEL.

(* ============================================================== onceguard.go over long histories
   The code keeps a FLAG (CompareAndSwapUint32(&done, 0, 1)); [wrap = 0] models it.  [wrap = S w]
   is the tempting variant "count the calls, the first one wins" (AddUint32(&done, 1) == 1) with a
   counter that wraps after S w calls (2^32 for a uint32; any modulus shows the point). *)
Module ONCEC.
  Definition take (wrap : nat) (c : nat) : nat * bool :=
    match wrap with
    | 0 => (1, Nat.eqb c 0)                           (* CAS(0,1): succeeds iff the flag is clear; the flag ends up set *)
    | S w => let c' := Nat.modulo (S c) (S w) in (c', Nat.eqb c' 1)
    end.
  Fixpoint takes (wrap : nat) (c : nat) (n : nat) : list bool :=
    match n with O => [] | S k => let (c', b) := take wrap c in b :: takes wrap c' k end.
End ONCEC.
