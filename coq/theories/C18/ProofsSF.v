(* C18 ProofsSF: singleflight.go -- every trace of the model, for every schedule and any number
   of threads, is accepted by the SingleFlight contract monitor (Spec.sf_mon_step). *)
From God Require Import Base.Prelude C18.Conc C18.Spec C18.Model.
Import SF.

Lemma alookup_aremove_eq {V} k (m : list (nat * V)) : alookup Nat.eqb k (aremove Nat.eqb k m) = None.
Proof.
  induction m as [|[k' v] r IH]; simpl; [reflexivity|].
  destruct (Nat.eqb k k') eqn:E; [assumption|]. simpl. now rewrite E.
Qed.

Lemma alookup_aremove_neq {V} k k' (m : list (nat * V)) :
  k' <> k -> alookup Nat.eqb k' (aremove Nat.eqb k m) = alookup Nat.eqb k' m.
Proof.
  intro H. induction m as [|[k2 v] r IH]; simpl; [reflexivity|].
  destruct (Nat.eqb k k2) eqn:E.
  - apply Nat.eqb_eq in E; subst k2. assert (Nat.eqb k' k = false) as -> by now apply Nat.eqb_neq. assumption.
  - simpl. destruct (Nat.eqb k' k2); auto.
Qed.

Lemma alookup_aset_eq {V} k (v : V) m : alookup Nat.eqb k (aset Nat.eqb k v m) = Some v.
Proof. unfold aset. simpl. now rewrite Nat.eqb_refl. Qed.

Lemma alookup_aset_neq {V} k k' (v : V) m :
  k' <> k -> alookup Nat.eqb k' (aset Nat.eqb k v m) = alookup Nat.eqb k' m.
Proof.
  intro H. unfold aset. simpl. assert (Nat.eqb k' k = false) as -> by now apply Nat.eqb_neq.
  now apply alookup_aremove_neq.
Qed.

(* ---- classification of program counters ---- *)
Definition holds (p : pc) : bool :=
  match p with CLook | CHitUnlock _ | CPut | CMissUnlock _ | DDel _ | DUnlock _ => true | _ => false end.
Definition inmap_of (p : pc) : option nat :=
  match p with CMissUnlock c | FnB c | FnE c | DLock c | DDel c => Some c | _ => None end.
Definition own_of (p : pc) : option nat :=
  match p with CMissUnlock c | FnB c | FnE c | DLock c | DDel c | DUnlock c | DDone c => Some c | _ => None end.
Definition wait_of (p : pc) : option nat :=
  match p with CHitUnlock c | CWait c => Some c | _ => None end.
Definition phase (p : pc) : option nat :=
  match p with
  | Idle => None
  | FnE _ => Some 1
  | DLock _ | DDel _ | DUnlock _ | DDone _ => Some 2
  | _ => Some 0
  end.

Record I (s : state) : Prop := mkI {
  i_lock1 : forall t, holds (t_pc (ts s t)) = true -> lock s = Some t;
  i_lock2 : forall t, lock s = Some t -> holds (t_pc (ts s t)) = true;
  i_map : forall k c, alookup Nat.eqb k (calls s) = Some c ->
                      inmap_of (t_pc (ts s (cre s c))) = Some c /\ t_key (ts s (cre s c)) = k;
  i_map' : forall t c, inmap_of (t_pc (ts s t)) = Some c -> alookup Nat.eqb (t_key (ts s t)) (calls s) = Some c;
  i_put : forall t, t_pc (ts s t) = CPut -> alookup Nat.eqb (t_key (ts s t)) (calls s) = None;
  i_own : forall t c, own_of (t_pc (ts s t)) = Some c ->
                      cre s c = t /\ c < next s /\ wg s c = 1 /\ ckey s c = t_key (ts s t);
  i_wait : forall t c, wait_of (t_pc (ts s t)) = Some c ->
                       c < next s /\ cre s c <> t /\ ckey s c = t_key (ts s t) /\
                       (wg s c = 0 \/ own_of (t_pc (ts s (cre s c))) = Some c);
  i_pan : panicked s = false
}.

(* the monitor's view of the execution state: a finished execution whose scripted value is 0 panicked *)
Definition cuex (ph v : nat) : nat := if Nat.eqb ph 2 && Nat.eqb v 0 then 3 else ph.

Arguments cuex : simpl never.
Arguments pan_flag : simpl never.

Lemma end_ex_pan v : end_ex (pan_flag v) = cuex 2 v.
Proof. unfold end_ex, pan_flag, cuex. destruct (Nat.eqb v 0); reflexivity. Qed.
Lemma end_val_pan v : end_val (pan_flag v) v = v.
Proof. unfold end_val, pan_flag. destruct (Nat.eqb v 0) eqn:E; simpl; [apply Nat.eqb_eq in E; auto|reflexivity]. Qed.
Lemma cuex_ret v : Nat.eqb (cuex 2 v) (S (S (pan_flag v))) = true /\ Nat.leb (S (pan_flag v)) 2 = true.
Proof. unfold cuex, pan_flag. destruct (Nat.eqb v 0); split; reflexivity. Qed.

Record R (m : sf_mon) (s : state) : Prop := mkR {
  r_cur : forall t, match phase (t_pc (ts s t)) with
                    | None => m_cur m t = None
                    | Some ph => exists i, i < m_now m /\
                        m_cur m t = Some (mkcur (t_key (ts s t)) i (cuex ph (t_val (ts s t))) (if Nat.eqb ph 2 then t_val (ts s t) else 0))
                    end;
  r_ex : forall t c, own_of (t_pc (ts s t)) = Some c -> phase (t_pc (ts s t)) = Some 2 ->
                     cval s c = t_val (ts s t) /\ In (mkexec (t_val (ts s t)) (t_key (ts s t)) t None) (m_exs m);
  r_wait : forall t c, wait_of (t_pc (ts s t)) = Some c -> wg s c = 0 ->
                       exists x, In x (m_exs m) /\ x_val x = cval s c /\ x_key x = t_key (ts s t) /\ x_t x = cre s c /\
                                 (forall r cu, x_ret x = Some r -> m_cur m t = Some cu -> cu_inv cu < r)
}.

Definition Inv (s : state) : Prop :=
  I s /\ exists m, mon_run sf_mon_step sf_mon0 (rev (trace s)) = Some m /\ R m s.

Lemma init_inv scripts : Inv (init scripts).
Proof.
  split.
  - constructor; simpl; intros; try discriminate; auto.
  - exists sf_mon0. split; [reflexivity|]. constructor; simpl; intros; try discriminate; auto.
Qed.

Ltac inv_step H := injection H as <-.

Ltac case_t u t :=
  let E := fresh "E" in
  destruct (Nat.eq_dec u t) as [E|E];
  [ try rewrite !E in *; rewrite ?upd_same in * | rewrite ?(upd_other _ _ _ _ E) in * ].

(* ---- the model invariant is preserved by every step ---- *)
Lemma I_pcstep s s' t :
  I s ->
  calls s' = calls s -> wg s' = wg s -> next s' = next s -> cre s' = cre s -> ckey s' = ckey s ->
  panicked s' = panicked s ->
  (forall u, u <> t -> ts s' u = ts s u) ->
  let p := t_pc (ts s t) in let p' := t_pc (ts s' t) in
  (t_key (ts s' t) = t_key (ts s t) \/ (own_of p' = None /\ wait_of p' = None /\ p' <> CPut)) ->
  inmap_of p' = inmap_of p ->
  own_of p' = own_of p ->
  (forall c, wait_of p' = Some c -> wait_of p = Some c \/
             (alookup Nat.eqb (t_key (ts s t)) (calls s) = Some c /\ holds p = true /\ own_of p = None)) ->
  (p' = CPut -> p = CPut \/ alookup Nat.eqb (t_key (ts s t)) (calls s) = None) ->
  ((holds p' = true /\ lock s' = Some t /\ (lock s = None \/ lock s = Some t)) \/
   (holds p' = false /\ ((holds p = true /\ lock s' = None) \/ (holds p = false /\ lock s' = lock s)))) ->
  I s'.
Proof.
  intros [L1 L2 M M' P O W Pn] Ec Ew En Ecr Eck Ep Ets p p' Hkey Him Hown Hwait Hput Hlock.
  assert (Hk : forall u, u <> t -> True) by auto.
  constructor; rewrite ?Ec, ?Ew, ?En, ?Ecr, ?Eck, ?Ep; auto.
  - (* lock1 *) intros u Hu. destruct (Nat.eq_dec u t) as [->|Hne].
    + fold p' in Hu. destruct Hlock as [(A & B & C)|(A & _)]; [congruence|congruence].
    + rewrite (Ets _ Hne) in Hu. pose proof (L1 _ Hu) as L1u.
      destruct Hlock as [(A & B & [C|C])|(A & [(B & C)|(B & C)])]; try congruence.
      pose proof (L1 t B). congruence.
  - (* lock2 *) intros u Hu. destruct (Nat.eq_dec u t) as [->|Hne].
    + fold p'. destruct Hlock as [(A & B & C)|(A & [(B & C)|(B & C)])]; try congruence.
      rewrite C in Hu. specialize (L2 _ Hu). fold p in L2. congruence.
    + rewrite (Ets _ Hne). apply L2.
      destruct Hlock as [(A & B & C)|(A & [(B & C)|(B & C)])]; try congruence.
  - (* map *) intros k c Hk'. destruct (M _ _ Hk') as [A B].
    destruct (Nat.eq_dec (cre s c) t) as [E|Hne].
    + rewrite E in *. fold p in A. fold p'. rewrite Him. split; [assumption|].
      destruct Hkey as [Hkey|(H1 & _)]; [congruence|]. 
      assert (own_of p' = Some c) by (rewrite Hown; destruct p; simpl in *; congruence). congruence.
    + rewrite (Ets _ Hne). auto.
  - (* map' *) intros u c. destruct (Nat.eq_dec u t) as [->|Hne].
    + fold p'. rewrite Him. intro A. specialize (M' t c A).
      destruct Hkey as [Hkey|(H1 & _)]; [congruence|].
      assert (own_of p' = Some c) by (rewrite Hown; destruct p; simpl in *; congruence). congruence.
    + rewrite (Ets _ Hne). auto.
  - (* put *) intros u. destruct (Nat.eq_dec u t) as [->|Hne].
    + fold p'. intro A. destruct Hkey as [Hkey|(_ & _ & H3)]; [|congruence]. rewrite Hkey.
      destruct (Hput A) as [B|B]; auto.
    + rewrite (Ets _ Hne). auto.
  - (* own *) intros u c. destruct (Nat.eq_dec u t) as [->|Hne].
    + fold p'. intro A. destruct Hkey as [Hkey|(H1 & _)]; [|congruence]. rewrite Hkey. apply O. fold p. congruence.
    + rewrite (Ets _ Hne). auto.
  - (* wait *) intros u c. destruct (Nat.eq_dec u t) as [->|Hne].
    + fold p'. intro A. destruct Hkey as [Hkey|(_ & H2 & _)]; [|congruence]. rewrite Hkey.
      destruct (Hwait _ A) as [B|(B & C & D)].
      * destruct (W t c B) as (W1 & W2 & W3 & W4). repeat split; auto.
        destruct W4 as [W4|W4]; auto. right. rewrite (Ets _ W2). assumption.
      * destruct (M _ _ B) as [M1 M2].
        assert (Ho : own_of (t_pc (ts s (cre s c))) = Some c) by (destruct (t_pc (ts s (cre s c))); simpl in *; congruence).
        destruct (O _ _ Ho) as (O1 & O2 & O3 & O4).
        assert (cre s c <> t) by (intro E; rewrite E in Ho; fold p in Ho; congruence).
        repeat split; auto; try congruence. right. rewrite (Ets _ H). assumption.
    + rewrite (Ets _ Hne). intro A. destruct (W u c A) as (W1 & W2 & W3 & W4). repeat split; auto.
      destruct W4 as [W4|W4]; auto. right.
      destruct (Nat.eq_dec (cre s c) t) as [E|Hne2]; [|rewrite (Ets _ Hne2); assumption].
      rewrite E in *. fold p in W4. fold p'. congruence.
Qed.

Ltac pcstep HI t Hpc :=
  eapply (I_pcstep _ _ t HI); cbn [lock calls wg cval next open ts trace panicked cre ckey];
  try reflexivity; [ intros ? ?; apply upd_other; assumption | rewrite ?upd_same, ?Hpc; simpl .. ].


Ltac sp := cbn [setpc t_pc t_key t_val t_gate t_todo t_res inmap_of own_of wait_of holds phase].

Ltac fin HI t Hpc :=
  try solve [ auto | right; repeat split; congruence | intros; discriminate | right; auto
            | left; repeat split; auto
            | (let L := fresh "L" in pose proof (i_lock1 _ HI t) as L; rewrite Hpc in L; simpl in L; specialize (L eq_refl);
               first [left; repeat split; auto | right; split; [reflexivity|]; left; auto ])
            | right; split; [reflexivity|]; right; auto
            | (let c := fresh "c" in let Hc := fresh "Hc" in intros c Hc; injection Hc as <-; first [left; reflexivity | right; repeat split; auto]) ].

Lemma step_I l s s' : I s -> step l s = Some s' -> I s'.
Proof.
  intros HI Hs. destruct l as [t|g|d]; [| inv_step Hs; destruct HI; constructor; simpl; auto | discriminate].
  unfold step in Hs.
  destruct (t_pc (ts s t)) eqn:Hpc.
  - (* Idle *) destruct (t_todo (ts s t)) as [|o rest]; [discriminate|]. inv_step Hs.
    pcstep HI t Hpc; fin HI t Hpc.
  - (* CLock *) destruct (lock s) eqn:Hl; [discriminate|]. inv_step Hs.
    pcstep HI t Hpc; fin HI t Hpc.
  - (* CLook *) destruct (alookup Nat.eqb (t_key (ts s t)) (calls s)) eqn:Hlk; inv_step Hs.
    + pcstep HI t Hpc; fin HI t Hpc.
    + pcstep HI t Hpc; fin HI t Hpc.
  - (* CHitUnlock *) inv_step Hs. pcstep HI t Hpc; fin HI t Hpc.
  - (* CWait *) destruct (Nat.eqb (wg s c) 0); [|discriminate]. inv_step Hs. pcstep HI t Hpc; fin HI t Hpc.
  - (* CPut *) inv_step Hs.
    pose proof HI as [L1 L2 M M' P O W Pn].
    assert (Hlt : lock s = Some t) by (apply L1; rewrite Hpc; reflexivity).
    assert (HP : alookup Nat.eqb (t_key (ts s t)) (calls s) = None) by (apply P; assumption).
    assert (Hmapc : forall k c, alookup Nat.eqb k (calls s) = Some c -> c < next s /\ cre s c <> t).
    { intros k c Hk. destruct (M _ _ Hk) as [A B].
      assert (Ho : own_of (t_pc (ts s (cre s c))) = Some c) by (destruct (t_pc (ts s (cre s c))); simpl in *; congruence).
      destruct (O _ _ Ho) as (O1 & O2 & _). split; [assumption|]. intro E. rewrite E, Hpc in A. discriminate. }
    constructor; cbn [lock calls wg cval next open ts trace panicked cre ckey]; auto.
    + intros u. case_t u t; sp; auto.
    + intros u Hu. specialize (L2 _ Hu). case_t u t; sp; auto.
    + intros k c. destruct (Nat.eq_dec k (t_key (ts s t))) as [->|Hk].
      * rewrite alookup_aset_eq. intro E'; injection E' as <-. rewrite !upd_same. sp. auto.
      * rewrite alookup_aset_neq by assumption. intro Hk'. destruct (Hmapc _ _ Hk') as [A B].
        rewrite (upd_other (cre s)) by lia. rewrite upd_other by assumption. apply M; assumption.
    + intros u c. case_t u t; sp.
      * intro E'; injection E' as <-. apply alookup_aset_eq.
      * intro A. specialize (M' _ _ A). rewrite alookup_aset_neq; [assumption|]. intro E'. rewrite E' in M'. congruence.
    + intros u. case_t u t; sp; [discriminate|]. intro A. assert (lock s = Some u) by (apply L1; rewrite A; reflexivity). congruence.
    + intros u c. case_t u t; sp.
      * intro E'; injection E' as <-. rewrite !upd_same. auto.
      * intro A. destruct (O _ _ A) as (O1 & O2 & O3 & O4). rewrite !upd_other by lia. auto.
    + intros u c. case_t u t; sp; [discriminate|]. intro A. destruct (W _ _ A) as (W1 & W2 & W3 & W4).
      rewrite !(upd_other _ (next s)) by lia. repeat split; auto.
      destruct W4 as [W4|W4]; auto. right. case_t (cre s c) t; [rewrite Hpc in W4; discriminate|assumption].
  - (* CMissUnlock *) inv_step Hs. pcstep HI t Hpc; fin HI t Hpc.
  - (* FnB *) inv_step Hs. pcstep HI t Hpc; fin HI t Hpc.
  - (* FnE *) destruct (gate_open (open s) (t_gate (ts s t))); [|discriminate]. inv_step Hs. pcstep HI t Hpc; fin HI t Hpc.
  - (* DLock *) destruct (lock s) eqn:Hl; [discriminate|]. inv_step Hs. pcstep HI t Hpc; fin HI t Hpc.
  - (* DDel *) inv_step Hs.
    pose proof HI as [L1 L2 M M' P O W Pn].
    assert (Hlt : lock s = Some t) by (apply L1; rewrite Hpc; reflexivity).
    assert (Hmt : alookup Nat.eqb (t_key (ts s t)) (calls s) = Some c) by (apply M'; rewrite Hpc; reflexivity).
    constructor; cbn [lock calls wg cval next open ts trace panicked cre ckey]; auto.
    + intros u. case_t u t; sp; auto.
    + intros u Hu. specialize (L2 _ Hu). case_t u t; sp; auto.
    + intros k c'. destruct (Nat.eq_dec k (t_key (ts s t))) as [->|Hk].
      * rewrite alookup_aremove_eq. discriminate.
      * rewrite alookup_aremove_neq by assumption. intro Hk'. destruct (M _ _ Hk') as [A B].
        case_t (cre s c') t; [congruence|auto].
    + intros u c'. case_t u t; sp; [discriminate|]. intro A. pose proof (M' _ _ A) as B.
      rewrite alookup_aremove_neq; [assumption|]. intro E'. rewrite E' in B.
      assert (c' = c) by congruence. subst c'.
      assert (Ho : own_of (t_pc (ts s u)) = Some c) by (destruct (t_pc (ts s u)); simpl in *; congruence).
      destruct (O _ _ Ho) as (O1 & _). destruct (O t c) as (O1' & _); [rewrite Hpc; reflexivity|]. congruence.
    + intros u. case_t u t; sp; [discriminate|]. intro A. assert (lock s = Some u) by (apply L1; rewrite A; reflexivity). congruence.
    + intros u c'. case_t u t; sp; [|apply O]. intro A. apply O. rewrite Hpc. assumption.
    + intros u c'. case_t u t; sp; [discriminate|]. intro A. destruct (W _ _ A) as (W1 & W2 & W3 & W4).
      repeat split; auto. destruct W4 as [W4|W4]; auto. right. case_t (cre s c') t; [rewrite Hpc in W4; sp; assumption|assumption].
  - (* DUnlock *) inv_step Hs. pcstep HI t Hpc; fin HI t Hpc.
  - (* DDone *) inv_step Hs.
    pose proof HI as [L1 L2 M M' P O W Pn].
    destruct (O t c) as (Oc1 & Oc2 & Oc3 & Oc4); [rewrite Hpc; reflexivity|].
    constructor; cbn [lock calls wg cval next open ts trace panicked cre ckey]; auto.
    + intros u. case_t u t; sp; [discriminate|auto].
    + intros u Hu. specialize (L2 _ Hu). case_t u t; sp; auto. rewrite Hpc in L2; discriminate.
    + intros k c' Hk'. destruct (M _ _ Hk') as [A B]. case_t (cre s c') t; [rewrite Hpc in A; discriminate|auto].
    + intros u c'. case_t u t; sp; [discriminate|apply M'].
    + intros u. case_t u t; sp; [discriminate|apply P].
    + intros u c'. case_t u t; sp; [discriminate|]. intro A. destruct (O _ _ A) as (O1 & O2 & O3 & O4).
      rewrite upd_other by congruence. auto.
    + intros u c'. case_t u t; sp; [discriminate|]. intro A. destruct (W _ _ A) as (W1 & W2 & W3 & W4).
      repeat split; auto. destruct (Nat.eq_dec c' c) as [->|Hc].
      * left. rewrite upd_same. lia.
      * rewrite upd_other by assumption. destruct W4 as [W4|W4]; auto. right.
        case_t (cre s c') t; [rewrite Hpc in W4; simpl in W4; congruence|assumption].
    + rewrite Pn, Oc3. reflexivity.
Qed.

(* ---- the trace stays accepted by the contract monitor ---- *)
Lemma R_pcstep m s s' t :
  I s -> R m s ->
  (forall c, c < next s -> wg s' c = wg s c /\ cval s' c = cval s c /\ cre s' c = cre s c) ->
  (forall u, u <> t -> ts s' u = ts s u) ->
  let p := t_pc (ts s t) in let p' := t_pc (ts s' t) in
  t_key (ts s' t) = t_key (ts s t) -> t_val (ts s' t) = t_val (ts s t) ->
  phase p' = phase p ->
  (forall c, own_of p' = Some c -> phase p' = Some 2 -> own_of p = Some c) ->
  (forall c, wait_of p' = Some c -> wait_of p = Some c \/ (c < next s /\ wg s c <> 0)) ->
  R m s'.
Proof.
  intros HI [RC RE RW] Hsh Ets p p' Hk Hv Hph Hown Hwait.
  constructor.
  - intros u. destruct (Nat.eq_dec u t) as [->|Hne].
    + fold p'. rewrite Hph, Hk, Hv. apply RC.
    + rewrite (Ets _ Hne). apply RC.
  - intros u c. destruct (Nat.eq_dec u t) as [->|Hne].
    + fold p'. intros A B. rewrite Hk, Hv. specialize (Hown _ A B). rewrite Hph in B.
      destruct (RE t c Hown B) as [E1 E2]. split; [|assumption].
      destruct (i_own _ HI t c Hown) as (_ & O2 & _). destruct (Hsh _ O2) as (_ & -> & _). assumption.
    + rewrite (Ets _ Hne). intros A B. destruct (RE u c A B) as [E1 E2]. split; [|assumption].
      destruct (i_own _ HI u c A) as (_ & O2 & _). destruct (Hsh _ O2) as (_ & -> & _). assumption.
  - intros u c. destruct (Nat.eq_dec u t) as [->|Hne].
    + fold p'. intros A B. rewrite Hk. destruct (Hwait _ A) as [A'|[A1 A2]].
      * destruct (i_wait _ HI t c A') as (W1 & _). destruct (Hsh _ W1) as (E1 & E2 & E3).
        rewrite E1 in B. rewrite E2, E3. apply RW; assumption.
      * destruct (Hsh _ A1) as (E1 & _). congruence.
    + rewrite (Ets _ Hne). intros A B.
      destruct (i_wait _ HI u c A) as (W1 & _). destruct (Hsh _ W1) as (E1 & E2 & E3).
      rewrite E1 in B. rewrite E2, E3. apply RW; assumption.
Qed.

Ltac rstep HI HR t Hpc :=
  eapply (R_pcstep _ _ _ t HI HR); cbn [lock calls wg cval next open ts trace panicked cre ckey];
  [ intros ? ?; auto | intros ? ?; apply upd_other; assumption | rewrite ?upd_same, ?Hpc; cbn .. ];
  try solve [ reflexivity | intros; discriminate | (let c := fresh in let H := fresh in intros c H; injection H as <-; auto) | auto ].

Lemma step_R l s s' m : I s -> step l s = Some s' ->
  mon_run sf_mon_step sf_mon0 (rev (trace s)) = Some m -> R m s ->
  exists m', mon_run sf_mon_step sf_mon0 (rev (trace s')) = Some m' /\ R m' s'.
Proof.
  intros HI Hs Hm HR. destruct l as [t|g|d]; [| inv_step Hs; exists m; split; [assumption|]; destruct HR; constructor; simpl; auto | discriminate].
  unfold step in Hs.
  destruct (t_pc (ts s t)) eqn:Hpc.
  - (* Idle *) destruct (t_todo (ts s t)) as [|o rest]; [discriminate|]. inv_step Hs.
    destruct HR as [RC RE RW]. pose proof (RC t) as RCt. rewrite Hpc in RCt. simpl in RCt.
    eexists. split.
    { cbn [trace]. simpl rev. rewrite mon_run_app, Hm. simpl. unfold sf_mon_step. cbn [e_t e_k e_a]. rewrite RCt. reflexivity. }
    constructor; cbn [lock calls wg cval next open ts trace panicked cre ckey m_now m_cur m_exs].
    + intros u. case_t u t; sp.
      * exists (m_now m). split; [lia|reflexivity].
      * specialize (RC u). destruct (phase (t_pc (ts s u))); [|assumption]. destruct RC as (i & Hi & Hc). exists i. split; [lia|assumption].
    + intros u c. case_t u t; sp; [discriminate|apply RE].
    + intros u c. case_t u t; sp; [discriminate|apply RW].
  - (* CLock *) destruct (lock s) eqn:Hl; [discriminate|]. inv_step Hs. exists m; split; [assumption|].
    rstep HI HR t Hpc.
  - (* CLook *) destruct (alookup Nat.eqb (t_key (ts s t)) (calls s)) eqn:Hlk; inv_step Hs; (exists m; split; [assumption|]).
    + rstep HI HR t Hpc. intros c Hc; injection Hc as <-. right.
      destruct (i_map _ HI _ _ Hlk) as [A B].
      assert (Ho : own_of (t_pc (ts s (cre s n))) = Some n) by (destruct (t_pc (ts s (cre s n))); simpl in *; congruence).
      destruct (i_own _ HI _ _ Ho) as (_ & O2 & O3 & _). split; [assumption|lia].
    + rstep HI HR t Hpc.
  - (* CHitUnlock *) inv_step Hs. exists m; split; [assumption|]. rstep HI HR t Hpc.
  - (* CWait *) destruct (Nat.eqb (wg s c) 0) eqn:Hwg; [|discriminate]. apply Nat.eqb_eq in Hwg. inv_step Hs.
    destruct HR as [RC RE RW]. pose proof (RC t) as RCt. rewrite Hpc in RCt. simpl in RCt. destruct RCt as (i & Hi & RCt).
    destruct (i_wait _ HI t c) as (W1 & W2 & W3 & W4); [rewrite Hpc; reflexivity|].
    destruct (RW t c) as (x & X1 & X2 & X3 & X4 & X5); [rewrite Hpc; reflexivity|assumption|].
    eexists. split.
    { cbn [trace]. simpl rev. rewrite mon_run_app, Hm. simpl. unfold sf_mon_step. cbn [e_t e_k e_a e_b e_c]. rewrite RCt.
      cbn [cu_key cu_ex cu_inv cu_val]. rewrite Nat.eqb_refl. simpl.
      replace (existsb _ (m_exs m)) with true; [reflexivity|]. symmetry. apply existsb_exists. exists x. split; [assumption|].
      unfold sf_share_ok. rewrite X2, X3, X4, !Nat.eqb_refl. simpl.
      assert (Nat.eqb (cre s c) t = false) as -> by (apply Nat.eqb_neq; assumption). simpl.
      destruct (x_ret x) eqn:Hr; [|reflexivity]. apply Nat.ltb_lt. apply (X5 n _ eq_refl RCt). }
    constructor; cbn [lock calls wg cval next open ts trace panicked cre ckey m_now m_cur m_exs].
    + intros u. case_t u t; sp; [reflexivity|].
      specialize (RC u). destruct (phase (t_pc (ts s u))); [|assumption]. destruct RC as (i' & Hi' & Hc). exists i'. split; [lia|assumption].
    + intros u c'. case_t u t; sp; [discriminate|apply RE].
    + intros u c'. case_t u t; sp; [discriminate|apply RW].
  - (* CPut *) inv_step Hs. exists m; split; [assumption|]. rstep HI HR t Hpc.
    rewrite !upd_other by lia. auto.
  - (* CMissUnlock *) inv_step Hs. exists m; split; [assumption|]. rstep HI HR t Hpc.
  - (* FnB *) inv_step Hs.
    destruct HR as [RC RE RW]. pose proof (RC t) as RCt. rewrite Hpc in RCt. simpl in RCt. destruct RCt as (i & Hi & RCt).
    eexists. split.
    { cbn [trace]. simpl rev. rewrite mon_run_app, Hm. simpl. unfold sf_mon_step. cbn [e_t e_k e_a]. rewrite RCt.
      cbn [cu_key cu_ex cu_inv]. rewrite Nat.eqb_refl. simpl. reflexivity. }
    constructor; cbn [lock calls wg cval next open ts trace panicked cre ckey m_now m_cur m_exs].
    + intros u. case_t u t; sp.
      * exists i. split; [lia|reflexivity].
      * specialize (RC u). destruct (phase (t_pc (ts s u))); [|assumption]. destruct RC as (i' & Hi' & Hc). exists i'. split; [lia|assumption].
    + intros u c'. case_t u t; sp; [discriminate|apply RE].
    + intros u c'. case_t u t; sp; [discriminate|apply RW].
  - (* FnE *) destruct (gate_open (open s) (t_gate (ts s t))); [|discriminate]. inv_step Hs.
    destruct HR as [RC RE RW]. pose proof (RC t) as RCt. rewrite Hpc in RCt. simpl in RCt. destruct RCt as (i & Hi & RCt).
    destruct (i_own _ HI t c) as (Oc1 & Oc2 & Oc3 & Oc4); [rewrite Hpc; reflexivity|].
    eexists. split.
    { cbn [trace]. simpl rev. rewrite mon_run_app, Hm. simpl. unfold sf_mon_step. cbn [e_t e_k e_a e_b]. rewrite RCt.
      cbn [cu_key cu_ex cu_inv e_c]. rewrite Nat.eqb_refl, end_ex_pan, end_val_pan. simpl. reflexivity. }
    constructor; cbn [lock calls wg cval next open ts trace panicked cre ckey m_now m_cur m_exs].
    + intros u. case_t u t; sp.
      * exists i. split; [lia|reflexivity].
      * specialize (RC u). destruct (phase (t_pc (ts s u))); [|assumption]. destruct RC as (i' & Hi' & Hc). exists i'. split; [lia|assumption].
    + intros u c'. case_t u t; sp.
      * intros A _. injection A as <-. rewrite upd_same. split; [reflexivity|left; reflexivity].
      * intros A B. destruct (RE _ _ A B) as [E1 E2]. destruct (i_own _ HI _ _ A) as (O1 & _).
        rewrite upd_other by congruence. split; [assumption|right; assumption].
    + intros u c'. case_t u t; sp; [discriminate|]. intros A B.
      rewrite upd_other by congruence. destruct (RW _ _ A B) as (x & X1 & X2). exists x. split; [right; assumption|assumption].
  - (* DLock *) destruct (lock s) eqn:Hl; [discriminate|]. inv_step Hs. exists m; split; [assumption|]. rstep HI HR t Hpc.
  - (* DDel *) inv_step Hs. exists m; split; [assumption|]. rstep HI HR t Hpc.
  - (* DUnlock *) inv_step Hs. exists m; split; [assumption|]. rstep HI HR t Hpc.
  - (* DDone *) inv_step Hs.
    destruct HR as [RC RE RW]. pose proof (RC t) as RCt. rewrite Hpc in RCt. simpl in RCt. destruct RCt as (i & Hi & RCt).
    destruct (i_own _ HI t c) as (Oc1 & Oc2 & Oc3 & Oc4); [rewrite Hpc; reflexivity|].
    destruct (RE t c) as (Ec1 & Ec2); [rewrite Hpc; reflexivity..|].
    eexists. split.
    { cbn [trace]. simpl rev. rewrite mon_run_app, Hm. simpl. unfold sf_mon_step. cbn [e_t e_k e_a e_b e_c]. rewrite RCt.
      cbn [cu_key cu_ex cu_inv cu_val]. destruct (cuex_ret (t_val (ts s t))) as [CR1 CR2].
      rewrite Ec1, !Nat.eqb_refl, CR1, CR2. simpl. reflexivity. }
    constructor; cbn [lock calls wg cval next open ts trace panicked cre ckey m_now m_cur m_exs].
    + intros u. case_t u t; sp; [reflexivity|].
      specialize (RC u). destruct (phase (t_pc (ts s u))); [|assumption]. destruct RC as (i' & Hi' & Hc). exists i'. split; [lia|assumption].
    + intros u c'. case_t u t; sp; [discriminate|]. intros A B. destruct (RE _ _ A B) as [E1 E2]. split; [assumption|].
      apply in_map_iff. eexists. split; [|exact E2]. unfold sf_retire. simpl.
      assert (Nat.eqb u t = false) as -> by (apply Nat.eqb_neq; assumption). reflexivity.
    + intros u c'. case_t u t; sp; [discriminate|]. intros A B.
      destruct (i_wait _ HI u c' A) as (W1 & W2 & W3 & W4).
      pose proof (RC u) as RCu. destruct (phase (t_pc (ts s u))) eqn:Hph; [|destruct (t_pc (ts s u)); discriminate].
      destruct RCu as (iu & Hiu & RCu).
      destruct (Nat.eq_dec c' c) as [->|Hc].
      * (* u waits on the flight that t just finished *)
        exists (sf_retire t (m_now m) (mkexec (t_val (ts s t)) (t_key (ts s t)) t None)). split; [apply in_map; assumption|].
        unfold sf_retire. simpl. rewrite Nat.eqb_refl. simpl. repeat split; try congruence.
        intros r cu Hr Hcu. injection Hr as <-. rewrite RCu in Hcu. injection Hcu as <-. simpl. assumption.
      * rewrite upd_other in B by assumption. destruct (RW _ _ A B) as (x & X1 & X2 & X3 & X4 & X5).
        exists (sf_retire t (m_now m) x). split; [apply in_map; assumption|].
        unfold sf_retire. destruct (x_ret x) eqn:Hr.
        -- repeat split; auto. rewrite Hr. assumption.
        -- destruct (Nat.eqb (x_t x) t); simpl; repeat split; auto.
           ++ intros r cu Hr' Hcu. injection Hr' as <-. rewrite RCu in Hcu. injection Hcu as <-. simpl. assumption.
           ++ rewrite Hr. intros; discriminate.
Qed.

Lemma step_Inv l s s' : Inv s -> step l s = Some s' -> Inv s'.
Proof.
  intros [HI (m & Hm & HR)] Hs. split; [eapply step_I; eauto|]. eapply step_R; eauto.
Qed.

Lemma run_Inv scripts sched : Inv (run step sched (init scripts)).
Proof. apply run_inv; [apply step_Inv|apply init_inv]. Qed.

(* all schedules, any number of threads: the history is accepted by the SingleFlight contract and
   the WaitGroup counter never goes negative *)
Lemma sf_share scripts sched :
  let s := run step sched (init scripts) in
  sf_accepts (rev (trace s)) = true /\ panicked s = false.
Proof.
  destruct (run_Inv scripts sched) as [HI (m & Hm & _)]. split; [|apply HI].
  unfold sf_accepts, accepts. now rewrite Hm.
Qed.

(* structural facts used by clients (ResourceManager) and stated in Props *)
Lemma sf_mutex scripts sched t u :
  let s := run step sched (init scripts) in
  holds (t_pc (ts s t)) = true -> holds (t_pc (ts s u)) = true -> t = u.
Proof.
  intros s; subst s; intros Ht Hu. destruct (run_Inv scripts sched) as [HI _].
  pose proof (i_lock1 _ HI t Ht). pose proof (i_lock1 _ HI u Hu). congruence.
Qed.

(* at most one flight per key: two threads past registration with the same key are the same thread *)
Lemma sf_one_flight_per_key scripts sched t u c d :
  let s := run step sched (init scripts) in
  inmap_of (t_pc (ts s t)) = Some c -> inmap_of (t_pc (ts s u)) = Some d ->
  t_key (ts s t) = t_key (ts s u) -> t = u.
Proof.
  intros s; subst s; intros Ht Hu Hk. destruct (run_Inv scripts sched) as [HI _].
  pose proof (i_map' _ HI _ _ Ht) as A. pose proof (i_map' _ HI _ _ Hu) as B. rewrite Hk in A.
  assert (c = d) by congruence. subst d.
  assert (Ho : forall p, inmap_of p = Some c -> own_of p = Some c) by (intros p; destruct p; simpl; congruence).
  destruct (i_own _ HI _ _ (Ho _ Ht)) as (E1 & _). destruct (i_own _ HI _ _ (Ho _ Hu)) as (E2 & _). congruence.
Qed.

(* a map entry never outlives the call that executes its flight: the creator of a registered call
   is still inside its Do, before its delete *)
Lemma sf_entry_live scripts sched k c :
  let s := run step sched (init scripts) in
  alookup Nat.eqb k (calls s) = Some c ->
  inmap_of (t_pc (ts s (cre s c))) = Some c /\ t_key (ts s (cre s c)) = k.
Proof. intros s; subst s. destruct (run_Inv scripts sched) as [HI _]. apply (i_map _ HI). Qed.

(* a call that does its lookup when no live call has a registered, undeleted flight for the key
   (every earlier flight of the key has deleted its entry) misses and registers a new flight: it
   will execute fn itself (CPut continues only along the executing path) *)
Lemma sf_fresh_after scripts sched t :
  let s := run step sched (init scripts) in
  t_pc (ts s t) = CLook ->
  (forall u c, inmap_of (t_pc (ts s u)) = Some c -> t_key (ts s u) <> t_key (ts s t)) ->
  exists s', step (Thr t) s = Some s' /\ t_pc (ts s' t) = CPut /\ calls s' = calls s /\
             alookup Nat.eqb (t_key (ts s t)) (calls s) = None.
Proof.
  intros s; subst s. set (s := run step sched (init scripts)). intros Hpc Hfree.
  assert (HI : I s) by apply run_Inv. clearbody s.
  assert (Hnone : alookup Nat.eqb (t_key (ts s t)) (calls s) = None).
  { destruct (alookup Nat.eqb (t_key (ts s t)) (calls s)) as [c|] eqn:E; [|reflexivity]. exfalso.
    destruct (i_map _ HI _ _ E) as [A B]. exact (Hfree _ _ A B). }
  unfold step. rewrite Hpc, Hnone. eexists. split; [reflexivity|].
  cbn [ts calls]. rewrite upd_same. auto.
Qed.

(* ---- panicking user functions ----
   (a scripted fn with value 0 panics: Model.pan_flag).  The trace theorem sf_share above already
   covers them; the following state facts say that the flight of a panicking execution is wound up
   exactly like any other. *)

(* whatever fn did, the executing call goes through makeCall's deferred function: none of these
   steps looks at the panic flag, and none can block except on the mutex *)
Lemma sf_cleanup_unconditional s t c :
  (t_pc (ts s t) = FnE c -> gate_open (open s) (t_gate (ts s t)) = true ->
     exists s', step (Thr t) s = Some s' /\ t_pc (ts s' t) = DLock c) /\
  (t_pc (ts s t) = DLock c -> lock s = None -> exists s', step (Thr t) s = Some s' /\ t_pc (ts s' t) = DDel c) /\
  (t_pc (ts s t) = DDel c -> exists s', step (Thr t) s = Some s' /\ t_pc (ts s' t) = DUnlock c /\
     alookup Nat.eqb (t_key (ts s t)) (calls s') = None) /\
  (t_pc (ts s t) = DUnlock c -> exists s', step (Thr t) s = Some s' /\ t_pc (ts s' t) = DDone c /\ lock s' = None) /\
  (t_pc (ts s t) = DDone c -> exists s', step (Thr t) s = Some s' /\ t_pc (ts s' t) = Idle /\ wg s' c = wg s c - 1).
Proof.
  repeat split; intros Hpc; unfold step; rewrite Hpc.
  - intros ->. eexists. split; [reflexivity|]. cbn [ts]. rewrite upd_same. reflexivity.
  - intros ->. eexists. split; [reflexivity|]. cbn [ts]. rewrite upd_same. reflexivity.
  - eexists. split; [reflexivity|]. cbn [ts calls]. rewrite upd_same. split; [reflexivity|apply alookup_aremove_eq].
  - eexists. split; [reflexivity|]. cbn [ts lock]. rewrite upd_same. split; reflexivity.
  - eexists. split; [reflexivity|]. cbn [ts wg]. rewrite !upd_same. split; reflexivity.
Qed.

(* once the executing call of a flight is gone (returned or unwound by a panic), nobody is stuck on
   it: its waiters can return, and no map entry refers to it, so the next call of the key misses
   (sf_fresh_after) and executes afresh *)
Lemma sf_panic_safe scripts sched :
  let s := run step sched (init scripts) in
  (forall u c, t_pc (ts s u) = CWait c -> own_of (t_pc (ts s (cre s c))) <> Some c ->
               exists s', step (Thr u) s = Some s' /\ t_pc (ts s' u) = Idle /\
                          t_res (ts s' u) = (0, cval s c) :: t_res (ts s u)) /\
  (forall k c, alookup Nat.eqb k (calls s) = Some c -> own_of (t_pc (ts s (cre s c))) = Some c).
Proof.
  intros s; subst s. set (s := run step sched (init scripts)).
  assert (HI : I s) by apply run_Inv. clearbody s. split.
  - intros u c Hpc Hgone.
    assert (Hw : wait_of (t_pc (ts s u)) = Some c) by (rewrite Hpc; reflexivity).
    destruct (i_wait _ HI u c Hw) as (_ & _ & _ & [W|W]); [|contradiction].
    unfold step. rewrite Hpc, W. simpl. eexists. split; [reflexivity|]. cbn [ts]. rewrite upd_same. auto.
  - intros k c Hk. destruct (i_map _ HI _ _ Hk) as [A _]. destruct (t_pc (ts s (cre s c))); simpl in *; congruence.
Qed.
