(* C18 Exec: checkers evaluated by vm_compute on every correspondence case.
   A case = primitive, parameters, the threads' scripts, the schedule the driver forced
   (one label, then everybody inside a call runs until blocked), what every call returned in the
   Go run, and the recorded history.
   model_ok: the model, replaying the same forced schedule, gives every call the same result
             (calls still blocked in the model at the end of the schedule were released by the
             driver's wind-down and are not compared);
   spec_ok:  the recorded history satisfies the primitive's contract (Spec.v), independently of
             the model. *)
From God Require Export Base.Prelude C18.Conc.
From God Require Import C18.Spec C18.Model.

Record case := mkcase {
  c_prim : nat;     (* 0 sf, 1 lc, 2 lim, 3 ref, 4 once, 5 spin, 6 done, 7 pool, 8 rm, 9 tl, 10 barrier, 11 managed, 12 immutable,
                       13 SpinLock contention stress, 14 DoneChan concurrent-Close stress,
                       15 OnceGuard long run (2^n + 2 Takes: violations = Takes that returned true beyond the first) *)
  c_n : nat; c_m : nat;
  c_scripts : list (list op);
  c_sched : list lbl;
  c_results : list (list (nat * nat));
  c_hist : list ev
}.

Definition scripts_of (c : case) (t : nat) : list op := nth t (c_scripts c) [].
Definition threads_of (c : case) : list nat := seq 0 (List.length (c_scripts c)).
Definition fuel : nat := 400.

Definition pair_eqb (a b : nat * nat) : bool := Nat.eqb (fst a) (fst b) && Nat.eqb (snd a) (snd b).

(* the model's results of a thread are a prefix of the observed ones, and at most one call (the one
   still blocked in the model) is missing *)
Fixpoint prefix_ok (m o : list (nat * nat)) : bool :=
  match m, o with
  | [], [] => true
  | [], [_] => true
  | a :: m', b :: o' => pair_eqb a b && prefix_ok m' o'
  | _, _ => false
  end.

Definition results_ok (c : case) (res : nat -> list (nat * nat)) : bool :=
  Nat.eqb (List.length (c_results c)) (List.length (c_scripts c)) &&
  forallb (fun t => prefix_ok (rev (res t)) (nth t (c_results c) [])) (threads_of c).

(* TimeoutLimit as an object: Borrow either takes a slot or gives up (o_c carries which of the two
   the call reported; giving up has no effect on the limit) *)
Definition tl_sstep (n : nat) (s : LIM.st) (t : nat) (o : op) : option (LIM.st * nat) :=
  match o_code o with
  | 0 => if Nat.eqb (o_c o) 1 then Some (s, 1) else LIM.sstep n s t (mkop 0 0 0 0)
  | 3 => Some (s, 0)   (* a bare Cond.Signal: no effect on the limit *)
  | _ => LIM.sstep n s t o
  end.

Definition ao_model {Ob} (sstep : Ob -> nat -> op -> option (Ob * nat)) (o0 : Ob) (c : case) : bool :=
  let fin := replay (AO.step sstep) (AO.busy (Ob:=Ob)) fuel (threads_of c) (c_sched c) (AO.init o0 (scripts_of c)) in
  results_ok c (fun t => map (fun r => (r, 0)) (AO.t_res (AO.ts fin t))).

(* primitive numbers >= 100: the same primitive run WITHOUT a forced schedule (all goroutines run
   freely with seeded yields).  The interleaving is then unknown, so there is nothing to replay:
   model_ok only checks the shape of the observation (a goroutine may legitimately stay blocked, e.g. on a
   pool whose slots were used up by panicking create callbacks); the history is checked by spec_ok. *)
Definition free_ok (c : case) : bool :=
  Nat.eqb (List.length (c_results c)) (List.length (c_scripts c)) &&
  forallb (fun t => Nat.leb (List.length (nth t (c_results c) [])) (List.length (nth t (c_scripts c) []))) (threads_of c).

(* contention stress runs (13 SpinLock, 14 DoneChan): no history; every goroutine reports
   (rounds completed, violations seen): at least one round each, and never a violation
   (a second goroutine inside the critical section / Done() still open after one's own Close returned) *)
Definition stress_ok (c : case) : bool :=
  Nat.leb 2 (List.length (c_results c)) &&
  forallb (fun rs => match rs with [(r, b)] => Nat.leb 1 r && Nat.eqb b 0 | _ => false end) (c_results c).

Definition model_ok1 (c : case) : bool :=
  if Nat.eqb (c_prim c) 13 || Nat.eqb (c_prim c) 14 || Nat.eqb (c_prim c) 15 then stress_ok c else
  if Nat.leb 100 (c_prim c) then free_ok c else
  match c_prim c with
  | 0 => let fin := replay SF.step SF.busy fuel (threads_of c) (c_sched c) (SF.init (scripts_of c)) in
         results_ok c (fun t => SF.t_res (SF.ts fin t)) && negb (SF.panicked fin)
  | 1 => let fin := replay LC.step LC.busy fuel (threads_of c) (c_sched c) (LC.init (scripts_of c)) in
         results_ok c (fun t => LC.t_res (LC.ts fin t)) && negb (LC.panicked fin)
  | 2 => ao_model (LIM.sstep (c_n c)) LIM.init c
  | 3 => let fin := replay REFL.step REFL.busy fuel (threads_of c) (c_sched c) (REFL.init (scripts_of c)) in
         results_ok c (fun t => REFL.t_res (REFL.ts fin t))
  | 4 => ao_model ONCE.sstep ONCE.init c
  | 5 => ao_model SPIN.sstep SPIN.init c
  | 6 => ao_model DONE.sstep DONE.init c
  | 7 => let fin := replay (POOL.step (Z.of_nat (c_n c)) (c_m c)) POOL.busy fuel (threads_of c) (c_sched c) (POOL.init (scripts_of c)) in
         results_ok c (fun t => POOL.t_res (POOL.ts fin t))
  | 8 => let fin := replay RM.step RM.busy fuel (threads_of c) (c_sched c) (RM.init (scripts_of c)) in
         results_ok c (fun t => RM.t_res (RM.ts fin t))
  | 9 => ao_model (tl_sstep (c_n c)) LIM.init c
  | 11 => let fin := replay MR.step MR.busy fuel (threads_of c) (c_sched c) (MR.init (scripts_of c)) in
          results_ok c (fun t => MR.t_res (MR.ts fin t))
  | 12 => let fin := replay (IR.step (c_m c)) IR.busy fuel (threads_of c) (c_sched c) (IR.init (scripts_of c)) in
          results_ok c (fun t => IR.t_res (IR.ts fin t))
  | 10 => let fin := replay BAR.step BAR.busy fuel (threads_of c) (c_sched c) (BAR.init (scripts_of c)) in
          results_ok c (fun t => BAR.t_res (BAR.ts fin t))
  | _ => false
  end.

Definition spec_ok1 (c : case) : bool :=
  match (if Nat.leb 100 (c_prim c) then c_prim c - 100 else c_prim c) with
  | 0 => sf_accepts (c_hist c) && complete (c_hist c) &&
         (if Nat.leb 100 (c_prim c) then true else sf_forced_ok (c_hist c) [] [])
  | 1 => lc_accepts (c_hist c) && complete (c_hist c)
  | 2 => if Nat.eqb (c_n c) 0 then linearizable_pending (LIM.sstep 0) LIM.init (c_hist c)   (* Borrow blocks for ever *)
         else linearizable (LIM.sstep (c_n c)) LIM.init (c_hist c)
  | 3 => linearizable REF.sstep REF.init (c_hist c)
  | 4 => linearizable ONCE.sstep ONCE.init (c_hist c)
  | 5 => linearizable SPIN.sstep SPIN.init (c_hist c)
  | 6 => linearizable DONE.sstep DONE.init (c_hist c)
  | 7 => pool_accepts (c_n c) (c_m c) (c_hist c) && (if Nat.leb 100 (c_prim c) then true else pool_final_ok (c_n c) (c_hist c))
  | 8 => rm_accepts (c_hist c) && complete (c_hist c)
  | 9 => linearizable (tl_sstep (c_n c)) LIM.init (c_hist c) && tl_timeouts_ok (c_hist c) []
  | 10 => lc_accepts (c_hist c) && complete (c_hist c)
  | 13 | 14 | 15 => stress_ok c
  | 11 => linearizable MR.sstep (0, 0) (c_hist c)
  | 12 => ir_accepts (c_m c) (c_hist c) && complete (c_hist c)
  | _ => false
  end.

(* primitive numbers >= 200: TWO instances of the primitive in one run.  Threads 0..49 use the first
   one, threads 50.. the second.  Instances share nothing, so each half -- its scripts, its results,
   its part of the history -- must be a correct single-instance run on its own (same schedule). *)
Definition in_half (hi : bool) (t : nat) : bool := if hi then Nat.leb 50 t else Nat.ltb t 50.
Fixpoint mask {A} (hi : bool) (i : nat) (l : list (list A)) : list (list A) :=
  match l with [] => [] | x :: r => (if in_half hi i then x else []) :: mask hi (S i) r end.
Definition half (hi : bool) (c : case) : case :=
  mkcase (c_prim c - 200) (c_n c) (c_m c) (mask hi 0 (c_scripts c)) (c_sched c) (mask hi 0 (c_results c))
         (filter (fun e => in_half hi (e_t e) || Nat.leb 999 (e_t e)) (c_hist c)).
Definition model_ok (c : case) : bool :=
  if Nat.leb 200 (c_prim c) then model_ok1 (half false c) && model_ok1 (half true c) else model_ok1 c.
Definition spec_ok (c : case) : bool :=
  if Nat.leb 200 (c_prim c) then spec_ok1 (half false c) && spec_ok1 (half true c) else spec_ok1 c.
