(* C18 ProofsTL: TimeoutLimit.Borrow reports ErrTimeout only after its timeout has elapsed;
   Barrier.Guard: at most one thread inside fn. *)
From God Require Import Base.Prelude C18.Conc C18.Spec C18.Model.

Lemma tl_loop_elapsed outs : forall timeout spent total,
  TL.timers_ok timeout outs -> TL.loop timeout spent outs = Some (1, total) -> (spent + timeout <= total)%Z.
Proof.
  induction outs as [|o r IH]; simpl; intros timeout spent total Hok H; [discriminate|].
  destruct o as [e ok|w].
  - destruct ok; [discriminate|]. destruct (Z.leb (timeout - e) 0) eqn:E.
    + injection H as <-. apply Z.leb_le in E. lia.
    + specialize (IH _ _ _ Hok H). lia.
  - injection H as <-. lia.
Qed.

Lemma tl_only_after_elapsed timeout first_ok outs total :
  TL.timers_ok timeout outs -> TL.borrow timeout first_ok outs = Some (1, total) -> (timeout <= total)%Z.
Proof.
  unfold TL.borrow. intros Hok H. destruct first_ok; [discriminate|].
  pose proof (tl_loop_elapsed _ _ _ _ Hok H). lia.
Qed.

(* success never needs the timeout to pass, and a signal with time left retries *)
Lemma tl_success_keeps_waiting timeout e r :
  (0 < timeout - e)%Z -> TL.loop timeout 0 (TL.Signal e false :: r) = TL.loop (timeout - e) e r.
Proof. intro H. simpl. assert (Z.leb (timeout - e) 0 = false) as -> by (apply Z.leb_gt; lia). reflexivity. Qed.

(* ------------------------------------------------------------------ Barrier *)
Import BAR.
Definition bar_ok (s : state) : Prop :=
  (forall t, inside (t_pc (ts s t)) = true -> lock s = Some t) /\
  (forall t, lock s = Some t -> inside (t_pc (ts s t)) = true).

Lemma bar_inv scripts sched : bar_ok (run step sched (init scripts)).
Proof.
  apply run_inv; [|split; simpl; intros; discriminate].
  intros l s s' [H1 H2] Hs. destruct l as [t| |]; simpl in Hs; [|injection Hs as <-; split; auto|discriminate].
  destruct (t_pc (ts s t)) eqn:Hpc.
  - destruct (t_todo (ts s t)); [discriminate|]. injection Hs as <-. split; simpl; intros u.
    + unfold upd. destruct (Nat.eqb u t) eqn:E; [discriminate|apply H1].
    + intro Hl. pose proof (H2 _ Hl) as A. unfold upd. destruct (Nat.eqb u t) eqn:E; [|assumption].
      apply Nat.eqb_eq in E; subst u. rewrite Hpc in A. discriminate.
  - destruct (lock s) eqn:Hl; [discriminate|]. injection Hs as <-. split; simpl; intros u.
    + unfold upd. destruct (Nat.eqb u t) eqn:E; [apply Nat.eqb_eq in E; subst; auto|]. intro A. specialize (H1 _ A). congruence.
    + intro A. injection A as <-. rewrite upd_same. reflexivity.
  - injection Hs as <-. split; simpl; intros u.
    + unfold upd. destruct (Nat.eqb u t) eqn:E; [apply Nat.eqb_eq in E; subst; intros _; apply H1; rewrite Hpc; reflexivity|apply H1].
    + intro A. specialize (H2 _ A). unfold upd. destruct (Nat.eqb u t); [reflexivity|assumption].
  - destruct (gate_open (open s) (t_gate (ts s t))); [|discriminate]. injection Hs as <-. split; simpl; intros u.
    + unfold upd. destruct (Nat.eqb u t) eqn:E; [apply Nat.eqb_eq in E; subst; intros _; apply H1; rewrite Hpc; reflexivity|apply H1].
    + intro A. specialize (H2 _ A). unfold upd. destruct (Nat.eqb u t); [reflexivity|assumption].
  - injection Hs as <-. assert (Hl : lock s = Some t) by (apply H1; rewrite Hpc; reflexivity). split; simpl; intros u.
    + unfold upd. destruct (Nat.eqb u t) eqn:E; [discriminate|]. intro A. specialize (H1 _ A). apply Nat.eqb_neq in E. congruence.
    + discriminate.
Qed.

Lemma bar_exclusive scripts sched t u :
  let s := run step sched (init scripts) in
  inside (t_pc (ts s t)) = true -> inside (t_pc (ts s u)) = true -> t = u.
Proof. intros s A B. destruct (bar_inv scripts sched) as [H1 _]. pose proof (H1 _ A). pose proof (H1 _ B). congruence. Qed.

(* a guarded function that panics does not keep the lock: from the end of fn the deferred Unlock is
   the only continuation, it cannot block, and it leaves the lock free -- whatever fn did *)
Lemma bar_panic_releases s t :
  (t_pc (ts s t) = FnE -> gate_open (open s) (t_gate (ts s t)) = true ->
     exists s', step (Thr t) s = Some s' /\ t_pc (ts s' t) = BUnlock /\ lock s' = lock s) /\
  (t_pc (ts s t) = BUnlock -> exists s', step (Thr t) s = Some s' /\ lock s' = None /\ t_pc (ts s' t) = Idle).
Proof.
  split; intros Hpc; unfold step; rewrite Hpc.
  - intros ->. eexists. split; [reflexivity|]. simpl. rewrite upd_same. auto.
  - eexists. split; [reflexivity|]. simpl. rewrite upd_same. auto.
Qed.
