(* C18 ProofsMR: managedresource.go and immutableresource.go -- invariants for all schedules. *)
From God Require Import Base.Prelude C18.Conc C18.Spec C18.Model.

Module MRP.
Import MR.

Record MI (s : state) : Prop := mkMI {
  m_w1 : forall t, wholds (t_pc (ts s t)) = true -> writer s = Some t;
  m_w2 : forall t, writer s = Some t -> wholds (t_pc (ts s t)) = true;
  (* the current resource is always the most recently generated one *)
  m_cur : cur s = 0 \/ cur s = ngen s;
  (* a MarkBroken that decided "equal" is about to discard exactly the resource it was given *)
  m_eq : forall t, t_pc (ts s t) = MSet true -> cur s = t_arg (ts s t) /\ cur s <> 0;
  (* Take's slow path returns the current resource *)
  m_ret : forall t r, t_pc (ts s t) = TWUnlock r -> cur s = r /\ r <> 0
}.

Ltac mcase u t :=
  let E := fresh "E" in
  destruct (Nat.eq_dec u t) as [E|E];
  [ try rewrite !E in *; rewrite ?upd_same in * | rewrite ?(upd_other _ _ _ _ E) in * ].

(* a step of t that changes only its pc and the lock *)
Lemma MI_pc s t rd wr x' tr :
  MI s -> let p' := t_pc x' in t_arg x' = t_arg (ts s t) ->
  ((wholds p' = true /\ wr = Some t /\ (writer s = None \/ writer s = Some t)) \/
   (wholds p' = false /\ ((wholds (t_pc (ts s t)) = true /\ wr = None) \/ (wholds (t_pc (ts s t)) = false /\ wr = writer s)))) ->
  (p' = MSet true -> cur s = t_arg (ts s t) /\ cur s <> 0) ->
  (forall r, p' = TWUnlock r -> cur s = r /\ r <> 0) ->
  MI (mk (cur s) (ngen s) rd wr (open s) (upd (ts s) t x') tr).
Proof.
  intros [W1 W2 C E R] p' Ha Hlock He Hr. assert (Hp : t_pc x' = p') by reflexivity. clearbody p'.
  constructor; simpl; auto.
  - intros u Hu. mcase u t.
    + rewrite Hp in Hu. destruct Hlock as [(A & B & _)|(A & _)]; congruence.
    + pose proof (W1 _ Hu) as W1u. destruct Hlock as [(A & B & [D|D])|(A & [(B & D)|(B & D)])]; try congruence.
      pose proof (W1 t B). congruence.
  - intros u Hu. mcase u t.
    + rewrite Hp. destruct Hlock as [(A & B & D)|(A & [(B & D)|(B & D)])]; try congruence.
      rewrite D in Hu. specialize (W2 _ Hu). congruence.
    + apply W2. destruct Hlock as [(A & B & D)|(A & [(B & D)|(B & D)])]; congruence.
  - intros u Hu. mcase u t; [rewrite Hp in Hu; rewrite Ha; auto|apply E; assumption].
  - intros u r Hu. mcase u t; [rewrite Hp in Hu; auto|apply (R u); assumption].
Qed.

Ltac mpc HI := apply MI_pc; [exact HI | reflexivity | cbv zeta; cbn [t_pc wholds] | cbv zeta; cbn [t_pc] | cbv zeta; cbn [t_pc]].

Lemma mi_step l s s' : MI s -> step l s = Some s' -> MI s'.
Proof.
  intros HI Hs. destruct l as [t|g|d]; [| injection Hs as <-; destruct HI; constructor; simpl; auto | discriminate].
  unfold step in Hs. pose proof HI as [W1 W2 C E R].
  destruct (t_pc (ts s t)) eqn:Hpc.
  - (* Idle *) destruct (t_todo (ts s t)) as [|o rest]; [discriminate|]. injection Hs as <-.
    constructor; simpl; auto.
    + intros u Hu. mcase u t; [simpl in Hu; destruct (o_code o); discriminate|auto].
    + intros u Hu. specialize (W2 _ Hu). mcase u t; [rewrite Hpc in W2; discriminate|auto].
    + intros u Hu. mcase u t; [simpl in Hu; destruct (o_code o); discriminate|apply E; assumption].
    + intros u r Hu. mcase u t; [simpl in Hu; destruct (o_code o); discriminate|apply (R u); assumption].
  - (* TRLock *) destruct (writer s) eqn:Hw; [discriminate|]. injection Hs as <-.
    mpc HI; [right; split; [reflexivity|]; right; rewrite Hpc; auto | discriminate | intros; discriminate].
  - (* TRead *) injection Hs as <-.
    mpc HI; [right; split; [reflexivity|]; right; rewrite Hpc; auto | discriminate | intros; discriminate].
  - (* TRUnlock *) destruct r; injection Hs as <-.
    + mpc HI; [right; split; [reflexivity|]; right; rewrite Hpc; auto | discriminate | intros; discriminate].
    + mpc HI; [right; split; [reflexivity|]; right; rewrite Hpc; auto | discriminate | intros; discriminate].
  - (* TWLock *) destruct (writer s) eqn:Hw; [discriminate|]. destruct (readers s); [|discriminate]. injection Hs as <-.
    mpc HI; [left; auto | discriminate | intros; discriminate].
  - (* TGen *) assert (Hw : writer s = Some t) by (apply W1; rewrite Hpc; reflexivity).
    destruct (cur s) eqn:Hc.
    + injection Hs as <-. constructor; simpl; auto.
      * intros u Hu. mcase u t; auto.
      * intros u Hu. specialize (W2 _ Hu). mcase u t; auto.
      * intros u Hu. mcase u t; [discriminate|]. assert (writer s = Some u) by (apply W1; rewrite Hu; reflexivity). congruence.
      * intros u r Hu. mcase u t; [simpl in Hu; injection Hu as <-; auto|].
        assert (writer s = Some u) by (apply W1; rewrite Hu; reflexivity). congruence.
    + injection Hs as <-. rewrite <- Hc.
      mpc HI; [left; rewrite Hw; auto | discriminate | intros r E'; injection E' as <-; rewrite Hc; auto].
  - (* TWUnlock *) injection Hs as <-.
    mpc HI; [right; split; [reflexivity|]; left; rewrite Hpc; auto | discriminate | intros; discriminate].
  - (* MLock *) destruct (writer s) eqn:Hw; [discriminate|]. destruct (readers s); [|discriminate]. injection Hs as <-.
    mpc HI; [left; auto | discriminate | intros; discriminate].
  - (* MEq *) destruct (gate_open (open s) (t_gate (ts s t))); [|discriminate]. injection Hs as <-.
    assert (Hw : writer s = Some t) by (apply W1; rewrite Hpc; reflexivity).
    mpc HI; [left; rewrite Hw; auto | | intros; discriminate].
    intro Hq. injection Hq as Hq. apply andb_true_iff in Hq as [Q1 Q2].
    apply Nat.eqb_eq in Q2. apply negb_true_iff in Q1. apply Nat.eqb_neq in Q1. auto.
  - (* MSet *) injection Hs as <-.
    assert (Hw : writer s = Some t) by (apply W1; rewrite Hpc; reflexivity).
    constructor; simpl; auto.
    + intros u Hu. mcase u t; auto.
    + intros u Hu. specialize (W2 _ Hu). mcase u t; auto.
    + destruct eq; auto.
    + intros u Hu. mcase u t; [discriminate|]. assert (writer s = Some u) by (apply W1; rewrite Hu; reflexivity). congruence.
    + intros u r Hu. mcase u t; [discriminate|]. assert (writer s = Some u) by (apply W1; rewrite Hu; reflexivity). congruence.
  - (* MUnlock *) injection Hs as <-.
    mpc HI; [right; split; [reflexivity|]; left; rewrite Hpc; auto | discriminate | intros; discriminate].
Qed.

Lemma mi_run scripts sched : MI (run step sched (init scripts)).
Proof. apply run_inv; [apply mi_step|]. constructor; simpl; intros; try discriminate; auto. Qed.

(* the current resource is always the latest one generated (so generate never ran while a resource
   that nobody reported was present, and no such resource was discarded); the write lock is
   exclusive; a MarkBroken discards the current resource only if it is the one it was given *)
Lemma mr_no_discard scripts sched :
  let s := run step sched (init scripts) in
  (cur s = 0 \/ cur s = ngen s) /\
  (forall t u, wholds (t_pc (ts s t)) = true -> wholds (t_pc (ts s u)) = true -> t = u) /\
  (forall t, t_pc (ts s t) = MSet true -> cur s = t_arg (ts s t) /\ cur s <> 0) /\
  (forall t r, t_pc (ts s t) = TWUnlock r -> cur s = r /\ r <> 0).
Proof.
  intros s. destruct (mi_run scripts sched) as [W1 W2 C E R]. subst s.
  split; [exact C|]. split; [|split; [exact E|exact R]].
  intros t u A B. pose proof (W1 _ A). pose proof (W1 _ B). congruence.
Qed.

(* generate runs only when there is no resource, and its result becomes the current one *)
Lemma mr_generate_step s t : t_pc (ts s t) = TGen ->
  exists s', step (Thr t) s = Some s' /\
             ((cur s = 0 /\ ngen s' = S (ngen s) /\ cur s' = S (ngen s)) \/ (cur s <> 0 /\ ngen s' = ngen s /\ cur s' = cur s)).
Proof.
  intro Hpc. unfold step. rewrite Hpc. destruct (cur s) eqn:Hc; eexists; (split; [reflexivity|]); simpl.
  - left; auto.
  - right; auto.
Qed.
End MRP.

Module IRP.
Import IR.

(* only values that a successful fetch returned are ever stored as the shared resource; in
   particular a fetch that returns an error never changes the resource, whatever value comes with it *)
Definition II (s : state) : Prop :=
  (res s = 0 \/ In (res s) (goods s)) /\
  (forall t, t_pc (ts s t) = IStore -> t_fail (ts s t) = 0 -> In (t_val (ts s t)) (goods s)).

Lemma ii_step interval l s s' : II s -> step interval l s = Some s' -> II s'.
Proof.
  intros [H1 H2] Hs. destruct l as [t|g|d]; [| injection Hs as <-; split; auto | injection Hs as <-; split; auto].
  unfold step in Hs. destruct (t_pc (ts s t)) eqn:Hpc.
  - destruct (t_todo (ts s t)); [discriminate|]. injection Hs as <-. split; simpl; auto.
    intros u. unfold upd. destruct (Nat.eqb u t); [discriminate|apply H2].
  - destruct (res s); injection Hs as <-; (split; simpl; auto; intros u; unfold upd; destruct (Nat.eqb u t); [discriminate|apply H2]).
  - injection Hs as <-. split; simpl; auto. intros u; unfold upd; destruct (Nat.eqb u t); [discriminate|apply H2].
  - destruct (Nat.eqb l 0 || Nat.ltb (l + interval) n); injection Hs as <-; (split; simpl; auto; intros u; unfold upd; destruct (Nat.eqb u t); [discriminate|apply H2]).
  - injection Hs as <-. split; simpl; auto. intros u; unfold upd; destruct (Nat.eqb u t); [discriminate|apply H2].
  - destruct (gate_open (open s) (t_gate (ts s t))); [|discriminate]. injection Hs as <-. split; simpl.
    + destruct H1 as [H1|H1]; [left; assumption|right]. destruct (Nat.eqb (t_fail (ts s t)) 0); [right|]; assumption.
    + intros u. unfold upd. destruct (Nat.eqb u t) eqn:E.
      * simpl. intros _ Hf. rewrite Hf. simpl. left. reflexivity.
      * intros A B. specialize (H2 u A B). destruct (Nat.eqb (t_fail (ts s t)) 0); [right|]; assumption.
  - destruct (Nat.eqb (t_fail (ts s t)) 0) eqn:Ef; injection Hs as <-; split; simpl.
    + right. apply H2; [assumption|]. apply Nat.eqb_eq. assumption.
    + intros u; unfold upd; destruct (Nat.eqb u t); [discriminate|apply H2].
    + assumption.
    + intros u; unfold upd; destruct (Nat.eqb u t); [discriminate|apply H2].
  - injection Hs as <-. split; simpl; auto. intros u; unfold upd; destruct (Nat.eqb u t); [discriminate|apply H2].
Qed.

Lemma ir_only_success_shared interval scripts sched :
  let s := run (step interval) sched (init scripts) in res s = 0 \/ In (res s) (goods s).
Proof.
  intros s. assert (H : II s); [|apply H].
  subst s. apply run_inv; [apply ii_step|]. split; simpl; auto. intros; discriminate.
Qed.

(* a failing fetch leaves the resource alone (only the error is recorded) *)
Lemma ir_failed_fetch_keeps s t interval : t_pc (ts s t) = IStore -> t_fail (ts s t) <> 0 ->
  exists s', step interval (Thr t) s = Some s' /\ res s' = res s /\ err s' = 1.
Proof.
  intros Hpc Hf. unfold step. rewrite Hpc. apply Nat.eqb_neq in Hf. rewrite Hf. eexists. split; [reflexivity|]. auto.
Qed.

(* the refresh decision: fetch again only if never fetched or the interval has passed since the last attempt *)
Lemma ir_retry_interval s t interval l n : t_pc (ts s t) = IDecide l n ->
  exists s', step interval (Thr t) s = Some s' /\
    (t_pc (ts s' t) = IFetchB <-> (l = 0 \/ l + interval < n)) /\ (t_pc (ts s' t) = IFetchB -> last s' = n).
Proof.
  intro Hpc. unfold step. rewrite Hpc.
  destruct (Nat.eqb l 0 || Nat.ltb (l + interval) n) eqn:E; eexists; (split; [reflexivity|]); simpl; rewrite upd_same; simpl.
  - apply orb_true_iff in E. rewrite Nat.eqb_eq, Nat.ltb_lt in E. tauto.
  - apply orb_false_iff in E as [E1 E2]. apply Nat.eqb_neq in E1. apply Nat.ltb_ge in E2. split; [split; [discriminate|lia]|discriminate].
Qed.
End IRP.
