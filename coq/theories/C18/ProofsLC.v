(* C18 ProofsLC: lockedcalls.go -- every trace of the model, for every schedule and any number of
   threads, is accepted by the LockedCalls contract monitor (Spec.lc_mon_step): executions of the
   same key never overlap, every call executes exactly once and returns its own result. *)
From God Require Import Base.Prelude C18.Conc C18.Spec C18.Model C18.ProofsSF.
Import LC.

Definition lholds (p : pc) : bool :=
  match p with LLook | LHitUnlock _ | LPut | LMissUnlock _ | DDel _ | DUnlock _ => true | _ => false end.
Definition linmap_of (p : pc) : option nat :=
  match p with LMissUnlock c | FnB c | FnE c | DLock c | DDel c => Some c | _ => None end.
Definition lown_of (p : pc) : option nat :=
  match p with LMissUnlock c | FnB c | FnE c | DLock c | DDel c | DUnlock c | DDone c => Some c | _ => None end.
Definition lphase (p : pc) : option nat :=
  match p with
  | Idle => None
  | FnE _ => Some 1
  | DLock _ | DDel _ | DUnlock _ | DDone _ => Some 2
  | _ => Some 0
  end.
Definition lwait_of (p : pc) : option nat :=
  match p with LHitUnlock c | LWait c => Some c | _ => None end.
Definition is_fne (p : pc) : bool := match p with FnE _ => true | _ => false end.

Record LI (s : state) : Prop := mkLI {
  l_lock1 : forall t, lholds (t_pc (ts s t)) = true -> lock s = Some t;
  l_lock2 : forall t, lock s = Some t -> lholds (t_pc (ts s t)) = true;
  l_map : forall k c, alookup Nat.eqb k (calls s) = Some c ->
                      linmap_of (t_pc (ts s (cre s c))) = Some c /\ t_key (ts s (cre s c)) = k;
  l_map' : forall t c, linmap_of (t_pc (ts s t)) = Some c -> alookup Nat.eqb (t_key (ts s t)) (calls s) = Some c;
  l_put : forall t, t_pc (ts s t) = LPut -> alookup Nat.eqb (t_key (ts s t)) (calls s) = None;
  l_own : forall t c, lown_of (t_pc (ts s t)) = Some c -> cre s c = t /\ c < next s /\ wg s c = 1;
  l_wait : forall t c, lwait_of (t_pc (ts s t)) = Some c ->
                       c < next s /\ (wg s c = 0 \/ lown_of (t_pc (ts s (cre s c))) = Some c);
  l_pan : panicked s = false
}.

Record LR (m : lc_mon) (s : state) : Prop := mkLR {
  lr_cur : forall t, l_cur m t = match lphase (t_pc (ts s t)) with
                                 | None => None
                                 | Some ph => Some (mkcur (t_key (ts s t)) 0 (cuex ph (t_val (ts s t))) (if Nat.eqb ph 2 then t_val (ts s t) else 0))
                                 end;
  lr_run : forall k, In k (l_running m) -> exists u, is_fne (t_pc (ts s u)) = true /\ t_key (ts s u) = k
}.

Definition LInv (s : state) : Prop :=
  LI s /\ exists m, mon_run lc_mon_step lc_mon0 (rev (trace s)) = Some m /\ LR m s.

Lemma linit_inv scripts : LInv (init scripts).
Proof.
  split.
  - constructor; simpl; intros; try discriminate; auto.
  - exists lc_mon0. split; [reflexivity|]. constructor; simpl; intros; try discriminate; auto. contradiction.
Qed.

Ltac lsp := cbn [setpc t_pc t_key t_val t_gate t_todo t_res linmap_of lown_of lholds lphase is_fne lwait_of].

Lemma linmap_own p c : linmap_of p = Some c -> lown_of p = Some c.
Proof. destruct p; simpl; congruence. Qed.

(* two threads registered for the same key are the same thread *)
Lemma l_unique s t u c d : LI s ->
  linmap_of (t_pc (ts s t)) = Some c -> linmap_of (t_pc (ts s u)) = Some d ->
  t_key (ts s t) = t_key (ts s u) -> t = u.
Proof.
  intros HI Ht Hu Hk.
  pose proof (l_map' _ HI _ _ Ht) as A. pose proof (l_map' _ HI _ _ Hu) as B. rewrite Hk in A.
  assert (c = d) by congruence. subst d.
  destruct (l_own _ HI _ _ (linmap_own _ _ Ht)) as (E1 & _). destruct (l_own _ HI _ _ (linmap_own _ _ Hu)) as (E2 & _). congruence.
Qed.

Lemma LI_pcstep s s' t :
  LI s ->
  calls s' = calls s -> wg s' = wg s -> next s' = next s -> cre s' = cre s ->
  panicked s' = panicked s ->
  (forall u, u <> t -> ts s' u = ts s u) ->
  let p := t_pc (ts s t) in let p' := t_pc (ts s' t) in
  (t_key (ts s' t) = t_key (ts s t) \/ (lown_of p' = None /\ p' <> LPut)) ->
  linmap_of p' = linmap_of p ->
  lown_of p' = lown_of p ->
  (forall c, lwait_of p' = Some c -> lwait_of p = Some c \/
             (alookup Nat.eqb (t_key (ts s t)) (calls s) = Some c /\ lown_of p = None)) ->
  (p' = LPut -> p = LPut \/ alookup Nat.eqb (t_key (ts s t)) (calls s) = None) ->
  ((lholds p' = true /\ lock s' = Some t /\ (lock s = None \/ lock s = Some t)) \/
   (lholds p' = false /\ ((lholds p = true /\ lock s' = None) \/ (lholds p = false /\ lock s' = lock s)))) ->
  LI s'.
Proof.
  intros [L1 L2 M M' P O W Pn] Ec Ew En Ecr Ep Ets p p' Hkey Him Hown Hwait Hput Hlock.
  constructor; rewrite ?Ec, ?Ew, ?En, ?Ecr, ?Ep; auto.
  - intros u Hu. destruct (Nat.eq_dec u t) as [->|Hne].
    + fold p' in Hu. destruct Hlock as [(A & B & C)|(A & _)]; [congruence|congruence].
    + rewrite (Ets _ Hne) in Hu. pose proof (L1 _ Hu) as L1u.
      destruct Hlock as [(A & B & [C|C])|(A & [(B & C)|(B & C)])]; try congruence.
      pose proof (L1 t B). congruence.
  - intros u Hu. destruct (Nat.eq_dec u t) as [->|Hne].
    + fold p'. destruct Hlock as [(A & B & C)|(A & [(B & C)|(B & C)])]; try congruence.
      rewrite C in Hu. specialize (L2 _ Hu). fold p in L2. congruence.
    + rewrite (Ets _ Hne). apply L2.
      destruct Hlock as [(A & B & C)|(A & [(B & C)|(B & C)])]; try congruence.
  - intros k c Hk'. destruct (M _ _ Hk') as [A B].
    destruct (Nat.eq_dec (cre s c) t) as [E|Hne].
    + rewrite E in *. fold p in A. fold p'. rewrite Him. split; [assumption|].
      destruct Hkey as [Hkey|(H1 & _)]; [congruence|].
      assert (lown_of p' = Some c) by (rewrite Hown; apply linmap_own; assumption). congruence.
    + rewrite (Ets _ Hne). auto.
  - intros u c. destruct (Nat.eq_dec u t) as [->|Hne].
    + fold p'. rewrite Him. intro A. specialize (M' t c A).
      destruct Hkey as [Hkey|(H1 & _)]; [congruence|].
      assert (lown_of p' = Some c) by (rewrite Hown; apply linmap_own; assumption). congruence.
    + rewrite (Ets _ Hne). auto.
  - intros u. destruct (Nat.eq_dec u t) as [->|Hne].
    + fold p'. intro A. destruct Hkey as [Hkey|(_ & H3)]; [|congruence]. rewrite Hkey.
      destruct (Hput A) as [B|B]; auto.
    + rewrite (Ets _ Hne). auto.
  - intros u c. destruct (Nat.eq_dec u t) as [->|Hne].
    + fold p'. intro A. apply O. fold p. congruence.
    + rewrite (Ets _ Hne). auto.
  - intros u c. destruct (Nat.eq_dec u t) as [->|Hne].
    + fold p'. intro A. destruct (Hwait _ A) as [B|(B & D)].
      * destruct (W t c B) as (W1 & W4). split; auto.
        destruct W4 as [W4|W4]; auto. right.
        destruct (Nat.eq_dec (cre s c) t) as [E|Hne2]; [|rewrite (Ets _ Hne2); assumption].
        rewrite E in *. fold p in W4. fold p'. congruence.
      * destruct (M _ _ B) as [M1 M2]. pose proof (linmap_own _ _ M1) as Ho.
        destruct (O _ _ Ho) as (O1 & O2 & O3).
        assert (cre s c <> t) by (intro E; rewrite E in Ho; fold p in Ho; congruence).
        split; auto. right. rewrite (Ets _ H). assumption.
    + rewrite (Ets _ Hne). intro A. destruct (W u c A) as (W1 & W4). split; auto.
      destruct W4 as [W4|W4]; auto. right.
      destruct (Nat.eq_dec (cre s c) t) as [E|Hne2]; [|rewrite (Ets _ Hne2); assumption].
      rewrite E in *. fold p in W4. fold p'. congruence.
Qed.

Ltac lpcstep HI t Hpc :=
  eapply (LI_pcstep _ _ t HI); cbn [lock calls wg next open ts trace panicked cre];
  try reflexivity; [ intros ? ?; apply upd_other; assumption | rewrite ?upd_same, ?Hpc; simpl .. ].

Ltac lfin HI t Hpc :=
  try solve [ auto | right; repeat split; congruence | intros; discriminate | right; auto
            | left; repeat split; auto
            | (let L := fresh "L" in pose proof (l_lock1 _ HI t) as L; rewrite Hpc in L; simpl in L; specialize (L eq_refl);
               first [left; repeat split; auto | right; split; [reflexivity|]; left; auto ])
            | right; split; [reflexivity|]; right; auto
            | (let c := fresh "c" in let Hc := fresh "Hc" in intros c Hc; injection Hc as <-; first [left; reflexivity | right; split; auto]) ].

Lemma lstep_I l s s' : LI s -> step l s = Some s' -> LI s'.
Proof.
  intros HI Hs. destruct l as [t|g|d]; [| inv_step Hs; destruct HI; constructor; simpl; auto | discriminate].
  unfold step in Hs.
  destruct (t_pc (ts s t)) eqn:Hpc.
  - (* Idle *) destruct (t_todo (ts s t)) as [|o rest]; [discriminate|]. inv_step Hs.
    lpcstep HI t Hpc; lfin HI t Hpc.
  - (* LLock *) destruct (lock s) eqn:Hl; [discriminate|]. inv_step Hs.
    lpcstep HI t Hpc; lfin HI t Hpc.
  - (* LLook *) destruct (alookup Nat.eqb (t_key (ts s t)) (calls s)) eqn:Hlk; inv_step Hs.
    + lpcstep HI t Hpc; lfin HI t Hpc.
    + lpcstep HI t Hpc; lfin HI t Hpc.
  - (* LHitUnlock *) inv_step Hs. lpcstep HI t Hpc; lfin HI t Hpc.
  - (* LWait *) destruct (Nat.eqb (wg s c) 0); [|discriminate]. inv_step Hs. lpcstep HI t Hpc; lfin HI t Hpc.
  - (* LPut *) inv_step Hs.
    pose proof HI as [L1 L2 M M' P O W Pn].
    assert (Hlt : lock s = Some t) by (apply L1; rewrite Hpc; reflexivity).
    assert (HP : alookup Nat.eqb (t_key (ts s t)) (calls s) = None) by (apply P; assumption).
    assert (Hmapc : forall k c, alookup Nat.eqb k (calls s) = Some c -> c < next s /\ cre s c <> t).
    { intros k c Hk. destruct (M _ _ Hk) as [A B].
      destruct (O _ _ (linmap_own _ _ A)) as (O1 & O2 & _). split; [assumption|]. intro E. rewrite E, Hpc in A. discriminate. }
    constructor; cbn [lock calls wg next open ts trace panicked cre]; auto.
    + intros u. case_t u t; lsp; auto.
    + intros u Hu. specialize (L2 _ Hu). case_t u t; lsp; auto.
    + intros k c. destruct (Nat.eq_dec k (t_key (ts s t))) as [->|Hk].
      * rewrite alookup_aset_eq. intro E'; injection E' as <-. rewrite !upd_same. lsp. auto.
      * rewrite alookup_aset_neq by assumption. intro Hk'. destruct (Hmapc _ _ Hk') as [A B].
        rewrite (upd_other (cre s)) by lia. rewrite upd_other by assumption. apply M; assumption.
    + intros u c. case_t u t; lsp.
      * intro E'; injection E' as <-. apply alookup_aset_eq.
      * intro A. specialize (M' _ _ A). rewrite alookup_aset_neq; [assumption|]. intro E'. rewrite E' in M'. congruence.
    + intros u. case_t u t; lsp; [discriminate|]. intro A. assert (lock s = Some u) by (apply L1; rewrite A; reflexivity). congruence.
    + intros u c. case_t u t; lsp.
      * intro E'; injection E' as <-. rewrite !upd_same. auto.
      * intro A. destruct (O _ _ A) as (O1 & O2 & O3). rewrite !upd_other by lia. auto.
    + intros u c. case_t u t; lsp; [discriminate|]. intro A. destruct (W _ _ A) as (W1 & W4).
      rewrite !(upd_other _ (next s)) by lia. split; [lia|].
      destruct W4 as [W4|W4]; auto. right. case_t (cre s c) t; [rewrite Hpc in W4; discriminate|assumption].
  - (* LMissUnlock *) inv_step Hs. lpcstep HI t Hpc; lfin HI t Hpc.
  - (* FnB *) inv_step Hs. lpcstep HI t Hpc; lfin HI t Hpc.
  - (* FnE *) destruct (gate_open (open s) (t_gate (ts s t))); [|discriminate]. inv_step Hs. lpcstep HI t Hpc; lfin HI t Hpc.
  - (* DLock *) destruct (lock s) eqn:Hl; [discriminate|]. inv_step Hs. lpcstep HI t Hpc; lfin HI t Hpc.
  - (* DDel *) inv_step Hs.
    pose proof HI as [L1 L2 M M' P O W Pn].
    assert (Hlt : lock s = Some t) by (apply L1; rewrite Hpc; reflexivity).
    assert (Hmt : alookup Nat.eqb (t_key (ts s t)) (calls s) = Some c) by (apply M'; rewrite Hpc; reflexivity).
    constructor; cbn [lock calls wg next open ts trace panicked cre]; auto.
    + intros u. case_t u t; lsp; auto.
    + intros u Hu. specialize (L2 _ Hu). case_t u t; lsp; auto.
    + intros k c'. destruct (Nat.eq_dec k (t_key (ts s t))) as [->|Hk].
      * rewrite alookup_aremove_eq. discriminate.
      * rewrite alookup_aremove_neq by assumption. intro Hk'. destruct (M _ _ Hk') as [A B].
        case_t (cre s c') t; [congruence|auto].
    + intros u c'. case_t u t; lsp; [discriminate|]. intro A. pose proof (M' _ _ A) as B.
      rewrite alookup_aremove_neq; [assumption|]. intro E'.
      apply E. apply (l_unique s u t c' c HI A); [rewrite Hpc; reflexivity|assumption].
    + intros u. case_t u t; lsp; [discriminate|]. intro A. assert (lock s = Some u) by (apply L1; rewrite A; reflexivity). congruence.
    + intros u c'. case_t u t; lsp; [|apply O]. intro A. apply O. rewrite Hpc. assumption.
    + intros u c'. case_t u t; lsp; [discriminate|]. intro A. destruct (W _ _ A) as (W1 & W4).
      split; auto. destruct W4 as [W4|W4]; auto. right. case_t (cre s c') t; [rewrite Hpc in W4; lsp; assumption|assumption].
  - (* DUnlock *) inv_step Hs. lpcstep HI t Hpc; lfin HI t Hpc.
  - (* DDone *) inv_step Hs.
    pose proof HI as [L1 L2 M M' P O W Pn].
    destruct (O t c) as (Oc1 & Oc2 & Oc3); [rewrite Hpc; reflexivity|].
    constructor; cbn [lock calls wg next open ts trace panicked cre]; auto.
    + intros u. case_t u t; lsp; [discriminate|auto].
    + intros u Hu. specialize (L2 _ Hu). case_t u t; lsp; auto. rewrite Hpc in L2; discriminate.
    + intros k c' Hk'. destruct (M _ _ Hk') as [A B]. case_t (cre s c') t; [rewrite Hpc in A; discriminate|auto].
    + intros u c'. case_t u t; lsp; [discriminate|apply M'].
    + intros u. case_t u t; lsp; [discriminate|apply P].
    + intros u c'. case_t u t; lsp; [discriminate|]. intro A. destruct (O _ _ A) as (O1 & O2 & O3).
      rewrite upd_other by congruence. auto.
    + intros u c'. case_t u t; lsp; [discriminate|]. intro A. destruct (W _ _ A) as (W1 & W4).
      split; auto. destruct (Nat.eq_dec c' c) as [->|Hc].
      * left. rewrite upd_same. lia.
      * rewrite upd_other by assumption. destruct W4 as [W4|W4]; auto. right.
        case_t (cre s c') t; [rewrite Hpc in W4; simpl in W4; congruence|assumption].
    + rewrite Pn, Oc3. reflexivity.
Qed.

(* ---- the trace stays accepted by the contract monitor ---- *)
Lemma LR_pcstep m s s' t :
  LR m s ->
  (forall u, u <> t -> ts s' u = ts s u) ->
  let p := t_pc (ts s t) in let p' := t_pc (ts s' t) in
  t_key (ts s' t) = t_key (ts s t) -> t_val (ts s' t) = t_val (ts s t) ->
  lphase p' = lphase p -> is_fne p' = is_fne p ->
  LR m s'.
Proof.
  intros [RC RR] Ets p p' Hk Hv Hph Hf. constructor.
  - intros u. destruct (Nat.eq_dec u t) as [->|Hne].
    + fold p'. rewrite Hph, Hk, Hv. apply RC.
    + rewrite (Ets _ Hne). apply RC.
  - intros k Hin. destruct (RR _ Hin) as (u & A & B). exists u.
    destruct (Nat.eq_dec u t) as [->|Hne].
    + fold p'. rewrite Hf, Hk. auto.
    + rewrite (Ets _ Hne). auto.
Qed.

Ltac lrstep HR t Hpc :=
  eapply (LR_pcstep _ _ _ t HR); cbn [lock calls wg next open ts trace panicked cre];
  [ intros ? ?; apply upd_other; assumption | rewrite ?upd_same, ?Hpc; cbn .. ]; reflexivity.

Lemma existsb_eqb_false k l : ~ In k l -> existsb (Nat.eqb k) l = false.
Proof.
  intro H. destruct (existsb (Nat.eqb k) l) eqn:E; [|reflexivity]. exfalso. apply H.
  apply existsb_exists in E as (x & Hx & Hx'). apply Nat.eqb_eq in Hx'. now subst.
Qed.

Lemma lstep_R l s s' m : LI s -> step l s = Some s' ->
  mon_run lc_mon_step lc_mon0 (rev (trace s)) = Some m -> LR m s ->
  exists m', mon_run lc_mon_step lc_mon0 (rev (trace s')) = Some m' /\ LR m' s'.
Proof.
  intros HI Hs Hm HR. destruct l as [t|g|d]; [| inv_step Hs; exists m; split; [assumption|]; destruct HR; constructor; simpl; auto | discriminate].
  unfold step in Hs.
  destruct (t_pc (ts s t)) eqn:Hpc.
  - (* Idle *) destruct (t_todo (ts s t)) as [|o rest]; [discriminate|]. inv_step Hs.
    destruct HR as [RC RR]. pose proof (RC t) as RCt. rewrite Hpc in RCt. simpl in RCt.
    eexists. split.
    { cbn [trace]. simpl rev. rewrite mon_run_app, Hm. simpl. unfold lc_mon_step. cbn [e_t e_k e_a]. rewrite RCt. reflexivity. }
    constructor; cbn [lock calls wg next open ts trace panicked cre l_cur l_running].
    + intros u. case_t u t; lsp; [reflexivity|apply RC].
    + intros k Hin. destruct (RR _ Hin) as (u & A & B). exists u. case_t u t; [rewrite Hpc in A; discriminate|auto].
  - (* LLock *) destruct (lock s) eqn:Hl; [discriminate|]. inv_step Hs. exists m; split; [assumption|]. lrstep HR t Hpc.
  - (* LLook *) destruct (alookup Nat.eqb (t_key (ts s t)) (calls s)) eqn:Hlk; inv_step Hs; (exists m; split; [assumption|]); lrstep HR t Hpc.
  - (* LHitUnlock *) inv_step Hs. exists m; split; [assumption|]. lrstep HR t Hpc.
  - (* LWait *) destruct (Nat.eqb (wg s c) 0); [|discriminate]. inv_step Hs. exists m; split; [assumption|]. lrstep HR t Hpc.
  - (* LPut *) inv_step Hs. exists m; split; [assumption|]. lrstep HR t Hpc.
  - (* LMissUnlock *) inv_step Hs. exists m; split; [assumption|]. lrstep HR t Hpc.
  - (* FnB *) inv_step Hs.
    destruct HR as [RC RR]. pose proof (RC t) as RCt. rewrite Hpc in RCt. simpl in RCt.
    assert (Hnot : ~ In (t_key (ts s t)) (l_running m)).
    { intro Hin. destruct (RR _ Hin) as (u & A & B).
      destruct (t_pc (ts s u)) eqn:Hu; try discriminate.
      assert (u = t) by (apply (l_unique s u t c0 c HI); [rewrite Hu; reflexivity|rewrite Hpc; reflexivity|assumption]).
      subst u. congruence. }
    eexists. split.
    { cbn [trace]. simpl rev. rewrite mon_run_app, Hm. simpl. unfold lc_mon_step. cbn [e_t e_k e_a]. rewrite RCt.
      cbn [cu_key cu_ex cu_inv]. rewrite Nat.eqb_refl, (existsb_eqb_false _ _ Hnot). simpl. reflexivity. }
    constructor; cbn [lock calls wg next open ts trace panicked cre l_cur l_running].
    + intros u. case_t u t; lsp; [reflexivity|apply RC].
    + intros k [<-|Hin].
      * exists t. rewrite upd_same. auto.
      * destruct (RR _ Hin) as (u & A & B). exists u. case_t u t; [rewrite Hpc in A; discriminate|auto].
  - (* FnE *) destruct (gate_open (open s) (t_gate (ts s t))); [|discriminate]. inv_step Hs.
    destruct HR as [RC RR]. pose proof (RC t) as RCt. rewrite Hpc in RCt. simpl in RCt.
    eexists. split.
    { cbn [trace]. simpl rev. rewrite mon_run_app, Hm. simpl. unfold lc_mon_step. cbn [e_t e_k e_a e_b e_c]. rewrite RCt.
      cbn [cu_key cu_ex cu_inv]. rewrite Nat.eqb_refl, end_ex_pan, end_val_pan. simpl. reflexivity. }
    constructor; cbn [lock calls wg next open ts trace panicked cre l_cur l_running].
    + intros u. case_t u t; lsp; [reflexivity|apply RC].
    + intros k Hin. apply filter_In in Hin as [Hin Hk]. destruct (RR _ Hin) as (u & A & B). exists u.
      case_t u t; [|auto]. rewrite B, Nat.eqb_refl in Hk. discriminate.
  - (* DLock *) destruct (lock s) eqn:Hl; [discriminate|]. inv_step Hs. exists m; split; [assumption|]. lrstep HR t Hpc.
  - (* DDel *) inv_step Hs. exists m; split; [assumption|]. lrstep HR t Hpc.
  - (* DUnlock *) inv_step Hs. exists m; split; [assumption|]. lrstep HR t Hpc.
  - (* DDone *) inv_step Hs.
    destruct HR as [RC RR]. pose proof (RC t) as RCt. rewrite Hpc in RCt. simpl in RCt.
    eexists. split.
    { cbn [trace]. simpl rev. rewrite mon_run_app, Hm. simpl. unfold lc_mon_step. cbn [e_t e_k e_a e_b e_c]. rewrite RCt.
      cbn [cu_key cu_ex cu_inv cu_val]. destruct (cuex_ret (t_val (ts s t))) as [CR1 CR2].
      rewrite !Nat.eqb_refl, CR1, CR2. simpl. reflexivity. }
    constructor; cbn [lock calls wg next open ts trace panicked cre l_cur l_running].
    + intros u. case_t u t; lsp; [reflexivity|apply RC].
    + intros k Hin. destruct (RR _ Hin) as (u & A & B). exists u. case_t u t; [rewrite Hpc in A; discriminate|auto].
Qed.

Lemma lstep_Inv l s s' : LInv s -> step l s = Some s' -> LInv s'.
Proof.
  intros [HI (m & Hm & HR)] Hs. split; [eapply lstep_I; eauto|]. eapply lstep_R; eauto.
Qed.

Lemma lrun_Inv scripts sched : LInv (run step sched (init scripts)).
Proof. apply run_inv; [apply lstep_Inv|apply linit_inv]. Qed.

Lemma lc_exclusive scripts sched :
  let s := run step sched (init scripts) in
  lc_accepts (rev (trace s)) = true /\ panicked s = false.
Proof.
  destruct (lrun_Inv scripts sched) as [HI (m & Hm & _)]. split; [|apply HI].
  unfold lc_accepts, accepts. now rewrite Hm.
Qed.

(* the exclusion itself, on states: two threads inside fn (or anywhere between registering and
   deleting the key) with the same key are the same thread *)
Lemma lc_exclusive_state scripts sched t u c d :
  let s := run step sched (init scripts) in
  linmap_of (t_pc (ts s t)) = Some c -> linmap_of (t_pc (ts s u)) = Some d ->
  t_key (ts s t) = t_key (ts s u) -> t = u.
Proof. intros s; subst s. destruct (lrun_Inv scripts sched) as [HI _]. apply l_unique; assumption. Qed.

(* ---- panicking user functions (scripted value 0) ---- *)
Lemma lc_cleanup_unconditional s t c :
  (t_pc (ts s t) = FnE c -> gate_open (open s) (t_gate (ts s t)) = true ->
     exists s', step (Thr t) s = Some s' /\ t_pc (ts s' t) = DLock c) /\
  (t_pc (ts s t) = DLock c -> lock s = None -> exists s', step (Thr t) s = Some s' /\ t_pc (ts s' t) = DDel c) /\
  (t_pc (ts s t) = DDel c -> exists s', step (Thr t) s = Some s' /\ t_pc (ts s' t) = DUnlock c /\
     alookup Nat.eqb (t_key (ts s t)) (calls s') = None) /\
  (t_pc (ts s t) = DUnlock c -> exists s', step (Thr t) s = Some s' /\ t_pc (ts s' t) = DDone c /\ lock s' = None) /\
  (t_pc (ts s t) = DDone c -> exists s', step (Thr t) s = Some s' /\ t_pc (ts s' t) = Idle /\ wg s' c = wg s c - 1).
Proof.
  repeat split; intros Hpc; unfold step; rewrite Hpc.
  - intros ->. eexists. split; [reflexivity|]. cbn [ts]. rewrite upd_same. reflexivity.
  - intros ->. eexists. split; [reflexivity|]. cbn [ts]. rewrite upd_same. reflexivity.
  - eexists. split; [reflexivity|]. cbn [ts calls]. rewrite upd_same. split; [reflexivity|apply alookup_aremove_eq].
  - eexists. split; [reflexivity|]. cbn [ts lock]. rewrite upd_same. split; reflexivity.
  - eexists. split; [reflexivity|]. cbn [ts wg]. rewrite !upd_same. split; reflexivity.
Qed.

(* once the call holding the key is gone (returned or unwound by a panic) the key is free: the
   threads waiting for it can retry, and no entry for it is left, so one of them executes next *)
Lemma lc_panic_safe scripts sched :
  let s := run step sched (init scripts) in
  (forall u c, t_pc (ts s u) = LWait c -> lown_of (t_pc (ts s (cre s c))) <> Some c ->
               exists s', step (Thr u) s = Some s' /\ t_pc (ts s' u) = LLock) /\
  (forall k c, alookup Nat.eqb k (calls s) = Some c -> lown_of (t_pc (ts s (cre s c))) = Some c).
Proof.
  intros s; subst s. set (s := run step sched (init scripts)).
  assert (HI : LI s) by apply lrun_Inv. clearbody s. split.
  - intros u c Hpc Hgone.
    assert (Hw : lwait_of (t_pc (ts s u)) = Some c) by (rewrite Hpc; reflexivity).
    destruct (l_wait _ HI u c Hw) as (_ & [W|W]); [|contradiction].
    unfold step. rewrite Hpc, W. simpl. eexists. split; [reflexivity|]. cbn [ts]. rewrite upd_same. reflexivity.
  - intros k c Hk. destruct (l_map _ HI _ _ Hk) as [A _]. apply linmap_own. assumption.
Qed.
