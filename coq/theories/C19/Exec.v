(* C19 Exec: checkers evaluated by vm_compute on (script, observed directory contents).
   The driver lets every postRotate goroutine compress immediately after its rotation and holds its
   delete phase until the script releases it, oldest first; each release reports the directory before,
   the files OutdatedFiles returned (with their contents), the boundary it computed before/after the
   call (b0, b1: they differ only if the wall clock ticked in between) and the directory after. *)
From God Require Import Base.Prelude C19.Spec.
From God Require Export C19.Model.
Local Open Scope Z_scope.

Inductive xevent :=
| XWrite (r : record) (now : name)
| XDelete (b0 b1 : name) (before : list name) (outs : fsys) (after : list name)
| XRestart (rot0 now0 : name)
| XWriteHold (r : record) (now : name)   (* held-compress stream: the compress phase waits for XGzip *)
| XRemove (n : name)                      (* somebody removes a directory entry (with its content) *)
| XGzip.                                 (* the oldest held compress phase runs *)

Record case := mkcase {
  k_cfg : config;
  k_seeds : fsys;                 (* directory at start-up *)
  k_rot0 : name;
  k_now0 : name;
  k_events : list xevent;
  k_final : fsys;                 (* observed directory after Close and the last clean-up *)
  k_setup : option setup;         (* configuration stream: the logx.Config the rule was built from by
                                     newFileWriter/createOutput; k_cfg is then the rule OBSERVED on the logger *)
  k_hyp : bool;                   (* the proviso of the durability clauses, measured on the observed rotations: no
                                     clock string was chosen for two backup names (rotations a second apart) *)
  k_front_ok : bool               (* front-end stream: every record reached RotateLogger.Write as exactly one
                                     slice holding its well-formed encoding (Spec.frontend_ok); true otherwise *)
}.

(* the bytes of a (printable ASCII) string *)
Definition sn (s : String.string) : name := map Ascii.N_of_ascii (String.list_ascii_of_string s).

(* ---- comparison of files: zero-length records leave no trace on disk *)
Definition visible (cnt : content) : content := filter (fun r => 0 <? rlen r) cnt.
Definition rec_eqb (a b : record) : bool := Nat.eqb (rid a) (rid b) && (rlen a =? rlen b).
Definition file_eqb (a b : file) : bool :=
  list_eqb rec_eqb (visible (fst a)) (visible (fst b)) && Nat.eqb (snd a) (snd b).
Definition names_eqb : list name -> list name -> bool := list_eqb name_eqb.
Definition fs_eqb (a b : fsys) : bool :=
  names_eqb (ls a) (ls b) &&
  forallb (fun n => option_eqb file_eqb (fs_get n a) (fs_get n b)) (ls a).

(* ---- the driver's schedule on the model *)
(* directory entries that are no regular files are listed with a layer count >= 77 (77 directory,
   78 symlink to /dev/full); os.Create / writing of F.gz fails on them *)
Definition obstacle (n : name) (fs : fsys) : bool :=
  match fs_get n fs with Some (_, d) => (77 <=? d)%nat | None => false end.

(* A rotation whose os.Rename fails (a non-empty directory, layer count 79, sits at the backup name) is an I/O
   error outside Model.rotate and the theorems. What the code does is pinned here: rotate :338-352 has closed
   l.fp and set it to nil before the rename; on the error it returns without reopening, write :323-333 then skips
   the record (reopen = false: HEAD). The rotation is retried with the next record. reopen = true describes a
   rotate that reopens the current file on failure: the record is appended, nothing else changes. *)
Definition rename_blocked (c : config) (s : state) (r : record) (now : name) : bool :=
  shall_rotate c (s_rot s) now (s_size s + rlen r) && fs_exists (c_file c) (s_fs s) &&
  match fs_get (s_backup s) (s_fs s) with Some (_, d) => Nat.eqb d 79 | None => false end.

Definition write_x (reopen : bool) (c : config) (s : state) (r : record) (now : name) : state :=
  if rename_blocked c s r now then
    if reopen
    then mkst (fs_append (c_file c) r (s_fs s)) true (s_backup s) (s_size s + rlen r) (s_rot s) (s_posts s) (s_removed s)
    else mkst (s_fs s) false (s_backup s) (s_size s) (s_rot s) (s_posts s) (s_removed s)
  else step c s (EWrite r now).

Definition write_and_compress (reopen : bool) (c : config) (s : state) (r : record) (now : name) : state :=
  let s' := write_x reopen c s r now in
  let k := List.length (s_posts s) in
  match nth_error (s_posts s') k with
  | Some (f, _) =>
      if obstacle (f ++ gzip_ext) (s_fs s') then step c s' (EGzipFail k None) else step c s' (EGzip k)
  | None => s'
  end.

Fixpoint first_phase1 (l : list (name * nat)) (i : nat) : option nat :=
  match l with
  | [] => None
  | (_, 1%nat) :: _ => Some i
  | _ :: r => first_phase1 r (S i)
  end.

Fixpoint first_phase0 (l : list (name * nat)) (i : nat) : option nat :=
  match l with
  | [] => None
  | (_, O) :: _ => Some i
  | _ :: r => first_phase0 r (S i)
  end.

Definition gzip_oldest (c : config) (s : state) : option state :=
  match first_phase0 (s_posts s) 0 with
  | None => None
  | Some k =>
      match nth_error (s_posts s) k with
      | Some (f, _) =>
          Some (if obstacle (f ++ gzip_ext) (s_fs s) then step c s (EGzipFail k None) else step c s (EGzip k))
      | None => None
      end
  end.

Definition delete_ok (c : config) (s : state) (k : nat) (b : name) (before : list name) (outs : fsys) (after : list name) : option state :=
  let s' := step c s (EDelete k b) in
  let mouts := outdated_files c (s_fs s) b in
  if names_eqb (ls (s_fs s)) before && names_eqb mouts (ls outs) &&
     forallb (fun n => option_eqb file_eqb (fs_get n (s_fs s)) (fs_get n outs)) mouts &&
     names_eqb (ls (s_fs s')) after
  then Some s' else None.

Fixpoint model_run (reopen : bool) (c : config) (s : state) (evs : list xevent) : option state :=
  match evs with
  | [] => Some s
  | XWrite r now :: rest => model_run reopen c (write_and_compress reopen c s r now) rest
  | XRemove n :: rest =>
      model_run reopen c (mkst (fs_remove n (s_fs s)) (s_fp s) (s_backup s) (s_size s) (s_rot s) (s_posts s) (s_removed s)) rest
  | XRestart rot0 now0 :: rest => model_run reopen c (step c s (ERestart rot0 now0)) rest
  | XWriteHold r now :: rest => model_run reopen c (write_x reopen c s r now) rest
  | XGzip :: rest => match gzip_oldest c s with Some s' => model_run reopen c s' rest | None => None end
  | XDelete b0 b1 before outs after :: rest =>
      match first_phase1 (s_posts s) 0 with
      | None => None
      | Some k =>
          match delete_ok c s k b0 before outs after with
          | Some s' => model_run reopen c s' rest
          | None =>
              match delete_ok c s k b1 before outs after with
              | Some s' => model_run reopen c s' rest
              | None => None
              end
          end
      end
  end.

Definition model_ok_with (reopen : bool) (k : case) : bool :=
  let c := k_cfg k in
  match model_run reopen c (init c (k_seeds k) (k_rot0 k) (k_now0 k)) (k_events k) with
  | Some s => fs_eqb (s_fs s) (k_final k)
  | None => false
  end.
Definition model_ok (k : case) : bool := model_ok_with false k || model_ok_with true k.

(* ---- the property on the observations alone *)
Definition wrecs (evs : list xevent) : content :=
  visible (flat_map (fun e => match e with XWrite r _ | XWriteHold r _ => [r] | _ => [] end) evs).
Definition graveyard (evs : list xevent) : fsys :=
  flat_map (fun e => match e with XDelete _ _ _ outs _ => outs | _ => [] end) evs.
Definition stamps (k : case) : list name :=
  k_now0 k :: flat_map (fun e => match e with XWrite _ now | XWriteHold _ now => [now] | XRestart _ now0 => [now0] | _ => [] end) (k_events k).

(* the configuration the property speaks of: the configured one when the case went through logx.Config *)
Definition spec_cfg (k : case) : config :=
  match k_setup k with Some u => rule_of_config (c_file (k_cfg k)) u | None => k_cfg k end.

Definition cfg_eqb (a b : config) : bool :=
  match c_kind a, c_kind b with Daily, Daily | SizeLimit, SizeLimit => true | _, _ => false end &&
  name_eqb (c_file a) (c_file b) && name_eqb (c_delim a) (c_delim b) && (c_days a =? c_days b) &&
  Bool.eqb (c_gzip a) (c_gzip b) && Bool.eqb (c_compress a) (c_compress b) &&
  (c_max_size a =? c_max_size b) && (c_max_backups a =? c_max_backups b).

Definition is_w (w : content) (r : record) : bool := existsb (fun x => Nat.eqb (rid x) (rid r)) w.
Definition w_part (w : content) (f : name * file) : content := filter (is_w w) (fst (snd f)).

(* stable insertion sort of directory entries by name *)
Fixpoint insert_entry (x : name * file) (l : fsys) : fsys :=
  match l with
  | [] => [x]
  | y :: r => if name_ltb (fst x) (fst y) then x :: l else y :: insert_entry x r
  end.
Definition sort_entries (l : fsys) : fsys := fold_right insert_entry [] l.

Fixpoint nondecreasing (l : list name) : bool :=
  match l with
  | a :: ((b :: _) as r) => negb (name_ltb b a) && nondecreasing r
  | _ => true
  end.

(* (1) durability: every accepted record once, complete; in name order across backups then current *)
Definition once_complete (w : content) (all : fsys) : bool :=
  let recs := flat_map (fun f => fst (snd f)) all in
  forallb (fun x => match filter (fun r => Nat.eqb (rid r) (rid x)) recs with
                    | [r] => rlen r =? rlen x
                    | _ => false
                    end) w.

Definition in_order (k : case) (w : content) (all : fsys) : bool :=
  let cur := c_file (spec_cfg k) in
  let backups := sort_entries (filter (fun f => negb (name_eqb (fst f) cur)) all) in
  let current := filter (fun f => name_eqb (fst f) cur) (k_final k) in
  list_eqb rec_eqb (flat_map (w_part w) (backups ++ current)) w.

(* (2) size rule: a file the writer appended to exceeds the limit by at most its last record *)
Definition overshoot_ok (k : case) (w : content) (all : fsys) : bool :=
  let c := spec_cfg k in
  match c_kind c with
  | Daily => true
  | SizeLimit =>
      (* while a rotation cannot be carried out (rename blocked by a non-empty directory) the file has to grow *)
      if existsb (fun f => Nat.eqb (snd (snd f)) 79) (k_seeds k) then true else
      if 0 <? c_max_size c then
        forallb (fun f => match w_part w f with
                          | [] => true
                          | _ => bytes (removelast (visible (fst (snd f)))) <=? c_max_size c
                          end) all
      else true
  end.

(* (2b) compression on: once every post-rotation task has run, every backup holding accepted records is
   gzip-compressed -- unless something that is no regular file sits, or sat at start-up, at its .gz path
   (compression failed) *)
Definition all_compressed (k : case) (w : content) : bool :=
  let c := spec_cfg k in
  if c_compress c then
    forallb (fun f => match w_part w f with
                      | [] => true
                      | _ => name_eqb (fst f) (c_file c) || (1 <=? snd (snd f))%nat ||
                             obstacle (fst f ++ gzip_ext) (k_final k) || obstacle (fst f ++ gzip_ext) (k_seeds k)
                      end) (k_final k)
  else true.

(* (3) clean-up *)
Definition is_matched (c : config) (n : name) : bool := glob_match (bpre c) (bsuf c ++ gz_opt c) n.
Definition newer_count (c : config) (before : list name) (n : name) : Z :=
  Z.of_nat (List.length (filter (fun g => is_matched c g && name_ltb n g) before)).
Definition mem (n : name) (l : list name) : bool := existsb (name_eqb n) l.

Definition delete_spec (c : config) (b0 b1 : name) (before : list name) (outs : fsys) (after : list name) : bool :=
  let onames := map fst outs in
  let old n := (0 <? c_days c) && (name_ltb n (boundary_file c b0) || name_ltb n (boundary_file c b1)) in
  let surely_not_old n := (c_days c <=? 0) || (negb (name_ltb n (boundary_file c b0)) && negb (name_ltb n (boundary_file c b1))) in
  let beyond n := match c_kind c with
                  | SizeLimit => (0 <? c_max_backups c) && (c_max_backups c <=? newer_count c before n)
                  | Daily => false
                  end in
  let within n := match c_kind c with
                  | SizeLimit => (c_max_backups c <=? 0) || (newer_count c before n <? c_max_backups c)
                  | Daily => true
                  end in
  (* only outdated backups are named, never the current file *)
  forallb (fun n => mem n before && is_matched c n && negb (name_eqb n (c_file c)) && (old n || beyond n)) onames &&
  (* the newest backups are kept *)
  forallb (fun n => if is_matched c n && surely_not_old n && within n then negb (mem n onames) else true) before &&
  (* nothing else disappears (a backup may be replaced by its .gz by a concurrent compress phase) *)
  forallb (fun n => mem n after || mem n onames || mem (n ++ gzip_ext) after) before &&
  mem (c_file c) after.

Definition spec_ok (k : case) : bool :=
  let c := spec_cfg k in
  let w := wrecs (k_events k) in
  let all := graveyard (k_events k) ++ k_final k in
  k_front_ok k &&
  (* the configured numbers reached the rule unchanged *)
  cfg_eqb c (k_cfg k) &&
  (* durability -- under the property's proviso; what HEAD does when two rotations fall into one second (the
     second rename replaces the first backup) is pinned by model_ok only *)
  (if k_hyp k then once_complete w all && (if nondecreasing (stamps k) then in_order k w all else true) else true) &&
  overshoot_ok k w all &&
  all_compressed k w &&
  forallb (fun e => match e with
                    | XDelete b0 b1 before outs after => delete_spec c b0 b1 before outs after
                    | _ => true
                    end) (k_events k) &&
  fs_exists (c_file c) (k_final k).

(* hypotheses of the theorems, measured per case *)
Fixpoint nodup_names (l : list name) : bool :=
  match l with [] => true | a :: r => negb (mem a r) && nodup_names r end.
Definition hyp_ok (k : case) : bool :=
  let c := k_cfg k in
  negb (name_eqb (c_delim c) []) &&
  forallb (fun t => Nat.eqb (List.length t) (List.length (k_now0 k))) (stamps k).
