(* C19 Link: what gogen regenerates from lib/logx/rotatelogger.go is what the model uses. *)
From God Require Import Base.Prelude C19.Model C19.Spec C19.Proofs C19.Exec C19.GenEnv.
From Coq Require Import String Ascii.
From GodGen Require C19_Gen.
Local Open Scope Z_scope.

Definition bytes_of_string (s : string) : name := map N_of_ascii (list_ascii_of_string s).

Lemma link_megaBytes : C19_Gen.megaBytes = mega_bytes.
Proof. reflexivity. Qed.

Lemma link_gzipExt : bytes_of_string C19_Gen.gzipExt = gzip_ext.
Proof. reflexivity. Qed.

(* the daily clock strings have the fixed width the theorems assume *)
Lemma link_dateFormat : C19_Gen.dateFormat = "2006-01-02"%string /\ String.length C19_Gen.dateFormat = 10%nat.
Proof. split; reflexivity. Qed.

Lemma link_hoursPerDay : C19_Gen.hoursPerDay = 24.
Proof. reflexivity. Qed.

(* SizeLimitRotateRule.ShallRotate is the model's predicate, for all inputs *)
Lemma link_size_shall_rotate : forall max_size size,
  C19_Gen.size_shall_rotate max_size size = size_shall_rotate max_size size.
Proof. intros. unfold C19_Gen.size_shall_rotate, size_shall_rotate. rewrite Z.gtb_ltb. reflexivity. Qed.

(* DailyRotateRule.ShallRotate, with date strings encoded relative to the current date *)
Definition enc (now s : name) : Z :=
  match s with [] => -1 | _ => if name_eqb s now then 0 else 1 end.

Lemma link_daily_shall_rotate : forall now rotated size, now <> [] ->
  C19_Gen.daily_shall_rotate (enc now rotated) size = daily_shall_rotate rotated now.
Proof.
  intros now rotated size Hn. unfold C19_Gen.daily_shall_rotate, daily_shall_rotate, go_len, go_eqb, go_now_date, enc.
  destruct rotated as [|x r]; [reflexivity|].
  destruct (name_eqb (x :: r) now) eqn:E.
  - apply name_eqb_eq in E. subst now. rewrite name_eqb_refl. reflexivity.
  - assert (E' : name_eqb now (x :: r) = false).
    { destruct (name_eqb now (x :: r)) eqn:E2; [apply name_eqb_eq in E2; subst; rewrite name_eqb_refl in E; discriminate | reflexivity]. }
    rewrite E'. reflexivity.
Qed.

(* call skeletons: write = ShallRotate, rotate, MarkRotated, then fp.Write; rotate = close, stat, rename,
   postRotate, new backup name, create; postRotate = one goroutine: compress, then delete;
   delete = OutdatedFiles then os.Remove; gzipFile removes the source last *)
Lemma link_write_calls : C19_Gen.write_calls =
  ["len"; "int64"; "l.rule.ShallRotate"; "l.rotate"; "log.Println"; "l.rule.MarkRotated"; "l.fp.Write"; "len"; "int64"]%string.
Proof. reflexivity. Qed.

Lemma link_rotate_calls :
  C19_Gen.rotate_calls =
  ["l.fp.Close"; "return"; "os.Stat"; "len"; "l.getBackupFilename"; "os.Rename"; "return"; "l.postRotate";
   "l.rule.BackupFilename"; "os.Create"; "fs.CloseOnExec"; "return"]%string \/
  (* with the proposed repair of the failed-rotation finding: the current file is reopened when os.Rename fails *)
  C19_Gen.rotate_calls =
  ["l.fp.Close"; "return"; "os.Stat"; "len"; "l.getBackupFilename"; "os.Rename"; "os.OpenFile"; "fs.CloseOnExec";
   "return"; "l.postRotate"; "l.rule.BackupFilename"; "os.Create"; "fs.CloseOnExec"; "return"]%string.
Proof. first [left; reflexivity | right; reflexivity]. Qed.

Lemma link_post_rotate_calls : C19_Gen.post_rotate_calls =
  ["go:func"; "{"; "l.maybeCompressFile"; "l.maybeDeleteOutdatedFiles"; "}"]%string.
Proof. reflexivity. Qed.

Lemma link_delete_calls : C19_Gen.delete_calls = ["l.rule.OutdatedFiles"; "os.Remove"; "Errorf"]%string.
Proof. reflexivity. Qed.

Lemma link_gzip_calls : C19_Gen.gzip_calls =
  ["os.Open"; "return"; "defer:in.Close"; "fmt.Sprintf"; "os.Create"; "return"; "defer:out.Close"; "gzip.NewWriter";
   "io.Copy"; "return"; "w.Close"; "return"; "os.Remove"; "return"]%string.
Proof. reflexivity. Qed.

(* the configuration path: createOutput passes the options to the constructors in parameter order
   (filename, delimiter, days, maxSize, maxBackups, gzip) / (filename, delimiter, days, gzip), and the same
   gzip flag to NewLogger; Model.rule_of_options is that record copy *)
Lemma link_size_rule_args : C19_Gen.size_rule_args =
  ["path"; "backupFileDelimiter"; "options.keepDays"; "options.maxSize"; "options.maxBackups"; "options.gzipEnabled"]%string.
Proof. reflexivity. Qed.

Lemma link_daily_rule_args : C19_Gen.daily_rule_args =
  ["path"; "backupFileDelimiter"; "options.keepDays"; "options.gzipEnabled"]%string.
Proof. reflexivity. Qed.

Lemma link_new_logger_args : C19_Gen.new_logger_args = ["path"; "NewSizeLimitRotateRule"; "options.gzipEnabled"]%string.
Proof. reflexivity. Qed.

Lemma link_backupFileDelimiter : bytes_of_string C19_Gen.backupFileDelimiter = backup_file_delimiter.
Proof. reflexivity. Qed.

Lemma link_accessFilename : C19_Gen.accessFilename = "access.log"%string.
Proof. reflexivity. Qed.

(* init: backup name first, then stat; a missing file is created, an existing one opened (O_APPEND) and
   its size taken; CloseOnExec on either *)
Lemma link_init_calls : C19_Gen.init_calls =
  ["l.rule.BackupFilename"; "os.Stat"; "path.Dir"; "os.Stat"; "os.MkdirAll"; "return"; "os.Create"; "return";
   "os.OpenFile"; "return"; "fileInfo.Size"; "fs.CloseOnExec"; "return"]%string.
Proof. reflexivity. Qed.

(* one record = one slice: every front-end writer hands its whole line to the io.Writer in exactly one call,
   and RotateLogger.Write queues what it is given with exactly one channel send (after copying it) *)
Definition hands_over (l : list string) : nat :=
  (count_occ string_dec l "fmt.Fprint"%string + count_occ string_dec l "writer.Write"%string +
   count_occ string_dec l "io.WriteString"%string + count_occ string_dec l "fmt.Fprintf"%string +
   count_occ string_dec l "fmt.Fprintln"%string)%nat.

Lemma link_plain_text_one_write : hands_over C19_Gen.write_plain_text_calls = 1%nat.
Proof. reflexivity. Qed.

Lemma link_plain_value_one_write : hands_over C19_Gen.write_plain_value_calls = 1%nat.
Proof. reflexivity. Qed.

Lemma link_json_one_write : hands_over C19_Gen.write_json_calls = 1%nat.
Proof. reflexivity. Qed.

Lemma link_rotate_write_one_send :
  count_occ string_dec C19_Gen.rotate_write_calls "send:l.channel"%string = 1%nat /\
  count_occ string_dec C19_Gen.rotate_write_calls "copy"%string = 1%nat.
Proof. split; reflexivity. Qed.

(* ---- soundness of the executable tests used by Exec.spec_ok *)
Lemma is_matched_sound c n :
  is_matched c n = true <-> exists mid, n = bpre c ++ mid ++ bsuf c ++ gz_opt c.
Proof. unfold is_matched. apply glob_match_spec. Qed.

Lemma name_ltb_sound a b : name_ltb a b = true <-> name_lt a b.
Proof. apply name_ltb_lt. Qed.

Lemma mem_sound n l : mem n l = true <-> In n l.
Proof.
  unfold mem. rewrite existsb_exists. split.
  - intros [x [Hx E]]. apply name_eqb_eq in E. subst; assumption.
  - intro H. exists n. split; [assumption | apply name_eqb_refl].
Qed.

(* a file named by a clean-up that passes delete_spec is an outdated backup in the sense of the Spec,
   read on the observed directory listing *)
Lemma delete_spec_outdated c b0 b1 before outs after n :
  delete_spec c b0 b1 before outs after = true -> In n (map fst outs) ->
  In n before /\ (exists mid, n = bpre c ++ mid ++ bsuf c ++ gz_opt c) /\ n <> c_file c /\
  ((0 < c_days c /\ (name_lt n (boundary_file c b0) \/ name_lt n (boundary_file c b1))) \/
   (c_kind c = SizeLimit /\ 0 < c_max_backups c /\ c_max_backups c <= newer_count c before n)).
Proof.
  unfold delete_spec. rewrite !andb_true_iff. intros [[[H _] _] _] Hin.
  rewrite forallb_forall in H. specialize (H n Hin). rewrite !andb_true_iff in H.
  destruct H as [[[H1 H2] H3] H4].
  split; [apply mem_sound; assumption|]. split; [apply is_matched_sound; assumption|].
  split; [intro E; subst n; rewrite name_eqb_refl in H3; discriminate|].
  apply orb_true_iff in H4 as [H4|H4].
  - left. apply andb_true_iff in H4 as [D O]. split; [lia|].
    apply orb_true_iff in O as [O|O]; [left | right]; apply name_ltb_lt; assumption.
  - right. destruct (c_kind c); [discriminate|]. apply andb_true_iff in H4 as [M N']. split; [reflexivity | lia].
Qed.
