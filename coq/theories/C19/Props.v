(* C19 Props: rotating log files lose no lines and delete only outdated backups.
   c = rule and logger configuration, fs0 = the directory found at start-up, rot0/now0 = the clock
   strings seen by the rule constructor and by init, h = any history of processed writes (each with
   the clock string the rule sees) interleaved with the phases of the postRotate goroutines.
   Hypotheses: non-empty delimiter; a pre-existing current file is plain; clock strings of one
   fixed width and no clock string used for two backup names (stamps_ok). *)
From God Require Import Base.Prelude C19.Model C19.Spec C19.Proofs.
Local Open Scope Z_scope.

(* The backups in rotation order followed by the current file are exactly the pre-existing content of
   the current file followed by the processed records, in order, for any number of rotations and both
   rules; every chunk is in one place: plain, gzipped once, or removed by clean-up with that content.
   The backup names are the rule's names for the clock strings of the rotations, in that order. *)
Theorem c19_no_loss_no_dup_in_order : forall c width fs0 rot0 now0 h,
  c_delim c <> [] -> current_plain c fs0 ->
  stamps_ok c width (init c fs0 rot0 now0) now0 h ->
  let s := run c (init c fs0 rot0 now0) h in
  exists chunks cur,
    decomposition c s chunks cur /\
    concat chunks ++ cur = init_content c fs0 ++ written h /\
    map fst (s_posts s) ++ [s_backup s] = map (backup_filename c) (used_stamps c (init c fs0 rot0 now0) [now0] h).
Proof. exact no_loss. Qed.
Print Assumptions c19_no_loss_no_dup_in_order.

(* with monotone fixed-width clock strings, rotation order is name order (also across the .gz suffix) *)
Theorem c19_name_order_is_time_order : forall c s t x y,
  List.length s = List.length t -> s <> t ->
  lex_cmp (backup_filename c s ++ x) (backup_filename c t ++ y) = lex_cmp s t.
Proof. exact name_order_is_time_order. Qed.
Print Assumptions c19_name_order_is_time_order.

Theorem c19_each_record_one_file : forall c width fs0 rot0 now0 h,
  c_delim c <> [] -> current_plain c fs0 ->
  stamps_ok c width (init c fs0 rot0 now0) now0 h ->
  NoDup (map rid (init_content c fs0 ++ written h)) ->
  let s := run c (init c fs0 rot0 now0) h in
  exists chunks cur,
    decomposition c s chunks cur /\
    (forall r, In r (written h) -> exists i, In r (nth i (chunks ++ [cur]) [])) /\
    (forall i j r, In r (nth i (chunks ++ [cur]) []) -> In r (nth j (chunks ++ [cur]) []) -> i = j).
Proof. exact each_record_one_file. Qed.
Print Assumptions c19_each_record_one_file.

(* compression replaces F by F.gz whose bytes are gzip of F's bytes; reading it back through one more
   gunzip layer gives the records' bytes again -- for every codec with gunzip (gzip b) = b *)
Theorem c19_gzip_roundtrip : forall (enc : record -> list N) (gzip gunzip : list N -> list N),
  (forall b, gunzip (gzip b) = b) ->
  forall c F fs cnt d, c_compress c = true -> fs_get F fs = Some (cnt, d) ->
  let fs' := compress_file c F fs in
  fs_get F fs' = None /\
  fs_get (F ++ gzip_ext) fs' = Some (cnt, S d) /\
  on_disk enc gzip (cnt, S d) = gzip (on_disk enc gzip (cnt, d)) /\
  read_back gunzip (S d) (on_disk enc gzip (cnt, S d)) = raw enc cnt.
Proof. intros enc gzip gunzip H. exact (gzip_roundtrip enc gzip gunzip H). Qed.
Print Assumptions c19_gzip_roundtrip.

(* size rule: every file the writer appended to is within max_size or consists of one record *)
Theorem c19_size_overshoot : forall c width fs0 rot0 now0 h,
  c_delim c <> [] -> current_plain c fs0 ->
  stamps_ok c width (init c fs0 rot0 now0) now0 h ->
  c_kind c = SizeLimit -> 0 < c_max_size c ->
  let s := run c (init c fs0 rot0 now0) h in
  exists chunks cur,
    decomposition c s chunks cur /\
    concat chunks ++ cur = init_content c fs0 ++ written h /\
    Forall (size_ok (c_max_size c) (init_content c fs0)) (chunks ++ [cur]).
Proof. exact size_overshoot. Qed.
Print Assumptions c19_size_overshoot.

(* the bound holds step by step without any proviso on the clock strings -- also for a burst within the second in
   which the rule was created or last rotated, when backup names coincide: rotation still happens (the decision
   only compares sizes) and the current file is within the limit or is the record just written *)
Theorem c19_size_bound_every_write : forall c s r now cur d,
  c_kind c = SizeLimit -> 0 < c_max_size c ->
  s_fp s = true -> fs_get (c_file c) (s_fs s) = Some (cur, d) -> s_size s = bytes cur ->
  let s' := write c s r now in
  exists cur' d', fs_get (c_file c) (s_fs s') = Some (cur', d') /\ s_size s' = bytes cur' /\ s_fp s' = true /\
                  (bytes cur' <= c_max_size c \/ cur' = [r]).
Proof. exact write_size_bound. Qed.
Print Assumptions c19_size_bound_every_write.

(* ... that is, it exceeds the maximum by less than its last record *)
Theorem c19_size_overshoot_bound : forall max ic cnt,
  0 < max -> Forall (fun r => 0 <= rlen r) cnt -> size_ok max ic cnt ->
  cnt = ic \/ cnt = [] \/ exists pre r, cnt = pre ++ [r] /\ bytes pre <= max.
Proof. exact size_ok_bound. Qed.
Print Assumptions c19_size_overshoot_bound.

(* a record is never split: one slice handed to RotateLogger.Write (Spec.frontend_ok: the front-end hands over
   exactly one per record, of any length) ends up whole at the tail of the current file, after at most one
   rotation that happens before it is written *)
Theorem c19_record_never_split : forall c s r now cur d,
  s_fp s = true -> fs_get (c_file c) (s_fs s) = Some (cur, d) ->
  exists pre d', fs_get (c_file c) (s_fs (write c s r now)) = Some (pre ++ [r], d') /\ (pre = cur \/ pre = []).
Proof. exact write_record_whole. Qed.
Print Assumptions c19_record_never_split.

(* a log path that is a symbolic link (or any other kind of entry) rotates like a plain file: os.Rename moves
   the ENTRY, so -- seen through open() -- the directory changes exactly as the model's rotate says (the records
   written before the rotation are under the backup name), the backup name carries the same link to the same
   untouched target, and the path is a fresh empty regular file. All durability theorems therefore apply to
   the view of a directory with links. *)
Theorem c19_symlink_rotation : forall store file B L e,
  file <> B -> alookup name_eqb file L = Some e ->
  let L' := l_create file (l_rename file B L) in
  view store L' = fs_put file ([], 0%nat) (fs_rename file B (view store L)) /\
  alookup name_eqb B L' = Some e /\
  alookup name_eqb file L' = Some (Reg ([], 0%nat)).
Proof. exact symlink_rotation. Qed.
Print Assumptions c19_symlink_rotation.

Theorem c19_symlink_cleanup : forall store n L, view store (l_remove n L) = fs_remove n (view store L).
Proof. exact view_remove. Qed.
Print Assumptions c19_symlink_cleanup.

(* compression on, no compress phase failing: however the compress phases of earlier rotations overlap with
   later rotations, a backup whose compress phase is over is no longer a plain file -- with
   c19_no_loss_no_dup_in_order its chunk is then under F.gz, gzipped once, or was removed by clean-up. In
   particular, once every post-rotation task has run, EVERY backup is gzip-compressed. *)
Theorem c19_all_backups_compressed : forall c width fs0 rot0 now0 h,
  c_delim c <> [] -> current_plain c fs0 ->
  stamps_ok c width (init c fs0 rot0 now0) now0 h ->
  c_compress c = true -> existsb is_gzip_fail h = false ->
  let s := run c (init c fs0 rot0 now0) h in
  forall F ph, In (F, ph) (s_posts s) -> (1 <= ph)%nat -> fs_get F (s_fs s) = None.
Proof. exact all_backups_compressed. Qed.
Print Assumptions c19_all_backups_compressed.

(* a compression that fails -- before or after F.gz was created -- leaves the plain backup in place
   (c19_no_loss_no_dup_in_order already quantifies over histories with EGzipFail steps) *)
Theorem c19_failed_compression_keeps_backup : forall c F junk fs x,
  fs_get F fs = Some x -> fs_get F (compress_fail c F junk fs) = Some x.
Proof. exact compress_fail_keeps. Qed.
Print Assumptions c19_failed_compression_keeps_backup.

(* the configuration path Config -> With* options -> createOutput -> rule constructor -> NewLogger copies
   the configured numbers into the rule unchanged (non-positive ones count as 0 = no limit): MaxSize (MB)
   is the size bound, MaxBackups the number of kept backups, KeepDays the retention, Compress both gzip flags *)
Theorem c19_config_reaches_rule : forall path u,
  let c := rule_of_config path u in
  c_file c = path /\ c_delim c = backup_file_delimiter /\
  c_gzip c = su_compress u /\ c_compress c = su_compress u /\
  c_days c = Z.max 0 (su_keep_days u) /\
  (su_size u = true ->
   c_kind c = SizeLimit /\ c_max_size c = Z.max 0 (su_max_size u) * mega_bytes /\
   c_max_backups c = Z.max 0 (su_max_backups u)) /\
  (su_size u = false -> c_kind c = Daily).
Proof. exact config_reaches_rule. Qed.
Print Assumptions c19_config_reaches_rule.

Theorem c19_config_reaches_rule_positive : forall path u,
  su_size u = true -> 0 < su_max_size u -> 0 < su_max_backups u -> 0 < su_keep_days u ->
  let c := rule_of_config path u in
  c_kind c = SizeLimit /\ c_max_size c = su_max_size u * mega_bytes /\
  c_max_backups c = su_max_backups u /\ c_days c = su_keep_days u /\
  c_gzip c = su_compress u /\ c_compress c = su_compress u.
Proof. exact config_reaches_rule_positive. Qed.
Print Assumptions c19_config_reaches_rule_positive.

(* every file named by OutdatedFiles is a directory entry matching the backup pattern, is not the
   current file, and is older than the boundary or has maxBackups newer matching files after it *)
Theorem c19_outdated_sound : forall c fs b f,
  c_delim c <> [] -> In f (outdated_files c fs b) ->
  matched c fs f /\ f <> c_file c /\ (too_old c b f \/ beyond_max c fs f).
Proof. exact outdated_sound. Qed.
Print Assumptions c19_outdated_sound.

(* a matching file at or after the boundary with fewer than maxBackups matching files after it is kept *)
Theorem c19_newest_kept : forall c fs b f,
  matched c fs f ->
  (c_days c <= 0 \/ ~ name_lt f (boundary_file c b)) ->
  (c_kind c = Daily \/ c_max_backups c <= 0 \/
   Z.of_nat (List.length (filter (fun g => name_ltb f g) (glob (bpre c) (bsuf c ++ gz_opt c) fs))) < c_max_backups c) ->
  ~ In f (outdated_files c fs b).
Proof. exact newest_kept. Qed.
Print Assumptions c19_newest_kept.

(* ---- outside the claimed configuration space: with an empty delimiter the daily pattern
   "access.log*" matches the current file, which is then named for deletion (DESIGN C19, observation) *)
Definition B (s : list Z) : name := map Z.to_N s.
Definition access_log : name := B [97; 99; 99; 101; 115; 115; 46; 108; 111; 103].      (* "access.log" *)
Definition d20200105 : name := B [50; 48; 50; 48; 45; 48; 49; 45; 48; 53].             (* "2020-01-05" *)
Definition d20200106 : name := B [50; 48; 50; 48; 45; 48; 49; 45; 48; 54].
Definition d20200107 : name := B [50; 48; 50; 48; 45; 48; 49; 45; 48; 55].
Definition dash : name := B [45].

Theorem c19_empty_delimiter_refuted :
  exists c fs b, c_delim c = [] /\ In (c_file c) (outdated_files c fs b).
Proof.
  exists (mkcfg Daily access_log [] 7 false false 0 0), [(access_log, ([], 0%nat))], d20200105.
  split; [reflexivity|]. vm_compute. left; reflexivity.
Qed.

(* ---- non-vacuity: the hypotheses hold on a history with two rotations, and the theorem's
   conclusion can be read off the computed directory *)
Definition ex_cfg : config := mkcfg Daily access_log dash 1 true true 0 0.
Definition ex_hist : list event :=
  [EWrite (mkrec 1 5) d20200105; EWrite (mkrec 2 7) d20200106; EGzip 0; EWrite (mkrec 3 4) d20200106;
   ERestart d20200106 d20200106;
   EWrite (mkrec 4 9) d20200107; EGzipFail 1 None; EDelete 0 d20200106].

Example c19_hypotheses_satisfiable :
  c_delim ex_cfg <> [] /\ current_plain ex_cfg [] /\
  stamps_ok ex_cfg 10 (init ex_cfg [] d20200105 d20200105) d20200105 ex_hist.
Proof.
  split; [discriminate|]. split; [intros cnt d H; discriminate|].
  split.
  - repeat constructor.
  - vm_compute. repeat split; repeat constructor; simpl; intuition discriminate.
Qed.

(* two rotations whose compress phases both run after the second rotation, newest first *)
Example c19_overlapping_compressions :
  let c := mkcfg Daily access_log dash 0 true true 0 0 in
  let s := run c (init c [] d20200105 d20200105)
             [EWrite (mkrec 1 5) d20200105; EWrite (mkrec 2 7) d20200106; EWrite (mkrec 3 4) d20200107;
              EGzip 1; EGzip 0] in
  fs_get (access_log ++ dash ++ d20200105) (s_fs s) = None /\
  fs_get (access_log ++ dash ++ d20200106) (s_fs s) = None /\
  fs_get (access_log ++ dash ++ d20200105 ++ gzip_ext) (s_fs s) = Some ([mkrec 1 5], 1%nat) /\
  fs_get (access_log ++ dash ++ d20200106 ++ gzip_ext) (s_fs s) = Some ([mkrec 2 7], 1%nat) /\
  fs_get access_log (s_fs s) = Some ([mkrec 3 4], 0%nat).
Proof. vm_compute. repeat split. Qed.

Example c19_nonvacuous :
  let s := run ex_cfg (init ex_cfg [] d20200105 d20200105) ex_hist in
  map fst (s_posts s) = [access_log ++ dash ++ d20200105; access_log ++ dash ++ d20200106] /\
  fs_get (access_log ++ dash ++ d20200105) (s_fs s) = None /\
  s_removed s = [(access_log ++ dash ++ d20200105 ++ gzip_ext, ([mkrec 1 5], 1%nat))] /\
  fs_get (access_log ++ dash ++ d20200106) (s_fs s) = Some ([mkrec 2 7; mkrec 3 4], 0%nat) /\
  fs_get access_log (s_fs s) = Some ([mkrec 4 9], 0%nat).
Proof. vm_compute. repeat split. Qed.
