(* C19 Proofs. *)
From God Require Import Base.Prelude C19.Model C19.Spec.
From Coq Require Import Sorting.Sorted.
Local Open Scope Z_scope.

(* ------------------------------------------------------------------ names *)
Lemma name_eqb_eq a b : name_eqb a b = true <-> a = b.
Proof. apply list_eqb_eq. intros; apply N.eqb_eq. Qed.

Lemma name_eqb_refl a : name_eqb a a = true.
Proof. apply name_eqb_eq; reflexivity. Qed.

Lemma name_eqb_neq a b : a <> b -> name_eqb a b = false.
Proof. intro H. destruct (name_eqb a b) eqn:E; [apply name_eqb_eq in E; contradiction | reflexivity]. Qed.

Lemma name_eq_dec (a b : name) : {a = b} + {a <> b}.
Proof. destruct (name_eqb a b) eqn:E; [left; apply name_eqb_eq; assumption | right; intro H; apply name_eqb_eq in H; congruence]. Qed.

Lemma lex_cmp_eq a b : lex_cmp a b = Eq <-> a = b.
Proof.
  revert b; induction a as [|x a IH]; intros [|y b]; simpl; split; intro H; try congruence; try discriminate.
  - destruct (N.compare x y) eqn:E; try discriminate. apply N.compare_eq in E. apply IH in H. congruence.
  - inversion H; subst. rewrite N.compare_refl. apply IH; reflexivity.
Qed.

Lemma lex_cmp_refl a : lex_cmp a a = Eq.
Proof. apply lex_cmp_eq; reflexivity. Qed.

Lemma lex_cmp_antisym a b : lex_cmp b a = CompOpp (lex_cmp a b).
Proof.
  revert b; induction a as [|x a IH]; intros [|y b]; simpl; try reflexivity.
  rewrite (N.compare_antisym x y). destruct (N.compare x y); simpl; auto.
Qed.

Lemma lex_lt_trans a b c : lex_cmp a b = Lt -> lex_cmp b c = Lt -> lex_cmp a c = Lt.
Proof.
  revert b c; induction a as [|x a IH]; intros [|y b] [|z c]; simpl; try congruence; try discriminate.
  destruct (N.compare x y) eqn:E1; try discriminate; destruct (N.compare y z) eqn:E2; try discriminate; intros H1 H2.
  - apply N.compare_eq in E1, E2. subst. rewrite N.compare_refl. eapply IH; eauto.
  - apply N.compare_eq in E1. subst. rewrite E2. reflexivity.
  - apply N.compare_eq in E2. subst. rewrite E1. reflexivity.
  - assert (H : (x ?= z)%N = Lt) by (apply N.compare_lt_iff; apply N.compare_lt_iff in E1; apply N.compare_lt_iff in E2; eapply N.lt_trans; eassumption).
    rewrite H. reflexivity.
Qed.

Lemma lex_lt_irrefl a : lex_cmp a a <> Lt.
Proof. rewrite lex_cmp_refl. discriminate. Qed.

Lemma lex_cmp_app_head p a b : lex_cmp (p ++ a) (p ++ b) = lex_cmp a b.
Proof. induction p as [|x p IH]; simpl; [reflexivity|]. rewrite N.compare_refl. exact IH. Qed.

(* equal-width stamps decide the order of the names built around them *)
Lemma lex_cmp_same_len a b s t :
  List.length a = List.length b -> a <> b -> lex_cmp (a ++ s) (b ++ t) = lex_cmp a b.
Proof.
  revert b; induction a as [|x a IH]; intros [|y b] Hl Hn; simpl in *; try discriminate; [congruence|].
  destruct (N.compare x y) eqn:E; try reflexivity.
  apply N.compare_eq in E; subst. apply IH; [lia | congruence].
Qed.

Lemma name_ltb_lt a b : name_ltb a b = true <-> name_lt a b.
Proof. unfold name_ltb, name_lt. destruct (lex_cmp a b); split; congruence. Qed.

(* ------------------------------------------------------------------ directory *)
Lemma get_put_same n f fs : fs_get n (fs_put n f fs) = Some f.
Proof. unfold fs_get, fs_put, aset. simpl. rewrite name_eqb_refl. reflexivity. Qed.

Lemma get_remove_same n fs : fs_get n (fs_remove n fs) = None.
Proof.
  unfold fs_get, fs_remove. induction fs as [|[k v] r IH]; simpl; [reflexivity|].
  destruct (name_eqb n k) eqn:E; [exact IH|]. simpl. rewrite E. exact IH.
Qed.

Lemma get_remove_other n m fs : n <> m -> fs_get n (fs_remove m fs) = fs_get n fs.
Proof.
  intro H. unfold fs_get, fs_remove. induction fs as [|[k v] r IH]; simpl; [reflexivity|].
  destruct (name_eqb m k) eqn:E.
  - apply name_eqb_eq in E; subst. rewrite (name_eqb_neq n k H). exact IH.
  - simpl. destruct (name_eqb n k); [reflexivity | exact IH].
Qed.

Lemma get_put_other n m f fs : n <> m -> fs_get n (fs_put m f fs) = fs_get n fs.
Proof.
  intro H. unfold fs_put, aset. change (fs_get n ((m, f) :: fs_remove m fs) = fs_get n fs).
  unfold fs_get at 1. simpl. rewrite (name_eqb_neq n m H). apply get_remove_other; assumption.
Qed.

Lemma get_remove_all_none n l fs : fs_get n fs = None -> fs_get n (remove_all l fs) = None.
Proof.
  unfold remove_all. revert fs. induction l as [|c l IHl]; intros fs Hn; simpl; [assumption|]. apply IHl.
  destruct (name_eq_dec n c) as [->|Hc]; [apply get_remove_same | rewrite get_remove_other; assumption].
Qed.

Lemma get_remove_all_in n l fs : In n l -> fs_get n (remove_all l fs) = None.
Proof.
  revert fs; induction l as [|a l IH]; intros fs H; [destruct H|].
  destruct (name_eq_dec a n) as [->|Hn].
  - change (fs_get n (remove_all l (fs_remove n fs)) = None). apply get_remove_all_none, get_remove_same.
  - destruct H as [H|H]; [contradiction|]. change (fs_get n (remove_all l (fs_remove a fs)) = None). apply IH; assumption.
Qed.

Lemma get_remove_all_notin n l fs : ~ In n l -> fs_get n (remove_all l fs) = fs_get n fs.
Proof.
  unfold remove_all. revert fs; induction l as [|a l IH]; intros fs H; simpl; [reflexivity|].
  rewrite IH; [|intro; apply H; right; assumption]. apply get_remove_other. intro; subst; apply H; left; reflexivity.
Qed.

Lemma get_in_keys n fs : fs_get n fs <> None <-> In n (map fst fs).
Proof.
  unfold fs_get. induction fs as [|[k v] r IH]; simpl; [split; [congruence|tauto]|].
  destruct (name_eqb n k) eqn:E.
  - apply name_eqb_eq in E; subst. split; [auto | discriminate].
  - rewrite IH. split; [auto | intros [H|H]; [subst; rewrite name_eqb_refl in E; discriminate | assumption]].
Qed.

(* ------------------------------------------------------------------ sorting *)
Definition ssorted := StronglySorted name_lt.

Lemma in_insert x z l : In z (insert_name x l) <-> z = x \/ In z l.
Proof.
  induction l as [|y r IH]; simpl; [intuition|].
  destruct (lex_cmp x y) eqn:E; simpl.
  - apply lex_cmp_eq in E; subst. intuition.
  - intuition.
  - rewrite IH. intuition.
Qed.

Lemma in_sort z l : In z (sort_names l) <-> In z l.
Proof. induction l as [|a l IH]; simpl; [tauto|]. rewrite in_insert, IH. intuition. Qed.

Lemma ssorted_insert x l : ssorted l -> ssorted (insert_name x l).
Proof.
  unfold ssorted. induction l as [|y r IH]; intro H; simpl.
  - constructor; constructor.
  - destruct (lex_cmp x y) eqn:E; [assumption | |].
    + constructor; [assumption|]. inversion H; subst. constructor; [exact E|].
      eapply Forall_impl; [|eassumption]. intros a Ha. eapply lex_lt_trans; eassumption.
    + inversion H; subst. constructor; [apply IH; assumption|].
      apply Forall_forall. intros z Hz. apply in_insert in Hz as [->|Hz].
      * unfold name_lt. rewrite lex_cmp_antisym, E. reflexivity.
      * rewrite Forall_forall in H3. apply H3; assumption.
Qed.

Lemma ssorted_sort l : ssorted (sort_names l).
Proof. induction l as [|a l IH]; simpl; [constructor | apply ssorted_insert; assumption]. Qed.

Lemma ssorted_filter f l : ssorted l -> ssorted (filter f l).
Proof.
  unfold ssorted. induction l as [|a l IH]; intro H; simpl; [constructor|]. inversion H; subst.
  destruct (f a); [|apply IH; assumption]. constructor; [apply IH; assumption|].
  apply Forall_forall. intros z Hz. apply filter_In in Hz as [Hz _]. rewrite Forall_forall in H3. auto.
Qed.

Lemma ssorted_app_lt A B : ssorted (A ++ B) -> forall a b, In a A -> In b B -> name_lt a b.
Proof.
  unfold ssorted. induction A as [|x A IH]; intros H a b Ha Hb; [destruct Ha|].
  simpl in H. inversion H; subst. destruct Ha as [->|Ha].
  - rewrite Forall_forall in H3. apply H3. apply in_or_app; right; assumption.
  - eapply IH; eassumption.
Qed.

Lemma ssorted_nodup l : ssorted l -> NoDup l.
Proof.
  unfold ssorted. induction l as [|a l IH]; intro H; [constructor|]. inversion H; subst.
  constructor; [|apply IH; assumption]. intro Hin. rewrite Forall_forall in H3. apply (lex_lt_irrefl a). apply H3; assumption.
Qed.

Lemma ssorted_app_r A B : ssorted (A ++ B) -> ssorted B.
Proof. unfold ssorted. induction A as [|x A IH]; simpl; intro H; [assumption|]. inversion H; auto. Qed.

(* ------------------------------------------------------------------ glob *)
Lemma firstn_len_app {A} (a b : list A) : firstn (List.length a) (a ++ b) = a.
Proof. induction a; simpl; congruence. Qed.

Lemma skipn_len_app {A} (a b : list A) : skipn (List.length a) (a ++ b) = b.
Proof. induction a; simpl; congruence. Qed.

Lemma skipn_skipn' {A} (a b : nat) (l : list A) : skipn a (skipn b l) = skipn (b + a) l.
Proof. revert l; induction b as [|b IH]; intros l; simpl; [reflexivity|]. destruct l; [destruct a; reflexivity | apply IH]. Qed.

Lemma glob_match_spec pre suf s :
  glob_match pre suf s = true <-> exists mid, s = pre ++ mid ++ suf.
Proof.
  unfold glob_match, has_prefix, has_suffix. rewrite !andb_true_iff, !name_eqb_eq, Nat.leb_le. split.
  - intros [[Hl Hp] Hs].
    set (rest := skipn (List.length pre) s).
    assert (Hrest : List.length rest = (List.length s - List.length pre)%nat) by (unfold rest; apply skipn_length).
    exists (firstn (List.length rest - List.length suf) rest).
    assert (E1 : s = pre ++ rest) by (rewrite Hp; unfold rest; symmetry; apply firstn_skipn).
    assert (E2 : skipn (List.length rest - List.length suf) rest = suf).
    { unfold rest at 2. rewrite skipn_skipn'.
      transitivity (skipn (List.length s - List.length suf) s); [f_equal; lia | symmetry; exact Hs]. }
    rewrite <- E2 at 2. rewrite firstn_skipn. exact E1.
  - intros [mid ->]. rewrite !app_length. split; [split; [lia | symmetry; apply firstn_len_app]|].
    replace (List.length pre + (List.length mid + List.length suf) - List.length suf)%nat with (List.length (pre ++ mid)) by (rewrite app_length; lia).
    rewrite app_assoc. symmetry; apply skipn_len_app.
Qed.

Lemma in_glob pre suf fs f :
  In f (glob pre suf fs) <-> fs_get f fs <> None /\ exists mid, f = pre ++ mid ++ suf.
Proof. unfold glob, ls. rewrite filter_In, in_sort, <- get_in_keys, glob_match_spec. tauto. Qed.

Lemma ssorted_glob pre suf fs : ssorted (glob pre suf fs).
Proof. unfold glob, ls. apply ssorted_filter, ssorted_sort. Qed.

(* ------------------------------------------------------------------ backup names *)
Lemma parse_filename_app s : fst (parse_filename s) ++ snd (parse_filename s) = s.
Proof.
  induction s as [|ch r IH]; simpl; [reflexivity|].
  destruct (parse_filename r) as [p e]. simpl in IH. destruct e as [|e0 e].
  - destruct (N.eqb ch dot); simpl; [reflexivity|]. rewrite app_nil_r in *. congruence.
  - simpl. congruence.
Qed.

Lemma backup_filename_eq c t : backup_filename c t = bpre c ++ t ++ bsuf c.
Proof.
  unfold backup_filename, bpre, bsuf, daily_backup_filename, size_backup_filename.
  destruct (c_kind c).
  - rewrite app_nil_r, app_assoc. reflexivity.
  - destruct (parse_filename (c_file c)) as [p e]. simpl. rewrite app_assoc. reflexivity.
Qed.

Lemma bpre_bsuf_length c :
  (List.length (bpre c) + List.length (bsuf c) = List.length (c_file c) + List.length (c_delim c))%nat.
Proof.
  unfold bpre, bsuf. destruct (c_kind c); rewrite ?app_length; simpl; [lia|].
  rewrite <- (parse_filename_app (c_file c)) at 3. rewrite app_length. lia.
Qed.

Lemma matched_not_current c fs f : c_delim c <> [] -> matched c fs f -> f <> c_file c.
Proof.
  intros Hd [_ [mid ->]] E. apply (f_equal (@List.length N)) in E. rewrite !app_length in E.
  pose proof (bpre_bsuf_length c). destruct (c_delim c); [congruence|]. simpl in *. lia.
Qed.

(* ------------------------------------------------------------------ OutdatedFiles *)
Lemma outdated_daily_eq c fs b : c_kind c = Daily ->
  outdated_files c fs b =
  if c_days c <=? 0 then [] else
  filter (fun f => name_ltb f (boundary_file c b)) (glob (bpre c) (bsuf c ++ gz_opt c) fs).
Proof.
  intro K. unfold outdated_files, daily_outdated, boundary_file, bpre, bsuf. rewrite K. simpl.
  destruct (c_days c <=? 0); [reflexivity|]. rewrite <- !app_assoc. reflexivity.
Qed.

Definition size_outdated_u (c : config) (fs : fsys) (b : name) : list name :=
  let files := glob (bpre c) (bsuf c ++ gz_opt c) fs in
  let n := Z.of_nat (List.length files) in
  let k := Z.to_nat (n - c_max_backups c) in
  let trim := (0 <? c_max_backups c) && (c_max_backups c <? n) in
  (if trim then firstn k files else []) ++
  (if 0 <? c_days c then take_while (fun f => name_ltb f (boundary_file c b)) (if trim then skipn k files else files) else []).

Lemma outdated_size_eq c fs b : c_kind c = SizeLimit -> outdated_files c fs b = size_outdated_u c fs b.
Proof.
  intro K. unfold outdated_files, size_outdated, size_outdated_u, boundary_file, bpre, bsuf. rewrite K.
  destruct (parse_filename (c_file c)) as [p e]. simpl.
  rewrite <- !app_assoc.
  destruct ((0 <? c_max_backups c) && (c_max_backups c <? Z.of_nat (List.length (glob (p ++ c_delim c) (e ++ gz_opt c) fs)))); reflexivity.
Qed.

Lemma take_while_in {A} (f : A -> bool) l x : In x (take_while f l) -> In x l /\ f x = true.
Proof.
  induction l as [|a l IH]; simpl; [tauto|]. destruct (f a) eqn:E; [|intros []].
  intros [->|H]; [auto | apply IH in H; tauto].
Qed.

Lemma matched_iff_glob c fs f : matched c fs f <-> In f (glob (bpre c) (bsuf c ++ gz_opt c) fs).
Proof. unfold matched. rewrite in_glob. reflexivity. Qed.

Lemma outdated_sound c fs b f :
  c_delim c <> [] -> In f (outdated_files c fs b) ->
  matched c fs f /\ f <> c_file c /\ (too_old c b f \/ beyond_max c fs f).
Proof.
  intros Hd Hin.
  assert (G : matched c fs f /\ (too_old c b f \/ beyond_max c fs f)); [|destruct G as [G1 G2]; split; [assumption|split; [eapply matched_not_current; eassumption | assumption]]].
  destruct (c_kind c) eqn:K.
  - rewrite outdated_daily_eq in Hin by assumption. destruct (c_days c <=? 0) eqn:D; [destruct Hin|].
    apply filter_In in Hin as [Hg Hlt]. split; [apply matched_iff_glob; assumption|].
    left. split; [lia | apply name_ltb_lt; assumption].
  - rewrite outdated_size_eq in Hin by assumption. unfold size_outdated_u in Hin.
    set (files := glob (bpre c) (bsuf c ++ gz_opt c) fs) in *.
    set (n := Z.of_nat (List.length files)) in *.
    set (k := Z.to_nat (n - c_max_backups c)) in *.
    pose proof (ssorted_glob (bpre c) (bsuf c ++ gz_opt c) fs) as Hs. fold files in Hs.
    apply in_app_or in Hin as [Hin|Hin].
    + destruct ((0 <? c_max_backups c) && (c_max_backups c <? n)) eqn:T; [|destruct Hin].
      apply andb_true_iff in T as [T1 T2].
      assert (Hf : In f files) by (rewrite <- (firstn_skipn k files); apply in_or_app; left; assumption).
      split; [apply matched_iff_glob; assumption|]. right. split; [assumption|]. split; [lia|].
      exists (skipn k files). split; [|split].
      * rewrite skipn_length. subst k n. lia.
      * apply ssorted_nodup. eapply ssorted_app_r. rewrite firstn_skipn. exact Hs.
      * intros g Hg. split.
        -- apply matched_iff_glob. fold files. rewrite <- (firstn_skipn k files). apply in_or_app; right; assumption.
        -- eapply ssorted_app_lt; [rewrite firstn_skipn; exact Hs | eassumption | eassumption].
    + destruct (0 <? c_days c) eqn:D; [|destruct Hin]. apply take_while_in in Hin as [Hf Hlt].
      assert (Hf' : In f files).
      { destruct ((0 <? c_max_backups c) && (c_max_backups c <? n)); [|assumption].
        rewrite <- (firstn_skipn k files). apply in_or_app; right; assumption. }
      split; [apply matched_iff_glob; assumption|]. left. split; [lia | apply name_ltb_lt; assumption].
Qed.

(* count-based reading of "the newest backups are kept" *)
Lemma newest_kept c fs b f :
  matched c fs f ->
  (c_days c <= 0 \/ ~ name_lt f (boundary_file c b)) ->
  (c_kind c = Daily \/ c_max_backups c <= 0 \/
   Z.of_nat (List.length (filter (fun g => name_ltb f g) (glob (bpre c) (bsuf c ++ gz_opt c) fs))) < c_max_backups c) ->
  ~ In f (outdated_files c fs b).
Proof.
  intros Hm Hb Hk Hin.
  assert (G : too_old c b f \/ beyond_max c fs f).
  { destruct (c_kind c) eqn:K.
    - rewrite outdated_daily_eq in Hin by assumption. destruct (c_days c <=? 0) eqn:D; [destruct Hin|].
      apply filter_In in Hin as [_ Hlt]. left. split; [lia | apply name_ltb_lt; assumption].
    - (* reuse the sound direction through a delimiter-free copy of its argument *)
      rewrite outdated_size_eq in Hin by assumption. unfold size_outdated_u in Hin.
      set (files := glob (bpre c) (bsuf c ++ gz_opt c) fs) in *.
      set (n := Z.of_nat (List.length files)) in *.
      set (k := Z.to_nat (n - c_max_backups c)) in *.
      pose proof (ssorted_glob (bpre c) (bsuf c ++ gz_opt c) fs) as Hs. fold files in Hs.
      apply in_app_or in Hin as [Hin|Hin].
      + destruct ((0 <? c_max_backups c) && (c_max_backups c <? n)) eqn:T; [|destruct Hin].
        apply andb_true_iff in T as [T1 T2]. right. split; [assumption|]. split; [lia|].
        exists (skipn k files). split; [|split].
        * rewrite skipn_length. subst k n. lia.
        * apply ssorted_nodup. eapply ssorted_app_r. rewrite firstn_skipn. exact Hs.
        * intros g Hg. split.
          -- apply matched_iff_glob. fold files. rewrite <- (firstn_skipn k files). apply in_or_app; right; assumption.
          -- eapply ssorted_app_lt; [rewrite firstn_skipn; exact Hs | eassumption | eassumption].
      + destruct (0 <? c_days c) eqn:D; [|destruct Hin]. apply take_while_in in Hin as [Hf Hlt].
        left. split; [lia | apply name_ltb_lt; assumption]. }
  destruct G as [[G1 G2]|[G1 [G2 [newer [Hl [Hnd Hall]]]]]].
  - destruct Hb as [Hb|Hb]; [lia | contradiction].
  - destruct Hk as [Hk|[Hk|Hk]]; [congruence | lia |].
    assert (Hincl : incl newer (filter (fun g => name_ltb f g) (glob (bpre c) (bsuf c ++ gz_opt c) fs))).
    { intros g Hg. apply Hall in Hg as [Hg1 Hg2]. apply filter_In. split; [apply matched_iff_glob; assumption | apply name_ltb_lt; assumption]. }
    apply (NoDup_incl_length Hnd) in Hincl. lia.
Qed.

(* ------------------------------------------------------------------ durability across rotations *)
Lemma bytes_app a b : bytes (a ++ b) = bytes a + bytes b.
Proof. unfold bytes. induction a as [|x a IH]; simpl; [reflexivity|]. fold (bytes (a ++ b)) (bytes a) (bytes b) in *. rewrite IH. lia. Qed.

Lemma map_fst_set_phase k ph l : map fst (set_phase k ph l) = map fst l.
Proof. revert k; induction l as [|[f p] l IH]; intros [|k]; simpl; try reflexivity. f_equal. apply IH. Qed.

Lemma nth_error_in_fst {A B} (l : list (A * B)) k a b : nth_error l k = Some (a, b) -> In a (map fst l).
Proof. intro H. apply nth_error_In in H. apply (in_map fst) in H. exact H. Qed.

Lemma in_snapshot l fs n x : In n l -> fs_get n fs = Some x -> In (n, x) (snapshot l fs).
Proof. intros Hi Hg. unfold snapshot. apply in_flat_map. exists n. split; [assumption|]. rewrite Hg. left; reflexivity. Qed.

Lemma nodup_app_l {A} (a b : list A) : NoDup (a ++ b) -> NoDup a.
Proof. induction a as [|x a IH]; simpl; intro H; [constructor|]. inversion H; subst. constructor; [intro Hi; apply H2; apply in_or_app; left; assumption | apply IH; assumption]. Qed.

Lemma gzip_ext_length : List.length gzip_ext = 3%nat.
Proof. reflexivity. Qed.

Section Durability.
  Variable c : config.
  Variable width : nat.
  Variable init_cur : content.
  Hypothesis Hdelim : c_delim c <> [].

  Let bname := backup_filename c.

  Lemma bname_inj s t : bname s = bname t -> s = t.
  Proof. unfold bname. rewrite !backup_filename_eq. intro H. apply app_inv_head in H. apply app_inv_tail in H. exact H. Qed.

  Lemma bname_length t : List.length (bname t) = (List.length (c_file c) + List.length (c_delim c) + List.length t)%nat.
  Proof. unfold bname. rewrite backup_filename_eq, !app_length. pose proof (bpre_bsuf_length c). lia. Qed.

  Lemma delim_pos : (0 < List.length (c_delim c))%nat.
  Proof. destruct (c_delim c); [congruence | simpl; lia]. Qed.

  Lemma bname_ne_gz s t : List.length s = List.length t -> bname s <> bname t ++ gzip_ext.
  Proof. intros Hl E. apply (f_equal (@List.length N)) in E. rewrite app_length, !bname_length, gzip_ext_length in E. lia. Qed.

  Lemma bname_ne_file t : bname t <> c_file c.
  Proof. intro E. apply (f_equal (@List.length N)) in E. rewrite bname_length in E. pose proof delim_pos. lia. Qed.

  Lemma bname_gz_ne_file t : bname t ++ gzip_ext <> c_file c.
  Proof. intro E. apply (f_equal (@List.length N)) in E. rewrite app_length, bname_length in E. pose proof delim_pos. lia. Qed.

  Lemma bname_gz_inj s t : bname s ++ gzip_ext = bname t ++ gzip_ext -> s = t.
  Proof. intro H. apply app_inv_tail in H. apply bname_inj; assumption. Qed.

  Lemma bname_nonempty t : 0 <? Z.of_nat (List.length (bname t)) = true.
  Proof. rewrite bname_length. pose proof delim_pos. lia. Qed.

  Definition Inv (s : state) (acc : content) (used : list name) : Prop :=
    s_fp s = true /\
    exists ts last chunks cur,
      map fst (s_posts s) = map bname ts /\ s_backup s = bname last /\ used = ts ++ [last] /\
      Forall (fun t => List.length t = width) used /\
      decomposition c s chunks cur /\ concat chunks ++ cur = acc /\ s_size s = bytes cur /\
      (c_kind c = SizeLimit -> 0 < c_max_size c -> Forall (size_ok (c_max_size c) init_cur) (chunks ++ [cur])).

  Lemma Forall2_located_impl (s s' : state) names chunks :
    (forall G ch, In G names -> located s G ch -> located s' G ch) ->
    Forall2 (located s) names chunks -> Forall2 (located s') names chunks.
  Proof.
    intros H F. induction F as [|G ch names chunks HG F IH]; [constructor|].
    constructor; [apply H; [left; reflexivity | assumption]|]. apply IH. intros G' ch' Hin. apply H. right; assumption.
  Qed.

  (* a step that leaves G and G.gz alone and only extends the removal trace keeps G's chunk in place *)
  Lemma located_frame (s s' : state) G ch :
    fs_get G (s_fs s') = fs_get G (s_fs s) ->
    fs_get (G ++ gzip_ext) (s_fs s') = fs_get (G ++ gzip_ext) (s_fs s) ->
    (forall x, In x (s_removed s) -> In x (s_removed s')) ->
    located s G ch -> located s' G ch.
  Proof. unfold located. intros -> -> Hr [H|[H1 [H|[H|H]]]]; auto 6. Qed.

  Lemma step_inv s acc used e :
    Inv s acc used ->
    Forall (fun t => List.length t = width) (nows [e]) ->
    NoDup (next_used c s used e) ->
    Inv (step c s e) (acc ++ written [e]) (next_used c s used e).
  Proof.
    intros [Hfp [ts [last [chunks [cur [Hposts [Hbk [Hused [Hw [[Hloc Hcur] [Hcat [Hsz Hok]]]]]]]]]]]] Hnow Hnd.
    destruct e as [r now|k|k junk|k b|rot0' now0'].
    - (* ---- write *)
      simpl in Hnow. apply Forall_inv in Hnow.
      cbn [step next_used written flat_map app]. cbn [next_used] in Hnd. unfold write.
      destruct (shall_rotate c (s_rot s) now (s_size s + rlen r)) eqn:SR.
      + (* rotation *)
        unfold rotate. unfold fs_exists. rewrite Hcur, Hbk, bname_nonempty. cbn [andb].
        cbn [s_fs s_fp s_backup s_size s_rot s_posts s_removed].
        unfold fs_rename. rewrite Hcur. unfold fs_append.
        rewrite get_put_same.
        split; [reflexivity|].
        exists (ts ++ [last]), now, (chunks ++ [cur]), [r].
        cbn [s_fs s_fp s_backup s_size s_rot s_posts s_removed].
        assert (Hndu : NoDup (ts ++ [last])) by (rewrite <- Hused; eapply nodup_app_l; eassumption).
        assert (Hwl : List.length last = width).
        { rewrite Forall_forall in Hw. apply Hw. rewrite Hused. apply in_or_app; right; left; reflexivity. }
        split; [rewrite !map_app, Hposts; reflexivity|].
        split; [reflexivity|]. split; [rewrite Hused; reflexivity|].
        split; [apply Forall_app; split; [assumption | constructor; [assumption | constructor]]|].
        split; [split|].
        * (* every earlier chunk stays, the current file became the new backup *)
          cbn [s_fs s_posts]. rewrite map_app. apply Forall2_app.
          -- eapply Forall2_located_impl; [|exact Hloc]. intros G ch HG HL.
             rewrite Hposts in HG. apply in_map_iff in HG as [t [<- Ht]].
             assert (Htl : t <> last).
             { intro; subst t. apply NoDup_remove_2 in Hndu. apply Hndu. rewrite app_nil_r. assumption. }
             assert (Hwt : List.length t = width).
             { rewrite Forall_forall in Hw. apply Hw. rewrite Hused. apply in_or_app; left; assumption. }
             apply (located_frame s); cbn [s_fs s_removed]; [| |auto|assumption].
             ++ rewrite get_put_other by (apply bname_ne_file). rewrite get_put_other by (apply bname_ne_file).
                rewrite get_put_other by (intro E; apply bname_inj in E; contradiction).
                apply get_remove_other. apply bname_ne_file.
             ++ rewrite get_put_other by (apply bname_gz_ne_file). rewrite get_put_other by (apply bname_gz_ne_file).
                rewrite get_put_other by (intro E; symmetry in E; revert E; apply bname_ne_gz; congruence).
                apply get_remove_other. apply bname_gz_ne_file.
          -- constructor; [|constructor]. left. cbn [s_fs fst].
             rewrite get_put_other by (apply bname_ne_file). rewrite get_put_other by (apply bname_ne_file).
             apply get_put_same.
        * cbn [s_fs]. apply get_put_same.
        * split; [rewrite concat_app; simpl; rewrite app_nil_r, <- Hcat, <- ?app_assoc; reflexivity|].
          split; [unfold bytes; simpl; lia|].
          intros K M. apply Forall_app; split; [apply Hok; assumption|]. constructor; [|constructor].
          right; right. exists r; reflexivity.
      + (* plain append *)
        rewrite Hfp. unfold fs_append. rewrite Hcur.
        split; [reflexivity|].
        exists ts, last, chunks, (cur ++ [r]).
        cbn [s_fs s_fp s_backup s_size s_rot s_posts s_removed].
        split; [assumption|]. split; [assumption|]. split; [assumption|]. split; [assumption|].
        split; [split|].
        * cbn [s_posts s_fs]. eapply Forall2_located_impl; [|exact Hloc]. intros G ch HG HL.
          rewrite Hposts in HG. apply in_map_iff in HG as [t [<- Ht]].
          apply (located_frame s); cbn [s_fs s_removed]; [| |auto|assumption].
          -- apply get_put_other, bname_ne_file.
          -- apply get_put_other, bname_gz_ne_file.
        * cbn [s_fs]. apply get_put_same.
        * split; [rewrite <- Hcat, app_assoc; reflexivity|].
          split; [rewrite bytes_app, Hsz; unfold bytes; simpl; lia|].
          intros K M. specialize (Hok K M). apply Forall_app in Hok as [Hok1 Hok2].
          apply Forall_app; split; [assumption|]. constructor; [|constructor].
          right; left. unfold shall_rotate in SR. rewrite K in SR. unfold size_shall_rotate in SR.
          rewrite bytes_app. unfold bytes at 2; simpl. lia.
    - (* ---- compress phase of a postRotate goroutine *)
      cbn [step next_used written flat_map app]. rewrite !app_nil_r.
      destruct (nth_error (s_posts s) k) as [[f [|ph]]|] eqn:Nk;
        [|split; [assumption|]; exists ts, last, chunks, cur; repeat (split; try assumption)..].
      assert (Hf : exists t, In t ts /\ f = bname t).
      { apply nth_error_in_fst in Nk. rewrite Hposts in Nk. apply in_map_iff in Nk as [t [E Ht]]. eauto. }
      destruct Hf as [t [Ht ->]].
      split; [assumption|]. exists ts, last, chunks, cur. cbn [s_fs s_fp s_backup s_size s_rot s_posts s_removed].
      split; [rewrite map_fst_set_phase; assumption|]. split; [assumption|]. split; [assumption|]. split; [assumption|].
      split; [|split; [assumption|split; assumption]].
      unfold compress_file. destruct (c_compress c); cbn [negb].
      2:{ split; [|assumption]. cbn [s_posts]. rewrite map_fst_set_phase.
          eapply Forall2_located_impl; [|exact Hloc]. intros G ch _ HL. apply (located_frame s); auto. }
      destruct (fs_get (bname t) (s_fs s)) as [[cnt d]|] eqn:Gf.
      2:{ split; [|assumption]. cbn [s_posts]. rewrite map_fst_set_phase.
          eapply Forall2_located_impl; [|exact Hloc]. intros G ch _ HL. apply (located_frame s); auto. }
      split.
      + cbn [s_posts s_fs]. rewrite map_fst_set_phase.
        eapply Forall2_located_impl; [|exact Hloc]. intros G ch HG HL.
        rewrite Hposts in HG. apply in_map_iff in HG as [u [<- Hu]].
        assert (Hwt : List.length t = width) by (rewrite Forall_forall in Hw; apply Hw; rewrite Hused; apply in_or_app; left; assumption).
        assert (Hwu : List.length u = width) by (rewrite Forall_forall in Hw; apply Hw; rewrite Hused; apply in_or_app; left; assumption).
        destruct (name_eq_dec u t) as [->|Hut].
        * (* the compressed backup itself *)
          destruct HL as [HL|[HL _]]; [|congruence].
          rewrite Gf in HL. inversion HL; subst cnt d. right. cbn [s_fs].
          split; [apply get_remove_same|]. left.
          rewrite get_remove_other by (intro E; symmetry in E; revert E; apply bname_ne_gz; reflexivity).
          apply get_put_same.
        * apply (located_frame s); cbn [s_fs s_removed]; [| |auto|assumption].
          -- rewrite get_remove_other by (intro E; apply bname_inj in E; contradiction).
             apply get_put_other. apply bname_ne_gz; congruence.
          -- rewrite get_remove_other by (intro E; symmetry in E; revert E; apply bname_ne_gz; congruence).
             apply get_put_other. intro E; apply bname_gz_inj in E; contradiction.
      + cbn [s_fs]. rewrite get_remove_other by (intro E; symmetry in E; revert E; apply bname_ne_file).
        rewrite get_put_other by (intro E; symmetry in E; revert E; apply bname_gz_ne_file). assumption.
    - (* ---- compress phase that fails: the plain backup stays *)
      cbn [step next_used written flat_map app]. rewrite !app_nil_r.
      destruct (nth_error (s_posts s) k) as [[f [|ph]]|] eqn:Nk;
        [|split; [assumption|]; exists ts, last, chunks, cur; repeat (split; try assumption)..].
      assert (Hf : exists t, In t ts /\ f = bname t).
      { apply nth_error_in_fst in Nk. rewrite Hposts in Nk. apply in_map_iff in Nk as [t [E Ht]]. eauto. }
      destruct Hf as [t [Ht ->]].
      split; [assumption|]. exists ts, last, chunks, cur. cbn [s_fs s_fp s_backup s_size s_rot s_posts s_removed].
      split; [rewrite map_fst_set_phase; assumption|]. split; [assumption|]. split; [assumption|]. split; [assumption|].
      split; [|split; [assumption|split; assumption]].
      assert (Hsame : forall fs', fs' = s_fs s ->
                decomposition c (mkst fs' (s_fp s) (s_backup s) (s_size s) (s_rot s) (set_phase k 1%nat (s_posts s)) (s_removed s)) chunks cur).
      { intros fs' ->. split; [|assumption]. cbn [s_posts]. rewrite map_fst_set_phase.
        eapply Forall2_located_impl; [|exact Hloc]. intros G ch _ HL. apply (located_frame s); auto. }
      unfold compress_fail. destruct (c_compress c); cbn [negb]; [|apply Hsame; reflexivity].
      destruct (fs_get (bname t) (s_fs s)) as [x|] eqn:Gf; [|apply Hsame; reflexivity].
      destruct junk as [j|]; [|apply Hsame; reflexivity].
      split.
      + cbn [s_posts s_fs]. rewrite map_fst_set_phase.
        eapply Forall2_located_impl; [|exact Hloc]. intros G ch HG HL.
        rewrite Hposts in HG. apply in_map_iff in HG as [u [<- Hu]].
        assert (Hwt : List.length t = width) by (rewrite Forall_forall in Hw; apply Hw; rewrite Hused; apply in_or_app; left; assumption).
        assert (Hwu : List.length u = width) by (rewrite Forall_forall in Hw; apply Hw; rewrite Hused; apply in_or_app; left; assumption).
        destruct (name_eq_dec u t) as [->|Hut].
        * destruct HL as [HL|[HL _]]; [|congruence]. left. cbn [s_fs].
          rewrite get_put_other by (apply bname_ne_gz; reflexivity). assumption.
        * apply (located_frame s); cbn [s_fs s_removed]; [| |auto|assumption].
          -- apply get_put_other. apply bname_ne_gz; congruence.
          -- apply get_put_other. intro E; apply bname_gz_inj in E; contradiction.
      + cbn [s_fs]. rewrite get_put_other by (intro E; symmetry in E; revert E; apply bname_gz_ne_file). assumption.
    - (* ---- delete phase *)
      cbn [step next_used written flat_map app]. rewrite !app_nil_r.
      destruct (nth_error (s_posts s) k) as [[f [|[|ph]]]|] eqn:Nk;
        [split; [assumption|]; exists ts, last, chunks, cur; repeat (split; try assumption) | |
         split; [assumption|]; exists ts, last, chunks, cur; repeat (split; try assumption)..].
      split; [assumption|]. exists ts, last, chunks, cur. cbn [s_fs s_fp s_backup s_size s_rot s_posts s_removed].
      split; [rewrite map_fst_set_phase; assumption|]. split; [assumption|]. split; [assumption|]. split; [assumption|].
      split; [|split; [assumption|split; assumption]].
      set (outs := outdated_files c (s_fs s) b).
      split.
      + cbn [s_posts s_fs]. rewrite map_fst_set_phase.
        eapply Forall2_located_impl; [|exact Hloc]. intros G ch _ HL. unfold located in *. cbn [s_fs s_removed].
        destruct HL as [HL|[HL1 HL2]].
        * destruct (in_dec name_eq_dec G outs) as [Hi|Hn].
          -- right. split; [apply get_remove_all_in; assumption|]. right; left.
             apply in_or_app; right. apply in_snapshot; assumption.
          -- left. rewrite get_remove_all_notin; assumption.
        * right. split; [apply get_remove_all_none; assumption|].
          destruct HL2 as [HL2|[HL2|HL2]].
          -- destruct (in_dec name_eq_dec (G ++ gzip_ext) outs) as [Hi|Hn].
             ++ right; right. apply in_or_app; right. apply in_snapshot; assumption.
             ++ left. rewrite get_remove_all_notin; assumption.
          -- right; left. apply in_or_app; left; assumption.
          -- right; right. apply in_or_app; left; assumption.
      + cbn [s_fs]. rewrite get_remove_all_notin; [assumption|].
        intro Hi. apply outdated_sound in Hi; [|assumption]. destruct Hi as [_ [Hi _]]. congruence.
    - (* ---- restart: the existing file is reopened for appending, its size counts *)
      simpl in Hnow. apply Forall_inv in Hnow.
      cbn [step next_used written flat_map app]. rewrite !app_nil_r.
      unfold init. rewrite Hcur. cbn [s_fs s_fp s_backup s_size s_rot s_posts s_removed].
      split; [reflexivity|]. exists ts, now0', chunks, cur. cbn [s_fs s_fp s_backup s_size s_rot s_posts s_removed].
      split; [assumption|]. split; [reflexivity|].
      split; [rewrite Hused, removelast_last; reflexivity|].
      split.
      { rewrite Hused, removelast_last. rewrite Hused in Hw. apply Forall_app in Hw as [Hw1 _].
        apply Forall_app; split; [assumption | constructor; [assumption | constructor]]. }
      split.
      { split; [|assumption]. cbn [s_posts]. eapply Forall2_located_impl; [|exact Hloc].
        intros G ch _ HL. apply (located_frame s); auto. }
      split; [assumption|]. split; [reflexivity | assumption].
  Qed.
  (* ---- with compression on and no failing compress phase, a backup whose compress phase is over is
     no longer there as a plain file (so, by `located`, its chunk is under F.gz or was removed by
     clean-up) -- however the compress phases overlap with later rotations *)
  Definition compressed_inv (s : state) : Prop :=
    Forall (fun p => (1 <= snd p)%nat -> fs_get (fst p) (s_fs s) = None) (s_posts s).

  Definition is_gzip_fail (e : event) : bool := match e with EGzipFail _ _ => true | _ => false end.

  Lemma in_set_phase k v l g ph :
    In (g, ph) (set_phase k v l) -> In (g, ph) l \/ (ph = v /\ exists old, nth_error l k = Some (g, old)).
  Proof.
    revert k; induction l as [|[f p] l IH]; intros [|k]; simpl; try tauto.
    - intros [E|H]; [inversion E; subst; right; split; [reflexivity | exists p; reflexivity] | left; right; assumption].
    - intros [E|H]; [left; left; assumption|]. apply IH in H as [H|H]; [left; right; assumption | right; assumption].
  Qed.

  Lemma step_compressed s acc used e :
    c_compress c = true -> is_gzip_fail e = false ->
    Inv s acc used -> NoDup (next_used c s used e) ->
    compressed_inv s -> compressed_inv (step c s e).
  Proof.
    intros Hc Hnf [Hfp [ts [last [chunks [cur [Hposts [Hbk [Hused [Hw [[Hloc Hcur] _]]]]]]]]]] Hnd HJ.
    unfold compressed_inv in *. rewrite Forall_forall in HJ.
    assert (Hname : forall g ph, In (g, ph) (s_posts s) -> exists t, In t ts /\ g = bname t).
    { intros g ph Hin. apply (in_map fst) in Hin. rewrite Hposts in Hin. apply in_map_iff in Hin as [t [E Ht]]. eauto. }
    destruct e as [r now|k|k junk|k b|rot0' now0']; [| | discriminate | |].
    - (* write *)
      cbn [step]. unfold write. cbn [next_used] in Hnd.
      destruct (shall_rotate c (s_rot s) now (s_size s + rlen r)) eqn:SR.
      + unfold rotate, fs_exists. rewrite Hcur, Hbk, bname_nonempty. cbn [andb s_fs s_fp s_backup s_size s_rot s_posts s_removed].
        unfold fs_rename. rewrite Hcur. unfold fs_append. rewrite get_put_same.
        apply Forall_forall. intros [g ph] Hin Hph. cbn [fst snd] in *.
        apply in_app_or in Hin as [Hin|[E|[]]]; [|inversion E; subst; lia].
        destruct (Hname g ph Hin) as [t [Ht ->]].
        assert (Htl : t <> last).
        { intro; subst t. rewrite Hused in Hnd. apply nodup_app_l in Hnd. apply NoDup_remove_2 in Hnd. apply Hnd. rewrite app_nil_r. assumption. }
        rewrite get_put_other by (apply bname_ne_file). rewrite get_put_other by (apply bname_ne_file).
        rewrite get_put_other by (intro E; apply bname_inj in E; contradiction).
        rewrite get_remove_other by (apply bname_ne_file). apply (HJ (bname t, ph) Hin Hph).
      + rewrite Hfp. unfold fs_append. rewrite Hcur. cbn [s_fs s_posts].
        apply Forall_forall. intros [g ph] Hin Hph. cbn [fst snd] in *.
        destruct (Hname g ph Hin) as [t [Ht ->]].
        rewrite get_put_other by (apply bname_ne_file). apply (HJ (bname t, ph) Hin Hph).
    - (* compress phase *)
      cbn [step]. destruct (nth_error (s_posts s) k) as [[f [|ph0]]|] eqn:Nk; try (apply Forall_forall; exact HJ).
      cbn [s_fs s_posts]. unfold compress_file. rewrite Hc. cbn [negb].
      assert (Hf : exists t, In t ts /\ f = bname t) by (apply nth_error_In in Nk; eapply Hname; eassumption).
      destruct Hf as [t [Ht ->]].
      assert (Hwt : List.length t = width) by (rewrite Forall_forall in Hw; apply Hw; rewrite Hused; apply in_or_app; left; assumption).
      apply Forall_forall. intros [g ph] Hin Hph. cbn [fst snd] in *.
      assert (Hg : exists u, In u ts /\ g = bname u).
      { apply in_set_phase in Hin as [Hin|[_ [old Hin]]]; [eapply Hname; eassumption | apply nth_error_In in Hin; eapply Hname; eassumption]. }
      destruct Hg as [u [Hu ->]].
      assert (Hwu : List.length u = width) by (rewrite Forall_forall in Hw; apply Hw; rewrite Hused; apply in_or_app; left; assumption).
      destruct (name_eq_dec u t) as [->|Hut].
      + destruct (fs_get (bname t) (s_fs s)) as [[cnt d]|] eqn:G; [apply get_remove_same | assumption].
      + assert (Hold : fs_get (bname u) (s_fs s) = None).
        { apply in_set_phase in Hin as [Hin|[_ [old Hin]]]; [apply (HJ (bname u, ph) Hin Hph)|].
          rewrite Nk in Hin. inversion Hin as [E0]. apply bname_inj in E0. congruence. }
        destruct (fs_get (bname t) (s_fs s)) as [[cnt d]|]; [|assumption].
        rewrite get_remove_other by (intro E; apply bname_inj in E; contradiction).
        rewrite get_put_other by (apply bname_ne_gz; congruence). assumption.
    - (* delete phase *)
      cbn [step]. destruct (nth_error (s_posts s) k) as [[f [|[|ph0]]]|] eqn:Nk; try (apply Forall_forall; exact HJ).
      cbn [s_fs s_posts]. apply Forall_forall. intros [g ph] Hin Hph. cbn [fst snd] in *.
      apply get_remove_all_none.
      apply in_set_phase in Hin as [Hin|[_ [old Hin]]]; [apply (HJ (g, ph) Hin Hph)|].
      rewrite Nk in Hin. inversion Hin; subst. apply nth_error_In in Nk. apply (HJ (g, 1%nat) Nk). cbn; lia.
    - (* restart *)
      cbn [step]. unfold init. rewrite Hcur. cbn [s_fs s_posts]. apply Forall_forall. exact HJ.
  Qed.
End Durability.

Definition init_content (c : config) (fs0 : fsys) : content :=
  match fs_get (c_file c) fs0 with Some (cnt, _) => cnt | None => [] end.

(* a pre-existing current log file is a plain file *)
Definition current_plain (c : config) (fs0 : fsys) : Prop :=
  forall cnt d, fs_get (c_file c) fs0 = Some (cnt, d) -> d = 0%nat.

Lemma written_cons e h : written (e :: h) = written [e] ++ written h.
Proof. unfold written. simpl. rewrite app_nil_r. reflexivity. Qed.

Lemma nows_cons e h : nows (e :: h) = nows [e] ++ nows h.
Proof. unfold nows. simpl. rewrite app_nil_r. reflexivity. Qed.

Lemma run_inv c width ic : c_delim c <> [] ->
  forall h s acc used,
    Inv c width ic s acc used ->
    Forall (fun t => List.length t = width) (nows h) ->
    stamps_distinct c s used h ->
    Inv c width ic (run c s h) (acc ++ written h) (used_stamps c s used h).
Proof.
  intros Hd. induction h as [|e h IH]; intros s acc used HI Hw Hnd.
  - simpl. rewrite !app_nil_r. assumption.
  - rewrite written_cons. rewrite nows_cons in Hw. apply Forall_app in Hw as [Hw1 Hw2].
    destruct Hnd as [Hnd1 Hnd2]. rewrite app_assoc. cbn [run fold_left used_stamps]. apply IH; [|assumption|assumption].
    apply step_inv; assumption.
Qed.

Lemma init_inv c width fs0 rot0 now0 :
  current_plain c fs0 -> List.length now0 = width ->
  Inv c width (init_content c fs0) (init c fs0 rot0 now0) (init_content c fs0) [now0].
Proof.
  intros Hp Hw. unfold Inv, init, init_content.
  destruct (fs_get (c_file c) fs0) as [[cnt d]|] eqn:G.
  - specialize (Hp _ _ G). subst d. split; [reflexivity|]. exists [], now0, [], cnt.
    cbn [s_fs s_fp s_backup s_size s_rot s_posts s_removed map app concat].
    split; [reflexivity|]. split; [reflexivity|]. split; [reflexivity|].
    split; [constructor; [assumption|constructor]|].
    split; [split; [constructor | assumption]|].
    split; [reflexivity|]. split; [reflexivity|].
    intros _ _. constructor; [left; reflexivity | constructor].
  - split; [reflexivity|]. exists [], now0, [], [].
    cbn [s_fs s_fp s_backup s_size s_rot s_posts s_removed map app concat].
    split; [reflexivity|]. split; [reflexivity|]. split; [reflexivity|].
    split; [constructor; [assumption|constructor]|].
    split; [split; [constructor | apply get_put_same]|].
    split; [reflexivity|]. split; [reflexivity|].
    intros _ _. constructor; [left; reflexivity | constructor].
Qed.

(* everything the durability theorems need, in one statement *)
Lemma durability c width fs0 rot0 now0 h :
  c_delim c <> [] -> current_plain c fs0 ->
  stamps_ok c width (init c fs0 rot0 now0) now0 h ->
  let s := run c (init c fs0 rot0 now0) h in
  exists chunks cur,
    decomposition c s chunks cur /\
    concat chunks ++ cur = init_content c fs0 ++ written h /\
    map fst (s_posts s) ++ [s_backup s] = map (backup_filename c) (used_stamps c (init c fs0 rot0 now0) [now0] h) /\
    s_size s = bytes cur /\
    (c_kind c = SizeLimit -> 0 < c_max_size c ->
     Forall (size_ok (c_max_size c) (init_content c fs0)) (chunks ++ [cur])).
Proof.
  intros Hd Hp [Hw Hnd] s. inversion Hw as [|? ? Hw0 Hw1]; subst.
  pose proof (run_inv c (List.length now0) (init_content c fs0) Hd h _ _ _ (init_inv c _ fs0 rot0 now0 Hp eq_refl) Hw1 Hnd) as HI.
  destruct HI as [_ [ts [last [chunks [cur [H1 [H2 [H3 [H4 [H5 [H6 [H7 H8]]]]]]]]]]]].
  exists chunks, cur. fold s in H1, H2, H5, H7.
  split; [exact H5|]. split; [exact H6|]. split; [|split; [exact H7 | exact H8]].
  rewrite H1, H2. change [backup_filename c last] with (map (backup_filename c) [last]).
  rewrite <- map_app. f_equal. symmetry. exact H3.
Qed.

Lemma no_loss c width fs0 rot0 now0 h :
  c_delim c <> [] -> current_plain c fs0 ->
  stamps_ok c width (init c fs0 rot0 now0) now0 h ->
  let s := run c (init c fs0 rot0 now0) h in
  exists chunks cur,
    decomposition c s chunks cur /\
    concat chunks ++ cur = init_content c fs0 ++ written h /\
    map fst (s_posts s) ++ [s_backup s] = map (backup_filename c) (used_stamps c (init c fs0 rot0 now0) [now0] h).
Proof.
  intros Hd Hp Hs s. destruct (durability c width fs0 rot0 now0 h Hd Hp Hs) as [chunks [cur [H1 [H2 [H3 _]]]]].
  exists chunks, cur. auto.
Qed.

Lemma size_overshoot c width fs0 rot0 now0 h :
  c_delim c <> [] -> current_plain c fs0 ->
  stamps_ok c width (init c fs0 rot0 now0) now0 h ->
  c_kind c = SizeLimit -> 0 < c_max_size c ->
  let s := run c (init c fs0 rot0 now0) h in
  exists chunks cur,
    decomposition c s chunks cur /\
    concat chunks ++ cur = init_content c fs0 ++ written h /\
    Forall (size_ok (c_max_size c) (init_content c fs0)) (chunks ++ [cur]).
Proof.
  intros Hd Hp Hs K M s. destruct (durability c width fs0 rot0 now0 h Hd Hp Hs) as [chunks [cur [H1 [H2 [_ [_ H5]]]]]].
  exists chunks, cur. auto.
Qed.

(* "by less than one record": before its last record was appended the file was within the limit *)
Lemma size_ok_bound max ic cnt :
  0 < max -> Forall (fun r => 0 <= rlen r) cnt -> size_ok max ic cnt ->
  cnt = ic \/ cnt = [] \/ exists pre r, cnt = pre ++ [r] /\ bytes pre <= max.
Proof.
  intros M Hn [H|[H|[r ->]]]; [left; assumption | | right; right; exists [], r; split; [reflexivity | unfold bytes; simpl; lia]].
  destruct cnt as [|a l] using rev_ind; [right; left; reflexivity|]. clear IHl.
  right; right. exists l, a. split; [reflexivity|]. rewrite bytes_app in H.
  apply Forall_app in Hn as [_ Hn]. apply Forall_inv in Hn. unfold bytes at 2 in H; simpl in H. lia.
Qed.

(* each record sits in exactly one file *)
Lemma nodup_app_disjoint {A} (a b : list A) x : NoDup (a ++ b) -> In x a -> In x b -> False.
Proof.
  induction a as [|y a IH]; simpl; intros H Ha Hb; [assumption|]. inversion H; subst.
  destruct Ha as [->|Ha]; [apply H2; apply in_or_app; right; assumption | eapply IH; eassumption].
Qed.

Lemma nodup_app_r {A} (a b : list A) : NoDup (a ++ b) -> NoDup b.
Proof. induction a as [|x a IH]; simpl; intro H; [assumption|]. inversion H; auto. Qed.

Lemma in_nth_concat {A} (L : list (list A)) i x : In x (nth i L []) -> In x (concat L).
Proof.
  revert i; induction L as [|a L IH]; intros [|i] H; simpl in *; try contradiction.
  - apply in_or_app; left; assumption.
  - apply in_or_app; right; eapply IH; eassumption.
Qed.

Lemma nodup_concat_unique {A} (L : list (list A)) :
  NoDup (concat L) -> forall i j x, In x (nth i L []) -> In x (nth j L []) -> i = j.
Proof.
  induction L as [|a L IH]; intros H i j x Hi Hj; [destruct i; destruct Hi|]. simpl in H.
  destruct i as [|i], j as [|j]; simpl in Hi, Hj; [reflexivity | | |].
  - exfalso. eapply nodup_app_disjoint; [exact H | exact Hi | eapply in_nth_concat; eassumption].
  - exfalso. eapply nodup_app_disjoint; [exact H | exact Hj | eapply in_nth_concat; eassumption].
  - f_equal. eapply IH; [eapply nodup_app_r; eassumption | eassumption | eassumption].
Qed.

Lemma each_record_one_file c width fs0 rot0 now0 h :
  c_delim c <> [] -> current_plain c fs0 ->
  stamps_ok c width (init c fs0 rot0 now0) now0 h ->
  NoDup (map rid (init_content c fs0 ++ written h)) ->
  let s := run c (init c fs0 rot0 now0) h in
  exists chunks cur,
    decomposition c s chunks cur /\
    (forall r, In r (written h) -> exists i, In r (nth i (chunks ++ [cur]) [])) /\
    (forall i j r, In r (nth i (chunks ++ [cur]) []) -> In r (nth j (chunks ++ [cur]) []) -> i = j).
Proof.
  intros Hd Hp Hs Hnd s. destruct (no_loss c width fs0 rot0 now0 h Hd Hp Hs) as [chunks [cur [H1 [H2 _]]]].
  exists chunks, cur. split; [assumption|].
  assert (E : concat (chunks ++ [cur]) = init_content c fs0 ++ written h).
  { rewrite concat_app. simpl. rewrite app_nil_r. assumption. }
  split.
  - intros r Hr. assert (Hin : In r (concat (chunks ++ [cur]))) by (rewrite E; apply in_or_app; right; assumption).
    apply in_concat in Hin as [l [Hl Hrl]]. apply In_nth with (d := []) in Hl as [i [_ Hi]]. exists i. rewrite <- Hi in Hrl. exact Hrl.
  - apply nodup_concat_unique. rewrite E. eapply NoDup_map_inv; eassumption.
Qed.

(* name order of backups is the order of their (fixed-width) clock strings *)
Lemma name_order_is_time_order c s t x y :
  List.length s = List.length t -> s <> t ->
  lex_cmp (backup_filename c s ++ x) (backup_filename c t ++ y) = lex_cmp s t.
Proof.
  intros Hl Hn. rewrite !backup_filename_eq, <- !app_assoc, lex_cmp_app_head.
  apply lex_cmp_same_len; assumption.
Qed.

(* ------------------------------------------------------------------ gzip *)
Section Gzip.
  Variable enc : record -> list N.                 (* the bytes of a record *)
  Variables gzip gunzip : list N -> list N.        (* compress/gzip writer and reader *)
  Hypothesis gunzip_gzip : forall b, gunzip (gzip b) = b.

  Definition raw (cnt : content) : list N := flat_map enc cnt.
  Definition on_disk (f : file) : list N := Nat.iter (snd f) gzip (raw (fst f)).
  Definition read_back (layers : nat) (b : list N) : list N := Nat.iter layers gunzip b.

  Lemma iter_shift {A} (f : A -> A) n x : Nat.iter (S n) f x = Nat.iter n f (f x).
  Proof. induction n as [|n IH]; [reflexivity|]. simpl in *. rewrite IH. reflexivity. Qed.

  Lemma read_back_on_disk f : read_back (snd f) (on_disk f) = raw (fst f).
  Proof.
    destruct f as [cnt d]. unfold read_back, on_disk. cbn [fst snd]. generalize (raw cnt) as b.
    induction d as [|d IH]; intro b; [reflexivity|].
    rewrite iter_shift. simpl. rewrite gunzip_gzip. apply IH.
  Qed.

  Lemma gzip_roundtrip c F fs cnt d :
    c_compress c = true -> fs_get F fs = Some (cnt, d) ->
    let fs' := compress_file c F fs in
    fs_get F fs' = None /\
    fs_get (F ++ gzip_ext) fs' = Some (cnt, S d) /\
    on_disk (cnt, S d) = gzip (on_disk (cnt, d)) /\
    read_back (S d) (on_disk (cnt, S d)) = raw cnt.
  Proof.
    intros Hc Hg fs'. subst fs'. unfold compress_file. rewrite Hc, Hg. cbn [negb].
    assert (Hne : F ++ gzip_ext <> F).
    { intro E. apply (f_equal (@List.length N)) in E. rewrite app_length, gzip_ext_length in E. lia. }
    split; [apply get_remove_same|]. split; [rewrite get_remove_other by assumption; apply get_put_same|].
    split; [reflexivity|]. apply (read_back_on_disk (cnt, S d)).
  Qed.
End Gzip.

(* ------------------------------------------------------------------ a failed compression keeps the plain backup *)
Lemma compress_fail_keeps c F junk fs x :
  fs_get F fs = Some x -> fs_get F (compress_fail c F junk fs) = Some x.
Proof.
  intro H. unfold compress_fail. destruct (c_compress c); cbn [negb]; [|assumption]. rewrite H.
  destruct junk as [j|]; [|assumption]. rewrite get_put_other; [assumption|].
  intro E. apply (f_equal (@List.length N)) in E. rewrite app_length, gzip_ext_length in E. lia.
Qed.

(* ------------------------------------------------------------------ the configuration path *)
Lemma config_reaches_rule path u :
  let c := rule_of_config path u in
  c_file c = path /\ c_delim c = backup_file_delimiter /\
  c_gzip c = su_compress u /\ c_compress c = su_compress u /\
  c_days c = Z.max 0 (su_keep_days u) /\
  (su_size u = true ->
   c_kind c = SizeLimit /\ c_max_size c = Z.max 0 (su_max_size u) * mega_bytes /\
   c_max_backups c = Z.max 0 (su_max_backups u)) /\
  (su_size u = false -> c_kind c = Daily).
Proof.
  unfold rule_of_config, rule_of_options, options_of_setup. cbn [o_size o_gzip o_keep_days o_max_size o_max_backups].
  destruct (su_size u); cbn [c_file c_delim c_gzip c_compress c_days c_kind c_max_size c_max_backups];
    repeat split; try reflexivity; try discriminate;
    try (destruct (0 <? su_keep_days u) eqn:E; lia);
    try (destruct (0 <? su_max_size u) eqn:E; lia);
    try (destruct (0 <? su_max_backups u) eqn:E; lia).
Qed.

Lemma config_reaches_rule_positive path u :
  su_size u = true -> 0 < su_max_size u -> 0 < su_max_backups u -> 0 < su_keep_days u ->
  let c := rule_of_config path u in
  c_kind c = SizeLimit /\ c_max_size c = su_max_size u * mega_bytes /\
  c_max_backups c = su_max_backups u /\ c_days c = su_keep_days u /\
  c_gzip c = su_compress u /\ c_compress c = su_compress u.
Proof.
  intros Hs H1 H2 H3 c. destruct (config_reaches_rule path u) as [_ [_ [G1 [G2 [G3 [G4 _]]]]]].
  destruct (G4 Hs) as [K [M B]]. fold c in G1, G2, G3, K, M, B.
  repeat split; try assumption; [rewrite M | rewrite B | rewrite G3]; f_equal; lia.
Qed.

(* ------------------------------------------------------------------ a record is written as a whole *)
(* the rotation decision is taken once, before the record is written: after `write` the record is the
   tail of the current file, whether or not a rotation happened -- never split between two files *)
Lemma write_record_whole c s r now cur d :
  s_fp s = true -> fs_get (c_file c) (s_fs s) = Some (cur, d) ->
  exists pre d', fs_get (c_file c) (s_fs (write c s r now)) = Some (pre ++ [r], d') /\ (pre = cur \/ pre = []).
Proof.
  intros Hfp Hcur. unfold write.
  destruct (shall_rotate c (s_rot s) now (s_size s + rlen r)).
  - cbn [s_fp s_fs rotate]. unfold rotate.
    destruct (fs_exists (c_file c) (s_fs s) && (0 <? Z.of_nat (List.length (s_backup s)))); cbn [s_fp s_fs];
      unfold fs_append; rewrite get_put_same; exists [], 0%nat; rewrite get_put_same; auto.
  - rewrite Hfp. cbn [s_fs]. unfold fs_append. rewrite Hcur. exists cur, d. rewrite get_put_same. auto.
Qed.

Lemma run_compressed c width ic : c_delim c <> [] -> c_compress c = true ->
  forall h s acc used,
    existsb is_gzip_fail h = false ->
    Inv c width ic s acc used ->
    Forall (fun t => List.length t = width) (nows h) ->
    stamps_distinct c s used h ->
    compressed_inv s -> compressed_inv (run c s h).
Proof.
  intros Hd Hc. induction h as [|e h IH]; intros s acc used Hnf HI Hw Hnd HJ; [assumption|].
  cbn [existsb] in Hnf. apply orb_false_iff in Hnf as [Hnf1 Hnf2].
  rewrite nows_cons in Hw. apply Forall_app in Hw as [Hw1 Hw2]. destruct Hnd as [Hnd1 Hnd2].
  cbn [run fold_left]. eapply (IH _ (acc ++ written [e]) (next_used c s used e)); [assumption | | assumption | assumption |].
  - apply step_inv; assumption.
  - eapply step_compressed; eassumption.
Qed.

Lemma all_backups_compressed c width fs0 rot0 now0 h :
  c_delim c <> [] -> current_plain c fs0 ->
  stamps_ok c width (init c fs0 rot0 now0) now0 h ->
  c_compress c = true -> existsb is_gzip_fail h = false ->
  let s := run c (init c fs0 rot0 now0) h in
  forall F ph, In (F, ph) (s_posts s) -> (1 <= ph)%nat -> fs_get F (s_fs s) = None.
Proof.
  intros Hd Hp [Hw Hnd] Hc Hnf s F ph Hin Hph. inversion Hw as [|? ? Hw0 Hw1]; subst.
  assert (HJ : compressed_inv (run c (init c fs0 rot0 now0) h)).
  { eapply (run_compressed c (List.length now0) (init_content c fs0) Hd Hc h); [assumption | apply init_inv; [assumption | reflexivity] | assumption | assumption |].
    unfold compressed_inv, init. destruct (fs_get (c_file c) fs0) as [[cnt d]|]; constructor. }
  unfold compressed_inv in HJ. rewrite Forall_forall in HJ. apply (HJ (F, ph) Hin Hph).
Qed.

(* ------------------------------------------------------------------ symbolic links: entry-level operations
   commute with the view, so a symlinked log path rotates exactly like a plain one *)
Lemma view_lookup store k L :
  alookup name_eqb k (view store L) = option_map (resolve store) (alookup name_eqb k L).
Proof. induction L as [|[k' e] L IH]; simpl; [reflexivity|]. destruct (name_eqb k k'); [reflexivity | exact IH]. Qed.

Lemma view_aremove store k L : aremove name_eqb k (view store L) = view store (aremove name_eqb k L).
Proof. induction L as [|[k' e] L IH]; simpl; [reflexivity|]. destruct (name_eqb k k'); simpl; [exact IH | f_equal; exact IH]. Qed.

Lemma view_remove store n L : view store (l_remove n L) = fs_remove n (view store L).
Proof. unfold l_remove, fs_remove. symmetry. apply view_aremove. Qed.

Lemma view_rename store o n L : view store (l_rename o n L) = fs_rename o n (view store L).
Proof.
  unfold l_rename, fs_rename, fs_get, fs_put, fs_remove, aset. rewrite view_lookup.
  destruct (alookup name_eqb o L) as [e|]; simpl; [|reflexivity].
  rewrite !view_aremove. reflexivity.
Qed.

Lemma view_create store n L : view store (l_create n L) = fs_put n ([], 0%nat) (view store L).
Proof. unfold l_create, fs_put, aset. simpl. rewrite view_aremove. reflexivity. Qed.

(* rotate :347-361 on a path that is any kind of entry (a link in particular): seen through open(), the
   directory changes exactly as Model.rotate changes a plain one; the backup name now carries the very entry the
   path carried (the same link to the same target, whose content nobody touches any more), and the path is a
   fresh empty regular file *)
Lemma al_remove_other {V} (M : list (name * V)) k k' :
  k <> k' -> alookup name_eqb k (aremove name_eqb k' M) = alookup name_eqb k M.
Proof.
  intros Hk. induction M as [|[a b] M IH]; simpl; [reflexivity|].
  destruct (name_eqb k' a) eqn:E1.
  - apply name_eqb_eq in E1; subst. rewrite (name_eqb_neq k a Hk). exact IH.
  - simpl. destruct (name_eqb k a); [reflexivity | exact IH].
Qed.

Lemma al_set_same {V} (M : list (name * V)) k v : alookup name_eqb k (aset name_eqb k v M) = Some v.
Proof. unfold aset. simpl. rewrite name_eqb_refl. reflexivity. Qed.

Lemma al_set_other {V} (M : list (name * V)) k k' v :
  k <> k' -> alookup name_eqb k (aset name_eqb k' v M) = alookup name_eqb k M.
Proof. intro H. unfold aset. simpl. rewrite (name_eqb_neq k k' H). apply al_remove_other; assumption. Qed.

Lemma symlink_rotation store file B L e :
  file <> B -> alookup name_eqb file L = Some e ->
  let L' := l_create file (l_rename file B L) in
  view store L' = fs_put file ([], 0%nat) (fs_rename file B (view store L)) /\
  alookup name_eqb B L' = Some e /\
  alookup name_eqb file L' = Some (Reg ([], 0%nat)).
Proof.
  intros Hne He L'. subst L'. split; [rewrite view_create, view_rename; reflexivity|].
  unfold l_create, l_rename. rewrite He. split.
  - rewrite al_set_other by congruence. apply al_set_same.
  - apply al_set_same.
Qed.

(* ------------------------------------------------------------------ the size bound needs no proviso *)
(* whatever the clock strings are (a burst within the second of creation or of the last rotation, coinciding
   backup names): when the counted size is the size of the current file, it still is after a write, and the file
   then is within the limit or consists of the record just written *)
Lemma write_size_bound c s r now cur d :
  c_kind c = SizeLimit -> 0 < c_max_size c ->
  s_fp s = true -> fs_get (c_file c) (s_fs s) = Some (cur, d) -> s_size s = bytes cur ->
  let s' := write c s r now in
  exists cur' d', fs_get (c_file c) (s_fs s') = Some (cur', d') /\ s_size s' = bytes cur' /\ s_fp s' = true /\
                  (bytes cur' <= c_max_size c \/ cur' = [r]).
Proof.
  intros K M Hfp Hcur Hsz s'. subst s'. unfold write, shall_rotate. rewrite K. unfold size_shall_rotate.
  destruct ((0 <? c_max_size c) && (c_max_size c <? s_size s + rlen r)) eqn:SR.
  - unfold rotate.
    destruct (fs_exists (c_file c) (s_fs s) && (0 <? Z.of_nat (List.length (s_backup s)))); cbn [s_fp s_fs s_size];
      unfold fs_append; rewrite get_put_same; exists [r], 0%nat; rewrite get_put_same;
      (split; [reflexivity|]; split; [unfold bytes; simpl; lia|]; split; [reflexivity | right; reflexivity]).
  - rewrite Hfp. cbn [s_fs s_size s_fp]. unfold fs_append. rewrite Hcur. exists (cur ++ [r]), d. rewrite get_put_same.
    split; [reflexivity|]. split; [rewrite bytes_app, Hsz; unfold bytes; simpl; lia|]. split; [reflexivity|].
    left. rewrite bytes_app. unfold bytes at 2. simpl. rewrite <- Hsz. lia.
Qed.
