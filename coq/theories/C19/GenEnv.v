(* C19 GenEnv: environment of the GoLite translation of DailyRotateRule.ShallRotate
   (`len(r.rotatedTime) > 0 && getNowDate() != r.rotatedTime`). gogen types every value as Z, so date
   strings are encoded relative to the current date: 0 = the string getNowDate() returns now,
   -1 = the empty string, 1 = any other string (see Link.enc). Only the sign of len is kept. *)
From Coq Require Import ZArith.
Local Open Scope Z_scope.

Definition go_now_date : Z := 0.
Definition go_len (z : Z) : Z := if Z.eqb z (-1) then 0 else 1.
Definition go_eqb (a b : Z) : bool := Z.eqb a b.
