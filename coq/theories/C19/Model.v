(* C19 Model: transcription of lib/logx/rotatelogger.go (executable definitions only, source order).

   File names are byte strings (list N) relative to the log directory: the Go code prefixes every
   name with the same clean directory path, which changes neither equality nor the byte-wise order
   (`file < boundaryFile`) nor the single-`*` glob. A file is a list of opaque records (id, byte
   length) plus the number of gzip layers around it. Time never comes from a clock: every write
   carries the string that getNowDate()/getNowDateInRFC3339Format() returns while it is processed,
   every delete phase carries the boundary string
   time.Now().Add(-time.Hour*time.Duration(hoursPerDay*days)).Format(...) it computed.
   I/O errors of os.* (Close, Rename, Create, Remove of an existing file) are not modelled. *)
From God Require Import Base.Prelude.
Local Open Scope Z_scope.

(* ---------------------------------------------------------------- names, order, directory *)
Definition name := list N.

Definition name_eqb : name -> name -> bool := list_eqb N.eqb.

(* Go's string comparison: byte-wise lexicographic *)
Fixpoint lex_cmp (a b : name) : comparison :=
  match a, b with
  | [], [] => Eq
  | [], _ :: _ => Lt
  | _ :: _, [] => Gt
  | x :: a', y :: b' => match N.compare x y with Eq => lex_cmp a' b' | c => c end
  end.

Definition name_ltb (a b : name) : bool := match lex_cmp a b with Lt => true | _ => false end.

(* records are opaque: identity and byte length *)
Record record := mkrec { rid : nat; rlen : Z }.
Definition content := list record.
Definition bytes (c : content) : Z := fold_right (fun r a => rlen r + a) 0 c.

Definition file := (content * nat)%type.        (* records, gzip layers *)
Definition fsys := list (name * file).

Definition fs_get (n : name) (fs : fsys) : option file := alookup name_eqb n fs.
Definition fs_exists (n : name) (fs : fsys) : bool := match fs_get n fs with Some _ => true | None => false end.
Definition fs_remove (n : name) (fs : fsys) : fsys := aremove name_eqb n fs.          (* os.Remove *)
Definition fs_put (n : name) (f : file) (fs : fsys) : fsys := aset name_eqb n f fs.    (* os.Create + content *)
Definition fs_rename (o n : name) (fs : fsys) : fsys :=                                (* os.Rename: replaces n *)
  match fs_get o fs with Some f => fs_put n f (fs_remove o fs) | None => fs end.
(* fp.Write through an open descriptor; when the name was unlinked meanwhile the bytes go to an
   inode no directory entry refers to any more: nothing visible changes *)
Definition fs_append (n : name) (r : record) (fs : fsys) : fsys :=
  match fs_get n fs with Some (c, d) => fs_put n (c ++ [r], d) fs | None => fs end.

(* directory listing as filepath.Glob / sort.Strings see it: sorted, each entry once *)
Fixpoint insert_name (x : name) (l : list name) : list name :=
  match l with
  | [] => [x]
  | y :: r => match lex_cmp x y with Lt => x :: l | Eq => l | Gt => y :: insert_name x r end
  end.
Definition sort_names (l : list name) : list name := fold_right insert_name [] l.
Definition ls (fs : fsys) : list name := sort_names (map fst fs).

(* filepath.Match for the patterns built below: pre ++ "*" ++ suf, no other meta character and no
   separator in any name *)
Definition has_prefix (p s : name) : bool := name_eqb p (firstn (List.length p) s).
Definition has_suffix (q s : name) : bool := name_eqb q (skipn (List.length s - List.length q) s).
Definition glob_match (pre suf s : name) : bool :=
  (List.length pre + List.length suf <=? List.length s)%nat && has_prefix pre s && has_suffix suf s.
Definition glob (pre suf : name) (fs : fsys) : list name := filter (glob_match pre suf) (ls fs).

(* ---------------------------------------------------------------- constants (rotatelogger.go:21-30) *)
Definition gzip_ext : name := [46; 103; 122]%N.   (* ".gz" *)
Definition mega_bytes : Z := 1048576.             (* 1 << 20 *)
Definition dot : N := 46%N.

(* ---------------------------------------------------------------- configuration *)
Inductive rkind := Daily | SizeLimit.

Record config := mkcfg {
  c_kind : rkind;
  c_file : name;          (* filename (base name) *)
  c_delim : name;         (* delimiter *)
  c_days : Z;             (* days *)
  c_gzip : bool;          (* rule.gzip *)
  c_compress : bool;      (* RotateLogger.compress *)
  c_max_size : Z;         (* SizeLimitRotateRule.maxSize, bytes (maxSize * megaBytes, :148) *)
  c_max_backups : Z       (* SizeLimitRotateRule.maxBackups *)
}.

Definition gz_opt (c : config) : name := if c_gzip c then gzip_ext else [].

(* ---------------------------------------------------------------- DailyRotateRule (:87-136) *)
(* BackupFilename :87 *)
Definition daily_backup_filename (c : config) (now : name) : name := c_file c ++ c_delim c ++ now.

(* OutdatedFiles :97 *)
Definition daily_outdated (c : config) (fs : fsys) (boundary : name) : list name :=
  if c_days c <=? 0 then [] else
  let files := glob (c_file c ++ c_delim c) (gz_opt c) fs in
  let boundary_file := c_file c ++ c_delim c ++ boundary ++ gz_opt c in
  filter (fun f => name_ltb f boundary_file) files.

(* ShallRotate :134 *)
Definition daily_shall_rotate (rotated now : name) : bool :=
  (0 <? Z.of_nat (List.length rotated)) && negb (name_eqb now rotated).

(* ---------------------------------------------------------------- SizeLimitRotateRule (:154-230) *)
(* parseFilename :225 -- filepath.Ext: suffix from the last dot of the base name *)
Fixpoint parse_filename (s : name) : name * name :=
  match s with
  | [] => ([], [])
  | ch :: r =>
      let '(p, e) := parse_filename r in
      match e with
      | _ :: _ => (ch :: p, e)
      | [] => if N.eqb ch dot then ([], ch :: r) else (ch :: p, [])
      end
  end.

(* BackupFilename :154 *)
Definition size_backup_filename (c : config) (now : name) : name :=
  let '(prefix, ext) := parse_filename (c_file c) in prefix ++ c_delim c ++ now ++ ext.

Fixpoint take_while {A} (f : A -> bool) (l : list A) : list A :=
  match l with
  | [] => []
  | a :: r => if f a then a :: take_while f r else []
  end.

(* OutdatedFiles :167 -- the result is the key set of a map; given here in name order *)
Definition size_outdated (c : config) (fs : fsys) (boundary : name) : list name :=
  let '(prefix, ext) := parse_filename (c_file c) in
  let files := glob (prefix ++ c_delim c) (ext ++ gz_opt c) fs in           (* :180, sort.Strings :186 *)
  let n := Z.of_nat (List.length files) in
  let '(out1, files1) :=
    if (0 <? c_max_backups c) && (c_max_backups c <? n)                      (* :191 *)
    then (firstn (Z.to_nat (n - c_max_backups c)) files, skipn (Z.to_nat (n - c_max_backups c)) files)
    else ([], files) in
  let out2 :=
    if 0 <? c_days c                                                         (* :199 *)
    then let boundary_file := prefix ++ c_delim c ++ boundary ++ ext ++ gz_opt c in
         take_while (fun f => name_ltb f boundary_file) files1               (* :205-210 *)
    else [] in
  out1 ++ out2.

(* ShallRotate :221 *)
Definition size_shall_rotate (max_size size : Z) : bool := (0 <? max_size) && (max_size <? size).

(* ---------------------------------------------------------------- rule dispatch *)
Definition backup_filename (c : config) (now : name) : name :=
  match c_kind c with Daily => daily_backup_filename c now | SizeLimit => size_backup_filename c now end.
Definition outdated_files (c : config) (fs : fsys) (boundary : name) : list name :=
  match c_kind c with Daily => daily_outdated c fs boundary | SizeLimit => size_outdated c fs boundary end.
Definition shall_rotate (c : config) (rotated now : name) (size : Z) : bool :=
  match c_kind c with Daily => daily_shall_rotate rotated now | SizeLimit => size_shall_rotate (c_max_size c) size end.

(* ---------------------------------------------------------------- RotateLogger (:61-72) *)
Record state := mkst {
  s_fs : fsys;                     (* the log directory *)
  s_fp : bool;                     (* l.fp != nil *)
  s_backup : name;                 (* l.backup *)
  s_size : Z;                      (* l.currentSize *)
  s_rot : name;                    (* rule.rotatedTime *)
  s_posts : list (name * nat);     (* postRotate goroutines: file, phase 0 started / 1 compressed / 2 done *)
  s_removed : list (name * file)   (* trace: files removed by maybeDeleteOutdatedFiles, as they were *)
}.

(* NewLogger/init :278; rot0 = rotatedTime given by the rule constructor, now0 = clock during init *)
Definition init (c : config) (fs0 : fsys) (rot0 now0 : name) : state :=
  let backup := backup_filename c now0 in                                     (* :279 *)
  match fs_get (c_file c) fs0 with
  | None => mkst (fs_put (c_file c) ([], 0%nat) fs0) true backup 0 rot0 [] []   (* :289 os.Create *)
  | Some (cur, _) => mkst fs0 true backup (bytes cur) rot0 [] []              (* :293-296 append mode, Size() *)
  end.

(* rotate :336 (the file returned by os.Create is stored in l.fp, :361) *)
Definition rotate (c : config) (s : state) (now : name) : state :=
  let fs := s_fs s in
  (* :338-344 close *)
  let '(fs1, posts1) :=
    if fs_exists (c_file c) fs && (0 <? Z.of_nat (List.length (s_backup s)))   (* :347-348 *)
    then (fs_rename (c_file c) (s_backup s) fs,                                (* :349-350 *)
          s_posts s ++ [(s_backup s, 0%nat)])                                  (* :356 go postRotate *)
    else (fs, s_posts s) in
  mkst (fs_put (c_file c) ([], 0%nat) fs1) true                                (* :361 *)
       (backup_filename c now)                                                 (* :360 *)
       (s_size s) (s_rot s) posts1 (s_removed s).

(* write :321 *)
Definition write (c : config) (s : state) (r : record) (now : name) : state :=
  let s1 :=
    if shall_rotate c (s_rot s) now (s_size s + rlen r)                        (* :322 *)
    then let s' := rotate c s now in                                           (* :323, err == nil *)
         mkst (s_fs s') (s_fp s') (s_backup s') 0 now (s_posts s') (s_removed s')   (* :326-327 *)
    else s in
  if s_fp s1                                                                   (* :330 *)
  then mkst (fs_append (c_file c) r (s_fs s1)) (s_fp s1) (s_backup s1)
            (s_size s1 + rlen r) (s_rot s1) (s_posts s1) (s_removed s1)        (* :331-332 *)
  else s1.

(* maybeCompressFile :383 + gzipFile :421 *)
Definition compress_file (c : config) (f : name) (fs : fsys) : fsys :=
  if negb (c_compress c) then fs else
  match fs_get f fs with
  | None => fs                                                                 (* :394 *)
  | Some (cnt, d) => fs_remove f (fs_put (f ++ gzip_ext) (cnt, S d) fs)        (* :428-441 *)
  end.

(* maybeDeleteOutdatedFiles :402 *)
Definition remove_all (l : list name) (fs : fsys) : fsys := fold_left (fun fs f => fs_remove f fs) l fs.
Definition snapshot (l : list name) (fs : fsys) : list (name * file) :=
  flat_map (fun f => match fs_get f fs with Some x => [(f, x)] | None => [] end) l.

Fixpoint set_phase (k : nat) (ph : nat) (l : list (name * nat)) : list (name * nat) :=
  match l, k with
  | [], _ => []
  | (f, _) :: r, O => (f, ph) :: r
  | p :: r, S k' => p :: set_phase k' ph r
  end.

(* one step of a history: the worker processes a record, or one of the postRotate goroutines
   performs its next phase (postRotate :376: compress, then delete) *)
Inductive event :=
| EWrite (r : record) (now : name)
| EGzip (k : nat)                                  (* compress phase, gzipFile returns nil *)
| EGzipFail (k : nat) (junk : option file)         (* compress phase, gzipFile returns an error *)
| EDelete (k : nat) (boundary : name)
| ERestart (rot0 now0 : name).                     (* Close, then NewLogger on the same file *)

(* gzipFile :421 failing: before os.Create succeeded (a directory at F.gz, ...) nothing changed; after it
   (ENOSPC while writing, ...) F.gz holds whatever partial output there is. Either way the function
   returns before os.Remove(file): the plain backup stays. Nothing is attempted when F is absent (:394)
   or compression is off (:384). *)
Definition compress_fail (c : config) (f : name) (junk : option file) (fs : fsys) : fsys :=
  if negb (c_compress c) then fs else
  match fs_get f fs, junk with
  | Some _, Some j => fs_put (f ++ gzip_ext) j fs
  | _, _ => fs
  end.

Definition step (c : config) (s : state) (e : event) : state :=
  match e with
  | EWrite r now => write c s r now
  | EGzip k =>
      match nth_error (s_posts s) k with
      | Some (f, O) =>
          mkst (compress_file c f (s_fs s)) (s_fp s) (s_backup s) (s_size s) (s_rot s)
               (set_phase k 1%nat (s_posts s)) (s_removed s)
      | _ => s
      end
  | EGzipFail k junk =>
      match nth_error (s_posts s) k with
      | Some (f, O) =>
          mkst (compress_fail c f junk (s_fs s)) (s_fp s) (s_backup s) (s_size s) (s_rot s)
               (set_phase k 1%nat (s_posts s)) (s_removed s)
      | _ => s
      end
  | EDelete k boundary =>
      match nth_error (s_posts s) k with
      | Some (f, 1%nat) =>
          let outs := outdated_files c (s_fs s) boundary in
          mkst (remove_all outs (s_fs s)) (s_fp s) (s_backup s) (s_size s) (s_rot s)
               (set_phase k 2%nat (s_posts s)) (s_removed s ++ snapshot outs (s_fs s))
      | _ => s
      end
  | ERestart rot0 now0 =>
      (* Close :261 (sync, close), then a new rule and NewLogger/init :278 on the directory as it is: an
         existing file is opened O_APPEND and its size counts (:293-296); goroutines of the first life
         that are still running keep running *)
      let i := init c (s_fs s) rot0 now0 in
      mkst (s_fs i) (s_fp i) (s_backup i) (s_size i) (s_rot i) (s_posts s) (s_removed s)
  end.

Definition run (c : config) (s : state) (h : list event) : state := fold_left (step c) h s.

(* ---------------------------------------------------------------- the configuration path
   Config -> newFileWriter (writer.go:202-216: With* options, only for positive numbers) -> handleOptions
   -> createOutput (logs.go:414-427) -> NewSizeLimitRotateRule / DefaultRotateRule -> NewLogger *)
Record setup := mksetup {
  su_size : bool;          (* Rotation == "size" *)
  su_max_size : Z;         (* MaxSize, MB *)
  su_max_backups : Z;      (* MaxBackups *)
  su_keep_days : Z;        (* KeepDays *)
  su_compress : bool       (* Compress *)
}.

Record log_options := mkopts {
  o_gzip : bool; o_keep_days : Z; o_max_backups : Z; o_max_size : Z; o_size : bool
}.

Definition backup_file_delimiter : name := [45]%N.   (* "-" *)

(* newFileWriter :202-216 applied to zero-valued options *)
Definition options_of_setup (u : setup) : log_options :=
  mkopts (su_compress u)
         (if 0 <? su_keep_days u then su_keep_days u else 0)
         (if 0 <? su_max_backups u then su_max_backups u else 0)
         (if 0 <? su_max_size u then su_max_size u else 0)
         (su_size u).

(* createOutput + the rule constructors (:76, :139): the rule and logger a path gets *)
Definition rule_of_options (path : name) (o : log_options) : config :=
  if o_size o
  then mkcfg SizeLimit path backup_file_delimiter (o_keep_days o) (o_gzip o) (o_gzip o)
             (o_max_size o * mega_bytes) (o_max_backups o)
  else mkcfg Daily path backup_file_delimiter (o_keep_days o) (o_gzip o) (o_gzip o) 0 0.

Definition rule_of_config (path : name) (u : setup) : config := rule_of_options path (options_of_setup u).

(* ---------------------------------------------------------------- symbolic links
   A directory entry is a regular file or a symbolic link to a file kept elsewhere (`store`: target id |->
   file; a dangling link reads as nothing). os.Rename and os.Remove act on the ENTRY (rotate :350 renames the
   link, not its target); os.Stat/Open/ReadFile see the target; os.Create on a name that is absent makes a new
   regular file (rotate :361 after the rename). `view` is the directory as open() sees it -- the fsys above. *)
Inductive entry := Reg (f : file) | Sym (t : nat).
Definition lfsys := list (name * entry).

Definition resolve (store : list (nat * file)) (e : entry) : file :=
  match e with
  | Reg f => f
  | Sym t => match alookup Nat.eqb t store with Some f => f | None => ([], 0%nat) end
  end.

Definition view (store : list (nat * file)) (L : lfsys) : fsys := map (fun ke => (fst ke, resolve store (snd ke))) L.

Definition l_rename (o n : name) (L : lfsys) : lfsys :=
  match alookup name_eqb o L with Some e => aset name_eqb n e (aremove name_eqb o L) | None => L end.
Definition l_remove (n : name) (L : lfsys) : lfsys := aremove name_eqb n L.
Definition l_create (n : name) (L : lfsys) : lfsys := aset name_eqb n (Reg ([], 0%nat)) L.   (* n absent *)
