(* C19 Spec: what the property says, as predicates over a log directory.
   (1) the accepted log is the list of written records; the directory holds it cut into chunks,
       one per rotation plus the current file, every chunk in exactly one place;
   (2) a file touched by the size rule is within the limit or is a single record;
   (3) clean-up may name a file only if it is a backup (matches the backup pattern, is not the
       current file) that is older than the boundary or has maxBackups newer backups after it. *)
From God Require Import Base.Prelude C19.Model.
Local Open Scope Z_scope.

(* the accepted-and-processed records of a history, in order *)
Definition written (h : list event) : content :=
  flat_map (fun e => match e with EWrite r _ => [r] | _ => [] end) h.

(* The writer front-end (lib/logx/writer.go: concreteWriter.Info/... -> output -> writeJson / writePlainText /
   writePlainValue, or logWriter -> log.Logger for NewWriter) is the identity on content: submitting record r
   hands one slice holding encode r -- r's line in the configured encoding -- to RotateLogger.Write, and the
   record the worker later processes is that line. A record of the model IS its encoded line (id = which
   line, rlen = its byte length); `handed` are the lines as they are when the worker writes them. *)
Definition frontend_ok (accepted handed : content) : Prop := handed = accepted.

(* The queue between Write and the worker (channel of bufferSize slices): a Write that returns (len, nil) has
   queued its record, however far the worker lags -- it blocks rather than drop. The histories of the model are
   therefore exactly the accepted records in order of acceptance; the correspondence checks it with backlogs of
   150-260 records against a parked worker (Exec.spec_ok counts every accepted record, processed or not). *)
Definition queue_ok (accepted processed_eventually : content) : Prop := processed_eventually = accepted.

(* where the chunk that was rotated into backup F is: still the plain file F; or -- F being gone --
   gzipped once under F.gz, or removed by clean-up (as F or as F.gz) with exactly that content *)
Definition located (s : state) (F : name) (c : content) : Prop :=
  fs_get F (s_fs s) = Some (c, 0%nat) \/
  (fs_get F (s_fs s) = None /\
   (fs_get (F ++ gzip_ext) (s_fs s) = Some (c, 1%nat) \/
    In (F, (c, 0%nat)) (s_removed s) \/ In (F ++ gzip_ext, (c, 1%nat)) (s_removed s))).

(* chunks.(k) is the content of the k-th rotation's backup, cur the current file's *)
Definition decomposition (c : config) (s : state) (chunks : list content) (cur : content) : Prop :=
  Forall2 (located s) (map fst (s_posts s)) chunks /\
  fs_get (c_file c) (s_fs s) = Some (cur, 0%nat).

(* size rule: a file never holds more than max_size bytes unless it is one single record *)
Definition size_ok (max_size : Z) (init_cur cnt : content) : Prop :=
  cnt = init_cur \/ bytes cnt <= max_size \/ exists r, cnt = [r].

(* ---- backup names: bpre ++ <date|timestamp> ++ bsuf [++ ".gz"] *)
Definition bpre (c : config) : name :=
  match c_kind c with Daily => c_file c ++ c_delim c | SizeLimit => fst (parse_filename (c_file c)) ++ c_delim c end.
Definition bsuf (c : config) : name :=
  match c_kind c with Daily => [] | SizeLimit => snd (parse_filename (c_file c)) end.

Definition name_lt (a b : name) : Prop := lex_cmp a b = Lt.

(* f is a directory entry matching the rule's backup pattern bpre*bsuf[.gz] *)
Definition matched (c : config) (fs : fsys) (f : name) : Prop :=
  fs_get f fs <> None /\ exists mid, f = bpre c ++ mid ++ bsuf c ++ gz_opt c.

Definition boundary_file (c : config) (b : name) : name := bpre c ++ b ++ bsuf c ++ gz_opt c.

(* older than the retention boundary (b = the formatted time `days` days ago) *)
Definition too_old (c : config) (b f : name) : Prop :=
  0 < c_days c /\ name_lt f (boundary_file c b).

(* beyond the maximum number of backups: maxBackups distinct matching files are newer *)
Definition beyond_max (c : config) (fs : fsys) (f : name) : Prop :=
  c_kind c = SizeLimit /\ 0 < c_max_backups c /\
  exists newer, Z.of_nat (List.length newer) = c_max_backups c /\ NoDup newer /\
                forall g, In g newer -> matched c fs g /\ name_lt f g.

(* ---- hypotheses of the durability theorems *)
(* the clock strings whose backup names matter: those already used for a rename, then the one the
   logger currently holds (l.backup). A rotating write appends its clock string; a restart replaces
   the held one (the abandoned name was never used). *)
Definition next_used (c : config) (s : state) (used : list name) (e : event) : list name :=
  match e with
  | EWrite r now => if shall_rotate c (s_rot s) now (s_size s + rlen r) then used ++ [now] else used
  | ERestart _ now0 => removelast used ++ [now0]
  | _ => used
  end.

Fixpoint used_stamps (c : config) (s : state) (used : list name) (h : list event) : list name :=
  match h with
  | [] => used
  | e :: h' => used_stamps c (step c s e) (next_used c s used e) h'
  end.

(* at no point are two of them equal -- "rotations at least a second apart" / the date never repeats *)
Fixpoint stamps_distinct (c : config) (s : state) (used : list name) (h : list event) : Prop :=
  match h with
  | [] => True
  | e :: h' => NoDup (next_used c s used e) /\ stamps_distinct c (step c s e) (next_used c s used e) h'
  end.

Definition nows (h : list event) : list name :=
  flat_map (fun e => match e with EWrite _ now => [now] | ERestart _ now0 => [now0] | _ => [] end) h.

(* fixed-width clock strings (both formats are), and distinct backup names *)
Definition stamps_ok (c : config) (width : nat) (s0 : state) (now0 : name) (h : list event) : Prop :=
  Forall (fun t => List.length t = width) (now0 :: nows h) /\ stamps_distinct c s0 [now0] h.
