(* C03 GenEnv: meaning of the external identifiers in the GoLite translation of validMethod
   (patrouter.go:88-93): string equality and net/http's method constants (net/http/method.go). *)
From Coq Require Import String.
Definition go_eqb (a b : string) : bool := String.eqb a b.
Definition http_MethodGet : string := "GET".
Definition http_MethodHead : string := "HEAD".
Definition http_MethodPost : string := "POST".
Definition http_MethodPut : string := "PUT".
Definition http_MethodPatch : string := "PATCH".
Definition http_MethodDelete : string := "DELETE".
Definition http_MethodConnect : string := "CONNECT".
Definition http_MethodOptions : string := "OPTIONS".
Definition http_MethodTrace : string := "TRACE".
