(* C03 Exec: checkers evaluated by vm_compute on (route table, requests, what the Go router did). *)
From Coq Require Import String.
From God Require Import Base.Prelude C03.Path C03.Spec C03.Model.

Definition to_wopt (o : sopt) : wopt :=
  match o with SNotFound b => WNotFound b | SNotAllowed => WNotAllowed | SCors => WCors | SRouter => WRouter end.
Local Open Scope N_scope.

Record robs := mkobs {
  o_clean : option (list N);     (* path.Clean(request path) as computed by Go; None = the request path itself *)
  o_status : N;                  (* recorder status (tree level: 200 found / 404 not found) *)
  o_hids : list nat;             (* ids of the handlers that ran, in order *)
  o_vars : list (seg * seg);     (* pathvar.Vars(r) seen by the handler, sorted by name *)
  o_allow : list string;         (* Allow header split at ", ", sorted *)
  o_nf : nat;                    (* calls of the custom not-found handler *)
  o_path : option (list N)       (* request built from a raw URL: r.URL.Path as produced by net/http *)
}.

(* registration through the engine: what bindRoutes returned, the paths stored in ng.routes (after
   WithPrefix) and every Router.Handle call the engine made, with its verdict *)
Record eobs := mkeobs {
  e_err : nat;
  e_routes : list (string * list N);       (* Server.Routes() / ng.routes after all AddRoutes: (method, path) *)
  e_slices : list (list (string * list N) * list (string * list N));
                                           (* every caller slice: as given, as inspected after start-up *)
  e_calls : list (string * list N * nat);
  e_sopts : list sopt                      (* NewServer options in order ([] for via engine).  For engine cases
                                              o_nf = calls of the custom not-found handler + 10 * calls of the
                                              custom not-allowed handler + 100 if cors.NotAllowedHandler answered *)
}.

(* one step of a router history with what was observed: a registration (error class, path.Clean of
   the path) or a request *)
Inductive xop :=
| XReg (m : string) (p : list N) (e : nat) (rc : list N)
| XReq (m : string) (p : list N) (o : robs).

Record case := mkcase {
  c_tree : bool;                           (* true: lib/search Tree.Add / Tree.Search on raw routes *)
  c_nf : bool;                             (* custom not-found handler installed *)
  c_regs : list (string * list N);         (* registrations in order; handler id = index *)
  c_errs : list nat;                       (* observed: 0 ok 1 method 2 path 3 dup 4 dupslash 5 notfromroot 6 invalidstate 9 other *)
  c_rclean : list (list N);                (* observed path.Clean of every registered path *)
  c_reqs : list (string * list N);
  c_res : list robs;
  c_groups : list group;                   (* engine cases: groups as given to AddRoutes (ids = flat index) *)
  c_eng : option eobs;                     (* Some: engine case (c_regs .. c_rclean unused) *)
  c_ops : list xop                         (* non-empty: router history (handler id = index of its XReg) *)
}.

Definition err_code (e : option err) : nat :=
  match e with
  | None => 0 | Some EMethod => 1 | Some EPath => 2 | Some EDup => 3 | Some EDupSlash => 4
  | Some ENotFromRoot => 5 | Some EInvalidState => 6
  end%nat.

Definition bytes_eqb : list N -> list N -> bool := list_eqb N.eqb.
Definition mem_str (s : string) (l : list string) : bool := existsb (String.eqb s) l.
Definition set_eqb (a b : list string) : bool :=
  forallb (fun x => mem_str x b) a && forallb (fun x => mem_str x a) b.
Definition is_nil {A} (l : list A) : bool := match l with [] => true | _ => false end.
Definition keys (ps : list (seg * seg)) : list seg := map fst ps.
Definition mem_seg (s : seg) (l : list seg) : bool := existsb (seg_eqb s) l.
Fixpoint nodup_seg (l : list seg) : bool :=
  match l with [] => true | a :: r => negb (mem_seg a r) && nodup_seg r end.

(* the observed variable map is exactly the effective map of the model's parameter list *)
Definition vars_eqb (ps : params) (ov : list (seg * seg)) : bool :=
  nodup_seg (keys ov) &&
  forallb (fun kv => option_eqb seg_eqb (var_lookup (fst kv) ps) (Some (snd kv))) ov &&
  forallb (fun kv => mem_seg (fst kv) (keys ov)) ps.

(* ------------------------------------------------------------------ model agreement *)
Fixpoint model_regs (tree_level : bool) (tb : table) (idx : nat) (regs : list (string * list N))
         (errs : list nat) (rclean : list (list N)) : option table :=
  match regs, errs, rclean with
  | [], [], [] => Some tb
  | (m, p) :: regs', e :: errs', rc :: rclean' =>
      let '(tb', e') :=
        if tree_level then
          let t := match tb_get m tb with Some t => t | None => empty end in
          let (t', e') := tree_add p idx t in (tb_put m t' tb, e')
        else handle tb m p idx in
      if Nat.eqb (err_code e') e && bytes_eqb (clean p) rc then model_regs tree_level tb' (S idx) regs' errs' rclean'
      else None
  | _, _, _ => None
  end.

Definition hit_ok (o : robs) (r : hit) : bool :=
  match o_hids o with
  | [h] => Nat.eqb h (fst r) && vars_eqb (snd r) (o_vars o)
  | _ => false
  end.

Definition model_req (tree_level nf : bool) (tb : table) (mp : string * list N) (o : robs) : bool :=
  let (m, p) := mp in
  (* net/http decoded the raw target exactly once into the intended path *)
  match o_path o with Some q => bytes_eqb q p | None => true end &&
  bytes_eqb (clean p) (match o_clean o with Some q => q | None => p end) &&
  match (if tree_level then
           match (match tb_get m tb with Some t => search p t | None => [] end) with [] => NotFound | rs => Hit rs end
         else route_req tb m p) with
  | Hit rs => N.eqb (o_status o) 200 && existsb (hit_ok o) rs && is_nil (o_allow o) && Nat.eqb (o_nf o) 0
  | NotAllowed ms => N.eqb (o_status o) 405 && is_nil (o_hids o) && set_eqb ms (o_allow o) && Nat.eqb (o_nf o) 0
  | NotFound => N.eqb (o_status o) 404 && is_nil (o_hids o) && is_nil (o_allow o) &&
                Nat.eqb (o_nf o) (if nf then 1 else 0)
  end.

Fixpoint all2 {A B} (f : A -> B -> bool) (l1 : list A) (l2 : list B) : bool :=
  match l1, l2 with
  | [], [] => true
  | a :: r1, b :: r2 => f a b && all2 f r1 r2
  | _, _ => false
  end.

(* a server configured by NewServer options: who answers, as observed on the wire *)
Definition model_req_srv (cf : sconf) (tb : table) (mp : string * list N) (o : robs) : bool :=
  let (m, p) := mp in
  match o_path o with Some q => bytes_eqb q p | None => true end &&
  bytes_eqb (clean p) (match o_clean o with Some q => q | None => p end) &&
  match server_serve cf tb m p with
  | SPreflight => N.eqb (o_status o) 204 && is_nil (o_hids o) && is_nil (o_allow o) && Nat.eqb (o_nf o) 0
  | SHandler rs => N.eqb (o_status o) 200 && existsb (hit_ok o) rs && is_nil (o_allow o) && Nat.eqb (o_nf o) 0
  | SDefault405 ms => N.eqb (o_status o) 405 && is_nil (o_hids o) && set_eqb ms (o_allow o) && Nat.eqb (o_nf o) 0
  | SCustomNotAllowed => N.eqb (o_status o) 405 && is_nil (o_hids o) && is_nil (o_allow o) && Nat.eqb (o_nf o) 10
  | SCorsNotAllowed => N.eqb (o_status o) 404 && is_nil (o_hids o) && is_nil (o_allow o) && Nat.eqb (o_nf o) 100
  | SCustomNotFound => N.eqb (o_status o) 404 && is_nil (o_hids o) && is_nil (o_allow o) && Nat.eqb (o_nf o) 1
  | SDefault404 => N.eqb (o_status o) 404 && is_nil (o_hids o) && is_nil (o_allow o) && Nat.eqb (o_nf o) 0
  end.

(* the Handle calls the engine makes: every route in order, up to and including the first error *)
Fixpoint model_calls (tb : table) (rs : list reg) : list (string * list N * nat) :=
  match rs with
  | [] => []
  | r :: rest =>
      let (tb', e) := handle tb (fst (fst r)) (snd (fst r)) (snd r) in
      (fst (fst r), snd (fst r), err_code e) :: match e with Some _ => [] | None => model_calls tb' rest end
  end.

Definition mp_eqb (a b : string * list N) : bool := String.eqb (fst a) (fst b) && bytes_eqb (snd a) (snd b).

Definition call_eqb (a b : string * list N * nat) : bool :=
  String.eqb (fst (fst a)) (fst (fst b)) && bytes_eqb (snd (fst a)) (snd (fst b)) && Nat.eqb (snd a) (snd b).

Fixpoint model_hist (nf : bool) (tb : table) (idx : nat) (ops : list xop) : bool :=
  match ops with
  | [] => true
  | XReg m p e rc :: rest =>
      let (tb', e') := handle tb m p idx in
      Nat.eqb (err_code e') e && bytes_eqb (clean p) rc && model_hist nf tb' (S idx) rest
  | XReq m p o :: rest => model_req false nf tb (m, p) o && model_hist nf tb (S idx) rest
  end.

Definition model_ok (c : case) : bool :=
  match c_ops c with _ :: _ => model_hist (c_nf c) [] 0 (c_ops c) | [] =>
  match c_eng c with
  | Some eo =>
      let rs := engine_routes (c_groups c) in
      let (tb, e) := engine_register (c_groups c) in
      list_eqb mp_eqb (map (fun r => fst r) rs) (e_routes eo) &&
      forallb (fun ba => list_eqb mp_eqb (fst ba) (snd ba)) (e_slices eo) &&
      Nat.eqb (err_code e) (e_err eo) &&
      list_eqb call_eqb (model_calls [] rs) (e_calls eo) &&
      all2 (model_req_srv (server_conf (e_sopts eo)) tb) (c_reqs c) (c_res c)
  | None =>
      match model_regs (c_tree c) [] 0 (c_regs c) (c_errs c) (c_rclean c) with
      | Some tb => all2 (model_req (c_tree c) (c_nf c) tb) (c_reqs c) (c_res c)
      | None => false
      end
  end end.

(* ------------------------------------------------------------------ the property on observations *)
Definition is_none {A} (o : option A) : bool := match o with None => true | Some _ => false end.

(* shape of a cleaned segment list, executable *)
Definition wf_segsb (l : list seg) : bool :=
  match l with
  | [[]] => true
  | [] => false
  | _ => forallb (fun s => negb (is_nil s)) l
  end.

(* registered set = the registrations the router was OBSERVED to accept; every registration the
   statement says must be rejected (unsupported method, no leading '/', duplicate of a registered
   cleaned pattern) was rejected.  Tree level: raw routes, no method / cleaning. *)
Fixpoint spec_regs (tree_level : bool) (acc : list route) (idx : nat) (regs : list (string * list N))
         (errs : list nat) : option (list route) :=
  match regs, errs with
  | [], [] => Some acc
  | (m, p) :: regs', e :: errs' =>
      let must_reject := if tree_level then false else negb (is_none (reject acc m p)) in
      if must_reject && Nat.eqb e 0 then None
      else
        let pat := if tree_level then match req_segs p with Some s => s | None => [] end else pattern_of p in
        spec_regs tree_level (if Nat.eqb e 0 then acc ++ [(m, pat, idx)] else acc) (S idx) regs' errs'
  | _, _ => None
  end.

(* each ':name' of the pattern is bound, to a segment standing at a position of that name
   (for a name used twice the statement does not say which one: either is accepted here) *)
Definition vars_ok (pat q : list seg) (ov : list (seg * seg)) : bool :=
  let bs := binds pat q in
  nodup_seg (keys ov) &&
  forallb (fun kv => existsb (fun b => seg_eqb (fst b) (fst kv) && seg_eqb (snd b) (snd kv)) bs) ov &&
  forallb (fun b => mem_seg (fst b) (keys ov)) bs.

Fixpoint nodup_str (l : list string) : list string :=
  match l with [] => [] | a :: r => if mem_str a r then nodup_str r else a :: nodup_str r end.

Definition spec_req_gen (w_nf : bool) (w_na : nat) (w_cors : bool) (acc : list route) (mp : string * list N) (o : robs) : bool :=
  let (m, p0) := mp in
  if w_cors && String.eqb m "OPTIONS" then N.eqb (o_status o) 204 && is_nil (o_hids o) && Nat.eqb (o_nf o) 0 else
  let p := match o_path o with Some q => q | None => p0 end in   (* the request path is r.URL.Path *)
  match req_segs (clean p) with
  | None =>  (* the cleaned path has no segments: nothing matches *)
      N.eqb (o_status o) 404 && is_nil (o_hids o) && Nat.eqb (o_nf o) (if w_nf then 1 else 0)
  | Some q =>
      let ms := matches acc m q in
      match ms with
      | _ :: _ =>
          (* a handler runs, it belongs to a matching pattern, the variables are that pattern's
             bindings, and an all-literal matching pattern wins *)
          let lit_exists := existsb (fun r => all_lit (r_pat r)) ms in
          match o_hids o with
          | [h] => existsb (fun r => Nat.eqb (r_id r) h && vars_ok (r_pat r) q (o_vars o) &&
                                     (negb lit_exists || all_lit (r_pat r))) ms
          | _ => false
          end
      | [] =>
          let others := filter (fun m' => negb (String.eqb m' m) && negb (is_nil (matches acc m' q)))
                               (nodup_str (map r_method acc)) in
          is_nil (o_hids o) &&
          match others with
          | [] => N.eqb (o_status o) 404 && Nat.eqb (o_nf o) (if w_nf then 1 else 0)
          | _ => match w_na with
                 | 0 => N.eqb (o_status o) 405 && set_eqb others (o_allow o) && Nat.eqb (o_nf o) 0
                 (* a configured not-allowed handler (custom, or the one WithCors installs) answers, exactly once *)
                 | 1 => Nat.eqb (o_nf o) 10
                 | _ => N.eqb (o_status o) 404 && Nat.eqb (o_nf o) 100
                 end%nat
          end
      end
  end.

Definition spec_req (nf : bool) : list route -> string * list N -> robs -> bool := spec_req_gen nf 0 false.


(* tree level: the matcher statement applies when routes and request have the cleaned shape *)
Definition spec_req_tree (acc : list route) (mp : string * list N) (o : robs) : bool :=
  let (m, p) := mp in
  match req_segs p with
  | None => N.eqb (o_status o) 404
  | Some q =>
      if wf_segsb q && forallb (fun r => wf_segsb (r_pat r)) acc then
        match matches acc m q with
        | [] => N.eqb (o_status o) 404 && is_nil (o_hids o)
        | ms =>
            let lit_exists := existsb (fun r => all_lit (r_pat r)) ms in
            match o_hids o with
            | [h] => existsb (fun r => Nat.eqb (r_id r) h && vars_ok (r_pat r) q (o_vars o) &&
                                       (negb lit_exists || all_lit (r_pat r))) ms
            | _ => false
            end
        end
      else true
  end.

(* a handler that ran belongs to a matching pattern of acc (nothing is required to run) *)
Definition spec_req_sound (acc : list route) (mp : string * list N) (o : robs) : bool :=
  let (m, p0) := mp in
  let p := match o_path o with Some q => q | None => p0 end in
  match o_hids o with
  | [] => true
  | [h] => match req_segs (clean p) with
           | Some q => existsb (fun r => Nat.eqb (r_id r) h && vars_ok (r_pat r) q (o_vars o)) (matches acc m q)
           | None => false
           end
  | _ => false
  end.

(* engine: the routes the application added (prefix-joined) are registered in order; if one of them
   must be rejected the start-up must fail, and then no handler outside the routes accepted before
   it may be reachable; an error-free start-up registers all of them and routes like the router *)
(* the patterns the engine handed to the router and had accepted are exactly the registered ones *)
Definition mpat_eqb (a b : string * list seg) : bool := String.eqb (fst a) (fst b) && pat_eqb (snd a) (snd b).
Definition same_patterns (acc : list route) (calls : list (string * list N * nat)) : bool :=
  let got := map (fun c => (fst (fst c), pattern_of (snd (fst c)))) (filter (fun c => Nat.eqb (snd c) 0) calls) in
  let want := map (fun r => (r_method r, r_pat r)) acc in
  forallb (fun x => existsb (mpat_eqb x) want) got && forallb (fun x => existsb (mpat_eqb x) got) want.

Definition spec_engine (c : case) (eo : eobs) : bool :=
  let rs := engine_routes (c_groups c) in
  let (acc, verdict) := sbind [] rs in
  (* registration only reads the caller's slices *)
  forallb (fun ba => list_eqb mp_eqb (fst ba) (snd ba)) (e_slices eo) &&
  match verdict with
  | Some _ => negb (Nat.eqb (e_err eo) 0) && all2 (spec_req_sound acc) (c_reqs c) (c_res c)
  | None => if Nat.eqb (e_err eo) 0
            then same_patterns acc (e_calls eo) &&
                 (let w := map to_wopt (e_sopts eo) in
                  all2 (spec_req_gen (want_nf w) (want_na w) (want_cors w) acc) (c_reqs c) (c_res c))
            else false   (* every added route is acceptable, yet the start-up failed: the routes are not served *)
  end.

(* histories: every request is judged against the routes registered (observed accepted) before it *)
Fixpoint spec_hist (nf : bool) (acc : list route) (idx : nat) (ops : list xop) : bool :=
  match ops with
  | [] => true
  | XReg m p e _ :: rest =>
      (* rejected iff the statement says so: unsupported method, no leading '/', duplicate pattern *)
      if negb (Bool.eqb (is_none (reject acc m p)) (Nat.eqb e 0)) then false
      else spec_hist nf (if Nat.eqb e 0 then acc ++ [(m, pattern_of p, idx)] else acc) (S idx) rest
  | XReq m p o :: rest => spec_req nf acc (m, p) o && spec_hist nf acc (S idx) rest
  end.

Definition spec_ok (c : case) : bool :=
  match c_ops c with _ :: _ => spec_hist (c_nf c) [] 0 (c_ops c) | [] =>
  match c_eng c with
  | Some eo => spec_engine c eo
  | None =>
      match spec_regs (c_tree c) [] 0 (c_regs c) (c_errs c) with
      | Some acc =>
          if c_tree c then all2 (spec_req_tree acc) (c_reqs c) (c_res c)
          else all2 (spec_req (c_nf c) acc) (c_reqs c) (c_res c)
      | None => false
      end
  end end.

(* used by the encoder for tree-level cases, where path.Clean is not involved *)
Definition xclean : list N -> list N := clean.
Definition xsome_clean (p : list N) : option (list N) := Some (clean p).

(* compact byte-string literals for the encoder *)
Definition bs (s : string) : list N :=
  map (fun a => N.of_nat (Ascii.nat_of_ascii a)) (list_ascii_of_string s).

(* method names by index, to keep the case files small *)
Definition mt (i : nat) : string :=
  nth i ["DELETE"; "GET"; "HEAD"; "OPTIONS"; "PATCH"; "POST"; "PUT"; "get"; "FOO"; ""; "CONNECT"; "TRACE"; "GET "; "Post"]%string "?"%string.
Definition xcleans (regs : list (string * list N)) : list (list N) := map (fun r => clean (snd r)) regs.

(* NewServer options for the encoder *)
Definition xnf (custom : bool) : sopt := SNotFound custom.
Definition xna : sopt := SNotAllowed.
Definition xcors : sopt := SCors.
Definition xrouter : sopt := SRouter.
