(* C03 Determ: (1) every node of the table's trees lies on a registered pattern, hence "at most one
   ':param' alternative per shared prefix" makes the search independent of the map iteration order;
   (2) assembly of the router-level statements used by Props.v. *)
From Coq Require Import String.
From God Require Import Base.Prelude C03.Path C03.Spec C03.Model C03.Proofs C03.Table.
Local Open Scope N_scope.

Definition prefix (path pat : list seg) : Prop := exists suf, pat = path ++ suf.

(* the Spec-level hypothesis: two registered patterns of one method that share a prefix never
   continue with two different ':param' segments *)
Definition unambiguous (acc : list route) : Prop :=
  forall m pat1 id1 pat2 id2 pre k1 k2 suf1 suf2,
    In (m, pat1, id1) acc -> In (m, pat2, id2) acc ->
    pat1 = pre ++ k1 :: suf1 -> pat2 = pre ++ k2 :: suf2 ->
    is_par k1 = true -> is_par k2 = true -> k1 = k2.

(* ------------------------------------------------------------------ no junk nodes *)
Lemma node_at_children r c1 c2 : r <> [] -> children c1 = children c2 -> node_at r c1 = node_at r c2.
Proof. destruct r as [|k r]; [congruence|]. intros _ E. simpl. rewrite E. reflexivity. Qed.

Lemma node_at_leaf r i : node_at r (Node i []) <> None -> r = [].
Proof. destruct r; [reflexivity|]. simpl. congruence. Qed.

Lemma add_nodes pat : pat <> [] -> ne_segs pat -> forall t id path,
  node_at path (fst (add pat id t)) <> None -> node_at path t <> None \/ prefix path pat.
Proof.
  induction pat as [|s rest IH]; [congruence|]. intros _ Hne t id path H.
  inversion Hne as [|? ? Hs Hrest]; subst.
  destruct rest as [|s2 rest2].
  - rewrite add_last in H by assumption.
    destruct (find_child s (children t)) as [c|] eqn:Ec.
    + destruct (item c); [left; exact H|]. cbn [fst] in H.
      destruct path as [|k r]; [left; discriminate|]. simpl in H. simpl.
      destruct (seg_dec k s) as [->|Hk].
      * unfold find_child, set_child in H. rewrite aget_aput_same in H. left. rewrite Ec.
        destruct r as [|k2 r2]; [discriminate|]. rewrite (node_at_children _ c (Node (Some id) (children c))); [assumption|discriminate|reflexivity].
      * unfold find_child, set_child in H. rewrite aget_aput_other in H by assumption. left. exact H.
    + cbn [fst] in H. destruct path as [|k r]; [left; discriminate|]. simpl in H. simpl.
      destruct (seg_dec k s) as [->|Hk].
      * unfold find_child, set_child in H. rewrite aget_aput_same in H. apply node_at_leaf in H. subst.
        right. exists []. reflexivity.
      * unfold find_child, set_child in H. rewrite aget_aput_other in H by assumption. left. exact H.
  - rewrite add_cons in H by (assumption || discriminate). cbv zeta in H.
    set (c := match find_child s (children t) with Some c => c | None => empty end) in *.
    destruct (add (s2 :: rest2) id c) as [c' e] eqn:Ea. cbn [fst] in H.
    destruct path as [|k r]; [left; discriminate|]. simpl in H. simpl.
    destruct (seg_dec k s) as [->|Hk].
    + unfold find_child, set_child in H. rewrite aget_aput_same in H.
      assert (Hc' : c' = fst (add (s2 :: rest2) id c)) by (rewrite Ea; reflexivity). rewrite Hc' in H.
      apply IH in H; [|discriminate|assumption]. destruct H as [H|(suf & Hsuf)].
      * unfold c in H. destruct (find_child s (children t)); [left; exact H|].
        apply node_at_leaf in H. subst. right. exists (s2 :: rest2). reflexivity.
      * right. exists suf. simpl. congruence.
    + unfold find_child, set_child in H. rewrite aget_aput_other in H by assumption. left. exact H.
Qed.

Lemma add_nodes_wf pat t id path : wf_segs pat ->
  node_at path (fst (add pat id t)) <> None -> node_at path t <> None \/ (path <> [] -> prefix path pat).
Proof.
  intros [->|[Hn Hne]] H.
  - rewrite add_root in H. left. destruct (item t); [exact H|]. cbn [fst] in H.
    destruct path as [|k r]; [discriminate|]. rewrite (node_at_children _ t (Node (Some id) (children t))); [assumption|discriminate|reflexivity].
  - destruct (add_nodes pat Hn Hne t id path H); auto.
Qed.

Definition NJ (tb : table) (acc : list route) : Prop :=
  forall m t, tb_get m tb = Some t -> forall path, path <> [] -> node_at path t <> None ->
    exists pat id, In (m, pat, id) acc /\ prefix path pat.

Lemma handle_accept tb m p id : valid_method m = true -> rooted p = true ->
  fst (handle tb m p id) =
  tb_put m (fst (add (pattern_of p) id (match tb_get m tb with Some t => t | None => empty end))) tb.
Proof.
  intros Hv Hr. unfold handle. rewrite Hv, Hr. cbn [negb].
  destruct (pattern_of_rooted p Hr) as (segs & Es & _ & ->). unfold tree_add. rewrite Es.
  destruct (tb_get m tb); destruct (add segs id _); reflexivity.
Qed.

Lemma NJ_step tb acc m p id : Rel tb acc -> NJ tb acc -> NJ (fst (handle tb m p id)) (sreg acc (m, p, id)).
Proof.
  intros HR HN. destruct (handle_step tb acc m p id HR) as (He & Hun & _).
  unfold sreg. cbn [fst snd]. destruct (reject acc m p) as [e|] eqn:Erej.
  - rewrite Hun by discriminate. assumption.
  - assert (Hv : valid_method m = true /\ rooted p = true).
    { unfold reject in Erej. destruct (valid_method m); [|discriminate]. destruct (rooted p); [auto|discriminate]. }
    destruct Hv as [Hv Hr]. rewrite handle_accept by assumption.
    destruct (pattern_of_rooted p Hr) as (segs & _ & Hws & Epat). rewrite Epat.
    intros m0 t0 Et0 path Hp Hnode. destruct (string_dec m0 m) as [->|Hd].
    + unfold tb_get, tb_put in Et0. rewrite aget_aput_same in Et0. inversion Et0; subst t0. clear Et0.
      apply add_nodes_wf in Hnode; [|assumption]. destruct Hnode as [Hnode|Hpre].
      * fold (tb_get m tb) in Hnode. destruct (tb_get m tb) as [t|] eqn:Et.
        -- destruct (HN m t Et path Hp Hnode) as (pat & id0 & Hin & Hpre). exists pat, id0. split; [apply in_or_app; left; assumption|assumption].
        -- destruct path; [congruence|]. simpl in Hnode. congruence.
      * exists segs, id. split; [apply in_or_app; right; left; reflexivity|auto].
    + unfold tb_get, tb_put in Et0. rewrite aget_aput_other in Et0 by assumption.
      destruct (HN m0 t0 Et0 path Hp Hnode) as (pat & id0 & Hin & Hpre). exists pat, id0. split; [apply in_or_app; left; assumption|assumption].
Qed.

Lemma RelNJ_fold regs : forall tb acc, Rel tb acc -> NJ tb acc ->
  Rel (fold_left hstep regs tb) (fold_left sreg regs acc) /\ NJ (fold_left hstep regs tb) (fold_left sreg regs acc).
Proof.
  induction regs as [|[[m p] id] r IH]; intros tb acc HR HN; [auto|]. simpl. apply IH.
  - unfold hstep. cbn [fst snd]. apply (handle_step tb acc m p id HR).
  - unfold hstep. cbn [fst snd]. apply NJ_step; assumption.
Qed.

Lemma nj_build regs : NJ (build regs) (registered regs).
Proof. apply RelNJ_fold; [apply Rel_nil|]. intros m t H. discriminate. Qed.

(* ------------------------------------------------------------------ unambiguous trees *)
Definition unamb (t : tree) : Prop :=
  forall path n k1 c1 k2 c2, node_at path t = Some n ->
    In (k1, c1) (children n) -> In (k2, c2) (children n) -> is_par k1 = true -> is_par k2 = true -> k1 = k2.

Lemma unamb_child t k c : unamb t -> find_child k (children t) = Some c -> unamb c.
Proof.
  intros H E path n k1 c1 k2 c2 Hn. apply (H (k :: path) n k1 c1 k2 c2). simpl. rewrite E. exact Hn.
Qed.

Lemma flat_nopar {B} (g : seg * tree -> list B) ch :
  (forall kc, In kc ch -> is_par (fst kc) = false) ->
  flat_map (fun kc => if is_par (fst kc) then g kc else []) ch = [].
Proof.
  induction ch as [|kc r IH]; intro H; [reflexivity|]. simpl. rewrite (H kc) by (left; reflexivity).
  apply IH. intros; apply H; right; assumption.
Qed.

Lemma par_flat_det {B} (g : seg * tree -> list B) ch :
  NoDup (map fst ch) ->
  (forall k1 c1 k2 c2, In (k1, c1) ch -> In (k2, c2) ch -> is_par k1 = true -> is_par k2 = true -> k1 = k2) ->
  (forall kc, In kc ch -> (List.length (g kc) <= 1)%nat) ->
  (List.length (flat_map (fun kc => if is_par (fst kc) then g kc else []) ch) <= 1)%nat.
Proof.
  induction ch as [|[k c] r IH]; intros ND Hu Hg; [simpl; lia|]. simpl. inversion ND; subst.
  destruct (is_par k) eqn:Ep.
  - rewrite flat_nopar.
    + rewrite app_nil_r. apply Hg. left. reflexivity.
    + intros [k2 c2] Hin. simpl. destruct (is_par k2) eqn:Ep2; [|reflexivity]. exfalso. apply H1.
      assert (k = k2) by (apply (Hu k c k2 c2); [left; reflexivity|right; assumption|assumption|assumption]).
      subst. change k2 with (fst (k2, c2)). apply in_map. assumption.
  - simpl. apply IH; [assumption| |].
    + intros k1 c1 k2 c2 H3 H4. apply (Hu k1 c1 k2 c2); right; assumption.
    + intros kc Hin. apply Hg. right. assumption.
Qed.

Lemma over_children_det s f t : wf t -> unamb t ->
  (forall c, wf c -> unamb c -> (List.length (f c) <= 1)%nat) ->
  (List.length (over_children s f (children t)) <= 1)%nat.
Proof.
  intros Hw Hu Hf. unfold over_children, or_else.
  destruct (match find_lit s (children t) with Some c => f c | None => [] end) as [|a l] eqn:E.
  - inversion Hw as [it ch ND HF]; subst. simpl. apply par_flat_det; [assumption| |].
    + intros k1 c1 k2 c2. apply (Hu [] (Node it ch) k1 c1 k2 c2). reflexivity.
    + intros [k c] Hin. simpl. rewrite map_length.
      destruct (wf_child_In (Node it ch) k c Hw Hin) as (Hc & _ & Hwc). apply Hf; [assumption|]. eapply unamb_child; eauto.
  - unfold find_lit in E. destruct (is_par s); [discriminate|]. destruct (find_child s (children t)) as [c|] eqn:Ec; [|discriminate].
    rewrite <- E. apply Hf; [apply (wf_child _ _ _ Hw Ec)|eapply unamb_child; eauto].
Qed.

Lemma search_det req : forall t, wf t -> unamb t -> (List.length (search_all req t) <= 1)%nat.
Proof.
  induction req as [|s rest IH]; intros t Hw Hu; [simpl; lia|].
  assert (Hhere : forall c, wf c -> unamb c -> (List.length (here c) <= 1)%nat).
  { intros c _ _. unfold here. destruct (item c); simpl; lia. }
  destruct rest as [|s2 rest2].
  - destruct s as [|a s'].
    + rewrite search_root. destruct (item t); [simpl; lia|]. apply over_children_det; assumption.
    + rewrite search_last by discriminate. apply over_children_det; assumption.
  - rewrite search_cons by discriminate. apply over_children_det; assumption.
Qed.

Lemma node_at_app p1 p2 t :
  node_at (p1 ++ p2) t = match node_at p1 t with Some n => node_at p2 n | None => None end.
Proof.
  revert t. induction p1 as [|k r IH]; intro t; [reflexivity|]. simpl.
  destruct (find_child k (children t)); [apply IH|reflexivity].
Qed.

Lemma wf_node_at path : forall t n, wf t -> node_at path t = Some n -> wf n.
Proof.
  induction path as [|k r IH]; intros t n Hw H; [inversion H; subst; assumption|]. simpl in H.
  destruct (find_child k (children t)) as [c|] eqn:Ec; [|discriminate]. eapply IH; [|eassumption]. apply (wf_child _ _ _ Hw Ec).
Qed.

Lemma unamb_of_patterns tb acc m t : Rel tb acc -> NJ tb acc -> unambiguous acc -> tb_get m tb = Some t -> unamb t.
Proof.
  intros HR HN HU Et path n k1 c1 k2 c2 Hn H1 H2 P1 P2.
  pose proof HR as (_ & _ & HR3). specialize (HR3 m). rewrite Et in HR3. destruct HR3 as [Hw _].
  pose proof (wf_node_at _ _ _ Hw Hn) as Hwn.
  assert (Hx : forall k c, In (k, c) (children n) -> exists pat id suf, In (m, pat, id) acc /\ pat = path ++ k :: suf).
  { intros k c Hin. destruct (wf_child_In _ _ _ Hwn Hin) as (Hc & _ & _).
    destruct (HN m t Et (path ++ [k])) as (pat & id & Hin' & suf & Hsuf).
    - destruct path; discriminate.
    - rewrite node_at_app, Hn. simpl. rewrite Hc. discriminate.
    - exists pat, id, suf. split; [assumption|]. rewrite Hsuf, <- app_assoc. reflexivity. }
  destruct (Hx k1 c1 H1) as (pat1 & id1 & suf1 & Hi1 & E1). destruct (Hx k2 c2 H2) as (pat2 & id2 & suf2 & Hi2 & E2).
  exact (HU m pat1 id1 pat2 id2 path k1 k2 suf1 suf2 Hi1 Hi2 E1 E2 P1 P2).
Qed.

(* ------------------------------------------------------------------ router-level statements *)
Lemma sound regs m p rs id ps :
  route_req (build regs) m p = Hit rs -> In (id, ps) rs ->
  exists q pat, req_segs (clean p) = Some q /\ In (m, pat, id) (registered regs) /\
                pmatch pat q = true /\ ps = binds pat q.
Proof.
  intros H Hin. rewrite route_req_eq in H. destruct (hits (build regs) m p) as [|h l] eqn:E.
  - destruct (methods_allowed (build regs) m (clean p)); discriminate.
  - inversion H; subst rs. eapply hits_sound; [apply rel_build|]. rewrite E. exact Hin.
Qed.

Lemma complete regs m p q pat id :
  req_segs (clean p) = Some q -> In (m, pat, id) (registered regs) -> pmatch pat q = true ->
  exists rs, route_req (build regs) m p = Hit rs /\ rs <> [].
Proof.
  intros Eq Hin Hm. pose proof (hits_complete _ _ m p q pat id (rel_build regs) Eq Hin Hm) as H.
  rewrite route_req_eq. destruct (hits (build regs) m p); [congruence|]. eexists. split; [reflexivity|discriminate].
Qed.

Lemma literal_wins regs m p q pat id :
  req_segs (clean p) = Some q -> In (m, pat, id) (registered regs) -> pmatch pat q = true ->
  all_lit pat = true -> route_req (build regs) m p = Hit [(id, [])].
Proof.
  intros Eq Hin Hm Hl. rewrite route_req_eq. rewrite (hits_literal _ _ m p q pat id (rel_build regs) Eq Hin Hm Hl). reflexivity.
Qed.

Lemma partition regs m p :
  ~ has_match (registered regs) m p ->
  (route_req (build regs) m p = NotFound /\ forall m', m' <> m -> ~ has_match (registered regs) m' p) \/
  (exists ms, route_req (build regs) m p = NotAllowed ms /\ ms <> [] /\ NoDup ms /\
              forall m', In m' ms <-> (m' <> m /\ has_match (registered regs) m' p)).
Proof.
  intro Hno. pose proof (rel_build regs) as HR.
  assert (E : hits (build regs) m p = []).
  { destruct (hits (build regs) m p) eqn:E; [reflexivity|]. exfalso. apply Hno. apply (hits_iff _ _ m p HR). rewrite E. discriminate. }
  rewrite route_req_eq, E. destruct (methods_allowed (build regs) m (clean p)) as [|a l] eqn:Ea.
  - left. split; [reflexivity|]. intros m' Hd Hm. apply (hits_iff _ _ m' p HR) in Hm.
    assert (Hin : In m' (methods_allowed (build regs) m (clean p))) by (apply (allowed_iff _ _ m p m' HR); auto).
    rewrite Ea in Hin. destruct Hin.
  - right. exists (a :: l). split; [reflexivity|]. split; [discriminate|]. split.
    + rewrite <- Ea. eapply allowed_nodup; eauto.
    + intro m'. rewrite <- Ea. rewrite (allowed_iff _ _ m p m' HR). rewrite (hits_iff _ _ m' p HR). reflexivity.
Qed.

Lemma registered_snoc regs r : registered (regs ++ [r]) = sreg (registered regs) r.
Proof. unfold registered. rewrite fold_left_app. reflexivity. Qed.

Lemma rejects regs m p id :
  snd (handle (build regs) m p id) = reject (registered regs) m p /\
  (reject (registered regs) m p <> None -> fst (handle (build regs) m p id) = build regs) /\
  (valid_method m = false -> reject (registered regs) m p = Some EMethod) /\
  (valid_method m = true -> rooted p = false -> reject (registered regs) m p = Some EPath) /\
  (valid_method m = true -> rooted p = true ->
     (exists id', In (m, pattern_of p, id') (registered regs)) -> reject (registered regs) m p = Some EDup) /\
  (valid_method m = true -> rooted p = true ->
     (forall id', ~ In (m, pattern_of p, id') (registered regs)) ->
     reject (registered regs) m p = None /\
     registered (regs ++ [(m, p, id)]) = registered regs ++ [(m, pattern_of p, id)]).
Proof.
  destruct (handle_step (build regs) (registered regs) m p id (rel_build regs)) as (H1 & H2 & _).
  split; [assumption|]. split; [assumption|]. unfold reject.
  split; [intros ->; reflexivity|]. split; [intros -> ->; reflexivity|]. split.
  - intros -> -> Hex. cbn [negb]. apply dup_check in Hex. rewrite Hex. reflexivity.
  - intros Hv Hr Hno.
    assert (E : reject (registered regs) m p = None).
    { unfold reject. rewrite Hv, Hr. cbn [negb]. destruct (existsb _ (registered regs)) eqn:E; [|reflexivity].
      apply dup_check in E as (id' & Hin). destruct (Hno _ Hin). }
    split; [exact E|]. rewrite registered_snoc. unfold sreg. cbn [fst snd]. rewrite E. reflexivity.
Qed.

Lemma deterministic regs m p rs :
  unambiguous (registered regs) -> route_req (build regs) m p = Hit rs -> exists r, rs = [r].
Proof.
  intros HU H. rewrite route_req_eq in H. destruct (hits (build regs) m p) as [|h l] eqn:E.
  - destruct (methods_allowed (build regs) m (clean p)); discriminate.
  - inversion H; subst rs. exists h. f_equal.
    unfold hits in E. destruct (tb_get m (build regs)) as [t|] eqn:Et; [|discriminate].
    pose proof (rel_build regs) as HR. pose proof HR as (_ & _ & HR3). specialize (HR3 m). rewrite Et in HR3. destruct HR3 as [Hw _].
    pose proof (unamb_of_patterns _ _ m t HR (nj_build regs) HU Et) as Hu.
    unfold search in E. destruct (req_segs (clean p)) as [q|]; [|discriminate].
    pose proof (search_det q t Hw Hu) as Hlen. rewrite E in Hlen. simpl in Hlen. destruct l; [reflexivity|simpl in Hlen; lia].
Qed.

Lemma param_binding regs m p rs id ps :
  route_req (build regs) m p = Hit rs -> In (id, ps) rs ->
  exists q pat, req_segs (clean p) = Some q /\ In (m, pat, id) (registered regs) /\ pmatch pat q = true /\
    (forall name i, nth_error pat i = Some (colon :: name) ->
                    (forall j, (j < i)%nat -> nth_error pat j <> Some (colon :: name)) ->
                    var_lookup name ps = nth_error q i /\ nth_error q i <> None) /\
    (forall name, ~ In (colon :: name) pat -> var_lookup name ps = None).
Proof.
  intros H Hin. destruct (sound regs m p rs id ps H Hin) as (q & pat & Eq & Hreg & Hm & ->).
  exists q, pat. split; [assumption|]. split; [assumption|]. split; [assumption|]. split.
  - intros name i Hi Hfirst. pose proof (pmatch_length _ _ Hm) as Hlen. split.
    + apply binds_lookup; assumption.
    + apply nth_error_Some. rewrite <- Hlen. apply nth_error_Some. congruence.
  - intros name Hn. apply binds_lookup_none. assumption.
Qed.

Lemma allowed_none tb m q : req_segs q = None -> methods_allowed tb m q = [].
Proof.
  intro H. rewrite allowed_filter. induction tb as [|[m1 t] r IH]; [reflexivity|]. simpl.
  unfold search at 1. rewrite H. rewrite andb_false_r. exact IH.
Qed.

Lemma clean_shape p :
  (rooted p = true -> exists q, req_segs (clean p) = Some q /\ wf_segs q) /\
  (rooted p = false -> req_segs (clean p) = None /\ forall regs m, route_req (build regs) m p = NotFound).
Proof.
  split; [apply clean_rooted|]. intro H. pose proof (clean_unrooted p H) as E. split; [assumption|].
  intros regs m. rewrite route_req_eq. unfold hits, search. rewrite E.
  rewrite allowed_none by assumption. destruct (tb_get m (build regs)); reflexivity.
Qed.
