(* C03 Table: the method table of patRouter after ANY registration history represents exactly the
   registered set of the Spec; routing theorems at the router level. *)
From Coq Require Import String.
From God Require Import Base.Prelude C03.Path C03.Spec C03.Model C03.Proofs.
Local Open Scope N_scope.

Definition Rel (tb : table) (acc : list route) : Prop :=
  NoDup (map fst tb) /\
  (forall r, In r acc -> wf_segs (r_pat r)) /\
  forall m, match tb_get m tb with
            | Some t => wf t /\ forall pat id, wf_segs pat -> (pat_item pat t = Some id <-> In (m, pat, id) acc)
            | None => forall pat id, ~ In (m, pat, id) acc
            end.

Lemma Rel_nil : Rel [] [].
Proof. split; [constructor|]. split; [intros r []|]. intros m. simpl. intros pat id []. Qed.

Lemma pat_eqb_eq a b : pat_eqb a b = true <-> a = b.
Proof. apply list_eqb_eq. apply seg_eqb_eq. Qed.

Lemma dup_check acc m pat :
  existsb (fun r => String.eqb m (r_method r) && pat_eqb pat (r_pat r)) acc = true <-> exists id, In (m, pat, id) acc.
Proof.
  rewrite existsb_exists. split.
  - intros ([[m' pat'] id'] & Hin & H). unfold r_method, r_pat in H. simpl in H.
    apply andb_true_iff in H as [H1 H2]. apply String.eqb_eq in H1. apply pat_eqb_eq in H2. subst. eauto.
  - intros (id & Hin). exists (m, pat, id). split; [assumption|]. unfold r_method, r_pat. simpl.
    rewrite String.eqb_refl. simpl. apply pat_eqb_eq. reflexivity.
Qed.

Lemma pat_item_empty pat : pat_item pat empty = None.
Proof. destruct pat as [|[|] [|]]; try reflexivity; cbn [pat_item]; apply item_at_empty. Qed.

Lemma pattern_of_rooted p : rooted p = true ->
  exists segs, req_segs (clean p) = Some segs /\ wf_segs segs /\ pattern_of p = segs.
Proof.
  intro H. destruct (clean_rooted p H) as (segs & E & Hw). exists segs. unfold pattern_of. rewrite E. auto.
Qed.

Lemma Rel_extend tb acc m t t' segs id :
  Rel tb acc -> wf_segs segs ->
  (forall pat id0, wf_segs pat -> (pat_item pat t = Some id0 <-> In (m, pat, id0) acc)) ->
  wf t' -> pat_item segs t = None -> pat_item segs t' = Some id ->
  (forall pat', wf_segs pat' -> pat' <> segs -> pat_item pat' t' = pat_item pat' t) ->
  Rel (tb_put m t' tb) (acc ++ [(m, segs, id)]).
Proof.
  intros (ND & Hwf & HR) Hws Hiff Hw' Hn Hs Ho. split; [apply NoDup_aput; assumption|]. split.
  - intros r Hin. apply in_app_or in Hin as [Hin|[<-|[]]]; [auto|exact Hws].
  - intro m0. destruct (string_dec m0 m) as [->|Hd].
    + unfold tb_get, tb_put. rewrite aget_aput_same. split; [assumption|]. intros pat id0 Hwp.
      destruct (list_eq_dec seg_dec pat segs) as [->|Hp].
      * rewrite Hs. split.
        -- intro E. inversion E; subst. apply in_or_app. right. left. reflexivity.
        -- intro Hin. apply in_app_or in Hin as [Hin|[E|[]]]; [|inversion E; reflexivity].
           apply Hiff in Hin; [congruence|assumption].
      * rewrite Ho by assumption. rewrite Hiff by assumption. split; intro Hin.
        -- apply in_or_app. left. assumption.
        -- apply in_app_or in Hin as [Hin|[E|[]]]; [assumption|inversion E; congruence].
    + unfold tb_get, tb_put. rewrite aget_aput_other by assumption. specialize (HR m0). unfold tb_get in HR.
      destruct (aget string_dec m0 tb).
      * destruct HR as [Hw0 Hiff0]. split; [assumption|]. intros pat id0 Hwp. rewrite Hiff0 by assumption. split; intro Hin.
        -- apply in_or_app. left. assumption.
        -- apply in_app_or in Hin as [Hin|[E|[]]]; [assumption|inversion E; congruence].
      * intros pat id0 Hin. apply in_app_or in Hin as [Hin|[E|[]]]; [apply (HR _ _ Hin)|inversion E; congruence].
Qed.

(* one registration: the model's verdict is the Spec's, a rejected registration leaves the table
   untouched, and the table keeps representing the registered set *)
Lemma handle_step tb acc m p id : Rel tb acc ->
  snd (handle tb m p id) = reject acc m p /\
  (reject acc m p <> None -> fst (handle tb m p id) = tb) /\
  Rel (fst (handle tb m p id)) (sreg acc (m, p, id)).
Proof.
  intro HR. unfold handle, reject, sreg. cbn [fst snd]. unfold reject.
  destruct (valid_method m); cbn [negb]; [|auto].
  destruct (rooted p) eqn:Er; cbn [negb]; [|auto].
  destruct (pattern_of_rooted p Er) as (segs & Es & Hws & ->).
  unfold tree_add. rewrite Es.
  pose proof HR as (ND & Hwf & HR3). specialize (HR3 m).
  destruct (tb_get m tb) as [t|] eqn:Et.
  - destruct HR3 as [Hwt Hiff]. pose proof (add_wf_spec segs id t Hws Hwt) as Ha.
    destruct (pat_item segs t) as [id'|] eqn:Epi.
    + rewrite Ha. cbn [fst snd].
      assert (Ex : existsb (fun r => String.eqb m (r_method r) && pat_eqb segs (r_pat r)) acc = true).
      { apply dup_check. exists id'. apply Hiff; assumption. }
      rewrite Ex. unfold tb_put. rewrite aput_same by exact Et. auto.
    + destruct Ha as (t' & Ea & Hwt' & Hpi' & Hother). rewrite Ea. cbn [fst snd].
      assert (Ex : existsb (fun r => String.eqb m (r_method r) && pat_eqb segs (r_pat r)) acc = false).
      { destruct (existsb _ acc) eqn:E; [|reflexivity]. apply dup_check in E as (id' & Hin).
        apply Hiff in Hin; [congruence|assumption]. }
      rewrite Ex. split; [reflexivity|]. split; [congruence|]. eapply Rel_extend; eauto.
  - pose proof (add_wf_spec segs id empty Hws wf_empty) as Ha. rewrite pat_item_empty in Ha.
    destruct Ha as (t' & Ea & Hwt' & Hpi' & Hother). rewrite Ea. cbn [fst snd].
    assert (Ex : existsb (fun r => String.eqb m (r_method r) && pat_eqb segs (r_pat r)) acc = false).
    { destruct (existsb _ acc) eqn:E; [|reflexivity]. apply dup_check in E as (id' & Hin). destruct (HR3 _ _ Hin). }
    rewrite Ex. split; [reflexivity|]. split; [congruence|].
    eapply Rel_extend with (t := empty); eauto using pat_item_empty.
    intros pat id0 _. rewrite pat_item_empty. split; [discriminate|]. intro Hin. destruct (HR3 _ _ Hin).
Qed.

Definition hstep (tb : table) (r : reg) : table := fst (handle tb (fst (fst r)) (snd (fst r)) (snd r)).

Lemma build_fold regs : build regs = fold_left hstep regs [].
Proof. reflexivity. Qed.

Lemma Rel_fold regs : forall tb acc, Rel tb acc -> Rel (fold_left hstep regs tb) (fold_left sreg regs acc).
Proof.
  induction regs as [|[[m p] id] r IH]; intros tb acc H; [assumption|]. simpl. apply IH.
  unfold hstep. cbn [fst snd]. apply (handle_step tb acc m p id H).
Qed.

Theorem rel_build regs : Rel (build regs) (registered regs).
Proof. apply Rel_fold. apply Rel_nil. Qed.

(* ------------------------------------------------------------------ requests *)
Definition hits (tb : table) (m : string) (p : list N) : list hit :=
  match tb_get m tb with Some t => search (clean p) t | None => [] end.

Definition has_match (acc : list route) (m : string) (p : list N) : Prop :=
  exists q pat id, req_segs (clean p) = Some q /\ In (m, pat, id) acc /\ pmatch pat q = true.

Lemma hits_sound tb acc m p id ps : Rel tb acc -> In (id, ps) (hits tb m p) ->
  exists q pat, req_segs (clean p) = Some q /\ In (m, pat, id) acc /\ pmatch pat q = true /\ ps = binds pat q.
Proof.
  intros (ND & Hwf & HR) H. unfold hits in H. specialize (HR m). destruct (tb_get m tb) as [t|]; [|destruct H].
  destruct HR as [Hw Hiff]. unfold search in H. destruct (req_segs (clean p)) as [q|] eqn:Eq; [|destruct H].
  pose proof (clean_segs_wf _ _ Eq) as Hq.
  destruct (search_sound_wf t q id ps Hw Hq H) as (pat & Hp & Hi & Hm & Hb).
  exists q, pat. split; [reflexivity|]. split; [apply Hiff; assumption|]. auto.
Qed.

Lemma hits_item tb acc m pat id : Rel tb acc -> In (m, pat, id) acc ->
  exists t, tb_get m tb = Some t /\ wf t /\ wf_segs pat /\ pat_item pat t = Some id.
Proof.
  intros (ND & Hwf & HR) Hin. specialize (HR m). destruct (tb_get m tb) as [t|]; [|destruct (HR _ _ Hin)].
  destruct HR as [Hw Hiff]. pose proof (Hwf _ Hin) as Hp. unfold r_pat in Hp. simpl in Hp.
  exists t. split; [reflexivity|]. split; [assumption|]. split; [assumption|]. apply Hiff; assumption.
Qed.

Lemma hits_complete tb acc m p q pat id : Rel tb acc ->
  req_segs (clean p) = Some q -> In (m, pat, id) acc -> pmatch pat q = true -> hits tb m p <> [].
Proof.
  intros HR Eq Hin Hm. destruct (hits_item _ _ _ _ _ HR Hin) as (t & Et & Hw & Hp & Hi).
  unfold hits, search. rewrite Et, Eq. eapply search_complete_wf; eauto using clean_segs_wf.
Qed.

Lemma hits_literal tb acc m p q pat id : Rel tb acc ->
  req_segs (clean p) = Some q -> In (m, pat, id) acc -> pmatch pat q = true -> all_lit pat = true ->
  hits tb m p = [(id, [])].
Proof.
  intros HR Eq Hin Hm Hl. destruct (hits_item _ _ _ _ _ HR Hin) as (t & Et & Hw & Hp & Hi).
  unfold hits, search. rewrite Et, Eq. eapply search_literal_wf; eauto using clean_segs_wf.
Qed.

Lemma hits_iff tb acc m p : Rel tb acc -> (hits tb m p <> [] <-> has_match acc m p).
Proof.
  intro HR. split.
  - destruct (hits tb m p) as [|[id ps] l] eqn:E; [congruence|]. intros _.
    destruct (hits_sound tb acc m p id ps HR) as (q & pat & H1 & H2 & H3 & _); [rewrite E; left; reflexivity|].
    exists q, pat, id. auto.
  - intros (q & pat & id & H1 & H2 & H3). eapply hits_complete; eauto.
Qed.

Lemma route_req_eq tb m p :
  route_req tb m p =
  match hits tb m p with
  | _ :: _ => Hit (hits tb m p)
  | [] => match methods_allowed tb m (clean p) with [] => NotFound | ms => NotAllowed ms end
  end.
Proof. unfold route_req, hits. destruct (match tb_get m tb with Some t => search (clean p) t | None => [] end); reflexivity. Qed.

Lemma allowed_filter tb m q :
  methods_allowed tb m q =
  map fst (filter (fun mt => negb (if string_dec (fst mt) m then true else false) &&
                             negb (match search q (snd mt) with [] => true | _ => false end)) tb).
Proof.
  unfold methods_allowed. induction tb as [|[m1 t] r IH]; [reflexivity|]. simpl. rewrite IH.
  destruct (string_dec m1 m); simpl; [reflexivity|]. destruct (search q t); reflexivity.
Qed.

Lemma NoDup_map_filter {A B} (g : A -> B) (f : A -> bool) l : NoDup (map g l) -> NoDup (map g (filter f l)).
Proof.
  induction l as [|a r IH]; simpl; intro H; [constructor|]. inversion H; subst.
  destruct (f a); simpl; [|auto]. constructor; [|auto]. intro Hin. apply H2.
  apply in_map_iff in Hin as (x & Hx & Hf). apply filter_In in Hf as [Hf _]. apply in_map_iff. eauto.
Qed.

Lemma allowed_iff tb acc m p m' : Rel tb acc ->
  (In m' (methods_allowed tb m (clean p)) <-> m' <> m /\ hits tb m' p <> []).
Proof.
  intros (ND & _ & _). rewrite allowed_filter. rewrite in_map_iff. split.
  - intros ([m1 t] & <- & Hf). apply filter_In in Hf as [Hin Hf]. simpl in *.
    apply andb_true_iff in Hf as [H1 H2]. destruct (string_dec m1 m); [discriminate|]. split; [assumption|].
    unfold hits, tb_get. rewrite (In_aget string_dec _ _ _ ND Hin). destruct (search (clean p) t); [discriminate|discriminate].
  - intros [Hd Hh]. unfold hits in Hh. destruct (tb_get m' tb) as [t|] eqn:Et; [|congruence].
    exists (m', t). split; [reflexivity|]. apply filter_In. split; [apply (aget_In string_dec); exact Et|]. simpl.
    destruct (string_dec m' m); [congruence|]. simpl. destruct (search (clean p) t); [congruence|reflexivity].
Qed.

Lemma allowed_nodup tb acc m q : Rel tb acc -> NoDup (methods_allowed tb m q).
Proof. intros (ND & _ & _). rewrite allowed_filter. apply NoDup_map_filter. assumption. Qed.

(* ------------------------------------------------------------------ parameter binding *)
Lemma binds_lookup name : forall pat q i,
  List.length pat = List.length q ->
  nth_error pat i = Some (colon :: name) ->
  (forall j, (j < i)%nat -> nth_error pat j <> Some (colon :: name)) ->
  var_lookup name (binds pat q) = nth_error q i.
Proof.
  induction pat as [|k pat IH]; intros [|s q] i Hlen Hi Hfirst; try discriminate.
  - destruct i; discriminate.
  - simpl in Hlen. destruct i as [|i].
    + simpl in Hi. inversion Hi; subst. simpl. change (colon =? colon) with true. cbv iota.
      unfold var_lookup. simpl. rewrite seg_eqb_refl. reflexivity.
    + simpl in Hi. simpl. assert (Hk : k <> colon :: name).
      { intro E. apply (Hfirst 0%nat); [lia|]. simpl. congruence. }
      assert (IH' : var_lookup name (binds pat q) = nth_error q i).
      { apply IH; [lia|assumption|]. intros j Hj. apply (Hfirst (S j)). lia. }
      destruct (is_par k) eqn:Ep; [|exact IH'].
      unfold var_lookup. simpl. destruct (seg_eqb name (pname k)) eqn:E; [|exact IH'].
      exfalso. apply Hk. apply seg_eqb_eq in E. subst. unfold is_par in Ep. destruct k as [|c k']; [discriminate|].
      apply N.eqb_eq in Ep. subst. reflexivity.
Qed.

Lemma binds_lookup_none name : forall pat q,
  ~ In (colon :: name) pat -> var_lookup name (binds pat q) = None.
Proof.
  induction pat as [|k pat IH]; intros q Hn; [reflexivity|]. destruct q as [|s q]; [reflexivity|]. simpl.
  assert (IH' : var_lookup name (binds pat q) = None) by (apply IH; intro; apply Hn; right; assumption).
  destruct (is_par k) eqn:Ep; [|exact IH']. unfold var_lookup. simpl. destruct (seg_eqb name (pname k)) eqn:E; [|exact IH'].
  exfalso. apply Hn. left. apply seg_eqb_eq in E. subst. unfold is_par in Ep. destruct k as [|c k']; [discriminate|].
  apply N.eqb_eq in Ep. subst. reflexivity.
Qed.
