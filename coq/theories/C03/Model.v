(* C03 Model: transcription of lib/search/tree.go (add, next) and api/router/patrouter.go
   (Handle, ServeHTTP, methodsAllowed).  Executable definitions only.

   Strings are byte lists; a route string is handled through its split at '/' (the Go code peels
   off one token per recursive call: `for i := range route { if route[i] != slash {continue} ...}`).
   node.children[0|1] (literal / ':param' maps, both keyed by the raw token) are one association
   list keyed by the raw token; the map a key lives in is decided by is_par (getChildren,
   tree.go:203-209).  forEach (tree.go:211-221) visits children[0] before children[1]; inside one
   map Go's iteration order is random, so search_all returns the results of ALL orders. *)
From Coq Require Import String.
From God Require Import Base.Prelude C03.Path C03.Spec.
Local Open Scope N_scope.

(* maps as association lists with in-place replacement *)
Section AMap.
  Context {K V : Type} (dec : forall a b : K, {a = b} + {a <> b}).
  Fixpoint aget (k : K) (m : list (K * V)) : option V :=
    match m with
    | [] => None
    | (k', v) :: r => if dec k k' then Some v else aget k r
    end.
  Fixpoint aput (k : K) (v : V) (m : list (K * V)) : list (K * V) :=
    match m with
    | [] => [(k, v)]
    | (k', v') :: r => if dec k k' then (k, v) :: r else (k', v') :: aput k v r
    end.
End AMap.

(* node{item, children} tree.go:41-44; items are handler ids *)
Inductive tree := Node (item : option nat) (children : list (seg * tree)).
Definition item (t : tree) := match t with Node i _ => i end.
Definition children (t : tree) := match t with Node _ c => c end.
Definition empty : tree := Node None [].                     (* newNode(nil) *)

Definition find_child := aget (V := tree) seg_dec.
Definition set_child := aput (V := tree) seg_dec.

(* ---- add, tree.go:155-201 ---- *)
Fixpoint add (segs : list seg) (id : nat) (t : tree) : tree * option err :=
  match segs with
  | [] => (t, Some EInvalidState)                 (* a split string has at least one segment *)
  | s :: rest =>
    match rest with
    | [] =>
      match s with
      | [] =>                                      (* len(route) == 0, 156-163 *)
          match item t with
          | Some _ => (t, Some EDup)
          | None => (Node (Some id) (children t), None)
          end
      | _ :: _ =>                                  (* no slash left: last token, 189-200 *)
          match find_child s (children t) with
          | Some c =>
              match item c with
              | Some _ => (t, Some EDup)
              | None => (Node (item t) (set_child s (Node (Some id) (children c)) (children t)), None)
              end
          | None => (Node (item t) (set_child s (Node (Some id) []) (children t)), None)
          end
      end
    | _ :: _ =>
      match s with
      | [] => (t, Some EDupSlash)                  (* route[0] == slash, 165-167 *)
      | _ :: _ =>                                  (* 169-187: child looked up or created, then recursion;
                                                      the created child stays even if the recursion fails *)
          let c := match find_child s (children t) with Some c => c | None => empty end in
          let (c', e) := add rest id c in
          (Node (item t) (set_child s c' (children t)), e)
      end
    end
  end.

(* Tree.Add, tree.go:62-80 (handlers are never nil here) *)
Definition tree_add (route : list N) (id : nat) (t : tree) : tree * option err :=
  match req_segs route with
  | Some segs => add segs id t
  | None => (t, Some ENotFromRoot)
  end.

(* ---- next, tree.go:94-130 ---- *)
Definition hit := (nat * params)%type.
Definition bind (name value : seg) (r : hit) : hit := (fst r, (name, value) :: snd r).
                                                   (* addParam after the inner call returned: the
                                                      outermost ':name' is written last and wins *)
Definition or_else {A} (l1 l2 : list A) : list A := match l1 with [] => l2 | _ => l1 end.

(* match(k, token) in the literal map: only k == token can be found *)
Definition find_lit (s : seg) (ch : list (seg * tree)) : option tree :=
  if is_par s then None else find_child s ch.

(* n.forEach(...) with continuation f on the matched child: the literal child first; only when
   it fails, every ':param' child in some order *)
Definition over_children (s : seg) (f : tree -> list hit) (ch : list (seg * tree)) : list hit :=
  or_else (match find_lit s ch with Some c => f c | None => [] end)
          (flat_map (fun kc => if is_par (fst kc) then map (bind (pname (fst kc)) s) (f (snd kc)) else []) ch).

(* last token: the child must carry an item (tree.go:120) *)
Definition here (t : tree) : list hit := match item t with Some i => [(i, [])] | None => [] end.

Fixpoint search_all (req : list seg) (t : tree) : list hit :=
  match req with
  | [] => []
  | s :: rest =>
    match rest with
    | [] =>
      match s, item t with
      | [], Some i => [(i, [])]                                 (* len(route)==0 && n.item != nil, 95-98 *)
      | _, _ => over_children s here (children t)                 (* 119-129 *)
      end
    | _ :: _ => over_children s (search_all rest) (children t)    (* 100-117 *)
    end
  end.

(* Tree.Search, tree.go:83-92 *)
Definition search (route : list N) (t : tree) : list hit :=
  match req_segs route with
  | Some segs => search_all segs t
  | None => []
  end.

(* ---- patRouter ---- *)
Definition table := list (string * tree).                      (* pr.trees *)
Definition tb_get := aget (V := tree) string_dec.
Definition tb_put := aput (V := tree) string_dec.

(* Handle, patrouter.go:68-86 *)
Definition handle (tb : table) (m : string) (p : list N) (id : nat) : table * option err :=
  if negb (valid_method m) then (tb, Some EMethod)
  else if negb (rooted p) then (tb, Some EPath)
  else
    let cp := clean p in
    match tb_get m tb with
    | Some t => let (t', e) := tree_add cp id t in (tb_put m t' tb, e)
    | None => let (t', e) := tree_add cp id empty in (tb_put m t' tb, e)   (* stored before Add *)
    end.

(* methodsAllowed, patrouter.go:103-121 (order = map order: a set) *)
Definition methods_allowed (tb : table) (m : string) (q : list N) : list string :=
  flat_map (fun mt => if string_dec (fst mt) m then []
                      else match search q (snd mt) with [] => [] | _ => [fst mt] end) tb.

Inductive outcome :=
| Hit (rs : list hit)            (* some handler of rs runs, with these path variables *)
| NotAllowed (ms : list string)  (* 405, Allow = ms as a set *)
| NotFound.                      (* not-found handler *)

(* ServeHTTP, patrouter.go:42-66 *)
Definition route_req (tb : table) (m : string) (p : list N) : outcome :=
  let q := clean p in
  match (match tb_get m tb with Some t => search q t | None => [] end) with
  | (_ :: _) as rs => Hit rs
  | [] => match methods_allowed tb m q with
          | [] => NotFound
          | ms => NotAllowed ms
          end
  end.

Definition build (regs : list reg) : table :=
  fold_left (fun tb r => fst (handle tb (fst (fst r)) (snd (fst r)) (snd r))) regs [].

(* ---- engine (api/engine.go) ---- *)
(* bindRoutes -> bindFeaturedRoutes -> bindRoute, engine.go:72-126: for every added route, in order,
   router.Handle(route.Method, route.Path, chain(handler)); the first error is returned at once and
   the remaining routes are not bound.  (Signature verification is off; the middleware chain wraps
   the handler and does not touch method / path.) *)
Fixpoint engine_bind (tb : table) (rs : list reg) : table * option err :=
  match rs with
  | [] => (tb, None)
  | r :: rest =>
      let (tb', e) := handle tb (fst (fst r)) (snd (fst r)) (snd r) in
      match e with
      | Some _ => (tb', e)
      | None => engine_bind tb' rest
      end
  end.

(* Server.AddRoutes(rs, WithPrefix(g)) replaces every path by path.Join(g, path) (server.go:210-223,
   Spec.with_prefix); addRoutes appends the group; start binds all groups on the server's router *)
Definition engine_register (gs : list group) : table * option err := engine_bind [] (engine_routes gs).

(* ---- histories: registrations and requests in any order on one router ---- *)
(* Handle mutates pr.trees; ServeHTTP / Search / methodsAllowed only read it and keep no other state *)
Inductive hop := OReg (m : string) (p : list N) (id : nat) | OReq (m : string) (p : list N).
Inductive hres := HErr (e : option err) | HOut (o : outcome).
Fixpoint run_ops (tb : table) (ops : list hop) : list hres :=
  match ops with
  | [] => []
  | OReg m p id :: rest => let (tb', e) := handle tb m p id in HErr e :: run_ops tb' rest
  | OReq m p :: rest => HOut (route_req tb m p) :: run_ops tb rest
  end.

(* ---- the request context between the router and the handler ---- *)
(* context.WithValue chains: a lookup returns the innermost value whose key is == to the asked key.
   Go compares keys as interface values, i.e. dynamic type AND value: pathvar's key is
   contextKey("pathVars"), a type of its own (params.go:8,25), while handler.Authorize stores every
   custom jwt claim under its plain string name (authhandler.go:71-79), whatever that name is. *)
Inductive ckey :=
| KPathVars                 (* pathvar.contextKey("pathVars") *)
| KStr (name : list N).     (* a key of type string *)
Inductive cval :=
| VParams (ps : params)     (* a map[string]string *)
| VOther (tag : nat).       (* any other dynamic type (string, float64, map[string]interface{}, ...) *)
Definition ctx := list (ckey * cval).                       (* innermost WithValue first *)

Definition ckey_eqb (a b : ckey) : bool :=
  match a, b with
  | KPathVars, KPathVars => true
  | KStr x, KStr y => seg_eqb x y
  | _, _ => false
  end.

Definition ctx_value (k : ckey) (c : ctx) : option cval := alookup ckey_eqb k c.

(* WithVars, params.go:21-23 *)
Definition with_vars (ps : params) (c : ctx) : ctx := (KPathVars, VParams ps) :: c.

(* Vars, params.go:11-18: the value must be a map[string]string *)
Definition vars_of (c : ctx) : option params :=
  match ctx_value KPathVars c with
  | Some (VParams ps) => Some ps
  | _ => None
  end.

(* Authorize's loop over the token's custom claims (Go map order: any order) *)
Definition add_claims (claims : list (list N * cval)) (c : ctx) : ctx :=
  fold_left (fun c kv => (KStr (fst kv), snd kv) :: c) claims c.

(* ServeHTTP, patrouter.go:46-48: the variables are attached only when there are some *)
Definition serve_ctx (ps : params) (c : ctx) : ctx := match ps with [] => c | _ => with_vars ps c end.

(* ---- CORS (api.WithCors / WithCustomCors, server.go:124-140, 295-309; internal/cors/handler.go) ---- *)
(* the server's router is wrapped: cors.Middleware answers EVERY request whose method is OPTIONS with
   204 itself (whatever its headers, whatever is registered) and hands every other request - whatever
   Origin / Access-Control-Request-* headers it carries - to the wrapped router unchanged.  The
   router's not-allowed handler is replaced by cors.NotAllowedHandler, which answers 404 (no Allow
   header) to non-OPTIONS requests. *)
Inductive canswer :=
| CPreflight                 (* 204 by the cors middleware, no handler *)
| CRouted (o : outcome).     (* the wrapped patRouter's outcome; NotAllowed is answered 404 *)
Definition cors_serve (tb : table) (m : string) (p : list N) : canswer :=
  if String.eqb m "OPTIONS" then CPreflight else CRouted (route_req tb m p).

(* ---- NewServer options (server.go:42-58, 194-238) ---- *)
(* options run in order on the server; each handler option acts on the router the server holds AT
   THAT MOMENT: WithNotFoundHandler(h) -> router.SetNotFoundHandler(ng.notFoundHandler(h)),
   WithNotAllowedHandler(h) -> router.SetNotAllowedHandler(h), WithCors -> SetNotAllowedHandler(cors
   handler) + wrap; WithRouter(rt) replaces the server's router by rt - a fresh patRouter has none of
   the earlier settings. *)
Inductive sopt := SNotFound (custom : bool) | SNotAllowed | SCors | SRouter.
Record sconf := mksconf {
  s_nf : bool;       (* a custom not-found handler is installed *)
  s_na : nat;        (* not-allowed handler: 0 default (405 + Allow), 1 custom, 2 cors.NotAllowedHandler *)
  s_cors : bool      (* router wrapped by the cors router (every OPTIONS request -> 204) *)
}.
Definition sconf0 : sconf := mksconf false 0 false.
Definition apply_sopt (c : sconf) (o : sopt) : sconf :=
  match o with
  | SNotFound b => mksconf b (s_na c) (s_cors c)
  | SNotAllowed => mksconf (s_nf c) 1 (s_cors c)
  | SCors => mksconf (s_nf c) 2 true
  | SRouter => sconf0
  end.
Definition server_conf (opts : list sopt) : sconf := fold_left apply_sopt opts sconf0.

(* who answers a request on such a server *)
Inductive sanswer :=
| SPreflight                      (* 204 by the cors layer *)
| SHandler (rs : list hit)        (* the route's handler *)
| SDefault405 (ms : list string)  (* 405 + Allow *)
| SCustomNotAllowed               (* the custom not-allowed handler, once *)
| SCorsNotAllowed                 (* cors.NotAllowedHandler: 404 *)
| SCustomNotFound                 (* the custom not-found handler, once; 404 *)
| SDefault404.
Definition server_serve (cf : sconf) (tb : table) (m : string) (p : list N) : sanswer :=
  if s_cors cf && String.eqb m "OPTIONS" then SPreflight
  else match route_req tb m p with
       | Hit rs => SHandler rs
       | NotAllowed ms => match s_na cf with 0%nat => SDefault405 ms | 1%nat => SCustomNotAllowed | _ => SCorsNotAllowed end
       | NotFound => if s_nf cf then SCustomNotFound else SDefault404
       end.
