(* C03 Path: byte strings, splitting at '/', and a re-implementation of Go's path.Clean
   (go/src/path/path.go) on byte lists.  Shared by Spec (the meaning of "cleaned path, segment by
   segment") and Model (patRouter calls path.Clean).  `clean` is corresponded against the real
   path.Clean by the driver on every registered and requested path. *)
From God Require Import Base.Prelude.
Local Open Scope N_scope.

Definition seg := list N.
Definition seg_dec : forall a b : seg, {a = b} + {a <> b} := list_eq_dec N.eq_dec.
Definition seg_eqb (a b : seg) : bool := if seg_dec a b then true else false.

Definition slash : N := 47.
Definition colon : N := 58.
Definition dot : N := 46.

(* strings.Split(s, "/"): always at least one segment *)
Fixpoint split (l : list N) : list seg :=
  match l with
  | [] => [[]]
  | c :: r => if c =? slash then [] :: split r
              else match split r with h :: t => (c :: h) :: t | [] => [[c]] end
  end.

Fixpoint join (l : list seg) : list N :=
  match l with
  | [] => []
  | [s] => s
  | s :: r => s ++ slash :: join r
  end.

(* One path element processed by Clean's loop; the output buffer is kept as a stack of elements
   (top first).  rooted: '..' at the root is dropped; not rooted: leading '..' are kept. *)
Definition dotdot : seg := [dot; dot].
Definition step_clean (rooted : bool) (stk : list seg) (s : seg) : list seg :=
  if seg_dec s [] then stk                       (* empty element: '//' *)
  else if seg_dec s [dot] then stk               (* '.' *)
  else if seg_dec s dotdot then
    match stk with
    | top :: r => if rooted then r else if seg_dec top dotdot then s :: stk else r
    | [] => if rooted then [] else [s]
    end
  else s :: stk.

Definition clean (p : list N) : list N :=
  match p with
  | [] => [dot]
  | c :: r =>
      if c =? slash then slash :: join (rev (fold_left (step_clean true) (split r) []))
      else match rev (fold_left (step_clean false) (split p) []) with
           | [] => [dot]
           | l => join l
           end
  end.

(* path.Join(g, p) for two elements (go/src/path/path.go Join): empty elements are skipped, the rest
   is joined with '/' and cleaned; all empty gives "".  Used by api.WithPrefix (server.go:214). *)
Definition join2 (g p : list N) : list N :=
  match g, p with
  | [], [] => []
  | [], _ => clean p
  | _, _ => clean (g ++ slash :: p)
  end.

(* route[0] == '/' and the segments of route[1:]  (Tree.Add / Tree.Search entry checks) *)
Definition req_segs (q : list N) : option (list seg) :=
  match q with
  | c :: r => if c =? slash then Some (split r) else None
  | [] => None
  end.

Definition rooted (p : list N) : bool :=
  match p with c :: _ => c =? slash | [] => false end.

(* shape of the segment list of a cleaned rooted path: "/" is the single empty segment, any other
   cleaned path has only non-empty segments *)
Definition ne_segs (l : list seg) : Prop := Forall (fun s => s <> []) l.
Definition wf_segs (l : list seg) : Prop := l = [[]] \/ (l <> [] /\ ne_segs l).

(* ---------------------------------------------------------------- lemmas *)
Lemma split_nonnil l : split l <> [].
Proof. destruct l as [|c r]; simpl; [discriminate|]. destruct (c =? slash); [discriminate|]. destruct (split r); discriminate. Qed.

Lemma split_noslash l : forall s, In s (split l) -> ~ In slash s.
Proof.
  induction l as [|c r IH]; simpl; intros s H.
  - destruct H as [<-|[]]. intros [].
  - destruct (c =? slash) eqn:E.
    + destruct H as [<-|H]; [intros []|auto].
    + destruct (split r) as [|h t] eqn:Es.
      * destruct H as [<-|[]]. intros [H|[]]. subst. discriminate.
      * destruct H as [<-|H].
        -- intros [H|H]; [subst; discriminate|]. apply (IH h); [left; reflexivity|assumption].
        -- apply IH. right. assumption.
Qed.

Lemma split_single s : ~ In slash s -> split s = [s].
Proof.
  induction s as [|c r IH]; simpl; intro H; [reflexivity|].
  destruct (c =? slash) eqn:E; [exfalso; apply H; left; apply N.eqb_eq; assumption|].
  rewrite IH; [reflexivity|]. intro; apply H; right; assumption.
Qed.

Lemma split_app_slash s x : ~ In slash s -> split (s ++ slash :: x) = s :: split x.
Proof.
  induction s as [|c r IH]; simpl; intro H; [reflexivity|].
  destruct (c =? slash) eqn:E; [exfalso; apply H; left; apply N.eqb_eq; assumption|].
  rewrite IH; [reflexivity|]. intro; apply H; right; assumption.
Qed.

Lemma split_join l : l <> [] -> Forall (fun s => ~ In slash s) l -> split (join l) = l.
Proof.
  induction l as [|s r IH]; intros Hn HF; [congruence|].
  inversion HF as [|? ? Hs Hr]; subst.
  destruct r as [|s2 r2]; [simpl; apply split_single; assumption|].
  change (join (s :: s2 :: r2)) with (s ++ slash :: join (s2 :: r2)).
  rewrite split_app_slash by assumption. rewrite IH; [reflexivity|discriminate|assumption].
Qed.

Definition good_seg (s : seg) : Prop := s <> [] /\ ~ In slash s.

Lemma step_clean_good b stk s : Forall good_seg stk -> ~ In slash s -> Forall good_seg (step_clean b stk s).
Proof.
  intros HF Hs. unfold step_clean.
  destruct (seg_dec s []); [assumption|]. destruct (seg_dec s [dot]); [assumption|].
  assert (Hg : good_seg s) by (split; assumption).
  destruct (seg_dec s dotdot).
  - destruct stk as [|top r].
    + destruct b; constructor; [assumption|constructor].
    + inversion HF; subst. destruct b; [assumption|]. destruct (seg_dec top dotdot); [|assumption].
      constructor; assumption.
  - constructor; assumption.
Qed.

Lemma fold_clean_good b l stk :
  Forall good_seg stk -> (forall s, In s l -> ~ In slash s) -> Forall good_seg (fold_left (step_clean b) l stk).
Proof.
  revert stk. induction l as [|s r IH]; simpl; intros stk HF Hl; [assumption|].
  apply IH; [apply step_clean_good; [assumption|apply Hl; left; reflexivity]|intros; apply Hl; right; assumption].
Qed.

Lemma Forall_rev {A} (P : A -> Prop) l : Forall P l -> Forall P (rev l).
Proof. rewrite !Forall_forall. intros H x Hx. apply H. apply in_rev. assumption. Qed.

(* the cleaned form of a rooted path is rooted and its segment list is well shaped *)
Lemma clean_rooted p : rooted p = true -> exists segs, req_segs (clean p) = Some segs /\ wf_segs segs.
Proof.
  destruct p as [|c r]; simpl; [discriminate|]. intro E. rewrite E.
  set (stk := rev (fold_left (step_clean true) (split r) [])).
  assert (HF : Forall good_seg stk).
  { apply Forall_rev. apply fold_clean_good; [constructor|apply split_noslash]. }
  simpl. change (slash =? slash) with true. simpl.
  destruct stk as [|s t] eqn:Es.
  - exists [[]]. split; [reflexivity|left; reflexivity].
  - exists (s :: t). split.
    + rewrite split_join; [reflexivity|discriminate|]. eapply Forall_impl; [|exact HF]. intros a [_ H]; exact H.
    + right. split; [discriminate|]. eapply Forall_impl; [|exact HF]. intros a [H _]; exact H.
Qed.

Lemma join_head l : l <> [] -> Forall good_seg l -> exists c r, join l = c :: r /\ c <> slash.
Proof.
  destruct l as [|s t]; [congruence|]. intros _ HF. inversion HF as [|? ? [Hne Hns] _]; subst.
  destruct s as [|c s']; [congruence|]. exists c.
  destruct t; simpl; eexists; (split; [reflexivity|]); intro; subst; apply Hns; left; reflexivity.
Qed.

(* the cleaned form of a path that is not rooted is not rooted: it matches nothing *)
Lemma clean_unrooted p : rooted p = false -> req_segs (clean p) = None.
Proof.
  destruct p as [|c r]; [reflexivity|]. cbn [rooted]. intro E. unfold clean. rewrite E.
  set (stk := rev (fold_left (step_clean false) (split (c :: r)) [])).
  assert (HF : Forall good_seg stk).
  { apply Forall_rev. apply fold_clean_good; [constructor|apply split_noslash]. }
  destruct stk as [|s t] eqn:Es; [reflexivity|].
  destruct (join_head (s :: t)) as (c' & r' & Ej & Hc); [discriminate|assumption|].
  rewrite Ej. simpl. destruct (c' =? slash) eqn:E2; [apply N.eqb_eq in E2; congruence|reflexivity].
Qed.

Lemma req_segs_rooted q segs : req_segs q = Some segs -> rooted q = true.
Proof. destruct q as [|c r]; simpl; [discriminate|]. destruct (c =? slash); [reflexivity|discriminate]. Qed.

(* whenever the cleaned path is rooted its segment list is well shaped *)
Lemma clean_segs_wf p segs : req_segs (clean p) = Some segs -> wf_segs segs.
Proof.
  intro H. destruct (rooted p) eqn:E.
  - destruct (clean_rooted p E) as (s & Hs & Hw). congruence.
  - rewrite clean_unrooted in H by assumption. discriminate.
Qed.

Lemma seg_eqb_eq a b : seg_eqb a b = true <-> a = b.
Proof. unfold seg_eqb. destruct (seg_dec a b); split; congruence. Qed.
