(* C03 Proofs: the search tree built by any registration history answers exactly like the
   segment matcher over the registered patterns.  All inductions are over arbitrary segment lists /
   registration lists; trees are handled by descending along the path (no bound anywhere). *)
From Coq Require Import String.
From God Require Import Base.Prelude C03.Path C03.Spec C03.Model.
Local Open Scope N_scope.

(* ------------------------------------------------------------------ association maps *)
Section AMapLemmas.
  Context {K V : Type} (dec : forall a b : K, {a = b} + {a <> b}).
  Notation aget := (aget dec). Notation aput := (aput dec).

  Lemma aget_aput_same k (v : V) m : aget k (aput k v m) = Some v.
  Proof.
    induction m as [|[k' v'] r IH]; simpl.
    - destruct (dec k k); congruence.
    - destruct (dec k k') eqn:E; simpl; [destruct (dec k k); congruence|rewrite E; exact IH].
  Qed.

  Lemma aget_aput_other k k' (v : V) m : k' <> k -> aget k' (aput k v m) = aget k' m.
  Proof.
    intro H. induction m as [|[k2 v2] r IH]; simpl.
    - destruct (dec k' k); congruence.
    - destruct (dec k k2); simpl.
      + subst. destruct (dec k' k2); congruence.
      + destruct (dec k' k2); [reflexivity|exact IH].
  Qed.

  Lemma aput_same k (v : V) m : aget k m = Some v -> aput k v m = m.
  Proof.
    induction m as [|[k2 v2] r IH]; simpl; [discriminate|].
    destruct (dec k k2); intro H; [congruence|]. rewrite IH by assumption. reflexivity.
  Qed.

  Lemma aget_In k (v : V) m : aget k m = Some v -> In (k, v) m.
  Proof.
    induction m as [|[k2 v2] r IH]; simpl; [discriminate|].
    destruct (dec k k2); intro H; [left; congruence|right; auto].
  Qed.

  Lemma aget_None k (m : list (K * V)) : aget k m = None -> ~ In k (map fst m).
  Proof.
    induction m as [|[k2 v2] r IH]; simpl; [tauto|].
    destruct (dec k k2); intro H; [discriminate|]. intros [E|E]; [congruence|]. apply IH; assumption.
  Qed.

  Lemma In_aget k (v : V) m : NoDup (map fst m) -> In (k, v) m -> aget k m = Some v.
  Proof.
    induction m as [|[k2 v2] r IH]; simpl; [tauto|]. intros ND [E|E].
    - inversion E; subst. destruct (dec k k); congruence.
    - inversion ND; subst. destruct (dec k k2); [|auto]. subst. exfalso. apply H1.
      change k2 with (fst (k2, v)). apply in_map. assumption.
  Qed.

  Lemma In_aput k (v : V) m x : In x (aput k v m) -> x = (k, v) \/ In x m.
  Proof.
    induction m as [|[k2 v2] r IH]; simpl.
    - intros [E|[]]; auto.
    - destruct (dec k k2); simpl; intros [E|E]; auto. destruct (IH E); auto.
  Qed.

  Lemma keys_aput k (v : V) m :
    map fst (aput k v m) = match aget k m with Some _ => map fst m | None => map fst m ++ [k] end.
  Proof.
    induction m as [|[k2 v2] r IH]; simpl; [reflexivity|].
    destruct (dec k k2); simpl; [congruence|]. rewrite IH. destruct (aget k r); reflexivity.
  Qed.

  Lemma NoDup_aput k (v : V) m : NoDup (map fst m) -> NoDup (map fst (aput k v m)).
  Proof.
    intro ND. rewrite keys_aput. destruct (aget k m) eqn:E; [assumption|].
    apply aget_None in E. apply NoDup_rev in ND. rewrite <- (rev_involutive (map fst m ++ [k])).
    apply NoDup_rev. rewrite rev_app_distr. simpl. constructor; [rewrite <- in_rev; assumption|assumption].
  Qed.

  Lemma Forall_aput (P : K * V -> Prop) k v m : Forall P m -> P (k, v) -> Forall P (aput k v m).
  Proof.
    intros HF HP. apply Forall_forall. intros x Hx. apply In_aput in Hx as [->|Hx]; [assumption|].
    rewrite Forall_forall in HF. auto.
  Qed.
End AMapLemmas.

(* ------------------------------------------------------------------ well-formed trees *)
(* what Go maps give for free: distinct keys; what add maintains: no empty key *)
Inductive wf : tree -> Prop :=
| wf_node it ch : NoDup (map fst ch) -> Forall (fun kc => fst kc <> [] /\ wf (snd kc)) ch -> wf (Node it ch).

Lemma wf_empty : wf empty.
Proof. constructor; constructor. Qed.

Lemma wf_child t k c : wf t -> find_child k (children t) = Some c -> k <> [] /\ wf c.
Proof.
  intros H E. inversion H as [it ch ND HF]; subst. simpl in E. apply aget_In in E.
  rewrite Forall_forall in HF. apply (HF (k, c)). assumption.
Qed.

Lemma wf_child_In t k c : wf t -> In (k, c) (children t) -> find_child k (children t) = Some c /\ k <> [] /\ wf c.
Proof.
  intros H E. inversion H as [it ch ND HF]; subst. simpl in *. split; [apply In_aget; assumption|].
  rewrite Forall_forall in HF. apply (HF (k, c)). assumption.
Qed.

Lemma wf_set_item t i : wf t -> wf (Node i (children t)).
Proof. intro H. inversion H; subst. constructor; assumption. Qed.

Lemma wf_set_child t k c : wf t -> k <> [] -> wf c -> wf (Node (item t) (set_child k c (children t))).
Proof.
  intros H Hk Hc. inversion H as [it ch ND HF]; subst. simpl. constructor.
  - apply NoDup_aput. assumption.
  - apply Forall_aput; [assumption|]. split; assumption.
Qed.

(* ------------------------------------------------------------------ addressing nodes by key paths *)
Fixpoint node_at (path : list seg) (t : tree) : option tree :=
  match path with
  | [] => Some t
  | k :: r => match find_child k (children t) with Some c => node_at r c | None => None end
  end.

Definition item_at (path : list seg) (t : tree) : option nat :=
  match node_at path t with Some n => item n | None => None end.

(* the item registered for a (well-shaped) pattern: "/" lives in the root node itself *)
Definition pat_item (pat : list seg) (t : tree) : option nat :=
  match pat with
  | [[]] => item t
  | _ => item_at pat t
  end.

Lemma item_at_cons k r t :
  item_at (k :: r) t = match find_child k (children t) with Some c => item_at r c | None => None end.
Proof. unfold item_at. simpl. destruct (find_child k (children t)); reflexivity. Qed.

Lemma item_at_nil t : item_at [] t = item t.
Proof. reflexivity. Qed.

Lemma item_at_empty path : item_at path empty = None.
Proof. destruct path; reflexivity. Qed.

Lemma item_at_children r c1 c2 : r <> [] -> children c1 = children c2 -> item_at r c1 = item_at r c2.
Proof. destruct r as [|k r]; [congruence|]. intros _ E. rewrite !item_at_cons, E. reflexivity. Qed.

Lemma pat_item_ne pat t : ne_segs pat -> pat_item pat t = item_at pat t.
Proof.
  intro H. destruct pat as [|s r]; [reflexivity|]. inversion H; subst.
  destruct s; [congruence|]. reflexivity.
Qed.

Lemma item_at_ne path t id : wf t -> item_at path t = Some id -> ne_segs path.
Proof.
  revert t. induction path as [|k r IH]; intros t Hw H; [constructor|].
  rewrite item_at_cons in H. destruct (find_child k (children t)) as [c|] eqn:E; [|discriminate].
  destruct (wf_child _ _ _ Hw E) as [Hk Hc]. constructor; [assumption|]. eapply IH; eassumption.
Qed.

(* ------------------------------------------------------------------ add *)
Lemma add_root id t :
  add [[]] id t = match item t with Some _ => (t, Some EDup) | None => (Node (Some id) (children t), None) end.
Proof. reflexivity. Qed.

Lemma add_last s id t : s <> [] ->
  add [s] id t =
  match find_child s (children t) with
  | Some c => match item c with
              | Some _ => (t, Some EDup)
              | None => (Node (item t) (set_child s (Node (Some id) (children c)) (children t)), None)
              end
  | None => (Node (item t) (set_child s (Node (Some id) []) (children t)), None)
  end.
Proof. destruct s; [congruence|reflexivity]. Qed.

Lemma add_cons s rest id t : s <> [] -> rest <> [] ->
  add (s :: rest) id t =
  let c := match find_child s (children t) with Some c => c | None => empty end in
  let (c', e) := add rest id c in (Node (item t) (set_child s c' (children t)), e).
Proof. destruct s; [congruence|]. destruct rest; [congruence|reflexivity]. Qed.

Lemma node_eta t : Node (item t) (children t) = t.
Proof. destruct t; reflexivity. Qed.

(* adding along a path of non-empty segments *)
Lemma add_ne pat : pat <> [] -> ne_segs pat -> forall t id, wf t ->
  match item_at pat t with
  | Some _ => add pat id t = (t, Some EDup)
  | None => exists t', add pat id t = (t', None) /\ wf t' /\ item_at pat t' = Some id /\
                       forall path, path <> pat -> item_at path t' = item_at path t
  end.
Proof.
  induction pat as [|s rest IH]; [congruence|]. intros _ Hne t id Hw.
  inversion Hne as [|? ? Hs Hrest]; subst.
  destruct rest as [|s2 rest2].
  - (* last token *)
    rewrite add_last by assumption. rewrite item_at_cons.
    destruct (find_child s (children t)) as [c|] eqn:Ec.
    + rewrite item_at_nil. destruct (item c) eqn:Ei; [reflexivity|].
      destruct (wf_child _ _ _ Hw Ec) as [_ Hc].
      eexists; split; [reflexivity|]. split; [|split].
      * apply wf_set_child; [assumption|assumption|]. apply wf_set_item. assumption.
      * rewrite item_at_cons. simpl. unfold find_child, set_child. rewrite aget_aput_same. reflexivity.
      * intros path Hp. destruct path as [|k r]; [reflexivity|]. rewrite !item_at_cons. simpl.
        destruct (seg_dec k s) as [->|Hk].
        -- unfold find_child, set_child. rewrite aget_aput_same. fold find_child. rewrite Ec.
           apply item_at_children; [intro; subst; congruence|reflexivity].
        -- unfold find_child, set_child. rewrite aget_aput_other by assumption. reflexivity.
    + eexists; split; [reflexivity|]. split; [|split].
      * apply wf_set_child; [assumption|assumption|]. constructor; constructor.
      * rewrite item_at_cons. simpl. unfold find_child, set_child. rewrite aget_aput_same. reflexivity.
      * intros path Hp. destruct path as [|k r]; [reflexivity|]. rewrite !item_at_cons. simpl.
        destruct (seg_dec k s) as [->|Hk].
        -- unfold find_child, set_child. rewrite aget_aput_same. fold find_child. rewrite Ec.
           destruct r; [congruence|reflexivity].
        -- unfold find_child, set_child. rewrite aget_aput_other by assumption. reflexivity.
  - (* inner token *)
    rewrite add_cons by (assumption || discriminate). rewrite item_at_cons.
    set (c := match find_child s (children t) with Some c => c | None => empty end).
    assert (Hc : wf c).
    { unfold c. destruct (find_child s (children t)) eqn:Ec; [apply (wf_child _ _ _ Hw Ec)|apply wf_empty]. }
    assert (Eit : forall r, match find_child s (children t) with Some c0 => item_at r c0 | None => None end = item_at r c).
    { intro r. unfold c. destruct (find_child s (children t)); [reflexivity|rewrite item_at_empty; reflexivity]. }
    rewrite Eit. specialize (IH ltac:(discriminate) Hrest c id Hc). cbv zeta.
    destruct (item_at (s2 :: rest2) c) eqn:Ei.
    + rewrite IH. destruct (find_child s (children t)) as [c0|] eqn:Ec.
      * unfold c. unfold set_child. rewrite aput_same by exact Ec. rewrite node_eta. reflexivity.
      * unfold c in Ei. rewrite item_at_empty in Ei. discriminate.
    + destruct IH as (c' & Ea & Hw' & Hi' & Hother). rewrite Ea.
      eexists; split; [reflexivity|]. split; [|split].
      * apply wf_set_child; assumption.
      * rewrite item_at_cons. simpl. unfold find_child, set_child. rewrite aget_aput_same. assumption.
      * intros path Hp. destruct path as [|k r]; [reflexivity|]. rewrite !item_at_cons. simpl.
        destruct (seg_dec k s) as [->|Hk].
        -- unfold find_child, set_child. rewrite aget_aput_same. fold find_child. rewrite Eit.
           apply Hother. congruence.
        -- unfold find_child, set_child. rewrite aget_aput_other by assumption. reflexivity.
Qed.

Lemma wf_segs_cases pat : wf_segs pat -> pat = [[]] \/ (pat <> [] /\ ne_segs pat).
Proof. exact (fun H => H). Qed.

Lemma ne_not_root pat : ne_segs pat -> pat <> [[]].
Proof. intros H E. subst. inversion H; congruence. Qed.

(* adding a well-shaped pattern: duplicate => error and the tree is unchanged; otherwise exactly
   this pattern's item is set *)
Lemma add_wf_spec pat id t : wf_segs pat -> wf t ->
  match pat_item pat t with
  | Some _ => add pat id t = (t, Some EDup)
  | None => exists t', add pat id t = (t', None) /\ wf t' /\ pat_item pat t' = Some id /\
                       forall pat', wf_segs pat' -> pat' <> pat -> pat_item pat' t' = pat_item pat' t
  end.
Proof.
  intros [->|[Hn Hne]] Hw.
  - cbn [pat_item]. rewrite add_root. destruct (item t) eqn:Ei; [reflexivity|].
    eexists; split; [reflexivity|]. split; [apply wf_set_item; assumption|]. split; [reflexivity|].
    intros pat' [->|[Hn' Hne']] Hd; [congruence|]. rewrite !pat_item_ne by assumption.
    apply item_at_children; [assumption|reflexivity].
  - rewrite pat_item_ne by assumption. pose proof (add_ne pat Hn Hne t id Hw) as H.
    destruct (item_at pat t); [assumption|]. destruct H as (t' & Ea & Hw' & Hi & Ho).
    exists t'. split; [assumption|]. split; [assumption|]. split; [rewrite pat_item_ne; assumption|].
    intros pat' [->|[Hn' Hne']] Hd.
    + cbn [pat_item]. rewrite <- !item_at_nil. apply Ho. intro; subst; congruence.
    + rewrite !pat_item_ne by assumption. apply Ho. assumption.
Qed.

(* ------------------------------------------------------------------ search *)
Lemma search_root t :
  search_all [[]] t = match item t with Some i => [(i, [])] | None => over_children [] here (children t) end.
Proof. simpl. destruct (item t); reflexivity. Qed.

Lemma search_last s t : s <> [] -> search_all [s] t = over_children s here (children t).
Proof. destruct s; [congruence|reflexivity]. Qed.

Lemma search_cons s rest t : rest <> [] -> search_all (s :: rest) t = over_children s (search_all rest) (children t).
Proof. destruct rest; [congruence|reflexivity]. Qed.

Lemma over_children_in s f ch r : In r (over_children s f ch) ->
  (exists c, is_par s = false /\ find_child s ch = Some c /\ In r (f c)) \/
  (exists k c r', In (k, c) ch /\ is_par k = true /\ In r' (f c) /\ r = bind (pname k) s r').
Proof.
  unfold over_children, or_else, find_lit. intro H.
  destruct (match (if is_par s then None else find_child s ch) with Some c => f c | None => [] end) as [|a l] eqn:E.
  - right. apply in_flat_map in H as ([k c] & Hin & H). simpl in H.
    destruct (is_par k) eqn:Ep; [|destruct H]. apply in_map_iff in H as (r' & <- & Hr').
    exists k, c, r'. auto.
  - left. destruct (is_par s); [discriminate|]. destruct (find_child s ch) as [c|]; [|discriminate].
    exists c. rewrite E. auto.
Qed.

Lemma over_children_lit s f ch c : is_par s = false -> find_child s ch = Some c -> f c <> [] ->
  over_children s f ch = f c.
Proof.
  intros Hp Hc Hf. unfold over_children, find_lit. rewrite Hp, Hc. destruct (f c); [congruence|reflexivity].
Qed.

Lemma over_children_par s f ch k c : In (k, c) ch -> is_par k = true -> f c <> [] -> over_children s f ch <> [].
Proof.
  intros Hin Hp Hf. unfold over_children, or_else.
  destruct (match find_lit s ch with Some c0 => f c0 | None => [] end); [|discriminate].
  destruct (f c) as [|r l] eqn:E; [congruence|]. intro H.
  assert (Hx : In (bind (pname k) s r) (flat_map (fun kc => if is_par (fst kc) then map (bind (pname (fst kc)) s) (f (snd kc)) else []) ch)).
  { apply in_flat_map. exists (k, c). split; [assumption|]. simpl. rewrite Hp, E. left. reflexivity. }
  rewrite H in Hx. destruct Hx.
Qed.

Lemma seg_eqb_refl s : seg_eqb s s = true.
Proof. apply seg_eqb_eq. reflexivity. Qed.

(* soundness, one level *)
Definition Qs (f : tree -> list hit) (rest : list seg) : Prop :=
  forall c, wf c -> forall id ps, In (id, ps) (f c) ->
    exists path, item_at path c = Some id /\ pmatch path rest = true /\ ps = binds path rest.

Lemma sound_step f s rest t : Qs f rest -> wf t -> forall id ps,
  In (id, ps) (over_children s f (children t)) ->
  exists path, item_at path t = Some id /\ pmatch path (s :: rest) = true /\ ps = binds path (s :: rest).
Proof.
  intros HQ Hw id ps H. apply over_children_in in H as [(c & Hp & Hc & Hin)|(k & c & [id' ps'] & Hin & Hp & Hr & E)].
  - destruct (wf_child _ _ _ Hw Hc) as [_ Hwc]. destruct (HQ c Hwc id ps Hin) as (path & Hi & Hm & Hb).
    exists (s :: path). rewrite item_at_cons, Hc. split; [assumption|]. simpl. rewrite Hp, seg_eqb_refl. simpl. auto.
  - destruct (wf_child_In _ _ _ Hw Hin) as (Hc & _ & Hwc). unfold bind in E. simpl in E. inversion E; subst.
    destruct (HQ c Hwc id' ps' Hr) as (path & Hi & Hm & Hb).
    exists (k :: path). rewrite item_at_cons, Hc. split; [assumption|]. simpl. rewrite Hp. simpl. split; [assumption|congruence].
Qed.

Lemma Qs_here : Qs here [].
Proof.
  intros c _ id ps H. unfold here in H. destruct (item c) eqn:E; [|destruct H]. destruct H as [H|[]]. inversion H; subst.
  exists []. rewrite item_at_nil. auto.
Qed.

Lemma search_sound_ne req : req <> [] -> ne_segs req -> Qs (search_all req) req.
Proof.
  induction req as [|s rest IH]; [congruence|]. intros _ Hne. inversion Hne; subst.
  intros t Hw id ps H. destruct rest as [|s2 rest2].
  - rewrite search_last in H by assumption. eapply sound_step; eauto using Qs_here.
  - rewrite search_cons in H by discriminate. eapply sound_step; eauto. apply IH; [discriminate|assumption].
Qed.

(* completeness, one level *)
Definition Qc (f : tree -> list hit) (rest : list seg) : Prop :=
  forall c path id, item_at path c = Some id -> pmatch path rest = true -> f c <> [].

Lemma pmatch_cons_inv path s rest : pmatch path (s :: rest) = true ->
  exists k path', path = k :: path' /\ (is_par k = true \/ (is_par k = false /\ k = s)) /\ pmatch path' rest = true.
Proof.
  destruct path as [|k path']; simpl; [discriminate|]. intro H. apply andb_true_iff in H as [H1 H2].
  exists k, path'. split; [reflexivity|]. split; [|assumption].
  destruct (is_par k); [left; reflexivity|right]. simpl in H1. apply seg_eqb_eq in H1. auto.
Qed.

Lemma pmatch_nil_inv path : pmatch path [] = true -> path = [].
Proof. destruct path; simpl; [reflexivity|discriminate]. Qed.

Lemma complete_step f s rest t : Qc f rest -> forall path id,
  item_at path t = Some id -> pmatch path (s :: rest) = true -> over_children s f (children t) <> [].
Proof.
  intros HQ path id Hi Hm. apply pmatch_cons_inv in Hm as (k & path' & -> & Hk & Hm).
  rewrite item_at_cons in Hi. destruct (find_child k (children t)) as [c|] eqn:Ec; [|discriminate].
  specialize (HQ c path' id Hi Hm). destruct Hk as [Hp|[Hp ->]].
  - eapply over_children_par; eauto. apply aget_In in Ec. exact Ec.
  - rewrite (over_children_lit _ _ _ c); assumption.
Qed.

Lemma Qc_here : Qc here [].
Proof.
  intros c path id Hi Hm. apply pmatch_nil_inv in Hm. subst. rewrite item_at_nil in Hi. unfold here. rewrite Hi. discriminate.
Qed.

Lemma search_complete_ne req : req <> [] -> ne_segs req -> Qc (search_all req) req.
Proof.
  induction req as [|s rest IH]; [congruence|]. intros _ Hne. inversion Hne; subst.
  intros t path id Hi Hm. destruct rest as [|s2 rest2].
  - rewrite search_last by assumption. eapply complete_step; eauto using Qc_here.
  - rewrite search_cons by discriminate. eapply complete_step; eauto. apply IH; [discriminate|assumption].
Qed.

(* a literal-only pattern wins, one level *)
Definition Ql (f : tree -> list hit) (rest : list seg) : Prop :=
  forall c path id, all_lit path = true -> item_at path c = Some id -> pmatch path rest = true -> f c = [(id, [])].

Lemma literal_step f s rest t : Ql f rest -> forall path id,
  all_lit path = true -> item_at path t = Some id -> pmatch path (s :: rest) = true ->
  over_children s f (children t) = [(id, [])].
Proof.
  intros HQ path id Hl Hi Hm. apply pmatch_cons_inv in Hm as (k & path' & -> & Hk & Hm).
  simpl in Hl. apply andb_true_iff in Hl as [Hl1 Hl2]. apply negb_true_iff in Hl1.
  destruct Hk as [Hp|[Hp ->]]; [congruence|].
  rewrite item_at_cons in Hi. destruct (find_child s (children t)) as [c|] eqn:Ec; [|discriminate].
  specialize (HQ c path' id Hl2 Hi Hm). rewrite (over_children_lit _ _ _ c); try assumption. rewrite HQ. discriminate.
Qed.

Lemma Ql_here : Ql here [].
Proof.
  intros c path id _ Hi Hm. apply pmatch_nil_inv in Hm. subst. rewrite item_at_nil in Hi. unfold here. rewrite Hi. reflexivity.
Qed.

Lemma search_literal_ne req : req <> [] -> ne_segs req -> Ql (search_all req) req.
Proof.
  induction req as [|s rest IH]; [congruence|]. intros _ Hne. inversion Hne; subst.
  intros t path id Hl Hi Hm. destruct rest as [|s2 rest2].
  - rewrite search_last by assumption. eapply literal_step; eauto using Ql_here.
  - rewrite search_cons by discriminate. eapply literal_step; eauto. apply IH; [discriminate|assumption].
Qed.

(* ---- the three facts for well-shaped (cleaned) patterns and requests ---- *)
Lemma pmatch_length pat req : pmatch pat req = true -> List.length pat = List.length req.
Proof.
  revert req. induction pat as [|k r IH]; intros [|s q]; simpl; try discriminate; [reflexivity|].
  intro H. apply andb_true_iff in H as [_ H]. f_equal. auto.
Qed.

Lemma search_sound_wf t req id ps : wf t -> wf_segs req -> In (id, ps) (search_all req t) ->
  exists pat, wf_segs pat /\ pat_item pat t = Some id /\ pmatch pat req = true /\ ps = binds pat req.
Proof.
  intros Hw [->|[Hn Hne]] H.
  - rewrite search_root in H. destruct (item t) eqn:Ei.
    + destruct H as [H|[]]. inversion H; subst. exists [[]]. split; [left; reflexivity|]. cbn [pat_item]. auto.
    + destruct (sound_step here [] [] t Qs_here Hw id ps H) as (path & Hi & Hm & Hb).
      exists path. pose proof (item_at_ne _ _ _ Hw Hi) as Hp.
      split; [right; split; [intro; subst; discriminate|assumption]|]. rewrite pat_item_ne by assumption. auto.
  - destruct (search_sound_ne req Hn Hne t Hw id ps H) as (path & Hi & Hm & Hb).
    exists path. pose proof (item_at_ne _ _ _ Hw Hi) as Hp.
    split; [right; split; [|assumption]|].
    + intro; subst. apply pmatch_length in Hm. destruct req; [congruence|discriminate].
    + rewrite pat_item_ne by assumption. auto.
Qed.

Lemma pmatch_root_inv pat : pmatch pat [[]] = true -> exists k, pat = [k] /\ (is_par k = true \/ k = []).
Proof.
  intro H. apply pmatch_cons_inv in H as (k & path' & -> & Hk & Hm). apply pmatch_nil_inv in Hm. subst.
  exists k. split; [reflexivity|]. destruct Hk as [?|[_ ?]]; auto.
Qed.

Lemma pmatch_rootpat_inv req : pmatch [[]] req = true -> req = [[]].
Proof.
  destruct req as [|s q]; simpl; [discriminate|]. intro H. apply andb_true_iff in H as [H1 H2].
  destruct q; [|discriminate]. simpl in H1. apply seg_eqb_eq in H1. subst. reflexivity.
Qed.

Lemma search_complete_wf t req pat id : wf_segs req -> wf_segs pat ->
  pat_item pat t = Some id -> pmatch pat req = true -> search_all req t <> [].
Proof.
  intros [->|[Hn Hne]] Hp Hi Hm.
  - rewrite search_root. destruct (item t) eqn:Ei; [discriminate|].
    destruct Hp as [->|[Hpn Hpne]]; [cbn [pat_item] in Hi; congruence|].
    rewrite pat_item_ne in Hi by assumption. eapply complete_step; eauto using Qc_here.
  - destruct Hp as [->|[Hpn Hpne]].
    + exfalso. apply pmatch_rootpat_inv in Hm. subst. inversion Hne; congruence.
    + rewrite pat_item_ne in Hi by assumption. eapply search_complete_ne; eauto.
Qed.

Lemma search_literal_wf t req pat id : wf_segs req -> wf_segs pat -> all_lit pat = true ->
  pat_item pat t = Some id -> pmatch pat req = true -> search_all req t = [(id, [])].
Proof.
  intros [->|[Hn Hne]] Hp Hl Hi Hm.
  - rewrite search_root. destruct Hp as [->|[Hpn Hpne]].
    + cbn [pat_item] in Hi. rewrite Hi. reflexivity.
    + exfalso. apply pmatch_root_inv in Hm as (k & -> & [Hk| ->]).
      * simpl in Hl. rewrite Hk in Hl. discriminate.
      * inversion Hpne; congruence.
  - destruct Hp as [->|[Hpn Hpne]].
    + exfalso. apply pmatch_rootpat_inv in Hm. subst. inversion Hne; congruence.
    + rewrite pat_item_ne in Hi by assumption. eapply search_literal_ne; eauto.
Qed.
