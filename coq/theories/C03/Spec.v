(* C03 Spec: routing as a segment matcher over the set of registered (method, pattern) routes.
   A pattern / a request is the segment list of its cleaned path ("/" = the single empty segment). *)
From Coq Require Import String.
From God Require Import Base.Prelude C03.Path.
Local Open Scope N_scope.

(* a pattern segment is a parameter iff it starts with ':'; its name is the rest *)
Definition is_par (k : seg) : bool := match k with c :: _ => c =? colon | [] => false end.
Definition pname (k : seg) : seg := tl k.

(* literal segments equal, a ':name' segment matches exactly one (any) segment *)
Fixpoint pmatch (pat req : list seg) : bool :=
  match pat, req with
  | [], [] => true
  | k :: pat', s :: req' => (is_par k || seg_eqb k s) && pmatch pat' req'
  | _, _ => false
  end.

(* ':name' |-> corresponding segment, outermost first; the effective map is var_lookup (first wins) *)
Definition params := list (seg * seg).
Fixpoint binds (pat req : list seg) : params :=
  match pat, req with
  | k :: pat', s :: req' => if is_par k then (pname k, s) :: binds pat' req' else binds pat' req'
  | _, _ => []
  end.
Definition var_lookup (name : seg) (ps : params) : option seg := alookup seg_eqb name ps.

Definition all_lit (pat : list seg) : bool := forallb (fun k => negb (is_par k)) pat.

(* the supported methods *)
Definition methods : list string :=
  ["DELETE"; "GET"; "HEAD"; "OPTIONS"; "PATCH"; "POST"; "PUT"]%string.
Definition valid_method (m : string) : bool := existsb (String.eqb m) methods.

Inductive err := EMethod | EPath | EDup | EDupSlash | ENotFromRoot | EInvalidState.

(* registered routes: (method, pattern segments, handler id) *)
Definition route := (string * list seg * nat)%type.
Definition r_method (r : route) := fst (fst r).
Definition r_pat (r : route) := snd (fst r).
Definition r_id (r : route) := snd r.

Definition pattern_of (p : list N) : list seg :=
  match req_segs (clean p) with Some s => s | None => [] end.

Definition pat_eqb : list seg -> list seg -> bool := list_eqb seg_eqb.

(* a registration (method, raw path, id) is rejected iff ... *)
Definition reg := (string * list N * nat)%type.
Definition reject (acc : list route) (m : string) (p : list N) : option err :=
  if negb (valid_method m) then Some EMethod
  else if negb (rooted p) then Some EPath
  else if existsb (fun r => String.eqb m (r_method r) && pat_eqb (pattern_of p) (r_pat r)) acc then Some EDup
  else None.

Definition sreg (acc : list route) (r : reg) : list route :=
  match reject acc (fst (fst r)) (snd (fst r)) with
  | None => acc ++ [(fst (fst r), pattern_of (snd (fst r)), snd r)]
  | Some _ => acc
  end.

Definition registered (regs : list reg) : list route := fold_left sreg regs [].

(* the routes of method m matching the request q *)
Definition matches (acc : list route) (m : string) (q : list seg) : list route :=
  filter (fun r => String.eqb m (r_method r) && pmatch (r_pat r) q) acc.

(* registration of a whole route list at start-up (engine.bindRoutes): routes are registered in
   order, the first rejected one aborts with its error *)
Fixpoint sbind (acc : list route) (rs : list reg) : list route * option err :=
  match rs with
  | [] => (acc, None)
  | r :: rest =>
      match reject acc (fst (fst r)) (snd (fst r)) with
      | Some e => (acc, Some e)
      | None => sbind (sreg acc r) rest
      end
  end.

(* route groups as given to Server.AddRoutes(rs, opts...): the WithPrefix groups among the options
   in the order they are applied (each one replaces every path by path.Join(group, path); the other
   options - WithTimeout, WithMaxBytes, WithPriority, WithSignature, WithMiddlewares - do not touch
   method or path), and the caller's routes.  The same route list may be mounted several times. *)
Definition group := (list (list N) * list reg)%type.
Definition with_prefix (g : list N) (rs : list reg) : list reg :=
  map (fun r => (fst (fst r), join2 g (snd (fst r)), snd r)) rs.
Definition engine_routes (gs : list group) : list reg :=
  flat_map (fun g => fold_left (fun rs pre => with_prefix pre rs) (fst g) (snd g)) gs.

(* what the options ask for, whatever the position of WithRouter: the LAST not-found option decides
   whether a custom not-found handler answers unmatched requests; the last of WithNotAllowedHandler /
   WithCors decides who answers method mismatches; WithCors wraps the router *)
Inductive wopt := WNotFound (custom : bool) | WNotAllowed | WCors | WRouter.
Definition want_nf (opts : list wopt) : bool :=
  fold_left (fun b o => match o with WNotFound c => c | _ => b end) opts false.
Definition want_na (opts : list wopt) : nat :=
  fold_left (fun n o => match o with WNotAllowed => 1 | WCors => 2 | _ => n end)%nat opts 0%nat.
Definition want_cors (opts : list wopt) : bool :=
  existsb (fun o => match o with WCors => true | _ => false end) opts.
