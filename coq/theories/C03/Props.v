(* C03 Props: routing through patRouter (cleaned paths) is sound and complete w.r.t. the registered
   patterns.  regs : any list of registrations (method, raw path, handler id); build regs = the
   router's method table after them; registered regs = the Spec's registered set (accepted
   registrations as (method, segments of the cleaned pattern, id)); route_req = ServeHTTP's outcome,
   Hit rs listing the (handler, variables) results over all Go map iteration orders. *)
From Coq Require Import String.
From God Require Import Base.Prelude C03.Path C03.Spec C03.Model C03.Proofs C03.Table C03.Determ C03.Engine.
Local Open Scope N_scope.

(* a handler that can run belongs to a registered pattern of the request's method matching the
   cleaned path segment by segment, and the variables are that pattern's bindings *)
Theorem c03_sound : forall regs m p rs id ps,
  route_req (build regs) m p = Hit rs -> In (id, ps) rs ->
  exists q pat, req_segs (clean p) = Some q /\ In (m, pat, id) (registered regs) /\
                pmatch pat q = true /\ ps = binds pat q.
Proof. exact sound. Qed.
Print Assumptions c03_sound.

(* whenever some registered pattern of the method matches, a handler runs *)
Theorem c03_complete : forall regs m p q pat id,
  req_segs (clean p) = Some q -> In (m, pat, id) (registered regs) -> pmatch pat q = true ->
  exists rs, route_req (build regs) m p = Hit rs /\ rs <> [].
Proof. exact complete. Qed.
Print Assumptions c03_complete.

(* a matching pattern made only of literal segments always wins (in every iteration order) *)
Theorem c03_literal_wins : forall regs m p q pat id,
  req_segs (clean p) = Some q -> In (m, pat, id) (registered regs) -> pmatch pat q = true ->
  all_lit pat = true -> route_req (build regs) m p = Hit [(id, [])].
Proof. exact literal_wins. Qed.
Print Assumptions c03_literal_wins.

(* no pattern of the request method matches: 405 with exactly the other methods having a matching
   pattern (each once), or the not-found handler when there is none *)
Theorem c03_partition : forall regs m p,
  ~ has_match (registered regs) m p ->
  (route_req (build regs) m p = NotFound /\ forall m', m' <> m -> ~ has_match (registered regs) m' p) \/
  (exists ms, route_req (build regs) m p = NotAllowed ms /\ ms <> [] /\ NoDup ms /\
              forall m', In m' ms <-> (m' <> m /\ has_match (registered regs) m' p)).
Proof. exact partition. Qed.
Print Assumptions c03_partition.

(* Handle's verdict is the Spec's `reject`; a rejected registration leaves the table unchanged;
   unsupported method, missing leading '/', duplicate cleaned pattern are rejected, anything else
   is accepted and becomes registered *)
Theorem c03_rejects : forall regs m p id,
  snd (handle (build regs) m p id) = reject (registered regs) m p /\
  (reject (registered regs) m p <> None -> fst (handle (build regs) m p id) = build regs) /\
  (valid_method m = false -> reject (registered regs) m p = Some EMethod) /\
  (valid_method m = true -> rooted p = false -> reject (registered regs) m p = Some EPath) /\
  (valid_method m = true -> rooted p = true ->
     (exists id', In (m, pattern_of p, id') (registered regs)) -> reject (registered regs) m p = Some EDup) /\
  (valid_method m = true -> rooted p = true ->
     (forall id', ~ In (m, pattern_of p, id') (registered regs)) ->
     reject (registered regs) m p = None /\
     registered (regs ++ [(m, p, id)]) = registered regs ++ [(m, pattern_of p, id)]).
Proof. exact rejects. Qed.
Print Assumptions c03_rejects.

(* at most one ':param' alternative below every shared prefix => the answer does not depend on the
   map iteration order *)
Theorem c03_deterministic_when_unambiguous : forall regs m p rs,
  unambiguous (registered regs) -> route_req (build regs) m p = Hit rs -> exists r, rs = [r].
Proof. exact deterministic. Qed.
Print Assumptions c03_deterministic_when_unambiguous.

(* parameter binding: the variable `name` holds the request segment standing at the FIRST (outermost)
   position where the pattern has ':name' (addParam is called innermost first, the outermost write
   wins); names not in the pattern are unbound *)
Theorem c03_param_binding : forall regs m p rs id ps,
  route_req (build regs) m p = Hit rs -> In (id, ps) rs ->
  exists q pat, req_segs (clean p) = Some q /\ In (m, pat, id) (registered regs) /\ pmatch pat q = true /\
    (forall name i, nth_error pat i = Some (colon :: name) ->
                    (forall j, (j < i)%nat -> nth_error pat j <> Some (colon :: name)) ->
                    var_lookup name ps = nth_error q i /\ nth_error q i <> None) /\
    (forall name, ~ In (colon :: name) pat -> var_lookup name ps = None).
Proof. exact param_binding. Qed.
Print Assumptions c03_param_binding.

(* every cleaned rooted path is "/" (one empty segment) or a list of non-empty segments; a path
   that is not rooted stays unrooted and matches nothing *)
Theorem c03_clean_shape : forall p,
  (rooted p = true -> exists q, req_segs (clean p) = Some q /\ wf_segs q) /\
  (rooted p = false -> req_segs (clean p) = None /\ forall regs m, route_req (build regs) m p = NotFound).
Proof. exact clean_shape. Qed.
Print Assumptions c03_clean_shape.

(* ---- registration through api.engine / api.Server (AddRoutes, WithPrefix, bindRoutes) ---- *)
(* engine_routes gs = the (method, path, id) list the application added, paths of WithPrefix groups
   replaced by path.Join(group, path).  Binding them on a fresh router is calling Handle on exactly
   these pairs, in order, up to the first rejection: the resulting table is `build` of the accepted
   prefix (so every theorem above applies to it verbatim), the error is the Spec's verdict on the
   first rejected route, which is the verdict Handle gives on that same (method, path). *)
Theorem c03_engine_transparent : forall gs,
  let rs := engine_routes gs in
  exists k, (k <= List.length rs)%nat /\
    fst (engine_register gs) = build (firstn k rs) /\
    snd (engine_register gs) = snd (sbind [] rs) /\
    fst (sbind [] rs) = registered (firstn k rs) /\
    (snd (engine_register gs) = None -> k = List.length rs /\ fst (engine_register gs) = build rs) /\
    (forall e, snd (engine_register gs) = Some e ->
       exists m p id, nth_error rs k = Some (m, p, id) /\
         reject (registered (firstn k rs)) m p = Some e /\
         snd (handle (build (firstn k rs)) m p id) = Some e).
Proof. exact engine_transparent. Qed.
Print Assumptions c03_engine_transparent.

(* error-free start-up: the router is build (all routes) and every route is registered under the
   segments of its cleaned (prefix-joined) path *)
Theorem c03_engine_accepts : forall gs, snd (engine_register gs) = None ->
  fst (engine_register gs) = build (engine_routes gs) /\
  registered (engine_routes gs) = map to_route (engine_routes gs).
Proof. exact engine_accepts. Qed.
Print Assumptions c03_engine_accepts.

(* an unsupported method, a relative or empty (prefix-joined) path, or a duplicate cleaned pattern
   anywhere in the added routes makes the start-up fail *)
Theorem c03_engine_rejects : forall gs,
  (forall m p id, In (m, p, id) (engine_routes gs) ->
     valid_method m = false \/ rooted p = false -> snd (engine_register gs) <> None) /\
  (forall m p1 id1 p2 id2 l1 l2 l3,
     engine_routes gs = l1 ++ (m, p1, id1) :: l2 ++ (m, p2, id2) :: l3 ->
     rooted p1 = true -> rooted p2 = true -> pattern_of p1 = pattern_of p2 -> snd (engine_register gs) <> None).
Proof. intro gs. split; [apply engine_rejects_bad|apply engine_rejects_dup]. Qed.
Print Assumptions c03_engine_rejects.

(* ---- histories interleaving registrations and requests ---- *)
(* for any interleaving, the answer to a request is route_req on build (the registrations attempted
   so far) - the table a router registered up-front would have - and a registration is judged by
   the Spec's `reject` on the routes registered so far; nothing else of the past matters *)
Theorem c03_history_independent : forall ops,
  run_ops [] ops = hist_spec [] ops /\
  (forall pre m p id, snd (handle (build pre) m p id) = reject (registered pre) m p).
Proof. intro ops. split; [apply history_independent|apply hist_verdict]. Qed.
Print Assumptions c03_history_independent.

(* ---- path variables vs. everything else the chain puts into the request context ---- *)
(* the router attaches the bound variables under pathvar's own typed key; jwt claims (WithJwt /
   WithJwtTransition) are attached afterwards under plain string keys.  For ANY claim names and
   values - names equal to a ':name', to "pathVars", values that are themselves map[string]string -
   pathvar.Vars in the handler is exactly what the router bound. *)
Theorem c03_vars_survive_context : forall ps claims c,
  vars_of (add_claims claims (serve_ctx ps c)) = match ps with [] => vars_of c | _ => Some ps end.
Proof. exact vars_survive. Qed.
Print Assumptions c03_vars_survive_context.

(* ---- CORS enabled (WithCors / WithCustomCors) ---- *)
(* only OPTIONS requests are preflights (answered 204 by the cors layer); every other request is
   routed exactly as without CORS, whatever headers it carries (the headers are not an input of
   cors_serve): a handler runs iff a registered pattern of the method matches *)
Theorem c03_cors_transparent : forall regs m p,
  (m <> "OPTIONS"%string ->
     cors_serve (build regs) m p = CRouted (route_req (build regs) m p) /\
     ((exists rs, cors_serve (build regs) m p = CRouted (Hit rs)) <-> has_match (registered regs) m p)) /\
  cors_serve (build regs) "OPTIONS" p = CPreflight.
Proof. intros regs m p. split; [apply cors_transparent|apply cors_preflight]. Qed.
Print Assumptions c03_cors_transparent.

(* ---- NewServer options: custom not-found / not-allowed handlers, WithCors, WithRouter ---- *)
(* with WithRouter first (any number of times) or absent, the server answers unmatched requests as
   the options ask: the custom not-found handler iff the last not-found option is a custom one, the
   custom / cors not-allowed handler iff the last such option says so, OPTIONS preflights iff WithCors *)
Theorem c03_server_options : forall k rest, ~ In SRouter rest ->
  server_conf (repeat SRouter k ++ rest) = want_conf (repeat SRouter k ++ rest).
Proof. exact server_conf_router_first. Qed.
Print Assumptions c03_server_options.

(* FINDING: for arbitrary option orders the clause is false of the code - WithRouter after a handler
   option discards it (the custom handler is never invoked) *)
Theorem c03_server_options_refuted : exists opts, server_conf opts <> want_conf opts /\
  server_serve (server_conf opts) [] "GET" [47%N] = SDefault404 /\
  server_serve (want_conf opts) [] "GET" [47%N] = SCustomNotFound.
Proof. exists [SNotFound true; SRouter]. vm_compute. repeat split; [discriminate|..]; reflexivity. Qed.
Print Assumptions c03_server_options_refuted.

(* ---- non-vacuity ---- *)
Definition b (s : string) : list N := map (fun a => N.of_nat (Ascii.nat_of_ascii a)) (list_ascii_of_string s).
Definition ex_regs : list reg :=
  [("GET", b "/a/b/c", 0); ("GET", b "/a/:x/d", 1); ("GET", b "/:y/b/d", 2); ("POST", b "/a//b/./c/", 3);
   ("GET", b "/a/b/../b/c", 4); ("GET", b "a", 5); ("get", b "/a", 6); ("PUT", b "/", 7); ("DELETE", b "/:x/:x", 8);
   ("GET", b "/:z/b/d", 9)]%string%nat.

(* backtracking: /a/b/d enters the literal branches a, b, fails on d, backs up to a's ':x' child;
   /q/b/d has two ':param' alternatives at the root: either map order is possible *)
Example c03_backtracks :
  route_req (build ex_regs) "GET" (b "/a/b/d") = Hit [(1, [(b "x", b "b")])]%nat /\
  route_req (build ex_regs) "GET" (b "/q/b/d") = Hit [(2, [(b "y", b "q")]); (9, [(b "z", b "q")])]%nat.
Proof. vm_compute. split; reflexivity. Qed.

Example c03_examples :
  map (fun r => snd (handle (build (firstn (snd r) ex_regs)) (fst (fst (fst r))) (snd (fst (fst r))) (snd (fst r))))
      [("GET", b "/a/b/../b/c", 4, 4); ("GET", b "a", 5, 5); ("get", b "/a", 6, 6); ("PUT", b "/", 7, 7)]%string%nat
    = [Some EDup; Some EPath; Some EMethod; None] /\
  route_req (build ex_regs) "GET" (b "//a/./b/c/") = Hit [(0, [])]%nat /\
  route_req (build ex_regs) "HEAD" (b "/a/b/c") = NotAllowed ["GET"; "POST"]%string /\
  route_req (build ex_regs) "GET" (b "/") = NotAllowed ["PUT"]%string /\
  route_req (build ex_regs) "GET" (b "/q") = NotFound /\
  route_req (build ex_regs) "DELETE" (b "/u/v") = Hit [(8, [(b "x", b "u"); (b "x", b "v")])]%nat /\
  var_lookup (b "x") [(b "x", b "u"); (b "x", b "v")] = Some (b "u").
Proof. vm_compute. repeat split; reflexivity. Qed.

Example c03_unambiguous_satisfiable : unambiguous (registered (firstn 3 ex_regs)).
Proof.
  intros m pat1 id1 pat2 id2 pre k1 k2 suf1 suf2 H1 H2 E1 E2 P1 P2.
  vm_compute in H1, H2.
  destruct H1 as [H1|[H1|[H1|[]]]]; destruct H2 as [H2|[H2|[H2|[]]]];
  injection H1 as ? Hp1 ?; injection H2 as ? Hp2 ?; rewrite <- Hp1 in E1; rewrite <- Hp2 in E2; clear - E1 E2 P1 P2;
  repeat (destruct pre as [|s pre]; cbn [app] in E1, E2; try discriminate;
          injection E1 as ? E1; injection E2 as ? E2; subst;
          try (vm_compute in P1; discriminate); try (vm_compute in P2; discriminate); try reflexivity).
Qed.

Example c03_engine_examples :
  let g1 : group := ([b "/api"], [("GET", b "a/:id", 0); ("GET", b "/b/", 1); ("POST", b "", 2)]%string%nat) in
  let g2 : group := ([], [("GET", b "/c", 3)]%string%nat) in
  map (fun r => snd (fst r)) (engine_routes [g1; g2]) = [b "/api/a/:id"; b "/api/b"; b "/api"; b "/c"] /\
  snd (engine_register [g1; g2]) = None /\
  route_req (fst (engine_register [g1; g2])) "GET" (b "/api/a/7") = Hit [(0, [(b "id", b "7")])]%nat /\
  snd (engine_register [g2; ([], [("GET", b "a/b", 4)]%string%nat)]) = Some EPath /\
  snd (engine_register [([b "api"], [("GET", b "/x", 5)]%string%nat)]) = Some EPath /\
  snd (engine_register [([[]], [("GET", b "", 6)]%string%nat)]) = Some EPath /\
  snd (engine_register [g2; ([b "/"], [("GET", b "c/.", 7)]%string%nat)]) = Some EDup.
Proof. vm_compute. repeat split; reflexivity. Qed.

(* a param route answers, a literal route for the same path is registered afterwards and wins from
   then on; a duplicate after serving is rejected; percent signs etc. are ordinary bytes *)
Example c03_history_example :
  run_ops [] [OReg "GET" (b "/a/:x") 0; OReq "GET" (b "/a/%41"); OReq "POST" (b "/a/%41");
              OReg "GET" (b "/a/%41") 3; OReq "GET" (b "/a/%41"); OReg "GET" (b "/a/./:x") 5;
              OReg "POST" (b "/a/:y") 6; OReq "POST" (b "/a/a%2Fb")]%string%nat =
  [HErr None; HOut (Hit [(0, [(b "x", b "%41")])]); HOut (NotAllowed ["GET"]%string);
   HErr None; HOut (Hit [(3, [])]); HErr (Some EDup);
   HErr None; HOut (Hit [(6, [(b "y", b "a%2Fb")])])]%nat.
Proof. vm_compute. reflexivity. Qed.

(* one caller slice mounted twice under different prefixes (and once with two nested prefixes): each
   mount registers prefix+path for the same handlers, the slice itself is only read *)
Example c03_engine_multi_mount :
  let rs : list reg := [("GET", b "/a/:id", 0); ("POST", b "b", 1)]%string%nat in
  let gs : list group := [([b "/v1"], rs); ([b "/v2"; b "/x"], rs)] in
  map (fun r => snd (fst r)) (engine_routes gs) = [b "/v1/a/:id"; b "/v1/b"; b "/x/v2/a/:id"; b "/x/v2/b"] /\
  snd (engine_register gs) = None /\
  route_req (fst (engine_register gs)) "GET" (b "/v1/a/7") = Hit [(0, [(b "id", b "7")])]%nat /\
  route_req (fst (engine_register gs)) "GET" (b "/x/v2/a/7") = Hit [(0, [(b "id", b "7")])]%nat /\
  route_req (fst (engine_register gs)) "POST" (b "/x/v2/b") = Hit [(1, [])]%nat /\
  route_req (fst (engine_register gs)) "GET" (b "/v2/v1/a/7") = NotFound /\
  route_req (fst (engine_register gs)) "GET" (b "/a/7") = NotFound.
Proof. vm_compute. repeat split; reflexivity. Qed.

Example c03_claims_example :
  let ps : params := [(b "x", b "7")] in
  vars_of (add_claims [(b "x", VOther 1); (b "pathVars", VParams [(b "x", b "evil")]); (b "pathVars", VOther 2)]%nat
                      (serve_ctx ps [])) = Some ps /\
  (* what a string-keyed variable map would do instead: the claim wins *)
  ctx_value (KStr (b "pathVars")) (add_claims [(b "pathVars", VOther 2)]%nat [(KStr (b "pathVars"), VParams ps)]) = Some (VOther 2%nat).
Proof. vm_compute. split; reflexivity. Qed.
