(* C03 Link: the definitions regenerated from api/router/patrouter.go and lib/search/tree.go are the
   ones the Spec / Model use; executable checkers of Exec.v are sound for the Spec's relations. *)
From Coq Require Import String.
From God Require Import Base.Prelude C03.Path C03.Spec C03.Model C03.Proofs C03.Table C03.Exec.
From GodGen Require C03_Gen.
Local Open Scope N_scope.

(* validMethod (patrouter.go:88-93) accepts exactly the Spec's supported methods *)
Lemma link_validMethod : forall m, C03_Gen.validMethod m = valid_method m.
Proof.
  intro m. unfold C03_Gen.validMethod, valid_method, methods, GenEnv.go_eqb. cbn [existsb].
  unfold GenEnv.http_MethodDelete, GenEnv.http_MethodGet, GenEnv.http_MethodHead, GenEnv.http_MethodOptions,
    GenEnv.http_MethodPatch, GenEnv.http_MethodPost, GenEnv.http_MethodPut.
  rewrite orb_false_r. rewrite <- !orb_assoc. reflexivity.
Qed.

Lemma link_allowHeader : C03_Gen.allowHeader = "Allow"%string.
Proof. reflexivity. Qed.

(* the driver splits the Allow header at this separator *)
Lemma link_allowSeparator : C03_Gen.allowMethodSeparator = ", "%string.
Proof. reflexivity. Qed.

Lemma link_slash : C03_Gen.slash = Z.of_N slash.
Proof. reflexivity. Qed.

Lemma link_colon : C03_Gen.colon = Z.of_N colon.
Proof. reflexivity. Qed.

(* call skeletons: Handle = validMethod, '/' test, path.Clean, Tree.Add (fresh tree stored first);
   ServeHTTP = path.Clean, Search in the method's tree, WithVars, handler | methodsAllowed ->
   not-found | Allow + 405; methodsAllowed searches every other tree; next / add as transcribed *)
Lemma link_handle_calls : C03_Gen.handle_calls =
  ["validMethod"; "return"; "len"; "return"; "path.Clean"; "tree.Add"; "return"; "search.NewTree"; "tree.Add"; "return"]%string.
Proof. reflexivity. Qed.

Lemma link_serve_calls : C03_Gen.serve_calls =
  ["path.Clean"; "tree.Search"; "len"; "pathvar.WithVars"; "<*ast.TypeAssertExpr>.ServeHTTP"; "return";
   "pr.methodsAllowed"; "pr.handleNotFound"; "return"; "pr.notAllowed.ServeHTTP"; "w.Header().Set"; "w.WriteHeader"]%string.
Proof. reflexivity. Qed.

Lemma link_allowed_calls : C03_Gen.allowed_calls =
  ["tree.Search"; "append"; "len"; "strings.Join"; "return"; "return"]%string.
Proof. reflexivity. Qed.

Lemma link_next_calls : C03_Gen.next_calls =
  ["len"; "return"; "match"; "t.next"; "return"; "addParam"; "return"; "n.forEach"; "return";
   "match"; "addParam"; "return"; "return"; "n.forEach"; "return"]%string.
Proof. reflexivity. Qed.

Lemma link_add_calls : C03_Gen.add_calls =
  ["len"; "return"; "return"; "return"; "n.getChildren"; "add"; "return"; "return"; "newNode"; "add"; "return";
   "n.getChildren"; "return"; "newNode"; "return"]%string.
Proof. reflexivity. Qed.

Lemma link_tree_add_calls : C03_Gen.tree_add_calls =
  ["len"; "return"; "return"; "add"; "duplicatedItem"; "return"; "duplicatedSlash"; "return"; "return"]%string.
Proof. reflexivity. Qed.

Lemma link_tree_search_calls : C03_Gen.tree_search_calls = ["len"; "return"; "t.next"; "return"]%string.
Proof. reflexivity. Qed.

Lemma link_foreach_calls : C03_Gen.foreach_calls = ["fn"; "return"; "return"]%string.
Proof. reflexivity. Qed.

(* ---- soundness of the executable forms used by spec_ok ---- *)
Lemma wf_segsb_sound l : wf_segsb l = true -> wf_segs l.
Proof.
  intro H. destruct l as [|s r]; [discriminate|].
  assert (Hall : forallb (fun s => negb (is_nil s)) (s :: r) = true -> wf_segs (s :: r)).
  { intro Hf. right. split; [discriminate|]. unfold ne_segs. apply Forall_forall. intros x Hx.
    rewrite forallb_forall in Hf. specialize (Hf x Hx). destruct x; [discriminate|discriminate]. }
  destruct s as [|c s']; [|exact (Hall H)]. destruct r; [left; reflexivity|exact (Hall H)].
Qed.

Lemma matches_In acc m q r : In r (matches acc m q) <-> In r acc /\ r_method r = m /\ pmatch (r_pat r) q = true.
Proof.
  unfold matches. rewrite filter_In. split.
  - intros [H1 H2]. apply andb_true_iff in H2 as [H2 H3]. apply String.eqb_eq in H2. auto.
  - intros (H1 & H2 & H3). split; [assumption|]. rewrite H3, andb_true_r. apply String.eqb_eq. auto.
Qed.

(* when spec_req accepts an observation in which handler h ran, h is the handler of a registered
   pattern of the method that matches the cleaned path; when it accepts one in which no handler ran,
   no registered pattern of the method matches *)
Definition served_path (p : list N) (o : robs) : list N := match o_path o with Some q => q | None => p end.

Lemma spec_req_hit_sound nf acc m p0 o h : spec_req nf acc (m, p0) o = true -> o_hids o = [h] ->
  let p := served_path p0 o in
  exists q pat, req_segs (clean p) = Some q /\ In (m, pat, h) acc /\ pmatch pat q = true.
Proof.
  unfold spec_req, spec_req_gen. cbn [andb]. fold (served_path p0 o). generalize (served_path p0 o). intros p H Hh. rewrite Hh in H. destruct (req_segs (clean p)) as [q|]; [|simpl in H; rewrite andb_false_r in H; discriminate].
  destruct (matches acc m q) as [|r0 l] eqn:E; [discriminate|].
  apply existsb_exists in H as ([[m' pat] id] & Hin & H). rewrite <- E in Hin. apply matches_In in Hin as (Hin & Hm & Hp).
  unfold r_id, r_method, r_pat in *. simpl in *. apply andb_true_iff in H as [H _]. apply andb_true_iff in H as [H _].
  apply Nat.eqb_eq in H. subst. exists q, pat. auto.
Qed.

Lemma spec_req_nohandler_sound nf acc m p0 o : spec_req nf acc (m, p0) o = true -> o_hids o = [] ->
  let p := served_path p0 o in
  forall q pat id, req_segs (clean p) = Some q -> In (m, pat, id) acc -> pmatch pat q = false.
Proof.
  unfold spec_req, spec_req_gen. cbn [andb]. fold (served_path p0 o). generalize (served_path p0 o). intros p H Hh q pat id Eq Hin. rewrite Hh, Eq in H.
  destruct (matches acc m q) as [|r0 l] eqn:E; [|discriminate].
  destruct (pmatch pat q) eqn:Ep; [|reflexivity]. exfalso.
  assert (Hx : In (m, pat, id) (matches acc m q)) by (apply matches_In; auto).
  rewrite E in Hx. destruct Hx.
Qed.

(* ---- engine: method and path reach Router.Handle untouched ---- *)
(* bindRoute's only registration call is router.Handle(route.Method, route.Path, finalHandler) *)
Lemma link_bind_handle_args : C03_Gen.bind_handle_args = ["route.Method"; "route.Path"; "finalHandler"]%string.
Proof. reflexivity. Qed.

(* WithPrefix replaces the path by path.Join(group, rt.Path) (Path.join2) *)
Lemma link_prefix_join_args : C03_Gen.prefix_join_args = ["group"; "rt.Path"]%string.
Proof. reflexivity. Qed.

Lemma link_with_prefix_calls : C03_Gen.with_prefix_calls = ["path.Join"; "append"; "return"]%string.
Proof. reflexivity. Qed.

(* bindRoutes / bindFeaturedRoutes: every group, every route, first error returned (engine_bind) *)
Lemma link_bind_routes_calls : C03_Gen.bind_routes_calls =
  ["ng.createMetrics"; "ng.bindFeaturedRoutes"; "return"; "return"]%string.
Proof. reflexivity. Qed.

Lemma link_bind_featured_calls : C03_Gen.bind_featured_calls =
  ["ng.signatureVerifier"; "return"; "ng.bindRoute"; "return"; "return"]%string.
Proof. reflexivity. Qed.

Lemma link_add_routes_calls : C03_Gen.add_routes_calls = ["append"]%string.
Proof. reflexivity. Qed.

Lemma link_server_add_routes_calls : C03_Gen.server_add_routes_calls = ["opt"; "s.ng.addRoutes"]%string.
Proof. reflexivity. Qed.

(* ---- request context: who writes which key ---- *)
(* WithVars stores the map under the package's own key variable `pathVars` (never a caller-supplied
   or plain string key); Authorize stores every custom claim under its own name k *)
Lemma link_withvars_args : C03_Gen.withvars_args = ["r.Context"; "pathVars"; "params"]%string.
Proof. reflexivity. Qed.

Lemma link_withvars_calls : C03_Gen.withvars_calls = ["r.Context"; "context.WithValue"; "r.WithContext"; "return"]%string.
Proof. reflexivity. Qed.

Lemma link_authorize_ctx_args : C03_Gen.authorize_ctx_args = ["ctx"; "k"; "v"]%string.
Proof. reflexivity. Qed.

Lemma link_vars_calls : C03_Gen.vars_calls = ["r.Context().Value"; "return"; "return"]%string.
Proof. reflexivity. Qed.
