(* C03 Engine: registering through api.engine (addRoutes / bindRoutes, WithPrefix) is registering the
   same (method, path) pairs through patRouter.Handle, in order, up to the first rejection. *)
From Coq Require Import String.
From God Require Import Base.Prelude C03.Path C03.Spec C03.Model C03.Proofs C03.Table C03.Determ.
Local Open Scope N_scope.

Lemma engine_bind_spec rs : forall tb acc, Rel tb acc ->
  exists k, (k <= List.length rs)%nat /\
    fst (engine_bind tb rs) = fold_left hstep (firstn k rs) tb /\
    fst (sbind acc rs) = fold_left sreg (firstn k rs) acc /\
    snd (engine_bind tb rs) = snd (sbind acc rs) /\
    (snd (sbind acc rs) = None -> k = List.length rs) /\
    (forall e, snd (sbind acc rs) = Some e ->
       exists m p id, nth_error rs k = Some (m, p, id) /\
                      reject (fold_left sreg (firstn k rs) acc) m p = Some e).
Proof.
  induction rs as [|[[m p] id] rest IH]; intros tb acc HR.
  - exists 0%nat. simpl. repeat split; auto. intros e H. discriminate.
  - destruct (handle_step tb acc m p id HR) as (He & Hun & HR').
    cbn [engine_bind sbind fst snd]. destruct (handle tb m p id) as [tb' e] eqn:Eh. cbn [fst snd] in *.
    rewrite He. destruct (reject acc m p) as [e0|] eqn:Erej.
    + exists 0%nat. cbn [firstn fold_left fst snd]. split; [simpl; lia|]. split; [apply Hun; discriminate|].
      split; [reflexivity|]. split; [reflexivity|]. split; [discriminate|].
      intros e1 H1. inversion H1; subst. exists m, p, id. split; [reflexivity|assumption].
    + assert (Etb : tb' = hstep tb (m, p, id)) by (unfold hstep; cbn [fst snd]; rewrite Eh; reflexivity).
      destruct (IH tb' (sreg acc (m, p, id)) HR') as (k & Hk & H1 & H2 & H3 & H4 & H5).
      exists (S k). cbn [firstn fold_left]. split; [simpl; lia|]. rewrite <- Etb.
      split; [assumption|]. split; [assumption|]. split; [assumption|]. split; [intro H; simpl; f_equal; auto|].
      intros e1 H6. destruct (H5 e1 H6) as (m1 & p1 & id1 & Hn & Hr). exists m1, p1, id1. auto.
Qed.

(* a route with an unsupported method or a path that does not start with '/' makes the binding fail *)
Lemma sbind_rejects rs : forall acc m p id, In (m, p, id) rs ->
  valid_method m = false \/ rooted p = false -> snd (sbind acc rs) <> None.
Proof.
  induction rs as [|r rest IH]; intros acc m p id Hin Hbad; [destruct Hin|].
  cbn [sbind]. destruct (reject acc (fst (fst r)) (snd (fst r))) as [e|] eqn:E; [discriminate|].
  destruct Hin as [->|Hin]; [|eapply IH; eauto]. exfalso. cbn [fst snd] in E. unfold reject in E.
  destruct Hbad as [H|H]; rewrite H in E; cbn [negb] in E; [discriminate|].
  destruct (valid_method m); discriminate.
Qed.

Lemma sbind_dup rs : forall acc m p1 id1 p2 id2 l1 l2 l3,
  rs = l1 ++ (m, p1, id1) :: l2 ++ (m, p2, id2) :: l3 ->
  rooted p1 = true -> rooted p2 = true -> pattern_of p1 = pattern_of p2 -> snd (sbind acc rs) <> None.
Proof.
  intros acc m p1 id1 p2 id2 l1. revert rs acc. induction l1 as [|a l1 IH]; intros rs acc l2 l3 -> R1 R2 Ep.
  - cbn [app sbind fst snd]. destruct (reject acc m p1) as [e|] eqn:E; [discriminate|].
    (* (m, pattern_of p1, id1) is now registered and stays so until the duplicate is met *)
    assert (Hgen : forall l acc', In (m, pattern_of p1, id1) acc' -> snd (sbind acc' (l ++ (m, p2, id2) :: l3)) <> None).
    { induction l as [|b l IHl]; intros acc' Hin.
      - cbn [app sbind fst snd]. destruct (reject acc' m p2) as [e|] eqn:E2; [discriminate|]. exfalso.
        unfold reject in E2. destruct (valid_method m); [|discriminate]. rewrite R2 in E2. cbn [negb] in E2.
        assert (Hx : existsb (fun r => String.eqb m (r_method r) && pat_eqb (pattern_of p2) (r_pat r)) acc' = true).
        { apply dup_check. exists id1. rewrite <- Ep. assumption. }
        rewrite Hx in E2. discriminate.
      - cbn [app sbind]. destruct (reject acc' (fst (fst b)) (snd (fst b))); [discriminate|].
        apply IHl. unfold sreg. destruct (reject acc' (fst (fst b)) (snd (fst b))); [assumption|apply in_or_app; left; assumption]. }
    apply Hgen. unfold sreg. cbn [fst snd]. rewrite E. apply in_or_app. right. left. reflexivity.
  - cbn [app sbind]. destruct (reject acc (fst (fst a)) (snd (fst a))); [discriminate|]. eapply IH; eauto.
Qed.

Lemma engine_transparent gs :
  let rs := engine_routes gs in
  exists k, (k <= List.length rs)%nat /\
    fst (engine_register gs) = build (firstn k rs) /\
    snd (engine_register gs) = snd (sbind [] rs) /\
    fst (sbind [] rs) = registered (firstn k rs) /\
    (snd (engine_register gs) = None -> k = List.length rs /\ fst (engine_register gs) = build rs) /\
    (forall e, snd (engine_register gs) = Some e ->
       exists m p id, nth_error rs k = Some (m, p, id) /\
         reject (registered (firstn k rs)) m p = Some e /\
         snd (handle (build (firstn k rs)) m p id) = Some e).
Proof.
  intro rs. unfold engine_register. fold rs.
  destruct (engine_bind_spec rs [] [] Rel_nil) as (k & Hk & H1 & H2 & H3 & H4 & H5).
  exists k. split; [assumption|]. split; [exact H1|]. split; [exact H3|]. split; [exact H2|]. split.
  - intro Hn. rewrite H3 in Hn. pose proof (H4 Hn) as ->. split; [reflexivity|]. rewrite H1, firstn_all. reflexivity.
  - intros e He. rewrite H3 in He. destruct (H5 e He) as (m & p & id & Hn & Hr). exists m, p, id.
    split; [assumption|]. split; [exact Hr|].
    destruct (rejects (firstn k rs) m p id) as (Hs & _). rewrite Hs. exact Hr.
Qed.

Definition to_route (r : reg) : route := (fst (fst r), pattern_of (snd (fst r)), snd r).

Lemma sbind_none_all rs : forall acc, snd (sbind acc rs) = None -> fst (sbind acc rs) = acc ++ map to_route rs.
Proof.
  induction rs as [|r rest IH]; intros acc H; [simpl; rewrite app_nil_r; reflexivity|].
  cbn [sbind] in *. destruct (reject acc (fst (fst r)) (snd (fst r))) eqn:E; [discriminate|].
  rewrite IH by assumption. unfold sreg. rewrite E. rewrite <- app_assoc. reflexivity.
Qed.

(* a start-up without error: the router is the one obtained by Handle on every route, and every
   route is registered *)
Lemma engine_accepts gs : snd (engine_register gs) = None ->
  fst (engine_register gs) = build (engine_routes gs) /\
  registered (engine_routes gs) = map to_route (engine_routes gs).
Proof.
  intro H. destruct (engine_transparent gs) as (k & _ & H1 & H2 & H3 & H4 & _).
  destruct (H4 H) as [-> Hb]. split; [assumption|]. rewrite firstn_all in H3. rewrite <- H3.
  rewrite H2 in H. rewrite (sbind_none_all _ [] H). reflexivity.
Qed.

Lemma engine_rejects_bad gs m p id : In (m, p, id) (engine_routes gs) ->
  valid_method m = false \/ rooted p = false -> snd (engine_register gs) <> None.
Proof.
  intros Hin Hbad. destruct (engine_transparent gs) as (k & _ & _ & H2 & _). rewrite H2. eapply sbind_rejects; eauto.
Qed.

Lemma engine_rejects_dup gs m p1 id1 p2 id2 l1 l2 l3 :
  engine_routes gs = l1 ++ (m, p1, id1) :: l2 ++ (m, p2, id2) :: l3 ->
  rooted p1 = true -> rooted p2 = true -> pattern_of p1 = pattern_of p2 -> snd (engine_register gs) <> None.
Proof.
  intros E R1 R2 Ep. destruct (engine_transparent gs) as (k & _ & _ & H2 & _). rewrite H2. eapply sbind_dup; eauto.
Qed.

(* ---- histories ---- *)
(* what a router that had the current table from the start answers: the i-th step is judged on
   build (all registrations attempted before it) *)
Fixpoint hist_spec (pre : list reg) (ops : list hop) : list hres :=
  match ops with
  | [] => []
  | OReg m p id :: rest => HErr (snd (handle (build pre) m p id)) :: hist_spec (pre ++ [(m, p, id)]) rest
  | OReq m p :: rest => HOut (route_req (build pre) m p) :: hist_spec pre rest
  end.

Lemma build_snoc pre r : build (pre ++ [r]) = hstep (build pre) r.
Proof. rewrite !build_fold, fold_left_app. reflexivity. Qed.

Lemma run_ops_spec ops : forall pre, run_ops (build pre) ops = hist_spec pre ops.
Proof.
  induction ops as [|[m p id|m p] rest IH]; intro pre; [reflexivity| |].
  - cbn [run_ops hist_spec]. destruct (handle (build pre) m p id) as [tb' e] eqn:E. cbn [snd]. f_equal.
    rewrite <- IH. f_equal. rewrite build_snoc. unfold hstep. cbn [fst snd]. rewrite E. reflexivity.
  - cbn [run_ops hist_spec]. f_equal. apply IH.
Qed.

Lemma history_independent ops : run_ops [] ops = hist_spec [] ops.
Proof. exact (run_ops_spec ops []). Qed.

(* the registration verdicts inside a history are the Spec's *)
Lemma hist_verdict pre m p id : snd (handle (build pre) m p id) = reject (registered pre) m p.
Proof. exact (proj1 (rejects pre m p id)). Qed.

(* ---- path variables and the rest of the request context ---- *)
Lemma vars_of_claims claims : forall c, vars_of (add_claims claims c) = vars_of c.
Proof.
  induction claims as [|[n v] rest IH]; intro c; [reflexivity|].
  unfold add_claims in *. cbn [fold_left]. rewrite IH. reflexivity.
Qed.

(* whatever the claims are called (a path parameter's name, "pathVars", ...) and whatever their values
   are (even a map[string]string), the handler reads exactly the variables the router bound; without
   variables it reads what was there before (nil on a fresh request) *)
Lemma vars_survive ps claims c :
  vars_of (add_claims claims (serve_ctx ps c)) = match ps with [] => vars_of c | _ => Some ps end.
Proof. rewrite vars_of_claims. destruct ps; reflexivity. Qed.

(* ---- CORS ---- *)
Lemma cors_transparent regs m p : m <> "OPTIONS"%string ->
  cors_serve (build regs) m p = CRouted (route_req (build regs) m p) /\
  ((exists rs, cors_serve (build regs) m p = CRouted (Hit rs)) <-> has_match (registered regs) m p).
Proof.
  intro Hm. unfold cors_serve. destruct (String.eqb m "OPTIONS") eqn:E; [apply String.eqb_eq in E; congruence|].
  split; [reflexivity|]. rewrite <- (hits_iff _ _ m p (rel_build regs)). rewrite route_req_eq. split.
  - intros (rs & H). destruct (hits (build regs) m p); [|discriminate].
    destruct (methods_allowed (build regs) m (clean p)); inversion H.
  - intro H. destruct (hits (build regs) m p) as [|h l]; [congruence|]. eexists. reflexivity.
Qed.

Lemma cors_preflight tb p : cors_serve tb "OPTIONS" p = CPreflight.
Proof. reflexivity. Qed.

(* ---- NewServer options ---- *)
Definition to_wopt (o : sopt) : wopt :=
  match o with SNotFound b => WNotFound b | SNotAllowed => WNotAllowed | SCors => WCors | SRouter => WRouter end.
Definition want_conf (opts : list sopt) : sconf :=
  let w := map to_wopt opts in mksconf (want_nf w) (want_na w) (want_cors w).

Lemma fold_conf_norouter rest : ~ In SRouter rest -> forall c,
  fold_left apply_sopt rest c =
  mksconf (fold_left (fun b o => match o with WNotFound x => x | _ => b end) (map to_wopt rest) (s_nf c))
          (fold_left (fun n o => match o with WNotAllowed => 1 | WCors => 2 | _ => n end)%nat (map to_wopt rest) (s_na c))
          (s_cors c || want_cors (map to_wopt rest)).
Proof.
  induction rest as [|o r IH]; intros Hn c.
  - simpl. destruct c. simpl. rewrite orb_false_r. reflexivity.
  - cbn [fold_left map]. rewrite IH by (intro; apply Hn; right; assumption).
    destruct o; cbn [apply_sopt to_wopt s_nf s_na s_cors want_cors existsb]; try reflexivity.
    + rewrite orb_true_r. simpl. reflexivity.
    + exfalso. apply Hn. left. reflexivity.
Qed.

Lemma fold_routers k : forall rest, fold_left apply_sopt (repeat SRouter k ++ rest) sconf0 = fold_left apply_sopt rest sconf0.
Proof. induction k as [|k IH]; intro rest; [reflexivity|]. simpl. apply IH. Qed.

Lemma want_routers k rest : want_conf (repeat SRouter k ++ rest) = want_conf rest.
Proof.
  unfold want_conf, want_nf, want_na, want_cors. induction k as [|k IH]; [reflexivity|]. simpl. exact IH.
Qed.

(* WithRouter first (or absent): the server is configured as asked *)
Lemma server_conf_router_first k rest : ~ In SRouter rest ->
  server_conf (repeat SRouter k ++ rest) = want_conf (repeat SRouter k ++ rest).
Proof.
  intro Hn. unfold server_conf. rewrite fold_routers, want_routers, (fold_conf_norouter rest Hn sconf0). reflexivity.
Qed.
