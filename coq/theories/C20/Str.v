(* C20 Str: Go strings as byte lists, UTF-8 as Go's unicode/utf8 decodes and encodes it, and the
   standard-library string functions the generator's naming code calls (strings.ToUpper/ToLower/
   Title/Map/Index/Join, slicing, unicode.* on ASCII).  Definitions only.
   Bytes and runes are N.  ASCII is modelled completely; the case tables of non-ASCII runes and
   x/text's title-casing of words that contain a non-ASCII rune are an explicit oracle record. *)
From God Require Import Base.Prelude.
Local Open Scope N_scope.

Definition str := list N.             (* a Go string: its bytes *)

(* ---------- oracle for everything outside ASCII ---------- *)
Record unicode := mkU {
  u_upper : N -> N;                   (* unicode.ToUpper *)
  u_lower : N -> N;                   (* unicode.ToLower *)
  u_title : N -> N;                   (* unicode.ToTitle *)
  u_isupper : N -> bool;              (* unicode.IsUpper *)
  u_isletter : N -> bool;             (* unicode.IsLetter *)
  u_isdigit : N -> bool;              (* unicode.IsDigit *)
  u_isspace : N -> bool;              (* unicode.IsSpace *)
  u_xtitle : str -> str               (* cases.Title(language.English, cases.NoLower).String *)
}.

(* ---------- unicode/utf8 ---------- *)
Definition rune_error : N := 65533.   (* U+FFFD *)
Definition rune_self : N := 128.

Definition cont (b : N) : bool := (128 <=? b) && (b <=? 191).   (* locb..hicb *)

(* utf8.DecodeRuneInString: (rune, width); invalid or short input => (RuneError, 1) *)
Definition decode_rune (s : str) : N * nat :=
  match s with
  | [] => (rune_error, 0%nat)
  | b0 :: t =>
      if b0 <? 128 then (b0, 1%nat)
      else if (b0 <? 194) || (244 <? b0) then (rune_error, 1%nat)           (* first[b0] = xx *)
      else if b0 <? 224 then                                                  (* s1: 2 bytes *)
        match t with
        | b1 :: _ => if cont b1 then ((b0 mod 32) * 64 + b1 mod 64, 2%nat) else (rune_error, 1%nat)
        | _ => (rune_error, 1%nat)
        end
      else if b0 <? 240 then                                                  (* s2,s3,s4: 3 bytes *)
        let lo := if b0 =? 224 then 160 else 128 in
        let hi := if b0 =? 237 then 159 else 191 in
        match t with
        | b1 :: b2 :: _ =>
            if (lo <=? b1) && (b1 <=? hi) && cont b2
            then ((b0 mod 16) * 4096 + (b1 mod 64) * 64 + b2 mod 64, 3%nat) else (rune_error, 1%nat)
        | _ => (rune_error, 1%nat)
        end
      else                                                                    (* s5,s6,s7: 4 bytes *)
        let lo := if b0 =? 240 then 144 else 128 in
        let hi := if b0 =? 244 then 143 else 191 in
        match t with
        | b1 :: b2 :: b3 :: _ =>
            if (lo <=? b1) && (b1 <=? hi) && cont b2 && cont b3
            then ((b0 mod 8) * 262144 + (b1 mod 64) * 4096 + (b2 mod 64) * 64 + b3 mod 64, 4%nat)
            else (rune_error, 1%nat)
        | _ => (rune_error, 1%nat)
        end
  end.

(* the runes a `for range s` / ReadRune loop sees: every invalid byte is one U+FFFD *)
Fixpoint decode_fuel (n : nat) (s : str) : list N :=
  match n with
  | O => []
  | S n' =>
      match s with
      | [] => []
      | _ => let rw := decode_rune s in fst rw :: decode_fuel n' (skipn (snd rw) s)
      end
  end.
Definition decode_all (s : str) : list N := decode_fuel (length s) s.

(* utf8.AppendRune / bytes.Buffer.WriteRune: surrogates and out-of-range runes are written as U+FFFD *)
Definition encode_rune (r : N) : str :=
  if r <? 128 then [r]
  else if r <? 2048 then [192 + r / 64; 128 + r mod 64]
  else if (1114111 <? r) || ((55296 <=? r) && (r <=? 57343)) then [239; 191; 189]
  else if r <? 65536 then [224 + r / 4096; 128 + (r / 64) mod 64; 128 + r mod 64]
  else [240 + r / 262144; 128 + (r / 4096) mod 64; 128 + (r / 64) mod 64; 128 + r mod 64].

Definition encode_all (rs : list N) : str := flat_map encode_rune rs.

(* ---------- package unicode, ASCII part in Coq, the rest from the oracle ---------- *)
Definition is_ascii_upper (r : N) : bool := (65 <=? r) && (r <=? 90).
Definition is_ascii_lower (r : N) : bool := (97 <=? r) && (r <=? 122).
Definition is_ascii_digit (r : N) : bool := (48 <=? r) && (r <=? 57).
Definition is_ascii_letter (r : N) : bool := is_ascii_upper r || is_ascii_lower r.
Definition ascii_upper (r : N) : N := if is_ascii_lower r then r - 32 else r.
Definition ascii_lower (r : N) : N := if is_ascii_upper r then r + 32 else r.
Definition is_ascii_space (r : N) : bool := ((9 <=? r) && (r <=? 13)) || (r =? 32).

Section Unicode.
  Variable U : unicode.

  Definition to_upper_rune (r : N) : N := if r <? 128 then ascii_upper r else u_upper U r.
  Definition to_lower_rune (r : N) : N := if r <? 128 then ascii_lower r else u_lower U r.
  Definition to_title_rune (r : N) : N := if r <? 128 then ascii_upper r else u_title U r.
  Definition is_upper_rune (r : N) : bool := if r <? 128 then is_ascii_upper r else u_isupper U r.
  Definition is_space_rune (r : N) : bool := if r <? 128 then is_ascii_space r else u_isspace U r.

  (* strings.isSeparator *)
  Definition is_separator (r : N) : bool :=
    if r <? 128 then negb (is_ascii_digit r || is_ascii_lower r || is_ascii_upper r || (r =? 95))
    else if u_isletter U r || u_isdigit U r then false
    else u_isspace U r.

  (* strings.Map with a mapping that never returns a negative rune *)
  Definition map_runes (f : N -> N) (s : str) : str := encode_all (map f (decode_all s)).

  Definition to_upper (s : str) : str := map_runes to_upper_rune s.    (* strings.ToUpper *)
  Definition to_lower (s : str) : str := map_runes to_lower_rune s.    (* strings.ToLower *)

  (* strings.Title: Map with the closure that remembers the previous rune, prev := ' ' *)
  Fixpoint title_runes (prev : N) (rs : list N) : list N :=
    match rs with
    | [] => []
    | r :: t => (if is_separator prev then to_title_rune r else r) :: title_runes r t
    end.
  Definition title (s : str) : str := encode_all (title_runes 32 (decode_all s)).

  (* strings.TrimSpace(s) == "" (with len(s) == 0 included) *)
  Definition is_empty_or_space (s : str) : bool := forallb is_space_rune (decode_all s).
End Unicode.

(* ---------- byte-level helpers ---------- *)
Definition str_eqb : str -> str -> bool := list_eqb N.eqb.

Definition nonempty (s : str) : bool := match s with [] => false | _ => true end.

(* strings.HasPrefix(s, p) *)
Fixpoint is_prefix (p s : str) : bool :=
  match p, s with
  | [], _ => true
  | a :: p', b :: s' => (a =? b) && is_prefix p' s'
  | _ :: _, [] => false
  end.

(* strings.Index(s, p): None is -1 *)
Fixpoint index (p s : str) : option nat :=
  if is_prefix p s then Some O
  else match s with
       | [] => None
       | _ :: t => option_map S (index p t)
       end.

(* s[lo:hi] and s[lo:] with Go's bounds check *)
Definition slice (s : str) (lo hi : nat) : result str :=
  if (Nat.leb lo hi && Nat.leb hi (length s))%bool then Ok (firstn (hi - lo) (skipn lo s)) else Panic.
Definition slice_from (s : str) (lo : nat) : result str :=
  if Nat.leb lo (length s) then Ok (skipn lo s) else Panic.

(* strings.Join *)
Fixpoint join (sep : str) (l : list str) : str :=
  match l with
  | [] => []
  | [a] => a
  | a :: r => a ++ sep ++ join sep r
  end.

Definition bind {A B} (r : result A) (f : A -> result B) : result B :=
  match r with Ok a => f a | Err e => Err e | Panic => Panic end.
