(* C20 Model: transcription of tools/god/util/format/format.go and tools/god/util/stringx/string.go
   (executable definitions only, in source order).  Strings are byte lists (Str.v); slicing with
   indices returns Panic when Go's bounds check would fail. *)
From God Require Import Base.Prelude C20.Str.
Local Open Scope N_scope.

(* ===================== format.go ===================== *)

(* format.go:11-19 *)
Definition flag_go : str := [71; 79].                                   (* "GO" *)
Definition flag_designer : str := [68; 69; 83; 73; 71; 78; 69; 82].     (* "DESIGNER" *)
Inductive style := Unknown | Title | Lower | Upper.

(* error values: 1 = ErrNamingFormat, 2 = fmt.Errorf("意外的格式：%s", flag) *)
Definition err_naming : nat := 1.
Definition err_style : nat := 2.
Definition err_config : nat := 3.
Definition err_handle : nat := 9.    (* harness convention: an operation on a handle that was never created *)

(* histories of the configuration front end in one process: every NewConfig call allocates a fresh
   Config (`cfg := &Config{NamingFormat: format}`), which its owner may then assign to *)
Inductive hop :=
| HNew (s : str)                 (* cfg, err := config.NewConfig(s); cfg is kept as the next handle *)
| HSet (i : nat) (v : str)       (* handle i: cfg.NamingFormat = v  (e.g. a yaml load over it) *)
| HRead (i : nat)                (* handle i: cfg.NamingFormat *)
| HFmt (i : nat) (c : str).      (* format.FileNamingFormat(handle i's NamingFormat, c) *)

Fixpoint replace_nth {A} (i : nat) (v : A) (l : list A) : list A :=
  match l, i with
  | [], _ => []
  | _ :: r, O => v :: r
  | a :: r, S i' => a :: replace_nth i' v r
  end.    (* config.validate: errors.New("缺少配置项 - namingFormat") *)

(* config.go:8 DefaultFormat = "godesigner" *)
Definition default_format : str := [103; 111; 100; 101; 115; 105; 103; 110; 101; 114].

(* format.go:79-87 upperASCII: bytewise, 'a'..'z' only *)
Definition upper_ascii (s : str) : str := map ascii_upper s.

Section WithUnicode.
  Variable U : unicode.

  (* format.go:108-119 transferTo *)
  Definition transfer_to (v : str) (st : style) : str :=
    match st with
    | Upper => to_upper U v
    | Lower => to_lower U v
    | Title => title U v
    | Unknown => v
    end.

  (* format.go:121-156 split: reader.ReadRune loop with a bytes.Buffer.
     rs = the runes ReadRune yields, buffer = buffer contents, acc = list *)
  Definition flush (buffer : str) (acc : list str) : list str :=
    if nonempty buffer then acc ++ [buffer] else acc.

  Fixpoint split_loop (rs : list N) (buffer : str) (acc : list str) : list str :=
    match rs with
    | [] => flush buffer acc                                             (* io.EOF *)
    | r :: t =>
        if r =? 95 then split_loop t [] (flush buffer acc)               (* '_' : flush, Reset, continue *)
        else if (65 <=? r) && (r <=? 90)
        then split_loop t (encode_rune r) (flush buffer acc)             (* 'A'..'Z': flush, Reset, WriteRune *)
        else split_loop t (buffer ++ encode_rune r) acc                  (* WriteRune *)
    end.
  Definition split (content : str) : list str := split_loop (decode_all content) [] [].

  (* format.go:89-106 doFormat (split's error is always nil: strings.Reader only returns io.EOF) *)
  Fixpoint transfer_all (i : nat) (fields : list str) (go_style designer_style : style) : list str :=
    match fields with
    | [] => []
    | v :: r => transfer_to v (if Nat.eqb i 0 then go_style else designer_style)
                :: transfer_all (S i) r go_style designer_style
    end.
  Definition do_format (before through after : str) (go_style designer_style : style) (content : str) : str :=
    before ++ join through (transfer_all 0 (split content) go_style designer_style) ++ after.

  (* format.go:158-171 getStyle: switch flag { case ToLower(compare): ... } in source order *)
  Definition get_style (flag : str) : result style :=
    let compare := to_lower U flag in
    if str_eqb flag (to_lower U compare) then Ok Lower
    else if str_eqb flag (to_upper U compare) then Ok Upper
    else if str_eqb flag (title U compare) then Ok Title
    else Err err_style.

  (* format.go:39-76 FileNamingFormat *)
  Definition file_naming_format (format content : str) : result str :=
    let upper_format := upper_ascii format in
    match index flag_go upper_format, index flag_designer upper_format with
    | Some index_go, Some index_designer =>
        if Nat.ltb index_designer index_go then Err err_naming
        else
          bind (slice format 0 index_go) (fun before =>
          bind (slice format index_go (index_go + 2)) (fun flag_go' =>
          bind (slice format (index_go + 2) index_designer) (fun through =>
          bind (slice format index_designer (index_designer + 8)) (fun flag_designer' =>
          bind (slice_from format (index_designer + 8)) (fun after =>
          bind (get_style flag_go') (fun go_style =>
          bind (get_style flag_designer') (fun designer_style =>
          Ok (do_format before through after go_style designer_style content))))))))
    | _, _ => Err err_naming
    end.

  (* the flag that the style error message quotes (None when no style error is raised) *)
  Definition style_error_flag (format : str) : option str :=
    let upper_format := upper_ascii format in
    match index flag_go upper_format, index flag_designer upper_format with
    | Some ig, Some id =>
        if Nat.ltb id ig then None
        else
          let fg := firstn 2 (skipn ig format) in
          let fd := firstn 8 (skipn id format) in
          match get_style fg with
          | Ok _ => match get_style fd with Ok _ => None | _ => Some fd end
          | _ => Some fg
          end
    | _, _ => None
    end.

  (* ===================== stringx/string.go ===================== *)

  (* string.go:23-29 Title: cases.Title(language.English, cases.NoLower).String.
     x/text v0.5.0 titleCaser.Transform restricted to ASCII: letters are cased; every other ASCII
     byte except 0-9 ' . : _ is a word break; ' . : are "mid" characters (two in a row break). *)
  Definition xt_mid (c : N) : bool := (c =? 39) || (c =? 46) || (c =? 58).
  Definition xt_break (c : N) : bool :=
    negb (is_ascii_letter c || is_ascii_digit c || xt_mid c || (c =? 95)).
  Fixpoint xtitle_ascii (mid_word : bool) (s : str) : str :=
    match s with
    | [] => []
    | c :: t =>
        let was_mid := xt_mid c in
        let c' := if is_ascii_letter c then (if mid_word then c else ascii_upper c) else c in
        let mw := if is_ascii_letter c then true else if xt_break c then false else mid_word in
        let mw' := match t with
                   | n :: _ => if was_mid && xt_mid n then false else mw
                   | [] => mw
                   end in
        c' :: xtitle_ascii mw' t
    end.
  Definition xtitle (s : str) : str :=
    if forallb (fun b => b <? 128) s then xtitle_ascii false s else u_xtitle U s.

  Definition sx_title (s : str) : str :=
    if is_empty_or_space U s then s else xtitle s.

  (* string.go:93-118 splitBy: `for _, r := range s.source` with a bytes.Buffer *)
  Fixpoint split_by_loop (fn : N -> bool) (remove : bool) (rs : list N) (buffer : str) (acc : list str) : list str :=
    match rs with
    | [] => flush buffer acc
    | r :: t =>
        if fn r
        then split_by_loop fn remove t (if remove then [] else encode_rune r) (flush buffer acc)
        else split_by_loop fn remove t (buffer ++ encode_rune r) acc
    end.
  Definition split_by (fn : N -> bool) (remove : bool) (s : str) : list str :=
    if is_empty_or_space U s then [] else split_by_loop fn remove (decode_all s) [] [].

  (* string.go:60-70 ToCamel *)
  Definition to_camel (s : str) : result str :=
    Ok (concat (map sx_title (split_by (fun r => r =? 95) true s))).

  (* string.go:73-80 ToSnake *)
  Definition to_snake (s : str) : result str :=
    Ok (join [95] (map (to_lower U) (split_by (is_upper_rune U) false s))).

  Definition snake_of_camel (s : str) : result str := bind (to_camel s) to_snake.

  (* string.go:33-44 UnTitle: r := rune(s.source[0]) -- the first BYTE read as a Latin-1 rune;
     unicode.IsUpper / IsLower / ToLower on U+0000..U+00FF (Go 1.23 tables) are written out here. *)
  Definition latin1_is_upper (b : N) : bool :=
    if b <? 128 then is_ascii_upper b else ((192 <=? b) && (b <=? 214)) || ((216 <=? b) && (b <=? 222)).
  Definition latin1_is_lower (b : N) : bool :=
    if b <? 128 then is_ascii_lower b else (b =? 181) || ((223 <=? b) && (b <=? 246)) || ((248 <=? b) && (b <=? 255)).
  Definition latin1_to_lower (b : N) : N := if latin1_is_upper b then b + 32 else b.
  Definition un_title (s : str) : result str :=
    if is_empty_or_space U s then Ok s
    else match s with
         | [] => Panic                                  (* s.source[0] on an empty string *)
         | b :: t =>
             if negb (latin1_is_upper b) && negb (latin1_is_lower b) then Ok s
             else Ok (encode_rune (latin1_to_lower b) ++ t)   (* string(unicode.ToLower(r)) + s.source[1:] *)
         end.

  (* ===================== config/config.go ===================== *)
  (* config.go:20-29 NewConfig + config.go:31-37 validate: only the EMPTY template becomes
     DefaultFormat; the template is stored verbatim; error iff strings.TrimSpace(...) is empty.
     (Go returns the non-nil cfg together with the error; callers test the error.) *)
  Definition new_config (format : str) : result str :=
    let format := match format with [] => default_format | _ => format end in
    if is_empty_or_space U format then Err err_config else Ok format.

  (* the generator's path: cfg, err := NewConfig(t); FileNamingFormat(cfg.NamingFormat, content) *)
  Definition configured_format (t content : str) : result str :=
    bind (new_config t) (fun f => file_naming_format f content).

  (* the heap of Config objects: handle |-> its NamingFormat.  NewConfig returns the (non-nil) cfg
     together with validate's error, holding the format after the empty => default substitution. *)
  Definition hstep (st : list str) (o : hop) : result str * list str :=
    match o with
    | HNew s0 =>
        let format := match s0 with [] => default_format | _ => s0 end in
        (new_config s0, st ++ [format])
    | HSet i v => if Nat.ltb i (length st) then (Ok [], replace_nth i v st) else (Err err_handle, st)
    | HRead i => match nth_error st i with Some f => (Ok f, st) | None => (Err err_handle, st) end
    | HFmt i c => match nth_error st i with
                  | Some f => (file_naming_format f c, st)
                  | None => (Err err_handle, st)
                  end
    end.
  Fixpoint hrun (st : list str) (ops : list hop) : list (result str) :=
    match ops with
    | [] => []
    | o :: r => let rs := hstep st o in fst rs :: hrun (snd rs) r
    end.
End WithUnicode.
