(* C20 Utf8: sanity of Str.v's transcription of unicode/utf8 -- the decoder inverts the encoder, only
   yields valid runes, and therefore the words FileNamingFormat cases are seen by strings.ToUpper /
   ToLower / Title as exactly the runes the Spec's `chunks` put into them. *)
From God Require Import Base.Prelude C20.Str C20.Spec C20.Proofs.
Local Open Scope N_scope.

Definition valid_rune (r : N) : bool := (r <=? 1114111) && negb ((55296 <=? r) && (r <=? 57343)).

Ltac brk := repeat match goal with
  | |- context [if ?c then _ else _] =>
      lazymatch c with
      | context [if _ then _ else _] => fail
      | _ => let E := fresh "E" in destruct c eqn:E
      end
  end.

Lemma decode_encode r rest :
  decode_rune (encode_rune r ++ rest) =
  (if valid_rune r then r else rune_error, length (encode_rune r)).
Proof.
  unfold encode_rune, valid_rune, rune_error.
  destruct (r <? 128) eqn:E1.
  { cbn [app length]. unfold decode_rune. rewrite E1. assert ((r <=? 1114111) && negb ((55296 <=? r) && (r <=? 57343)) = true) as -> by lia. reflexivity. }
  destruct (r <? 2048) eqn:E2.
  { cbn [app length]. unfold decode_rune, cont, rune_error.
    assert ((r <=? 1114111) && negb ((55296 <=? r) && (r <=? 57343)) = true) as -> by lia.
    brk; try lia; f_equal; lia. }
  destruct ((1114111 <? r) || ((55296 <=? r) && (r <=? 57343))) eqn:E3.
  { cbn [app length].
    assert ((r <=? 1114111) && negb ((55296 <=? r) && (r <=? 57343)) = false) as ->.
    { destruct (N.ltb_spec 1114111 r), (N.leb_spec r 1114111), (N.leb_spec 55296 r), (N.leb_spec r 57343); simpl in *; try reflexivity; try discriminate; lia. }
    vm_compute. reflexivity. }
  assert ((r <=? 1114111) && negb ((55296 <=? r) && (r <=? 57343)) = true) as ->.
  { destruct (N.ltb_spec 1114111 r), (N.leb_spec r 1114111), (N.leb_spec 55296 r), (N.leb_spec r 57343); simpl in *; try reflexivity; try discriminate; lia. }
  destruct (r <? 65536) eqn:E4.
  { cbn [app length]. unfold decode_rune, cont, rune_error. brk; try lia; f_equal; lia. }
  cbn [app length]. unfold decode_rune, cont, rune_error. brk; try lia; f_equal; lia.
Qed.

Lemma decode_rune_valid s : valid_rune (fst (decode_rune s)) = true.
Proof.
  unfold decode_rune, valid_rune, cont, rune_error.
  destruct s as [|b0 t]; [reflexivity|].
  destruct (b0 <? 128) eqn:E1; [cbn [fst]; lia|].
  destruct ((b0 <? 194) || (244 <? b0)) eqn:E2; [reflexivity|].
  destruct (b0 <? 224) eqn:E3.
  { destruct t as [|b1 t]; [reflexivity|]. brk; cbn [fst]; lia. }
  destruct (b0 <? 240) eqn:E4.
  { destruct t as [|b1 [|b2 t]]; try reflexivity. brk; cbn [fst]; lia. }
  destruct t as [|b1 [|b2 [|b3 t]]]; try reflexivity.
  assert (H : b0 = 240 \/ b0 = 241 \/ b0 = 242 \/ b0 = 243 \/ b0 = 244) by lia.
  destruct H as [->|[->|[->|[->| ->]]]]; brk; cbn [fst]; lia.
Qed.

Lemma decode_rune_width b t : (1 <= snd (decode_rune (b :: t)))%nat.
Proof.
  unfold decode_rune.
  destruct (b <? 128); [cbn; lia|]. destruct ((b <? 194) || (244 <? b)); [cbn; lia|].
  destruct (b <? 224).
  { destruct t as [|b1 t]; [cbn; lia|]. destruct (cont b1); cbn; lia. }
  destruct (b <? 240).
  { destruct t as [|b1 [|b2 t]]; try (cbn; lia). brk; cbn; lia. }
  destruct t as [|b1 [|b2 [|b3 t]]]; try (cbn; lia). brk; cbn; lia.
Qed.

Lemma decode_fuel_any n : forall m s, (length s <= n)%nat -> (length s <= m)%nat -> decode_fuel n s = decode_fuel m s.
Proof.
  induction n as [|n IH]; intros m s Hn Hm.
  - destruct s; [|simpl in Hn; lia]. destruct m; reflexivity.
  - destruct s as [|b t]; [destruct m; reflexivity|].
    destruct m as [|m]; [simpl in Hm; lia|]. cbn [decode_fuel]. f_equal.
    pose proof (decode_rune_width b t) as W. set (w := snd (decode_rune (b :: t))) in *. clearbody w.
    apply IH; rewrite skipn_length; cbn [length] in *; lia.
Qed.

Definition fix_rune (r : N) : N := if valid_rune r then r else rune_error.

Lemma decode_all_encode r rest : decode_all (encode_rune r ++ rest) = fix_rune r :: decode_all rest.
Proof.
  unfold decode_all.
  assert (L : (1 <= length (encode_rune r))%nat).
  { unfold encode_rune. brk; simpl; lia. }
  rewrite app_length. destruct (length (encode_rune r)) as [|k] eqn:Ek; [lia|]. cbn [plus decode_fuel].
  destruct (encode_rune r ++ rest) as [|b t] eqn:Es.
  { apply (f_equal (@length N)) in Es. rewrite app_length in Es. simpl in Es. lia. }
  rewrite <- Es. rewrite decode_encode. cbn [fst snd]. fold (fix_rune r). f_equal.
  rewrite Ek. rewrite <- Ek. rewrite skipn_app, skipn_all, Nat.sub_diag. cbn [app skipn].
  apply decode_fuel_any; lia.
Qed.

Lemma decode_all_encode_all rs : decode_all (encode_all rs) = map fix_rune rs.
Proof.
  induction rs as [|r t IH]; [reflexivity|]. unfold encode_all in *. cbn [flat_map map].
  rewrite decode_all_encode, IH. reflexivity.
Qed.

Lemma decode_fuel_valid n : forall s, forallb valid_rune (decode_fuel n s) = true.
Proof.
  induction n as [|n IH]; intro s; [reflexivity|]. destruct s as [|b t]; [reflexivity|].
  cbn [decode_fuel forallb]. rewrite decode_rune_valid, IH. reflexivity.
Qed.

Lemma decode_all_valid s : forallb valid_rune (decode_all s) = true.
Proof. apply decode_fuel_valid. Qed.

(* re-decoding a word gives back exactly the runes of its chunk *)
Lemma words_decode content :
  map decode_all (words content) = filter nonempty (chunks (decode_all content)).
Proof.
  destruct (words_runes content) as (E & Hc & _). cbv zeta in *. rewrite E. clear E.
  pose proof (decode_all_valid content) as V. rewrite forallb_forall in V.
  assert (In_all : forall c r, In c (filter nonempty (chunks (decode_all content))) -> In r c -> In r (decode_all content)).
  { intros c r Hin Hr. assert (Hcc : In r (concat (filter nonempty (chunks (decode_all content))))) by (apply in_concat; eauto).
    rewrite Hc in Hcc. apply filter_In in Hcc. tauto. }
  revert In_all. generalize (filter nonempty (chunks (decode_all content))). intros ws In_all.
  rewrite map_map. rewrite <- (map_id ws) at 2. apply map_ext_in. intros c Hcin.
  rewrite decode_all_encode_all. rewrite <- (map_id c) at 2. apply map_ext_in. intros r Hr.
  unfold fix_rune. rewrite (V r (In_all c r Hcin Hr)). reflexivity.
Qed.
