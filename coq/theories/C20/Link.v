(* C20 Link: what gogen regenerates from tools/god/util/{format,stringx} is what the model transcribes:
   the two flag words, the style constants, the call skeletons and switch tables of the functions.
   Plus soundness of the executable Spec functions used by Exec.spec_ok. *)
From Coq Require Import String Ascii.
From God Require Import Base.Prelude C20.Str C20.Model C20.Spec C20.Proofs C20.Exec.
From GodGen Require C20_Gen.
Local Open Scope N_scope.

Fixpoint bytes_of_string (s : string) : str :=
  match s with
  | EmptyString => []
  | String a r => N_of_ascii a :: bytes_of_string r
  end.

(* ---- constants ---- *)
Lemma link_flag_go : bytes_of_string C20_Gen.flagGo = flag_go.
Proof. reflexivity. Qed.

Lemma link_flag_designer : bytes_of_string C20_Gen.flagDesigner = flag_designer.
Proof. reflexivity. Qed.

(* the property's words 'go' / 'designer' are the flags, ASCII-case-folded *)
Lemma link_words : map ascii_upper w_go = bytes_of_string C20_Gen.flagGo /\
                   map ascii_upper w_designer = bytes_of_string C20_Gen.flagDesigner.
Proof. split; reflexivity. Qed.

(* the word lengths hard-coded in FileNamingFormat's slices (indexGo+2, indexDesigner+8) *)
Lemma link_flag_lengths : List.length (bytes_of_string C20_Gen.flagGo) = 2%nat /\
                          List.length (bytes_of_string C20_Gen.flagDesigner) = 8%nat.
Proof. split; reflexivity. Qed.

Definition style_code (s : style) : Z :=
  match s with
  | Unknown => C20_Gen.unknown | Title => C20_Gen.title | Lower => C20_Gen.lower | Upper => C20_Gen.upper
  end.

(* the four style constants are distinct values (only their identity matters) *)
Lemma link_styles_distinct : forall a b, style_code a = style_code b -> a = b.
Proof. intros [] []; vm_compute; intro H; try reflexivity; discriminate H. Qed.

(* ---- format.go skeletons ---- *)
Local Open Scope string_scope.

Lemma link_fnf_calls : C20_Gen.fnf_calls =
  ["upperASCII"; "strings.Index"; "strings.Index"; "return";
   "getStyle"; "return"; "getStyle"; "return"; "doFormat"; "return"].
Proof. reflexivity. Qed.

(* upperASCII: []byte(s), loop without calls, string(b) *)
Lemma link_upperascii_calls : C20_Gen.upperascii_calls = ["<*ast.ArrayType>"; "string"; "return"].
Proof. reflexivity. Qed.

Lemma link_doformat_calls : C20_Gen.doformat_calls =
  ["split"; "return"; "transferTo"; "append"; "transferTo"; "append"; "strings.Join"; "return"].
Proof. reflexivity. Qed.

Lemma link_split_calls : C20_Gen.split_calls =
  ["strings.NewReader"; "bytes.NewBuffer"; "reader.ReadRune";
   "buffer.Len"; "buffer.String"; "append"; "return"; "return";
   "buffer.Len"; "buffer.String"; "append"; "buffer.Reset";
   "buffer.Len"; "buffer.String"; "append"; "buffer.Reset"; "buffer.WriteRune"].
Proof. reflexivity. Qed.

(* transferTo's switch is Model.transfer_to's match *)
Definition transfer_table : list (list string * string) :=
  [(["upper"], "strings.ToUpper(v)"); (["lower"], "strings.ToLower(v)"); (["title"], "strings.Title(v)"); ([], "v")].
Lemma link_transfer_cases : C20_Gen.transfer_cases = transfer_table.
Proof. reflexivity. Qed.

(* getStyle's switch: the three comparisons of Model.get_style, in this order *)
Lemma link_getstyle_cases : map fst C20_Gen.getstyle_cases =
  [["strings.ToLower(compare)"]; ["strings.ToUpper(compare)"]; ["strings.Title(compare)"]; []].
Proof. reflexivity. Qed.

(* ---- stringx skeletons ---- *)
Lemma link_tocamel_calls : C20_Gen.tocamel_calls =
  ["return"; "s.splitBy"; "From(item).Title"; "append"; "strings.Join"; "return"].
Proof. reflexivity. Qed.

Lemma link_tosnake_calls : C20_Gen.tosnake_calls =
  ["s.splitBy"; "From(item).ToLower"; "append"; "strings.Join"; "return"].
Proof. reflexivity. Qed.

Lemma link_title_calls : C20_Gen.title_calls =
  ["s.IsEmptyOrSpace"; "return"; "cases.Title(language.English,cases.NoLower).String"; "return"].
Proof. reflexivity. Qed.

Lemma link_splitby_calls : C20_Gen.splitby_calls =
  ["s.IsEmptyOrSpace"; "return"; "new"; "fn"; "buffer.Len"; "buffer.String"; "append"; "buffer.Reset";
   "buffer.WriteRune"; "buffer.WriteRune"; "buffer.Len"; "buffer.String"; "append"; "return"].
Proof. reflexivity. Qed.

Lemma link_untitle_calls : C20_Gen.untitle_calls =
  ["s.IsEmptyOrSpace"; "return"; "rune"; "unicode.IsUpper"; "unicode.IsLower"; "return";
   "unicode.ToLower"; "string"; "return"].
Proof. reflexivity. Qed.

Lemma link_newconfig_calls : C20_Gen.newconfig_calls = ["len"; "validate"; "return"].
Proof. reflexivity. Qed.

Lemma link_validate_calls : C20_Gen.validate_calls = ["strings.TrimSpace"; "len"; "errors.New"; "return"; "return"].
Proof. reflexivity. Qed.

Local Close Scope string_scope.

(* config.DefaultFormat is the model's and the Spec's default template *)
Lemma link_default_const : bytes_of_string C20_Gen.DefaultFormat = default_format /\
                           bytes_of_string C20_Gen.DefaultFormat = default_template.
Proof. split; reflexivity. Qed.

(* config.DefaultFormat ("godesigner") is an accepted template: every word lower-cased, nothing in between *)
Lemma link_default_format : forall U content,
  file_naming_format U (bytes_of_string C20_Gen.DefaultFormat) content =
  Ok (join [] (map (to_lower U) (words content))).
Proof.
  intros U content. rewrite fnf_spec.
  assert (E : spec_format U (bytes_of_string C20_Gen.DefaultFormat) content =
              Some ([] ++ join [] (styled U CLower CLower (words content)) ++ [])) by reflexivity.
  rewrite E. cbn [app]. rewrite app_nil_r. f_equal. f_equal. unfold styled. destruct (words content); reflexivity.
Qed.

(* ---- the model's search for the flags is the Spec's search for the words ---- *)
Lemma link_index_go t : index (bytes_of_string C20_Gen.flagGo) (upper_ascii t) = first_occ w_go t.
Proof. exact (index_go t). Qed.
Lemma link_index_designer t : index (bytes_of_string C20_Gen.flagDesigner) (upper_ascii t) = first_occ w_designer t.
Proof. exact (index_designer t). Qed.

(* NewConfig's body: one composite literal &Config{NamingFormat: format}, no package-level state *)
Lemma link_to_sop o : to_sop o = sop_of o.
Proof. destruct o; reflexivity. Qed.

(* `meets` decides `agrees` on what the driver can observe *)
Lemma meets_agrees r e o : agrees r e -> res_matches r o = true -> meets e o = true.
Proof.
  destruct e as [s| |]; cbn [agrees meets].
  - intros -> H. destruct o; cbn in *; try discriminate. exact H.
  - intros [k ->] H. destruct o; cbn in *; try discriminate. reflexivity.
  - intros -> H. destruct o as [|k m|]; [discriminate H| |discriminate H].
    change (Nat.eqb err_handle k = true) in H. apply Nat.eqb_eq in H. subst k. reflexivity.
Qed.

(* a history on which the model reproduces the observations also passes the Spec's history check *)
Lemma history_model_implies_spec U ops os :
  all2 res_matches (hrun U [] ops) os = true -> all2 meets (expected_all U [] (map to_sop ops)) os = true.
Proof.
  rewrite (map_ext _ _ link_to_sop). pose proof (hrun_refines U ops [] [] hinv_nil) as F. revert os.
  induction F as [|r e rs es Ha _ IH]; intros [|o os]; cbn [all2]; try discriminate; [reflexivity|].
  intro H. apply andb_true_iff in H as [H1 H2]. rewrite (meets_agrees _ _ _ Ha H1). apply IH. exact H2.
Qed.

(* ---- soundness of the executable checkers used by Exec.spec_ok ---- *)
Lemma obs_eqb_eq a b : obs_eqb a b = true -> a = b.
Proof.
  assert (E : forall x y, str_eqb x y = true -> x = y).
  { intros x y. apply (list_eqb_eq N.eqb). intros; apply N.eqb_eq. }
  destruct a, b; simpl; intro H; try discriminate; try reflexivity.
  - f_equal. apply E. exact H.
  - apply andb_true_iff in H as [H1 H2]. apply Nat.eqb_eq in H1. f_equal; [exact H1|apply E; exact H2].
Qed.

(* spec_ok accepts a case only if the observed FileNamingFormat result is the one the Spec prescribes,
   was the same both times and is not a panic, the conversions returned, and a round-trip identifier
   came back unchanged *)
Lemma spec_ok_sound c : spec_ok c = true ->
  c_fmt c <> OPanic /\ c_fmt c = c_fmt2 c /\
  (forall r, spec_format (unicode_of c) (c_tmpl c) (c_content c) = Some r -> c_fmt c = OOk r) /\
  (spec_format (unicode_of c) (c_tmpl c) (c_content c) = None -> exists k m, c_fmt c = OErr k m) /\
  (exists a b d, c_camel c = OOk a /\ c_snake c = OOk b /\ c_rt c = OOk d) /\
  (is_ident (c_content c) = true -> c_rt c = OOk (c_content c)) /\
  c_cfg c <> OPanic /\ c_cfgfmt c <> OPanic /\
  (forall f, c_cfg c = OOk f -> f = effective_template (c_tmpl c)) /\
  (forall r, spec_configured (unicode_of c) (c_tmpl c) (c_content c) = Some r -> c_cfgfmt c = OOk r) /\
  (spec_configured (unicode_of c) (c_tmpl c) (c_content c) = None -> exists k m, c_cfgfmt c = OErr k m).
Proof.
  unfold spec_ok. intro H. repeat (apply andb_true_iff in H; destruct H as [H ?]).
  split; [|split; [|split; [|split; [|split; [|split; [|split; [|split; [|split; [|split]]]]]]]]].
  - destruct (c_fmt c); simpl in H; congruence.
  - apply obs_eqb_eq. assumption.
  - intros r Hr. rewrite Hr in *. apply obs_eqb_eq. assumption.
  - intro Hn. rewrite Hn in *. destruct (c_fmt c); try discriminate; eauto.
  - destruct (c_camel c), (c_snake c), (c_rt c); try discriminate. do 3 eexists. split; [|split]; reflexivity.
  - intro Hi. rewrite Hi in *. apply obs_eqb_eq. assumption.
  - destruct (c_cfg c); simpl in *; congruence.
  - destruct (c_cfgfmt c); simpl in *; congruence.
  - intros f Hf. rewrite Hf in *. apply (list_eqb_eq N.eqb); [intros; apply N.eqb_eq|assumption].
  - intros r Hr. rewrite Hr in *. apply obs_eqb_eq. assumption.
  - intro Hn. rewrite Hn in *. destruct (c_cfgfmt c); try discriminate; eauto.
Qed.
