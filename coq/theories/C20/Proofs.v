(* C20 Proofs: the transcribed generator code (Model) computes what the Spec prescribes. *)
From God Require Import Base.Prelude C20.Str C20.Model C20.Spec.
Local Open Scope N_scope.

(* ---------- lists ---------- *)
Lemma find_map_S (f : nat -> bool) l : find f (map S l) = option_map S (find (fun i => f (S i)) l).
Proof. induction l as [|a r IH]; simpl; [reflexivity|]. destruct (f (S a)); [reflexivity|exact IH]. Qed.

Lemma find_ext' {A} (f g : A -> bool) l : (forall a, In a l -> f a = g a) -> find f l = find g l.
Proof. induction l as [|a r IH]; simpl; intro H; [reflexivity|].
  rewrite (H a) by auto. destruct (g a); [reflexivity|]. apply IH. intros; apply H; auto. Qed.

Lemma find_seq_some (f : nat -> bool) n i : find f (seq 0 n) = Some i ->
  f i = true /\ (i < n)%nat /\ forall j, (j < i)%nat -> f j = false.
Proof.
  assert (G : forall n s i, find f (seq s n) = Some i ->
             f i = true /\ (s <= i < s + n)%nat /\ forall j, (s <= j < i)%nat -> f j = false).
  { clear. induction n as [|n IH]; simpl; intros s i H; [discriminate|].
    destruct (f s) eqn:E.
    - inversion H; subst. split; [assumption|]. split; [lia|]. intros; lia.
    - apply IH in H as (H1 & H2 & H3). split; [assumption|]. split; [lia|].
      intros j Hj. destruct (Nat.eq_dec j s) as [->|]; [assumption|]. apply H3. lia. }
  intro H. apply G in H as (H1 & H2 & H3). split; [assumption|]. split; [lia|]. intros; apply H3; lia.
Qed.

Lemma find_seq_none (f : nat -> bool) n : find f (seq 0 n) = None -> forall j, (j < n)%nat -> f j = false.
Proof.
  intros H j Hj. destruct (f j) eqn:E; [|reflexivity]. exfalso.
  assert (In j (seq 0 n)) by (apply in_seq; lia).
  eapply find_none in H; eauto. congruence.
Qed.

Lemma nth_error_skipn' {A} (l : list A) i k : nth_error (skipn i l) k = nth_error l (i + k).
Proof. revert l. induction i as [|i IH]; intros [|a l]; simpl; auto. destruct k; reflexivity. Qed.

Lemma skipn_skipn' {A} x y (l : list A) : skipn x (skipn y l) = skipn (y + x) l.
Proof. revert l. induction y as [|y IH]; intros l; [reflexivity|]. destruct l as [|a l]; simpl; [apply skipn_nil|apply IH]. Qed.

(* ---------- is_prefix / index ---------- *)
Lemma is_prefix_nth p s : is_prefix p s = true ->
  forall k, (k < length p)%nat -> nth_error s k = nth_error p k.
Proof.
  revert s. induction p as [|a p IH]; intros s H k Hk; simpl in *; [lia|].
  destruct s as [|b s]; [discriminate|]. apply andb_true_iff in H as [E H]. apply N.eqb_eq in E. subst b.
  destruct k; simpl; [reflexivity|]. apply IH; [assumption|lia].
Qed.

Lemma is_prefix_length p s : is_prefix p s = true -> (length p <= length s)%nat.
Proof. revert s. induction p as [|a p IH]; intros [|b s] H; simpl in *; try lia; try discriminate.
  apply andb_true_iff in H as [_ H]. apply IH in H. lia. Qed.

Lemma is_prefix_firstn p s : is_prefix p s = true -> firstn (length p) s = p.
Proof. revert s. induction p as [|a p IH]; intros [|b s] H; simpl in *; try reflexivity; try discriminate.
  apply andb_true_iff in H as [E H]. apply N.eqb_eq in E. subst. f_equal. auto. Qed.

Lemma is_prefix_app p s : is_prefix p (p ++ s) = true.
Proof. induction p; simpl; [reflexivity|]. rewrite N.eqb_refl. assumption. Qed.

(* strings.Index is "the first offset at which the pattern is a prefix of the rest" *)
Lemma index_find p s : index p s = find (fun i => is_prefix p (skipn i s)) (seq 0 (S (length s))).
Proof.
  induction s as [|b t IH].
  - simpl. destruct (is_prefix p []); reflexivity.
  - cbn [index]. cbn [length]. rewrite <- cons_seq. cbn [find skipn].
    destruct (is_prefix p (b :: t)); [reflexivity|].
    rewrite <- seq_shift, find_map_S. rewrite IH. reflexivity.
Qed.

Lemma index_some p s i : index p s = Some i ->
  is_prefix p (skipn i s) = true /\ (i <= length s)%nat /\ forall j, (j < i)%nat -> is_prefix p (skipn j s) = false.
Proof. rewrite index_find. intro H. apply find_seq_some in H as (H1 & H2 & H3). repeat split; auto. lia. Qed.

Lemma index_bound p s i : index p s = Some i -> (i + length p <= length s)%nat.
Proof. intro H. apply index_some in H as (H & Hi & _). apply is_prefix_length in H. rewrite skipn_length in H. lia. Qed.

(* ---------- ASCII case folding: "GO" in upperASCII(t)  <->  "go" in fold_lower(t) ---------- *)
Lemma fold_char a b : is_ascii_lower a = true -> (ascii_upper a =? ascii_upper b) = (a =? ascii_lower b).
Proof.
  intro Ha. unfold ascii_upper, ascii_lower. rewrite Ha. unfold is_ascii_lower, is_ascii_upper in *.
  destruct ((97 <=? b) && (b <=? 122)) eqn:E1, ((65 <=? b) && (b <=? 90)) eqn:E2; lia.
Qed.

Lemma is_prefix_fold w s : forallb is_ascii_lower w = true ->
  is_prefix (map ascii_upper w) (map ascii_upper s) = is_prefix w (map ascii_lower s).
Proof.
  revert s. induction w as [|a w IH]; intros s H; [reflexivity|].
  simpl in H. apply andb_true_iff in H as [Ha H]. destruct s as [|b s]; [reflexivity|].
  cbn [map is_prefix]. rewrite fold_char by assumption. rewrite IH by assumption. reflexivity.
Qed.

Lemma first_occ_index w t : forallb is_ascii_lower w = true ->
  first_occ w t = index (map ascii_upper w) (upper_ascii t).
Proof.
  intro Hw. rewrite index_find. unfold first_occ, upper_ascii. rewrite map_length.
  apply find_ext'. intros i _. unfold matches_at, fold_lower. rewrite skipn_map. symmetry. apply is_prefix_fold. assumption.
Qed.

Lemma index_go t : index flag_go (upper_ascii t) = first_occ w_go t.
Proof. symmetry. apply (first_occ_index w_go). reflexivity. Qed.
Lemma index_designer t : index flag_designer (upper_ascii t) = first_occ w_designer t.
Proof. symmetry. apply (first_occ_index w_designer). reflexivity. Qed.

(* ---------- the two located words never overlap and lie inside the template ---------- *)
Lemma located_bounds t ig id :
  index flag_go (upper_ascii t) = Some ig -> index flag_designer (upper_ascii t) = Some id ->
  Nat.ltb id ig = false -> (ig + 2 <= id /\ id + 8 <= length t)%nat.
Proof.
  intros Hg Hd Hlt. apply Nat.ltb_ge in Hlt.
  pose proof (index_bound _ _ _ Hd) as Bd. unfold upper_ascii in Bd. rewrite map_length in Bd. simpl in Bd.
  apply index_some in Hg as (Pg & _ & _). apply index_some in Hd as (Pd & _ & _).
  pose proof (is_prefix_nth _ _ Pg 0%nat) as G0. pose proof (is_prefix_nth _ _ Pg 1%nat) as G1.
  pose proof (is_prefix_nth _ _ Pd 0%nat) as D0.
  rewrite nth_error_skipn' in G0, G1, D0. rewrite Nat.add_0_r in G0, D0. simpl in G0, G1, D0.
  specialize (G0 ltac:(lia)). specialize (G1 ltac:(lia)). specialize (D0 ltac:(lia)).
  split; [|lia].
  destruct (Nat.eq_dec id ig) as [->|]; [rewrite G0 in D0; discriminate|].
  destruct (Nat.eq_dec id (ig + 1)) as [->|]; [rewrite G1 in D0; discriminate|]. lia.
Qed.

(* ---------- getStyle on the located words = the Spec's casing_of ---------- *)
Definition style_of (c : casing) : style :=
  match c with CLower => Lower | CUpper => Upper | CTitle => Title end.

Definition style_result (w : str) : result style :=
  match casing_of w with Some c => Ok (style_of c) | None => Err err_style end.

Lemma upper_cases b c : ascii_upper b = c -> is_ascii_upper c = true -> b = c \/ b = c + 32.
Proof. unfold ascii_upper, is_ascii_upper, is_ascii_lower. intros H Hc.
  destruct ((97 <=? b) && (b <=? 122)) eqn:E; lia. Qed.

Ltac split_cases :=
  repeat match goal with
         | H : ascii_upper ?b = _ |- _ => apply upper_cases in H; [destruct H; subst b | reflexivity]
         end.

Lemma get_style_go U fg : map ascii_upper fg = flag_go -> get_style U fg = style_result fg.
Proof.
  intro H. destruct fg as [|b1 [|b2 [|? ?]]]; try discriminate H.
  unfold flag_go in H. cbn [map] in H. injection H as H1 H2.
  split_cases; vm_compute; reflexivity.
Qed.

Lemma get_style_designer U fd : map ascii_upper fd = flag_designer -> get_style U fd = style_result fd.
Proof.
  intro H. destruct fd as [|b1 [|b2 [|b3 [|b4 [|b5 [|b6 [|b7 [|b8 [|? ?]]]]]]]]]; try discriminate H.
  unfold flag_designer in H. cbn [map] in H. injection H as H1 H2 H3 H4 H5 H6 H7 H8.
  split_cases; vm_compute; reflexivity.
Qed.

(* ---------- split (ReadRune loop with a buffer) = words (structural definition) ---------- *)
Lemma encode_rune_nonempty r : nonempty (encode_rune r) = true.
Proof. unfold encode_rune.
  destruct (r <? 128); [reflexivity|]. destruct (r <? 2048); [reflexivity|].
  destruct ((1114111 <? r) || ((55296 <=? r) && (r <=? 57343))); [reflexivity|].
  destruct (r <? 65536); reflexivity. Qed.

Lemma nonempty_app a b : nonempty (a ++ b) = nonempty a || nonempty b.
Proof. destruct a; simpl; [reflexivity|reflexivity]. Qed.

Lemma nonempty_encode_all c : nonempty (encode_all c) = nonempty c.
Proof. destruct c as [|r c]; [reflexivity|]. unfold encode_all. simpl. rewrite nonempty_app, encode_rune_nonempty. reflexivity. Qed.

Lemma filter_nonempty_map l : filter nonempty (map encode_all l) = map encode_all (filter nonempty l).
Proof. induction l as [|c l IH]; simpl; [reflexivity|]. rewrite nonempty_encode_all.
  destruct (nonempty c); simpl; rewrite IH; reflexivity. Qed.

Lemma chunks_cons rs : exists c cs, chunks rs = c :: cs.
Proof. induction rs as [|r t (c & cs & E)]; simpl; [eauto|]. rewrite E.
  destruct (r =? 95); [eauto|]. destruct (is_ascii_upper r); eauto. Qed.

Lemma flush_spec buf acc : flush buf acc = acc ++ filter nonempty [buf].
Proof. unfold flush. simpl. destruct (nonempty buf); [reflexivity|]. rewrite app_nil_r. reflexivity. Qed.

Lemma split_loop_chunks rs : forall buf acc c0 cs, chunks rs = c0 :: cs ->
  split_loop rs buf acc = acc ++ filter nonempty ((buf ++ encode_all c0) :: map encode_all cs).
Proof.
  induction rs as [|r t IH]; intros buf acc c0 cs E.
  - simpl in E. inversion E; subst. cbn [split_loop encode_all flat_map map]. rewrite app_nil_r. apply flush_spec.
  - cbn [chunks] in E. destruct (chunks_cons t) as (c & cs' & Et). rewrite Et in E. cbn [split_loop].
    unfold is_ascii_upper in E.
    destruct (r =? 95).
    + inversion E; subst. rewrite (IH _ _ _ _ Et). rewrite flush_spec, <- app_assoc. f_equal.
      cbn [encode_all flat_map map filter app]. rewrite app_nil_r. destruct (nonempty buf); reflexivity.
    + destruct ((65 <=? r) && (r <=? 90)).
      * inversion E; subst. rewrite (IH _ _ _ _ Et). rewrite flush_spec, <- app_assoc. f_equal.
        cbn [encode_all flat_map map filter app]. rewrite app_nil_r. destruct (nonempty buf); reflexivity.
      * inversion E; subst. rewrite (IH _ _ _ _ Et). f_equal.
        cbn [encode_all flat_map]. rewrite <- app_assoc. reflexivity.
Qed.

Lemma split_words content : split content = words content.
Proof.
  unfold split, words. destruct (chunks_cons (decode_all content)) as (c & cs & E).
  rewrite (split_loop_chunks _ _ _ _ _ E). rewrite E. cbn [app]. rewrite <- filter_nonempty_map. reflexivity.
Qed.

Lemma transfer_all_S U i ws gs ds : transfer_all U (S i) ws gs ds = map (fun w => transfer_to U w ds) ws.
Proof. revert i. induction ws as [|w r IH]; intro i; simpl; [reflexivity|]. rewrite IH. reflexivity. Qed.

Lemma transfer_to_casing U w c : transfer_to U w (style_of c) = in_casing U c w.
Proof. destruct c; reflexivity. Qed.

Lemma transfer_all_styled U ws cg cd :
  transfer_all U 0 ws (style_of cg) (style_of cd) = styled U cg cd ws.
Proof. destruct ws as [|w r]; [reflexivity|]. cbn [transfer_all styled Nat.eqb]. rewrite transfer_all_S, transfer_to_casing.
  f_equal. apply map_ext. intro. apply transfer_to_casing. Qed.

(* ---------- FileNamingFormat = the Spec ---------- *)
Definition reject_code (t : str) : nat :=
  match parse t with None => err_naming | Some _ => err_style end.

Lemma located_word t i p : is_prefix p (skipn i (upper_ascii t)) = true ->
  map ascii_upper (firstn (length p) (skipn i t)) = p.
Proof. intro H. rewrite <- firstn_map, <- skipn_map. apply is_prefix_firstn. exact H. Qed.

Lemma slice_ok s lo hi : (lo <= hi)%nat -> (hi <= length s)%nat -> slice s lo hi = Ok (firstn (hi - lo) (skipn lo s)).
Proof. intros H1 H2. unfold slice. apply Nat.leb_le in H1, H2. rewrite H1, H2. reflexivity. Qed.

Lemma slice_from_ok s lo : (lo <= length s)%nat -> slice_from s lo = Ok (skipn lo s).
Proof. intro H. unfold slice_from. apply Nat.leb_le in H. rewrite H. reflexivity. Qed.

Lemma fnf_spec U t content :
  file_naming_format U t content =
  match spec_format U t content with Some r => Ok r | None => Err (reject_code t) end.
Proof.
  unfold file_naming_format, spec_format, reject_code, parse.
  destruct (index flag_go (upper_ascii t)) as [ig|] eqn:Eg; rewrite <- index_go, Eg;
    [|reflexivity].
  destruct (index flag_designer (upper_ascii t)) as [id|] eqn:Ed; rewrite <- index_designer, Ed;
    [|reflexivity].
  destruct (Nat.ltb id ig) eqn:Elt.
  - apply Nat.ltb_lt in Elt. assert (Nat.ltb ig id = false) as -> by (apply Nat.ltb_ge; lia). reflexivity.
  - destruct (located_bounds t ig id Eg Ed Elt) as [B1 B2].
    assert (Nat.ltb ig id = true) as -> by (apply Nat.ltb_lt; lia).
    rewrite slice_ok by lia. cbn [bind].
    rewrite slice_ok by lia. cbn [bind].
    rewrite slice_ok by lia. cbn [bind].
    rewrite slice_ok by lia. cbn [bind].
    rewrite slice_from_ok by lia. cbn [bind].
    replace (ig + 2 - ig)%nat with 2%nat by lia. replace (id + 8 - id)%nat with 8%nat by lia.
    rewrite Nat.sub_0_r. cbn [skipn].
    apply index_some in Eg as (Pg & _ & _). apply index_some in Ed as (Pd & _ & _).
    apply located_word in Pg, Pd. cbn [length flag_go flag_designer] in Pg, Pd.
    rewrite (get_style_go U _ Pg). cbn [p_go p_designer].
    unfold style_result. destruct (casing_of (firstn 2 (skipn ig t))) as [cg|]; cbn [bind]; [|reflexivity].
    rewrite (get_style_designer U _ Pd).
    unfold style_result. destruct (casing_of (firstn 8 (skipn id t))) as [cd|]; cbn [bind]; [|reflexivity].
    unfold do_format, render. cbn [p_prefix p_between p_suffix].
    rewrite split_words, transfer_all_styled. reflexivity.
Qed.

Lemma fnf_render U t content r : spec_format U t content = Some r -> file_naming_format U t content = Ok r.
Proof. intro H. rewrite fnf_spec, H. reflexivity. Qed.

Lemma fnf_reject U t content : spec_format U t content = None ->
  file_naming_format U t content = Err (reject_code t).
Proof. intro H. rewrite fnf_spec, H. reflexivity. Qed.

Lemma fnf_total U t content : file_naming_format U t content <> Panic.
Proof. rewrite fnf_spec. destruct (spec_format U t content); discriminate. Qed.

Lemma fnf_missing U t content : first_occ w_go t = None \/ first_occ w_designer t = None ->
  file_naming_format U t content = Err err_naming.
Proof.
  intro H. rewrite fnf_spec. unfold spec_format, reject_code, parse.
  destruct H as [-> | ->]; [reflexivity|]. destruct (first_occ w_go t); reflexivity.
Qed.

Lemma fnf_wrong_order U t content ig id :
  first_occ w_go t = Some ig -> first_occ w_designer t = Some id -> (id < ig)%nat ->
  file_naming_format U t content = Err err_naming.
Proof.
  intros Hg Hd Hlt. rewrite fnf_spec. unfold spec_format, reject_code, parse. rewrite Hg, Hd.
  assert (Nat.ltb ig id = false) as -> by (apply Nat.ltb_ge; lia). reflexivity.
Qed.

Lemma fnf_mixed U t content p : parse t = Some p ->
  casing_of (p_go p) = None \/ casing_of (p_designer p) = None ->
  file_naming_format U t content = Err err_style.
Proof.
  intros Hp H. rewrite fnf_spec. unfold spec_format, reject_code. rewrite Hp.
  destruct H as [-> | ->]; [reflexivity|]. destruct (casing_of (p_go p)); reflexivity.
Qed.

Lemma some_inj {A} (a b : A) : Some a = Some b -> a = b.
Proof. congruence. Qed.

(* the Spec's parse really is a decomposition of the template at the two words *)
Lemma parse_sound t p : parse t = Some p ->
  t = p_prefix p ++ p_go p ++ p_between p ++ p_designer p ++ p_suffix p /\
  fold_lower (p_go p) = w_go /\ fold_lower (p_designer p) = w_designer /\
  (forall j, (j < length (p_prefix p))%nat -> matches_at w_go t j = false) /\
  (forall j, (j < length (p_prefix p ++ p_go p ++ p_between p))%nat -> matches_at w_designer t j = false).
Proof.
  unfold parse. destruct (first_occ w_go t) as [ig|] eqn:Eg; [|discriminate].
  destruct (first_occ w_designer t) as [id|] eqn:Ed; [|discriminate].
  destruct (Nat.ltb ig id) eqn:Elt; [|discriminate]. intro H. apply some_inj in H. subst p. cbn [p_prefix p_go p_between p_designer p_suffix].
  pose proof Eg as Eg'. pose proof Ed as Ed'. rewrite <- index_go in Eg'. rewrite <- index_designer in Ed'.
  assert (Elt' : Nat.ltb id ig = false) by (apply Nat.ltb_lt in Elt; apply Nat.ltb_ge; lia).
  destruct (located_bounds t ig id Eg' Ed' Elt') as [B1 B2].
  unfold first_occ in Eg, Ed. apply find_seq_some in Eg as (Mg & _ & Fg). apply find_seq_some in Ed as (Md & _ & Fd).
  unfold matches_at in Mg, Md. apply is_prefix_firstn in Mg, Md. unfold fold_lower in *.
  rewrite firstn_map in Mg, Md. cbn [length w_go w_designer] in Mg, Md.
  split; [|split; [exact Mg|split; [exact Md|split]]].
  - rewrite <- (firstn_skipn ig t) at 1. f_equal.
    rewrite <- (firstn_skipn 2 (skipn ig t)) at 1. f_equal. rewrite skipn_skipn'.
    rewrite <- (firstn_skipn (id - (ig + 2)) (skipn (ig + 2) t)) at 1. f_equal. rewrite skipn_skipn'.
    replace (ig + 2 + (id - (ig + 2)))%nat with id by lia.
    rewrite <- (firstn_skipn 8 (skipn id t)) at 1. f_equal. rewrite skipn_skipn'. reflexivity.
  - intros j Hj. apply Fg. rewrite firstn_length in Hj. lia.
  - intros j Hj. apply Fd. rewrite !app_length, !firstn_length, !skipn_length in Hj. lia.
Qed.

(* ---------- ASCII strings: decoding, encoding and the case maps are bytewise ---------- *)
Definition ascii (s : str) : bool := forallb (fun b => b <? 128) s.

Lemma decode_fuel_ascii s : ascii s = true -> forall n, (length s <= n)%nat -> decode_fuel n s = s.
Proof.
  induction s as [|b t IH]; intros H n Hn.
  - destruct n; reflexivity.
  - simpl in H. apply andb_true_iff in H as [Hb Ht]. destruct n as [|n]; [simpl in Hn; lia|].
    cbn [decode_fuel]. unfold decode_rune. rewrite Hb. cbn [fst snd skipn]. f_equal. apply IH; [assumption|simpl in Hn; lia].
Qed.

Lemma decode_all_ascii s : ascii s = true -> decode_all s = s.
Proof. intro H. apply decode_fuel_ascii; [assumption|lia]. Qed.

Lemma encode_all_ascii s : ascii s = true -> encode_all s = s.
Proof. induction s as [|b t IH]; intro H; [reflexivity|]. simpl in H. apply andb_true_iff in H as [Hb Ht].
  unfold encode_all in *. cbn [flat_map]. unfold encode_rune at 1. rewrite Hb. rewrite IH by assumption. reflexivity. Qed.

Lemma ascii_app a b : ascii (a ++ b) = ascii a && ascii b.
Proof. apply forallb_app. Qed.

Lemma ascii_lower_lt b : b <? 128 = true -> ascii_lower b <? 128 = true.
Proof. unfold ascii_lower, is_ascii_upper. intro. destruct ((65 <=? b) && (b <=? 90)) eqn:E; lia. Qed.

Lemma to_lower_ascii U s : ascii s = true -> to_lower U s = map ascii_lower s.
Proof.
  intro H. unfold to_lower, map_runes. rewrite decode_all_ascii by assumption.
  assert (E : map (to_lower_rune U) s = map ascii_lower s).
  { apply map_ext_in. intros b Hb. unfold to_lower_rune. unfold ascii in H. rewrite forallb_forall in H. rewrite (H b Hb). reflexivity. }
  rewrite E. apply encode_all_ascii. unfold ascii in *. rewrite forallb_forall in *. intros x Hx.
  apply in_map_iff in Hx as (b & <- & Hb). apply ascii_lower_lt. auto.
Qed.

(* ---------- the identifiers of the round-trip clause ---------- *)
Definition lower_or_digit (b : N) : bool := is_ascii_lower b || is_ascii_digit b.
Definition cap (w : str) : str := match w with c :: t => ascii_upper c :: t | [] => [] end.

Lemma lower_or_digit_facts b : lower_or_digit b = true ->
  b <? 128 = true /\ (b =? 95) = false /\ is_ascii_upper b = false /\ is_ascii_space b = false /\ ascii_lower b = b.
Proof. unfold lower_or_digit, is_ascii_lower, is_ascii_digit, is_ascii_upper, is_ascii_space, ascii_lower, is_ascii_upper.
  intro H. destruct ((65 <=? b) && (b <=? 90)) eqn:E; repeat split; lia. Qed.

Lemma lower_word_inv w : lower_word w = true ->
  exists c t, w = c :: t /\ is_ascii_lower c = true /\ forallb lower_or_digit t = true /\ forallb lower_or_digit w = true.
Proof. destruct w as [|c t]; [discriminate|]. simpl. intro H. apply andb_true_iff in H as [Hc Ht].
  exists c, t. repeat split; auto. simpl. unfold lower_or_digit at 1. rewrite Hc. exact Ht. Qed.

Lemma lod_ascii w : forallb lower_or_digit w = true -> ascii w = true.
Proof. unfold ascii. rewrite !forallb_forall. intros H b Hb. apply lower_or_digit_facts. auto. Qed.

(* splitBy's loop over a stretch of ASCII runes on which fn is false: all go to the buffer *)
Lemma split_by_run fn rm w : ascii w = true -> forallb (fun b => negb (fn b)) w = true ->
  forall rest buf acc, split_by_loop fn rm (w ++ rest) buf acc = split_by_loop fn rm rest (buf ++ w) acc.
Proof.
  induction w as [|b t IH]; intros Ha Hf rest buf acc; [rewrite app_nil_r; reflexivity|].
  simpl in Ha, Hf. apply andb_true_iff in Ha as [Hb Ha]. apply andb_true_iff in Hf as [Hfb Hf].
  cbn [app split_by_loop]. apply negb_true_iff in Hfb. rewrite Hfb. unfold encode_rune. rewrite Hb.
  rewrite IH by assumption. rewrite <- app_assoc. reflexivity.
Qed.

Lemma join_cons2 sep a b r : join sep (a :: b :: r) = a ++ sep ++ join sep (b :: r).
Proof. reflexivity. Qed.

(* ToCamel's split at '_' recovers the words *)
Lemma camel_split ws : forallb lower_word ws = true -> ws <> [] ->
  forall acc, split_by_loop (fun r => r =? 95) true (join [95] ws) [] acc = acc ++ ws.
Proof.
  induction ws as [|w r IH]; intros H Hne acc; [congruence|].
  simpl in H. apply andb_true_iff in H as [Hw Hr].
  destruct (lower_word_inv w Hw) as (c & t & Ew & Hc & Ht & Hall).
  assert (Hrun : forallb (fun b => negb (b =? 95)) w = true).
  { rewrite forallb_forall in *. intros b Hb. apply negb_true_iff. apply lower_or_digit_facts. auto. }
  destruct r as [|w2 r].
  - cbn [join]. rewrite <- (app_nil_r w) at 1. rewrite split_by_run by (auto using lod_ascii).
    cbn [split_by_loop app]. unfold flush. rewrite Ew. reflexivity.
  - rewrite join_cons2. rewrite split_by_run by (auto using lod_ascii).
    cbn [app split_by_loop]. rewrite N.eqb_refl. rewrite IH by (auto; discriminate).
    unfold flush. rewrite Ew. cbn [nonempty]. rewrite <- app_assoc. reflexivity.
Qed.

Lemma xtitle_ascii_mid t : forallb lower_or_digit t = true -> xtitle_ascii true t = t.
Proof.
  induction t as [|b t IH]; intro H; [reflexivity|]. simpl in H. apply andb_true_iff in H as [Hb Ht].
  cbn [xtitle_ascii].
  assert (Hm : xt_mid b = false).
  { unfold xt_mid. unfold lower_or_digit, is_ascii_lower, is_ascii_digit in Hb. lia. }
  assert (Hk : (if is_ascii_letter b then true else if xt_break b then false else true) = true).
  { destruct (is_ascii_letter b) eqn:El; [reflexivity|]. unfold xt_break. rewrite El.
    unfold lower_or_digit in Hb. unfold is_ascii_letter in El. apply orb_false_iff in El as [_ El]. rewrite El in Hb.
    simpl in Hb. rewrite Hb. reflexivity. }
  rewrite Hm, Hk. cbn [andb]. destruct (is_ascii_letter b); (destruct t; [reflexivity|]; rewrite IH by assumption; reflexivity).
Qed.

Lemma sx_title_word U w : lower_word w = true -> sx_title U w = cap w.
Proof.
  intro Hw. destruct (lower_word_inv w Hw) as (c & t & -> & Hc & Ht & Hall).
  pose proof (lod_ascii _ Hall) as Ha.
  unfold sx_title, is_empty_or_space. rewrite decode_all_ascii by assumption.
  pose proof Ha as Ha'. cbn [ascii forallb] in Ha'. apply andb_true_iff in Ha' as [Hc128 _].
  cbn [forallb]. unfold is_space_rune at 1. rewrite Hc128.
  assert (is_ascii_space c = false) as -> by (apply lower_or_digit_facts; unfold lower_or_digit; rewrite Hc; reflexivity).
  cbn [andb]. unfold xtitle. unfold ascii in Ha. rewrite Ha.
  cbn [xtitle_ascii cap]. unfold is_ascii_letter. rewrite Hc, orb_true_r.
  assert (Hm : xt_mid c = false) by (unfold xt_mid; unfold is_ascii_lower in Hc; lia).
  rewrite Hm. cbn [andb]. f_equal. destruct t; [reflexivity|]. apply xtitle_ascii_mid. assumption.
Qed.

Lemma cap_facts w : lower_word w = true ->
  exists C t, cap w = C :: t /\ is_ascii_upper C = true /\ C <? 128 = true /\ forallb lower_or_digit t = true /\
              map ascii_lower (cap w) = w.
Proof.
  intro Hw. destruct (lower_word_inv w Hw) as (c & t & -> & Hc & Ht & Hall).
  exists (ascii_upper c), t. cbn [cap map]. split; [reflexivity|].
  unfold ascii_upper. rewrite Hc. unfold is_ascii_lower in Hc. unfold is_ascii_upper, ascii_lower, is_ascii_upper.
  repeat split; try lia; auto.
  assert (E : (65 <=? c - 32) && (c - 32 <=? 90) = true) by lia. rewrite E. f_equal; [lia|].
  rewrite <- (map_id t) at 2. apply map_ext_in. intros b Hb. rewrite forallb_forall in Ht.
  apply (lower_or_digit_facts b (Ht b Hb)).
Qed.

(* ToSnake's split before upper-case letters recovers the capitalised words *)
Lemma snake_split U ws : forallb lower_word ws = true ->
  forall buf acc, split_by_loop (is_upper_rune U) false (concat (map cap ws)) buf acc = flush buf acc ++ map cap ws.
Proof.
  induction ws as [|w r IH]; intros H buf acc.
  - cbn. rewrite app_nil_r. reflexivity.
  - simpl in H. apply andb_true_iff in H as [Hw Hr].
    destruct (cap_facts w Hw) as (C & t & Ec & HC & HC128 & Ht & _).
    cbn [map concat]. rewrite Ec. cbn [app split_by_loop].
    unfold is_upper_rune at 1. rewrite HC128, HC. unfold encode_rune at 1. rewrite HC128.
    rewrite split_by_run.
    + rewrite IH by assumption. unfold flush at 1. cbn [app nonempty]. rewrite <- app_assoc. reflexivity.
    + apply lod_ascii. assumption.
    + rewrite forallb_forall in *. intros b Hb. apply negb_true_iff. unfold is_upper_rune.
      destruct (lower_or_digit_facts b (Ht b Hb)) as (-> & _ & -> & _). reflexivity.
Qed.

Lemma join_ascii ws : forallb lower_word ws = true -> ascii (join [95] ws) = true.
Proof.
  induction ws as [|w r IH]; intro H; [reflexivity|]. simpl in H. apply andb_true_iff in H as [Hw Hr].
  destruct (lower_word_inv w Hw) as (c & t & Ew & Hc & Ht & Hall).
  destruct r as [|w2 r]; [cbn [join]; apply lod_ascii; assumption|].
  rewrite join_cons2, !ascii_app, (lod_ascii _ Hall), IH by assumption. reflexivity.
Qed.

Lemma concat_cap_ascii ws : forallb lower_word ws = true -> ascii (concat (map cap ws)) = true.
Proof.
  induction ws as [|w r IH]; intro H; [reflexivity|]. simpl in H. apply andb_true_iff in H as [Hw Hr].
  destruct (cap_facts w Hw) as (C & t & Ec & HC & HC128 & Ht & _).
  cbn [map concat]. rewrite ascii_app, IH by assumption. rewrite Ec. cbn [ascii forallb]. rewrite HC128.
  fold (ascii t). rewrite (lod_ascii _ Ht). reflexivity.
Qed.

Lemma not_space_start U c t : c <? 128 = true -> is_ascii_space c = false -> ascii t = true ->
  is_empty_or_space U (c :: t) = false.
Proof. intros Hc Hs Ht. unfold is_empty_or_space. rewrite decode_all_ascii by (cbn [ascii forallb]; rewrite Hc; exact Ht).
  cbn [forallb]. unfold is_space_rune at 1. rewrite Hc, Hs. reflexivity. Qed.

Lemma camel_of_ident U ws : forallb lower_word ws = true -> ws <> [] ->
  to_camel U (join [95] ws) = Ok (concat (map cap ws)).
Proof.
  intros H Hne. unfold to_camel, split_by. f_equal.
  pose proof (join_ascii ws H) as Ha.
  assert (Es : is_empty_or_space U (join [95] ws) = false).
  { destruct ws as [|w r]; [congruence|]. simpl in H. apply andb_true_iff in H as [Hw Hr].
    destruct (lower_word_inv w Hw) as (c & t & -> & Hc & Ht & Hall).
    match goal with |- is_empty_or_space _ ?j = _ =>
      assert (exists rest, j = c :: rest) as (rest & E) by (destruct r; cbn; eauto) end.
    rewrite E in *. cbn [ascii forallb] in Ha. apply andb_true_iff in Ha as [Hc128 Hrest].
    apply not_space_start; auto. apply lower_or_digit_facts. unfold lower_or_digit. rewrite Hc. reflexivity. }
  rewrite Es, decode_all_ascii by assumption. rewrite camel_split by assumption. cbn [app].
  f_equal. apply map_ext_in. intros w Hw. apply sx_title_word. rewrite forallb_forall in H. auto.
Qed.

Lemma snake_of_caps U ws : forallb lower_word ws = true -> ws <> [] ->
  to_snake U (concat (map cap ws)) = Ok (join [95] ws).
Proof.
  intros H Hne. unfold to_snake, split_by. f_equal.
  pose proof (concat_cap_ascii ws H) as Ha.
  assert (Es : is_empty_or_space U (concat (map cap ws)) = false).
  { destruct ws as [|w r]; [congruence|]. pose proof H as H'. simpl in H'. apply andb_true_iff in H' as [Hw Hr].
    destruct (cap_facts w Hw) as (C & t & Ec & HC & HC128 & Ht & _).
    cbn [map concat] in *. rewrite Ec in *. cbn [app] in *. cbn [ascii forallb] in Ha. apply andb_true_iff in Ha as [_ Hrest].
    apply not_space_start; auto. unfold is_ascii_upper in HC. unfold is_ascii_space. lia. }
  rewrite Es, decode_all_ascii by assumption. rewrite snake_split by assumption. cbn [flush nonempty app].
  rewrite map_map. f_equal. rewrite <- (map_id ws) at 2. apply map_ext_in. intros w Hw.
  rewrite forallb_forall in H. specialize (H w Hw). destruct (cap_facts w H) as (C & t & Ec & HC & HC128 & Ht & El).
  rewrite to_lower_ascii; [exact El|]. rewrite Ec. cbn [ascii forallb]. rewrite HC128. fold (ascii t). rewrite (lod_ascii _ Ht). reflexivity.
Qed.

Lemma roundtrip_words U ws : forallb lower_word ws = true -> ws <> [] ->
  snake_of_camel U (join [95] ws) = Ok (join [95] ws).
Proof. intros H Hne. unfold snake_of_camel. rewrite camel_of_ident by assumption. cbn [bind]. apply snake_of_caps; assumption. Qed.

Lemma fields_cons s : exists f fs, fields s = f :: fs.
Proof. induction s as [|b t (f & fs & E)]; simpl; [eauto|]. rewrite E. destruct (b =? 95); eauto. Qed.

Lemma join_fields s : join [95] (fields s) = s.
Proof.
  induction s as [|b t IH]; [reflexivity|]. cbn [fields]. destruct (fields_cons t) as (f & fs & E). rewrite E in *.
  destruct (N.eqb_spec b 95) as [->|Hne].
  - rewrite join_cons2, IH. reflexivity.
  - destruct fs as [|g fs]; [cbn [join] in *; congruence|]. rewrite join_cons2 in *. rewrite <- app_comm_cons. f_equal. exact IH.
Qed.

Lemma roundtrip_ident U s : is_ident s = true -> snake_of_camel U s = Ok s.
Proof.
  unfold is_ident. intro H. rewrite <- (join_fields s) at 1 2.
  apply roundtrip_words; [assumption|]. destruct (fields_cons s) as (f & fs & ->). discriminate.
Qed.

Lemma camel_total U s : exists r, to_camel U s = Ok r.
Proof. unfold to_camel. eauto. Qed.
Lemma snake_total U s : exists r, to_snake U s = Ok r.
Proof. unfold to_snake. eauto. Qed.
Lemma snake_of_camel_total U s : exists r, snake_of_camel U s = Ok r.
Proof. unfold snake_of_camel, to_camel, to_snake. cbn [bind]. eauto. Qed.

(* ---------- the Spec's words: sanity of the structural definition ---------- *)
Definition not_underscore (r : N) : bool := negb (r =? 95).
Definition chunk_wf (c : list N) : bool :=          (* no '_' ; 'A'..'Z' only in first position *)
  forallb not_underscore c && match c with [] => true | _ :: t => forallb (fun r => negb (is_ascii_upper r)) t end.
Definition head_wf (c : list N) : bool :=
  forallb (fun r => not_underscore r && negb (is_ascii_upper r)) c.

Lemma head_wf_chunk_wf c : head_wf c = true -> chunk_wf c = true.
Proof.
  unfold head_wf, chunk_wf. intro H. apply andb_true_iff. split.
  - rewrite forallb_forall in *. intros r Hr. specialize (H r Hr). apply andb_true_iff in H. tauto.
  - destruct c as [|a t]; [reflexivity|]. simpl in H. apply andb_true_iff in H as [_ H].
    rewrite forallb_forall in *. intros r Hr. specialize (H r Hr). apply andb_true_iff in H. tauto.
Qed.

Lemma chunks_concat rs : concat (chunks rs) = filter not_underscore rs.
Proof.
  induction rs as [|r t IH]; [reflexivity|]. cbn [chunks filter]. destruct (chunks_cons t) as (c & cs & E). rewrite E in *.
  unfold not_underscore at 1. destruct (r =? 95); cbn [negb]; [exact IH|].
  destruct (is_ascii_upper r); cbn [concat app] in *; rewrite IH; reflexivity.
Qed.

Lemma chunks_wf rs c0 cs : chunks rs = c0 :: cs -> head_wf c0 = true /\ forallb chunk_wf cs = true.
Proof.
  revert c0 cs. induction rs as [|r t IH]; intros c0 cs E.
  - simpl in E. inversion E. split; reflexivity.
  - cbn [chunks] in E. destruct (chunks_cons t) as (c & cs' & Et). rewrite Et in E.
    destruct (IH _ _ Et) as [Hh Hcs].
    destruct (r =? 95) eqn:E95.
    + inversion E; subst. split; [reflexivity|]. cbn [forallb]. rewrite (head_wf_chunk_wf _ Hh). exact Hcs.
    + destruct (is_ascii_upper r) eqn:Eu.
      * inversion E; subst. split; [reflexivity|]. cbn [forallb]. rewrite Hcs, andb_true_r.
        unfold chunk_wf. cbn [forallb]. unfold not_underscore at 1. rewrite E95. cbn [negb andb].
        unfold head_wf in Hh. apply andb_true_iff. split; rewrite forallb_forall in *; intros x Hx;
          specialize (Hh x Hx); apply andb_true_iff in Hh; tauto.
      * inversion E; subst. split; [|exact Hcs]. unfold head_wf in *. cbn [forallb]. rewrite Hh.
        unfold not_underscore. rewrite E95, Eu. reflexivity.
Qed.

(* the words, as rune sequences, are exactly the identifier's runes without the underscores, cut into
   non-empty pieces that contain an upper-case letter only in first position *)
Lemma words_runes content :
  let ws := filter nonempty (chunks (decode_all content)) in
  words content = map encode_all ws /\
  concat ws = filter not_underscore (decode_all content) /\
  forallb (fun c => nonempty c && chunk_wf c) ws = true.
Proof.
  cbv zeta. split; [reflexivity|]. split.
  - rewrite <- chunks_concat. generalize (chunks (decode_all content)). intro l.
    induction l as [|c l IH]; [reflexivity|]. cbn [filter concat]. destruct c; cbn [nonempty]; [exact IH|].
    cbn [concat]. rewrite IH. reflexivity.
  - destruct (chunks_cons (decode_all content)) as (c & cs & E). rewrite E.
    destruct (chunks_wf _ _ _ E) as [Hh Hcs]. apply head_wf_chunk_wf in Hh.
    assert (G : forallb chunk_wf (c :: cs) = true) by (cbn [forallb]; rewrite Hh; exact Hcs).
    revert G. generalize (c :: cs). intro l. induction l as [|x l IH]; [reflexivity|].
    cbn [forallb filter]. intro G. apply andb_true_iff in G as [G1 G2].
    destruct (nonempty x) eqn:En; [cbn [forallb]; rewrite En, G1; apply IH; exact G2 | apply IH; exact G2].
Qed.

(* the first occurrence, as a proposition *)
Lemma first_occ_spec w t i : first_occ w t = Some i <->
  (matches_at w t i = true /\ (i <= length t)%nat /\ forall j, (j < i)%nat -> matches_at w t j = false).
Proof.
  unfold first_occ. split.
  - intro H. apply find_seq_some in H as (H1 & H2 & H3). repeat split; auto. lia.
  - intros (H1 & H2 & H3). destruct (find (matches_at w t) (seq 0 (S (length t)))) as [k|] eqn:E.
    + apply find_seq_some in E as (K1 & K2 & K3). f_equal.
      destruct (Nat.lt_trichotomy k i) as [Hlt|[->|Hgt]]; [|reflexivity|].
      * rewrite (H3 k Hlt) in K1. discriminate.
      * rewrite (K3 i Hgt) in H1. discriminate.
    + pose proof (find_seq_none _ _ E i ltac:(lia)) as F. congruence.
Qed.

Lemma first_occ_none w t : first_occ w t = None <-> forall j, (j <= length t)%nat -> matches_at w t j = false.
Proof.
  unfold first_occ. split.
  - intros H j Hj. apply (find_seq_none _ _ H). lia.
  - intro H. destruct (find (matches_at w t) (seq 0 (S (length t)))) as [k|] eqn:E; [|reflexivity].
    apply find_seq_some in E as (K1 & K2 & _). rewrite H in K1 by lia. discriminate.
Qed.

Lemma is_ident_sound s : is_ident s = true ->
  exists ws, ws <> [] /\ forallb lower_word ws = true /\ s = join [95] ws.
Proof.
  intro H. exists (fields s). split; [|split; [exact H|symmetry; apply join_fields]].
  destruct (fields_cons s) as (f & fs & ->). discriminate.
Qed.

Lemma un_title_total U s : exists r, un_title U s = Ok r.
Proof.
  unfold un_title. destruct s as [|b t].
  - cbn. eauto.
  - destruct (is_empty_or_space U (b :: t)); [eauto|].
    destruct (negb (latin1_is_upper b) && negb (latin1_is_lower b)); eauto.
Qed.

(* ---------- config.NewConfig is transparent ---------- *)
Lemma default_not_blank U : is_empty_or_space U default_format = false.
Proof. reflexivity. Qed.

Lemma new_config_nonempty U t : t <> [] ->
  new_config U t = if is_empty_or_space U t then Err err_config else Ok t.
Proof. intro H. unfold new_config. destruct t; [congruence|reflexivity]. Qed.

Lemma new_config_empty U : new_config U [] = Ok default_format.
Proof. reflexivity. Qed.

Lemma config_transparent U t content : t <> [] ->
  (is_empty_or_space U t = true -> configured_format U t content = Err err_config) /\
  (is_empty_or_space U t = false -> configured_format U t content = file_naming_format U t content).
Proof.
  intro H. unfold configured_format. rewrite new_config_nonempty by assumption.
  split; intros ->; reflexivity.
Qed.

Lemma config_empty U content : configured_format U [] content = file_naming_format U default_format content.
Proof. reflexivity. Qed.

(* whatever NewConfig lets through is the template itself (or the default for the empty one) *)
Lemma new_config_verbatim U t f : new_config U t = Ok f -> f = effective_template t.
Proof.
  unfold new_config, effective_template. destruct t as [|b t'].
  - rewrite default_not_blank. intros [= <-]. reflexivity.
  - destruct (is_empty_or_space U (b :: t')); [discriminate|]. intros [= <-]. reflexivity.
Qed.

(* the configured path either rejects or computes the Spec of the verbatim template *)
Lemma configured_spec U t content :
  configured_format U t content = Err err_config \/
  configured_format U t content =
    match spec_configured U t content with Some r => Ok r | None => Err (reject_code (effective_template t)) end.
Proof.
  unfold configured_format, spec_configured. destruct (new_config U t) as [f|e|] eqn:E.
  - right. apply new_config_verbatim in E. subst f. cbn [bind]. apply fnf_spec.
  - left. unfold new_config in E. destruct (is_empty_or_space U _); [|discriminate]. inversion E. reflexivity.
  - unfold new_config in E. destruct (is_empty_or_space U _); discriminate.
Qed.

Lemma configured_total U t content : configured_format U t content <> Panic.
Proof.
  destruct (configured_spec U t content) as [-> | ->]; [discriminate|].
  destruct (spec_configured U t content); discriminate.
Qed.

(* ---------- histories of configurations: the heap model = the per-handle look-back Spec ---------- *)
Definition sop_of (o : hop) : sop :=
  match o with HNew s => SNew s | HSet i v => SSet i v | HRead i => SRead i | HFmt i c => SFmt i c end.

Definition agrees (r : result str) (e : expect) : Prop :=
  match e with
  | EOk s => r = Ok s
  | EReject => exists k, r = Err k
  | EBadHandle => r = Err err_handle
  end.

Definition hinv (st : list str) (past : list sop) : Prop :=
  length st = created past /\ forall i, nth_error st i = held past i.

Lemma replace_nth_length {A} i (v : A) l : length (replace_nth i v l) = length l.
Proof. revert i. induction l as [|a r IH]; intros [|i]; simpl; auto. Qed.

Lemma nth_error_replace_nth {A} i (v : A) l k : (i < length l)%nat ->
  nth_error (replace_nth i v l) k = if Nat.eqb k i then Some v else nth_error l k.
Proof.
  revert i k. induction l as [|a r IH]; intros i k Hi; [simpl in Hi; lia|].
  destruct i as [|i]; destruct k as [|k]; simpl; try reflexivity.
  apply IH. simpl in Hi. lia.
Qed.

Lemma default_same : default_format = default_template.
Proof. reflexivity. Qed.

Lemma hinv_nil : hinv [] [].
Proof. split; [reflexivity|]. intros [|i]; reflexivity. Qed.

Lemma hstep_refines U st past o : hinv st past ->
  agrees (fst (hstep U st o)) (expected U past (sop_of o)) /\ hinv (snd (hstep U st o)) (sop_of o :: past).
Proof.
  intros [Hl Hn]. destruct o as [s0|i v|i|i c]; cbn [hstep sop_of expected fst snd].
  - (* NewConfig *)
    assert (Ef : match s0 with [] => default_format | _ :: _ => s0 end = effective_template s0)
      by (destruct s0; reflexivity).
    split.
    + unfold new_config. rewrite Ef. destruct (is_empty_or_space U (effective_template s0)); cbn; eauto.
    + rewrite Ef. split; [rewrite app_length; cbn [created length]; lia|].
      intro k. cbn [held]. rewrite <- Hl.
      destruct (Nat.eqb_spec k (length st)) as [->|Hne].
      * rewrite nth_error_app2 by lia. rewrite Nat.sub_diag. reflexivity.
      * destruct (Nat.lt_ge_cases k (length st)) as [Hlt|Hge].
        -- rewrite nth_error_app1 by assumption. apply Hn.
        -- rewrite nth_error_app2 by assumption. rewrite <- Hn.
           destruct (k - length st)%nat as [|d] eqn:Ed; [lia|]. cbn.
           symmetry. destruct d; [|]; (apply nth_error_None; lia) || (rewrite (proj2 (nth_error_None st k)) by lia; reflexivity).
  - (* assignment *)
    rewrite <- Hl. destruct (Nat.ltb i (length st)) eqn:Elt; cbn [fst snd agrees].
    + apply Nat.ltb_lt in Elt. split; [reflexivity|]. split; [rewrite replace_nth_length; exact Hl|].
      intro k. rewrite nth_error_replace_nth by assumption. cbn [held]. rewrite <- Hl.
      destruct (Nat.eqb_spec k i) as [->|Hne]; cbn [andb].
      * apply Nat.ltb_lt in Elt. rewrite Elt. reflexivity.
      * apply Hn.
    + split; [reflexivity|]. split; [exact Hl|]. intro k. cbn [held]. rewrite <- Hl.
      destruct (Nat.eqb_spec k i) as [->|Hne]; cbn [andb]; [rewrite Elt|]; apply Hn.
  - (* read *)
    rewrite <- Hn. destruct (nth_error st i); cbn [fst snd agrees]; (split; [reflexivity|]); (split; [exact Hl|exact Hn]).
  - (* format with a configuration *)
    rewrite <- Hn. destruct (nth_error st i) as [f|]; cbn [fst snd agrees].
    + split; [|split; [exact Hl|exact Hn]]. rewrite fnf_spec. destruct (spec_format U f c); cbn; eauto.
    + split; [reflexivity|]. split; [exact Hl|exact Hn].
Qed.

Lemma hrun_refines U ops : forall st past, hinv st past ->
  Forall2 agrees (hrun U st ops) (expected_all U past (map sop_of ops)).
Proof.
  induction ops as [|o r IH]; intros st past H; cbn [hrun expected_all map]; [constructor|].
  destruct (hstep_refines U st past o H) as [Ha Hi]. constructor; [exact Ha|]. apply IH. exact Hi.
Qed.

Lemma held_set_other past i j v : i <> j -> held (SSet j v :: past) i = held past i.
Proof. intro H. cbn [held]. destruct (Nat.eqb_spec i j); [congruence|reflexivity]. Qed.

Lemma held_new_other past s i : (i < created past)%nat -> held (SNew s :: past) i = held past i.
Proof. intro H. cbn [held]. destruct (Nat.eqb_spec i (created past)); [lia|reflexivity]. Qed.

Lemma held_new_self past s : held (SNew s :: past) (created past) = Some (effective_template s).
Proof. cbn [held]. rewrite Nat.eqb_refl. reflexivity. Qed.
