(* C20 Spec: what the property text says, as a small executable object.
   A template is read as  prefix ++ <go> ++ between ++ <designer> ++ suffix , the two words being
   located at their first ASCII-case-insensitive occurrence; the casing of each word selects how the
   identifier's words are cased; the identifier is read as the rune sequence Go sees (Str.decode_all). *)
From God Require Import Base.Prelude C20.Str.
Local Open Scope N_scope.

Inductive casing := CLower | CUpper | CTitle.

Definition w_go : str := [103; 111].                                       (* "go" *)
Definition w_designer : str := [100; 101; 115; 105; 103; 110; 101; 114].   (* "designer" *)

(* --- locating the two words ------------------------------------------------------------ *)
Definition fold_lower (s : str) : str := map ascii_lower s.
(* word w (lower-case) stands at byte offset i of template t, in any ASCII casing *)
Definition matches_at (w t : str) (i : nat) : bool := is_prefix w (fold_lower (skipn i t)).
Definition first_occ (w t : str) : option nat := find (matches_at w t) (seq 0 (S (length t))).

(* casing of a template word: all lower / all upper / Capitalised; anything else is "mixed" *)
Definition casing_of (w : str) : option casing :=
  if forallb is_ascii_lower w then Some CLower
  else if forallb is_ascii_upper w then Some CUpper
  else match w with
       | c :: r => if is_ascii_upper c && forallb is_ascii_lower r then Some CTitle else None
       | [] => None
       end.

Record parsed := mkParsed { p_prefix : str; p_go : str; p_between : str; p_designer : str; p_suffix : str }.

(* "containing the words go then designer" *)
Definition parse (t : str) : option parsed :=
  match first_occ w_go t, first_occ w_designer t with
  | Some ig, Some id =>
      if Nat.ltb ig id
      then Some (mkParsed (firstn ig t) (firstn 2 (skipn ig t)) (firstn (id - (ig + 2)) (skipn (ig + 2) t))
                          (firstn 8 (skipn id t)) (skipn (id + 8) t))
      else None
  | _, _ => None
  end.

(* --- the identifier's words: split at '_' and before 'A'..'Z' ----------------------------- *)
(* chunks rs: the head is the chunk still open on the left *)
Fixpoint chunks (rs : list N) : list (list N) :=
  match rs with
  | [] => [[]]
  | r :: t =>
      match chunks t with
      | c :: cs =>
          if r =? 95 then [] :: c :: cs                      (* underscore: separates, is dropped *)
          else if is_ascii_upper r then [] :: (r :: c) :: cs (* upper-case letter: starts a word *)
          else (r :: c) :: cs
      | [] => [[]]
      end
  end.
Definition words (content : str) : list str :=
  map encode_all (filter nonempty (chunks (decode_all content))).

(* --- rendering -------------------------------------------------------------------------- *)
Section Render.
  Variable U : unicode.

  Definition in_casing (c : casing) (w : str) : str :=
    match c with CLower => to_lower U w | CUpper => to_upper U w | CTitle => title U w end.

  (* first word in the casing of "go", the others in the casing of "designer" *)
  Definition styled (cg cd : casing) (ws : list str) : list str :=
    match ws with [] => [] | w :: r => in_casing cg w :: map (in_casing cd) r end.

  Definition render (p : parsed) (cg cd : casing) (content : str) : str :=
    p_prefix p ++ join (p_between p) (styled cg cd (words content)) ++ p_suffix p.

  (* the file name the property prescribes; None = the template must be rejected *)
  Definition spec_format (t content : str) : option str :=
    match parse t with
    | None => None                                  (* a word is missing, or wrong order *)
    | Some p =>
        match casing_of (p_go p), casing_of (p_designer p) with
        | Some cg, Some cd => Some (render p cg cd content)
        | _, _ => None                              (* mixed casing *)
        end
    end.
End Render.

(* --- the template as configured: it reaches the renderer verbatim (outer white space is prefix /
   suffix text); only the empty template stands for the default "godesigner" --------------------- *)
Definition default_template : str := [103; 111; 100; 101; 115; 105; 103; 110; 101; 114].
Definition effective_template (t : str) : str := match t with [] => default_template | _ => t end.
Definition spec_configured (U : unicode) (t content : str) : option str :=
  spec_format U (effective_template t) content.

(* --- histories of configurations: every NewConfig result is a function of its own argument, and a
   configuration holds what its owner last assigned to it -- nothing else.  Written per handle, by
   looking BACK through the history (most recent operation first); no shared store. ----------------- *)
Inductive sop :=
| SNew (s : str) | SSet (i : nat) (v : str) | SRead (i : nat) | SFmt (i : nat) (c : str).

Fixpoint created (past : list sop) : nat :=     (* number of configurations created so far *)
  match past with
  | [] => O
  | SNew _ :: r => S (created r)
  | _ :: r => created r
  end.

(* the template configuration i holds after `past` (most recent first); None: no such configuration *)
Fixpoint held (past : list sop) (i : nat) : option str :=
  match past with
  | [] => None
  | SNew s :: r => if Nat.eqb i (created r) then Some (effective_template s) else held r i
  | SSet j v :: r => if Nat.eqb i j && Nat.ltb i (created r) then Some v else held r i
  | _ :: r => held r i
  end.

Inductive expect :=
| EOk (s : str)          (* returns exactly s *)
| EReject                (* must be an error *)
| EBadHandle.

Section History.
  Variable U : unicode.
  Definition of_option (o : option str) : expect := match o with Some r => EOk r | None => EReject end.
  (* what operation o must yield after `past` *)
  Definition expected (past : list sop) (o : sop) : expect :=
    match o with
    | SNew s => if is_empty_or_space U (effective_template s) then EReject else EOk (effective_template s)
    | SSet i _ => if Nat.ltb i (created past) then EOk [] else EBadHandle
    | SRead i => match held past i with Some f => EOk f | None => EBadHandle end
    | SFmt i c => match held past i with Some f => of_option (spec_format U f c) | None => EBadHandle end
    end.
  Fixpoint expected_all (past : list sop) (ops : list sop) : list expect :=
    match ops with
    | [] => []
    | o :: r => expected past o :: expected_all (o :: past) r
    end.
End History.

(* --- identifiers of the round-trip clause: a lower-case letter then lower-case letters or digits, joined by single '_' --- *)
Definition lower_word (w : str) : bool :=
  match w with
  | c :: r => is_ascii_lower c && forallb (fun b => is_ascii_lower b || is_ascii_digit b) r
  | [] => false
  end.

(* s cut at every '_' (empty pieces kept): join "_" (fields s) = s *)
Fixpoint fields (s : str) : list str :=
  match s with
  | [] => [[]]
  | b :: t =>
      match fields t with
      | f :: fs => if b =? 95 then [] :: f :: fs else (b :: f) :: fs
      | [] => [[]]
      end
  end.
Definition is_ident (s : str) : bool := forallb lower_word (fields s).
