(* C20 Exec: checkers evaluated by vm_compute on (template, identifier, what the Go code did).
   One case = one (template, identifier) pair; the driver calls FileNamingFormat twice (with other
   calls in between), ToCamel, ToSnake and ToSnake(ToCamel) on the identifier, and tabulates Go's
   unicode data for the non-ASCII runes involved. *)
From God Require Import Base.Prelude C20.Str C20.Model C20.Spec.
Local Open Scope N_scope.

Inductive obs :=
| OOk (s : str)                    (* returned string *)
| OErr (kind : nat) (msg : str)    (* 1 = ErrNamingFormat, 2 = any other error; err.Error() *)
| OPanic.                          (* the call panicked *)

Record rinfo := mkRI {
  ri_upper : N; ri_lower : N; ri_title : N;
  ri_isupper : bool; ri_isletter : bool; ri_isdigit : bool; ri_isspace : bool }.

Record case := mkcase {
  c_env : nat;                     (* 0: clean environment; n: the driver process was started with adversarial
                                      environment profile n (variables, locale, working directory) of props/c20.py.
                                      NOT an argument of the model or of the Spec: results must not depend on it *)
  c_tmpl : str;
  c_content : str;
  c_runes : list (N * rinfo);      (* Go's unicode.* for the non-ASCII runes in play *)
  c_xt : list (str * str);         (* cases.Title(English, NoLower) of the non-ASCII '_'-free words *)
  c_fmt : obs;                     (* FileNamingFormat(tmpl, content) *)
  c_fmt2 : obs;                    (* the same call again, after the other calls *)
  c_camel : obs;                   (* From(content).ToCamel() *)
  c_snake : obs;                   (* From(content).ToSnake() *)
  c_rt : obs;                      (* From(From(content).ToCamel()).ToSnake() *)
  c_untitle : obs;                 (* From(content).UnTitle() *)
  c_cfg : obs;                     (* config.NewConfig(tmpl): OOk cfg.NamingFormat | OErr 3 msg *)
  c_cfgfmt : obs;                  (* NewConfig(tmpl) then FileNamingFormat(cfg.NamingFormat, content); OErr 3 when NewConfig failed *)
  c_hist : list hop;               (* a history of configuration operations run in the same process *)
  c_hobs : list obs                (* what each of them returned (OErr 9: no such handle) *)
}.

Definition ri_of (c : case) (r : N) : option rinfo := alookup N.eqb r (c_runes c).

Definition unicode_of (c : case) : unicode :=
  mkU (fun r => match ri_of c r with Some i => ri_upper i | None => r end)
      (fun r => match ri_of c r with Some i => ri_lower i | None => r end)
      (fun r => match ri_of c r with Some i => ri_title i | None => r end)
      (fun r => match ri_of c r with Some i => ri_isupper i | None => false end)
      (fun r => match ri_of c r with Some i => ri_isletter i | None => false end)
      (fun r => match ri_of c r with Some i => ri_isdigit i | None => false end)
      (fun r => match ri_of c r with Some i => ri_isspace i | None => false end)
      (fun w => match alookup str_eqb w (c_xt c) with Some o => o | None => w end).

Definition obs_eqb (a b : obs) : bool :=
  match a, b with
  | OOk s, OOk s' => str_eqb s s'
  | OErr k m, OErr k' m' => Nat.eqb k k' && str_eqb m m'
  | OPanic, OPanic => true
  | _, _ => false
  end.

Definition is_ok (o : obs) : bool := match o with OOk _ => true | _ => false end.
Definition is_err (o : obs) : bool := match o with OErr _ _ => true | _ => false end.
Definition is_panic (o : obs) : bool := match o with OPanic => true | _ => false end.

(* ---------- model agreement ---------- *)
Definition res_matches (r : result str) (o : obs) : bool :=
  match r, o with
  | Ok s, OOk s' => str_eqb s s'
  | Err e, OErr k _ => Nat.eqb e k
  | Panic, OPanic => true
  | _, _ => false
  end.

(* "意外的格式：" *)
Definition style_msg_prefix : str :=
  [230; 132; 143; 229; 164; 150; 231; 154; 132; 230; 160; 188; 229; 188; 143; 239; 188; 154].

Definition style_msg_ok (U : unicode) (t : str) (o : obs) : bool :=
  match o with
  | OErr 2 m => match style_error_flag U t with
                | Some f => str_eqb m (style_msg_prefix ++ f)
                | None => false
                end
  | _ => true
  end.

(* names under which the case files (which import only this module) write history operations *)
Definition XNew := HNew.
Definition XSet := HSet.
Definition XRead := HRead.
Definition XFmt := HFmt.

Fixpoint all2 {A B} (f : A -> B -> bool) (l1 : list A) (l2 : list B) : bool :=
  match l1, l2 with
  | [], [] => true
  | a :: r1, b :: r2 => f a b && all2 f r1 r2
  | _, _ => false
  end.

Definition hop_strings (o : hop) : list N :=
  match o with HNew s => decode_all s | HSet _ v => decode_all v | HRead _ => [] | HFmt _ c0 => decode_all c0 end.

Definition to_sop (o : hop) : sop :=
  match o with HNew s => SNew s | HSet i v => SSet i v | HRead i => SRead i | HFmt i c0 => SFmt i c0 end.

Definition meets (e : expect) (o : obs) : bool :=
  match e with
  | EOk s => obs_eqb (OOk s) o
  | EReject => is_err o
  | EBadHandle => match o with OErr 9 _ => true | _ => false end
  end.

(* the oracle tables cover every non-ASCII rune / word the model consults *)
Definition tables_ok (c : case) : bool :=
  let U := unicode_of c in
  let camel := match to_camel U (c_content c) with Ok s => s | _ => [] end in
  forallb (fun r => (r <? 128) || match ri_of c r with Some _ => true | None => false end)
          (rune_error :: decode_all (c_content c) ++ decode_all camel ++ decode_all (c_tmpl c) ++ flat_map hop_strings (c_hist c)) &&
  forallb (fun w => forallb (fun b => b <? 128) w || is_empty_or_space U w ||
                    match alookup str_eqb w (c_xt c) with Some _ => true | None => false end)
          (split_by U (fun r => r =? 95) true (c_content c)).

Definition model_ok (c : case) : bool :=
  let U := unicode_of c in
  tables_ok c &&
  res_matches (file_naming_format U (c_tmpl c) (c_content c)) (c_fmt c) &&
  res_matches (file_naming_format U (c_tmpl c) (c_content c)) (c_fmt2 c) &&
  style_msg_ok U (c_tmpl c) (c_fmt c) &&
  res_matches (to_camel U (c_content c)) (c_camel c) &&
  res_matches (to_snake U (c_content c)) (c_snake c) &&
  res_matches (snake_of_camel U (c_content c)) (c_rt c) &&
  res_matches (un_title U (c_content c)) (c_untitle c) &&
  res_matches (new_config U (c_tmpl c)) (c_cfg c) &&
  res_matches (configured_format U (c_tmpl c) (c_content c)) (c_cfgfmt c) &&
  all2 res_matches (hrun U [] (c_hist c)) (c_hobs c).

(* ---------- the property, on the observations alone ---------- *)
Definition spec_ok (c : case) : bool :=
  let U := unicode_of c in
  (* never panics, for any template and identifier; the result depends on the inputs only *)
  negb (is_panic (c_fmt c)) && obs_eqb (c_fmt c) (c_fmt2 c) &&
  (* the rendering equation / rejection *)
  match spec_format U (c_tmpl c) (c_content c) with
  | Some r => obs_eqb (c_fmt c) (OOk r)
  | None => is_err (c_fmt c)
  end &&
  (* the conversions never fail or panic *)
  is_ok (c_camel c) && is_ok (c_snake c) && is_ok (c_rt c) &&
  (* camel case and back returns the identifier *)
  (if is_ident (c_content c) then obs_eqb (c_rt c) (OOk (c_content c)) else true) &&
  (* through config.NewConfig the template reaches the renderer verbatim; only "" is the default;
     whatever is not rendered is rejected with an error (by validate or by FileNamingFormat) *)
  negb (is_panic (c_cfg c)) && negb (is_panic (c_cfgfmt c)) &&
  match c_cfg c with
  | OOk f => str_eqb f (effective_template (c_tmpl c))
  | _ => true
  end &&
  match spec_configured U (c_tmpl c) (c_content c) with
  | Some r => obs_eqb (c_cfgfmt c) (OOk r)
  | None => is_err (c_cfgfmt c)
  end &&
  (* histories of configurations: every result is a function of the call's own argument and of what
     was assigned to that very configuration (Spec.expected); no panic *)
  all2 meets (expected_all U [] (map to_sop (c_hist c))) (c_hobs c).

(* input classes, for the evidence's distribution (evaluated in Python from the same data) *)
Definition accepts (c : case) : bool :=
  match spec_format (unicode_of c) (c_tmpl c) (c_content c) with Some _ => true | None => false end.
