(* C20 Props: the property theorems, nothing else.
   U : unicode is the oracle for everything outside ASCII (case tables, x/text title-casing of
   non-ASCII words); every theorem holds for every oracle.  Strings are byte lists; an identifier is
   read as the rune sequence Go's decoder yields (each invalid byte is one U+FFFD). *)
From God Require Import Base.Prelude C20.Str C20.Model C20.Spec C20.Proofs C20.Utf8.
From God Require C20.Exec.
Local Open Scope N_scope.

(* FileNamingFormat computes exactly what the Spec prescribes: the rendering for accepted templates,
   an error for rejected ones (naming error when a word is missing / out of order, style error for
   mixed casing) -- for every template byte string and every identifier byte string. *)
Theorem c20_format_spec : forall U t content,
  file_naming_format U t content =
  match spec_format U t content with Some r => Ok r | None => Err (reject_code t) end.
Proof. exact fnf_spec. Qed.
Print Assumptions c20_format_spec.

(* the rendering equation: prefix ++ join between (style_go w1 :: map style_designer ws) ++ suffix *)
Theorem c20_render : forall U t content p cg cd,
  parse t = Some p -> casing_of (p_go p) = Some cg -> casing_of (p_designer p) = Some cd ->
  file_naming_format U t content =
  Ok (p_prefix p ++ join (p_between p) (styled U cg cd (words content)) ++ p_suffix p).
Proof.
  intros U t content p cg cd Hp Hg Hd. apply fnf_render. unfold spec_format. rewrite Hp, Hg, Hd. reflexivity.
Qed.
Print Assumptions c20_render.

(* what `parse` means: the template is prefix ++ go ++ between ++ designer ++ suffix, the two words
   match ASCII-case-insensitively and neither occurs earlier *)
Theorem c20_parse_sound : forall t p, parse t = Some p ->
  t = p_prefix p ++ p_go p ++ p_between p ++ p_designer p ++ p_suffix p /\
  fold_lower (p_go p) = w_go /\ fold_lower (p_designer p) = w_designer /\
  (forall j, (j < List.length (p_prefix p))%nat -> matches_at w_go t j = false) /\
  (forall j, (j < List.length (p_prefix p ++ p_go p ++ p_between p))%nat -> matches_at w_designer t j = false).
Proof. exact parse_sound. Qed.
Print Assumptions c20_parse_sound.

(* what `words` means: the identifier's runes without underscores, cut into non-empty pieces with
   'A'..'Z' only in first position *)
Theorem c20_words_sound : forall content,
  let ws := filter nonempty (chunks (decode_all content)) in
  words content = map encode_all ws /\
  concat ws = filter not_underscore (decode_all content) /\
  forallb (fun c => nonempty c && chunk_wf c) ws = true.
Proof. exact words_runes. Qed.
Print Assumptions c20_words_sound.

(* each word is valid UTF-8 of exactly its runes, so the casing functions (which decode again) see them *)
Theorem c20_words_decode : forall content,
  map decode_all (words content) = filter nonempty (chunks (decode_all content)).
Proof. exact words_decode. Qed.
Print Assumptions c20_words_decode.

(* Str.v's UTF-8: the decoder inverts the encoder (invalid runes are written as U+FFFD) and yields valid runes only *)
Theorem c20_utf8_roundtrip : forall r rest,
  decode_rune (encode_rune r ++ rest) = (fix_rune r, List.length (encode_rune r)) /\
  decode_all (encode_rune r ++ rest) = fix_rune r :: decode_all rest.
Proof. intros r rest. split; [apply decode_encode|apply decode_all_encode]. Qed.
Print Assumptions c20_utf8_roundtrip.

Theorem c20_utf8_decode_valid : forall s, forallb valid_rune (decode_all s) = true.
Proof. exact decode_all_valid. Qed.
Print Assumptions c20_utf8_decode_valid.

(* the model's split (ReadRune loop with a buffer) is that word list *)
Theorem c20_split_words : forall content, Model.split content = words content.
Proof. exact split_words. Qed.
Print Assumptions c20_split_words.

(* the result depends on nothing but the inputs: it is a function, and in fact a function of the
   template's decomposition and the identifier's words alone *)
Theorem c20_deterministic : forall U t content r1 r2,
  file_naming_format U t content = r1 -> file_naming_format U t content = r2 -> r1 = r2.
Proof. intros; congruence. Qed.
Print Assumptions c20_deterministic.

Theorem c20_depends_on_parse_and_words : forall U t t' content content',
  parse t = parse t' -> words content = words content' ->
  file_naming_format U t content = file_naming_format U t' content'.
Proof.
  intros U t t' c c' Hp Hw. rewrite !fnf_spec. unfold spec_format, reject_code, render. rewrite Hp, Hw. reflexivity.
Qed.
Print Assumptions c20_depends_on_parse_and_words.

(* rejection: a word missing, wrong order, mixed casing *)
Theorem c20_reject : forall U t content,
  (first_occ w_go t = None \/ first_occ w_designer t = None ->
     file_naming_format U t content = Err err_naming) /\
  (forall ig id, first_occ w_go t = Some ig -> first_occ w_designer t = Some id -> (id < ig)%nat ->
     file_naming_format U t content = Err err_naming) /\
  (forall p, parse t = Some p -> casing_of (p_go p) = None \/ casing_of (p_designer p) = None ->
     file_naming_format U t content = Err err_style).
Proof.
  intros U t content. split; [apply fnf_missing|]. split; [intros; eapply fnf_wrong_order; eauto|].
  intros; eapply fnf_mixed; eauto.
Qed.
Print Assumptions c20_reject.

(* "lacking a word" in plain terms: no offset at which the word stands, in any ASCII casing *)
Theorem c20_first_occ_none : forall w t,
  first_occ w t = None <-> forall j, (j <= List.length t)%nat -> matches_at w t j = false.
Proof. exact first_occ_none. Qed.
Print Assumptions c20_first_occ_none.

(* never panics: every slice index FileNamingFormat computes is within bounds, for EVERY template *)
Theorem c20_format_total : forall U t content, file_naming_format U t content <> Panic.
Proof. exact fnf_total. Qed.
Print Assumptions c20_format_total.

(* camel case and back: identifiers made of words [a-z][a-z0-9]* joined by single underscores *)
Theorem c20_camel_snake_roundtrip : forall U ws, ws <> [] -> forallb lower_word ws = true ->
  to_camel U (join [95] ws) = Ok (concat (map cap ws)) /\
  snake_of_camel U (join [95] ws) = Ok (join [95] ws).
Proof. intros U ws Hne H. split; [apply camel_of_ident|apply roundtrip_words]; assumption. Qed.
Print Assumptions c20_camel_snake_roundtrip.

(* the same, for the recogniser used by the correspondence checker *)
Theorem c20_roundtrip_ident : forall U s, is_ident s = true -> snake_of_camel U s = Ok s.
Proof. exact roundtrip_ident. Qed.
Print Assumptions c20_roundtrip_ident.

(* the conversions never fail or panic, on any byte string *)
Theorem c20_total : forall U s,
  (exists r, to_camel U s = Ok r) /\ (exists r, to_snake U s = Ok r) /\ (exists r, snake_of_camel U s = Ok r).
Proof. intros U s. split; [apply camel_total|]. split; [apply snake_total|apply snake_of_camel_total]. Qed.
Print Assumptions c20_total.

(* UnTitle (first letter lower-cased) indexes s.source[0]; the emptiness guard makes that safe *)
Theorem c20_untitle_total : forall U s, exists r, un_title U s = Ok r.
Proof. exact un_title_total. Qed.
Print Assumptions c20_untitle_total.

(* config.NewConfig hands the template to FileNamingFormat VERBATIM: for a non-empty template the
   configured path is FileNamingFormat on that very template, or a rejection exactly when the template
   is blank (white space only); only the empty template stands for the default *)
Theorem c20_config_transparent : forall U t content, t <> [] ->
  (is_empty_or_space U t = true -> configured_format U t content = Err err_config) /\
  (is_empty_or_space U t = false -> configured_format U t content = file_naming_format U t content).
Proof. exact config_transparent. Qed.
Print Assumptions c20_config_transparent.

Theorem c20_config_verbatim : forall U t f, new_config U t = Ok f -> f = effective_template t.
Proof. exact new_config_verbatim. Qed.
Print Assumptions c20_config_verbatim.

Theorem c20_config_default : forall U content,
  new_config U [] = Ok default_format /\
  configured_format U [] content = file_naming_format U default_format content.
Proof. intros. split; reflexivity. Qed.
Print Assumptions c20_config_default.

(* the configured path renders the Spec of the verbatim template or rejects; it never panics *)
Theorem c20_config_spec : forall U t content,
  (configured_format U t content = Err err_config \/
   configured_format U t content =
     match spec_configured U t content with Some r => Ok r | None => Err (reject_code (effective_template t)) end) /\
  configured_format U t content <> Panic.
Proof. intros. split; [apply configured_spec|apply configured_total]. Qed.
Print Assumptions c20_config_spec.

(* histories of the configuration front end in one process (NewConfig calls, the owner assigning
   cfg.NamingFormat, reads, formatting with a configuration), for EVERY history: each NewConfig result
   is a function of its own argument only (Spec.expected (SNew s) ignores the past), a configuration
   holds the template it was created with or what was last assigned to IT, and names formatted with it
   are the Spec's rendering of that template.  Configurations never alias. *)
Theorem c20_config_history : forall U ops,
  Forall2 agrees (hrun U [] ops) (expected_all U [] (map sop_of ops)).
Proof. intros U ops. apply hrun_refines. apply hinv_nil. Qed.
Print Assumptions c20_config_history.

Theorem c20_config_call_pure : forall U st s, fst (hstep U st (HNew s)) = new_config U s.
Proof. reflexivity. Qed.
Print Assumptions c20_config_call_pure.

Theorem c20_config_no_alias : forall past,
  (forall i j v, i <> j -> held (SSet j v :: past) i = held past i) /\
  (forall s i, (i < created past)%nat -> held (SNew s :: past) i = held past i) /\
  (forall s, held (SNew s :: past) (created past) = Some (effective_template s)).
Proof. intro past. split; [intros; apply held_set_other; assumption|]. split; [intros; apply held_new_other; assumption|apply held_new_self]. Qed.
Print Assumptions c20_config_no_alias.

(* no ambient state: the checkers decide a case from (template, identifier, history, observations) and
   Go's unicode tables alone -- the environment the driver process was started with (Exec.c_env) is not
   an input of the model or of the Spec, so an implementation whose results vary with it cannot pass
   under every environment.  The default template is the constant "godesigner". *)
Theorem c20_no_ambient_state : forall c1 c2 : C20.Exec.case,
  C20.Exec.c_tmpl c1 = C20.Exec.c_tmpl c2 -> C20.Exec.c_content c1 = C20.Exec.c_content c2 ->
  C20.Exec.c_runes c1 = C20.Exec.c_runes c2 -> C20.Exec.c_xt c1 = C20.Exec.c_xt c2 ->
  C20.Exec.c_hist c1 = C20.Exec.c_hist c2 ->
  C20.Exec.c_fmt c1 = C20.Exec.c_fmt c2 -> C20.Exec.c_fmt2 c1 = C20.Exec.c_fmt2 c2 ->
  C20.Exec.c_camel c1 = C20.Exec.c_camel c2 -> C20.Exec.c_snake c1 = C20.Exec.c_snake c2 ->
  C20.Exec.c_rt c1 = C20.Exec.c_rt c2 -> C20.Exec.c_untitle c1 = C20.Exec.c_untitle c2 ->
  C20.Exec.c_cfg c1 = C20.Exec.c_cfg c2 -> C20.Exec.c_cfgfmt c1 = C20.Exec.c_cfgfmt c2 ->
  C20.Exec.c_hobs c1 = C20.Exec.c_hobs c2 ->
  C20.Exec.spec_ok c1 = C20.Exec.spec_ok c2 /\ C20.Exec.model_ok c1 = C20.Exec.model_ok c2.
Proof.
  intros [e1 t1 k1 r1 x1 f1 g1 a1 s1 o1 u1 p1 q1 h1 b1] [e2 t2 k2 r2 x2 f2 g2 a2 s2 o2 u2 p2 q2 h2 b2]; cbn.
  intros; subst. split; reflexivity.
Qed.
Print Assumptions c20_no_ambient_state.

Theorem c20_default_is_constant : forall U st,
  fst (hstep U st (HNew [])) = Ok [103; 111; 100; 101; 115; 105; 103; 110; 101; 114] /\
  new_config U [] = Ok [103; 111; 100; 101; 115; 105; 103; 110; 101; 114].
Proof. intros. split; reflexivity. Qed.
Print Assumptions c20_default_is_constant.

(* ---------------- non-vacuity and documented examples (ASCII: the oracle is never consulted) ---------------- *)
Definition U0 : unicode := mkU (fun r => r) (fun r => r) (fun r => r) (fun _ => false) (fun _ => false)
                               (fun _ => false) (fun _ => false) (fun s => s).

(* go_designer / HTTPServer -> h_t_t_p_server ; Go#DESIGNER / userName -> User#NAME *)
Example c20_example_snake :
  file_naming_format U0 [103;111;95;100;101;115;105;103;110;101;114] [72;84;84;80;83;101;114;118;101;114]
  = Ok [104;95;116;95;116;95;112;95;115;101;114;118;101;114].
Proof. vm_compute. reflexivity. Qed.

Example c20_example_mixed_styles :
  file_naming_format U0 [71;111;35;68;69;83;73;71;78;69;82] [117;115;101;114;78;97;109;101]
  = Ok [85;115;101;114;35;78;65;77;69].
Proof. vm_compute. reflexivity. Qed.

(* hypotheses of c20_render are satisfiable *)
Example c20_render_nonvacuous :
  exists p, parse [120;95;103;111;95;100;101;115;105;103;110;101;114;46;103;111] = Some p /\
            casing_of (p_go p) = Some CLower /\ casing_of (p_designer p) = Some CLower /\
            p_prefix p = [120;95] /\ p_between p = [95] /\ p_suffix p = [46;103;111].
Proof. eexists. vm_compute. repeat split; reflexivity. Qed.

(* the three rejection classes occur: "go", "designer_go", "gO_designer" *)
Example c20_reject_nonvacuous :
  file_naming_format U0 [103;111] [120] = Err err_naming /\
  file_naming_format U0 [100;101;115;105;103;110;101;114;95;103;111] [120] = Err err_naming /\
  file_naming_format U0 [103;79;95;100;101;115;105;103;110;101;114] [120] = Err err_style.
Proof. vm_compute. repeat split; reflexivity. Qed.

(* the D8 witnesses of DESIGN section 7 on the repaired code: "ɐɐɐɐgodesigner" and "\xffgodesigner" render *)
Example c20_d8_witnesses :
  file_naming_format U0 [201;144;201;144;201;144;201;144;103;111;100;101;115;105;103;110;101;114] [97;95;98]
  = Ok [201;144;201;144;201;144;201;144;97;98] /\
  file_naming_format U0 [255;103;111;100;101;115;105;103;110;101;114] [97;95;98] = Ok [255;97;98].
Proof. vm_compute. split; reflexivity. Qed.

(* " go_designer\t" keeps its outer white space; "  " is rejected; "" is the default *)
Example c20_config_examples :
  configured_format U0 [32;103;111;95;100;101;115;105;103;110;101;114;9] [97;66] = Ok [32;97;95;98;9] /\
  configured_format U0 [32;32] [97;66] = Err err_config /\
  configured_format U0 [] [97;66] = Ok [97;98].
Proof. vm_compute. repeat split; reflexivity. Qed.

(* NewConfig(""), owner assigns "GO_DESIGNER", NewConfig("") again: the second one is the default again *)
Example c20_config_history_example :
  hrun U0 [] [HNew []; HSet 0 [71;79;95;68;69;83;73;71;78;69;82]; HNew []; HRead 1; HRead 0; HFmt 1 [97;66]]
  = [Ok default_format; Ok []; Ok default_format; Ok default_format;
     Ok [71;79;95;68;69;83;73;71;78;69;82]; Ok [97;98]].
Proof. vm_compute. reflexivity. Qed.

(* other product words in a style are plain text: "go_designer.zero" renders "user_center.zero",
   "GoZeroDesigner" renders "UserZeroCenter"; "gozero" / "go_zero" lack "designer" and are rejected *)
Example c20_config_product_words :
  configured_format U0 [103;111;95;100;101;115;105;103;110;101;114;46;122;101;114;111] [117;115;101;114;67;101;110;116;101;114]
    = Ok [117;115;101;114;95;99;101;110;116;101;114;46;122;101;114;111] /\
  configured_format U0 [71;111;90;101;114;111;68;101;115;105;103;110;101;114] [117;115;101;114;95;99;101;110;116;101;114]
    = Ok [85;115;101;114;90;101;114;111;67;101;110;116;101;114] /\
  configured_format U0 [103;111;122;101;114;111] [120] = Err err_naming /\
  configured_format U0 [103;111;95;122;101;114;111] [120] = Err err_naming /\
  new_config U0 [103;111;122;101;114;111] = Ok [103;111;122;101;114;111].
Proof. vm_compute. repeat split; reflexivity. Qed.

(* '%' and line breaks are plain template text: "100%_go_designer_%d" / userName -> "100%_user_name_%d";
   "Go\r\nDesigner" through NewConfig / user_name -> "User\r\nName" *)
Example c20_percent_and_linebreak :
  file_naming_format U0 [49;48;48;37;95;103;111;95;100;101;115;105;103;110;101;114;95;37;100] [117;115;101;114;78;97;109;101]
    = Ok [49;48;48;37;95;117;115;101;114;95;110;97;109;101;95;37;100] /\
  configured_format U0 [71;111;13;10;68;101;115;105;103;110;101;114] [117;115;101;114;95;110;97;109;101]
    = Ok [85;115;101;114;13;10;78;97;109;101] /\
  new_config U0 [103;111;10;100;101;115;105;103;110;101;114] = Ok [103;111;10;100;101;115;105;103;110;101;114].
Proof. vm_compute. repeat split; reflexivity. Qed.

(* user_name -> UserName -> user_name *)
Example c20_roundtrip_example :
  to_camel U0 [117;115;101;114;95;110;97;109;101] = Ok [85;115;101;114;78;97;109;101] /\
  snake_of_camel U0 [117;115;101;114;95;110;97;109;101] = Ok [117;115;101;114;95;110;97;109;101].
Proof. vm_compute. split; reflexivity. Qed.

(* outside the round-trip grammar: a digit-leading word does not come back (user_2fa -> User2Fa -> user2_fa) *)
Example c20_digit_word_observation :
  to_camel U0 [117;115;101;114;95;50;102;97] = Ok [85;115;101;114;50;70;97] /\
  snake_of_camel U0 [117;115;101;114;95;50;102;97] = Ok [117;115;101;114;50;95;102;97].
Proof. vm_compute. split; reflexivity. Qed.
