(* C13 Props: the property theorems, nothing else. Nodes are identifiers, vh n i the ring
   position of n's i-th virtual node, `inj vh cap` the "no ring-position collision" proviso. *)
From God Require Import Base.Prelude C13.Model C13.Spec C13.Proofs.
Local Open Scope N_scope.

(* Get of the transcribed implementation is the abstract ring's owner, for every history. *)
Theorem c13_refines : forall vh cap, inj vh cap -> forall ops x inner,
  (get (run vh cap ops) x inner = Ok None /\ positions vh (members_of cap ops) = []) \/
  (exists n, get (run vh cap ops) x inner = Ok (Some n) /\ is_owner vh (members_of cap ops) x n).
Proof. exact refines. Qed.
Print Assumptions c13_refines.

(* total: never panics, answers a currently added node of positive weight, absent iff there is none *)
Theorem c13_total : forall vh cap, inj vh cap -> forall ops x inner,
  get (run vh cap ops) x inner <> Panic /\
  (forall n, get (run vh cap ops) x inner = Ok (Some n) ->
             exists r, In (n, r) (members_of cap ops) /\ (0 < r)%nat) /\
  (get (run vh cap ops) x inner = Ok None <-> forall n r, In (n, r) (members_of cap ops) -> r = 0%nat).
Proof. exact total. Qed.
Print Assumptions c13_total.

(* stable: the answer is a function of the membership (as a set of virtual nodes), not of the history *)
Theorem c13_stable : forall vh cap, inj vh cap -> forall ops1 ops2 x i1 i2,
  (forall pn, In pn (positions vh (members_of cap ops1)) <-> In pn (positions vh (members_of cap ops2))) ->
  get (run vh cap ops1) x i1 = get (run vh cap ops2) x i2.
Proof. exact stable. Qed.
Print Assumptions c13_stable.

Theorem c13_remove_monotone : forall vh cap, inj vh cap -> forall ops x i1 i2 a n,
  get (run vh cap ops) x i1 = Ok (Some a) -> a <> n ->
  get (run vh cap (ops ++ [Remove n])) x i2 = Ok (Some a).
Proof. exact remove_monotone. Qed.
Print Assumptions c13_remove_monotone.

Theorem c13_add_monotone : forall vh cap, inj vh cap -> forall ops x i1 i2 a n r,
  ~ In n (map fst (members_of cap ops)) ->
  get (run vh cap (ops ++ [Add n r])) x i1 = Ok (Some a) ->
  a = n \/ get (run vh cap ops) x i2 = Ok (Some a).
Proof. exact add_monotone_fresh. Qed.
Print Assumptions c13_add_monotone.

(* re-adding with another weight: keys either move to the re-added node or sit where they would
   sit had the node been removed; its virtual nodes are exactly the new ones *)
Theorem c13_readd_monotone : forall vh cap, inj vh cap -> forall ops x i1 i2 a n r,
  get (run vh cap (ops ++ [Add n r])) x i1 = Ok (Some a) ->
  a = n \/ get (run vh cap (ops ++ [Remove n])) x i2 = Ok (Some a).
Proof. exact add_monotone. Qed.
Print Assumptions c13_readd_monotone.

Theorem c13_readd_replaces : forall vh cap ops n r p,
  In (p, n) (positions vh (members_of cap (ops ++ [Add n r]))) <-> exists i, (i < Nat.min r cap)%nat /\ p = vh n i.
Proof. exact readd_replaces. Qed.
Print Assumptions c13_readd_replaces.

Theorem c13_weight_zero : forall vh cap, inj vh cap -> forall ops x i n,
  get (run vh cap (ops ++ [Add n 0%nat])) x i <> Ok (Some n).
Proof. exact weight_zero. Qed.
Print Assumptions c13_weight_zero.

(* non-vacuity: a collision-free hash exists, and on it a key really moves when its owner leaves *)
Example c13_nonvacuous :
  let vh := fun n i => N.of_nat (n + 10 * i) in
  get (run vh 3 [Add 1 3; Add 2 3]) 12 0 = Ok (Some 2%nat) /\
  get (run vh 3 [Add 1 3; Add 2 3; Remove 2]) 12 0 = Ok (Some 1%nat).
Proof. vm_compute. split; reflexivity. Qed.

Example c13_hypothesis_satisfiable : inj (fun n i => N.of_nat (n * 3 + i)) 3.
Proof. unfold inj. intros n i n' i' Hi Hi' H. lia. Qed.

(* ---- keys and nodes as Go VALUES (every key type): Get on a value k is get_key, which evaluates
   lang.Repr (Model.repr); text_of is the Spec's notion of which values are the same key ---- *)

(* lang.Repr as transcribed never panics and yields the value's text *)
Theorem c13_repr_total : forall k, repr k = Ok (text_of k).
Proof. exact repr_text. Qed.
Print Assumptions c13_repr_total.

(* totality for every key VALUE: Get never panics, answers a member of positive weight, absent iff there is
   none. Covers the nil interface, typed nil pointers, pointers to values, struct values, Stringers incl.
   nil receivers (values whose own String method panics are caller faults, outside gval). *)
Theorem c13_lookup_total_keys : forall vh cap, inj vh cap -> forall hf ops k inner,
  get_key hf (run vh cap ops) k inner <> Panic /\
  (forall n, get_key hf (run vh cap ops) k inner = Ok (Some n) ->
             exists r, In (n, r) (members_of cap ops) /\ (0 < r)%nat) /\
  (get_key hf (run vh cap ops) k inner = Ok None <-> forall n r, In (n, r) (members_of cap ops) -> r = 0%nat).
Proof. exact key_total. Qed.
Print Assumptions c13_lookup_total_keys.

(* values with the same text are the same key: same answer (pointer vs value, Stringer vs its string, ...) *)
Theorem c13_lookup_same_text : forall vh cap, inj vh cap -> forall hf ops k1 k2 i1 i2,
  text_of k1 = text_of k2 ->
  get_key hf (run vh cap ops) k1 i1 = get_key hf (run vh cap ops) k2 i2.
Proof. exact key_same_text. Qed.
Print Assumptions c13_lookup_same_text.

(* the empty ring answers not-found for EVERY value (Repr is not even evaluated) *)
Theorem c13_empty_ring_absent : forall vh cap hf k inner, get_key hf (run vh cap []) k inner = Ok None.
Proof. exact key_empty_ring. Qed.
Print Assumptions c13_empty_ring_absent.

(* removing every node (or keeping only weight-0 nodes) leaves no virtual node behind *)
Theorem c13_remove_all_empties : forall vh cap, inj vh cap -> forall ops,
  (forall n r, In (n, r) (members_of cap ops) -> r = 0%nat) ->
  keys (run vh cap ops) = [] /\ ring (run vh cap ops) = [].
Proof. exact remove_all_empties. Qed.
Print Assumptions c13_remove_all_empties.

(* the same node every time while membership is unchanged, for every key value: repeated lookups agree *)
Theorem c13_lookup_repeatable : forall vh cap, inj vh cap -> forall hf ops k i1 i2,
  get_key hf (run vh cap ops) k i1 = get_key hf (run vh cap ops) k i2.
Proof. exact key_repeatable. Qed.
Print Assumptions c13_lookup_repeatable.

(* no stale answer: after Remove n no lookup returns n, whatever was looked up before the removal *)
Theorem c13_lookup_after_remove : forall vh cap, inj vh cap -> forall hf ops k i n,
  get_key hf (run vh cap (ops ++ [Remove n])) k i <> Ok (Some n).
Proof. exact key_after_remove. Qed.
Print Assumptions c13_lookup_after_remove.

(* a ring built from a configuration (AddWithWeight (node i) (ws[i]) in order, as cache.New / kv.NewStore do):
   every node keeps ITS weight wherever weight-0 entries sit, and a weight-0 entry receives no key *)
Theorem c13_config_keeps_weights : forall cap top ws i w, nth_error ws i = Some w ->
  In (i, Nat.min (weight_replicas cap w top) cap) (members_of cap (config_ops cap top ws)).
Proof. exact config_members. Qed.
Print Assumptions c13_config_keeps_weights.

Theorem c13_config_drained_no_keys : forall vh cap, inj vh cap -> forall top ws i x inner,
  nth_error ws i = Some 0%nat -> get (run vh cap (config_ops cap top ws)) x inner <> Ok (Some i).
Proof. exact config_zero_no_keys. Qed.
Print Assumptions c13_config_drained_no_keys.

Example c13_config_example :
  members_of 4 (config_ops 4 4 [0; 4; 2]%nat) = [(2, 2); (1, 4); (0, 0)]%nat.
Proof. vm_compute. reflexivity. Qed.

(* a Get that overlaps Remove n is linearised before or after it (Exec.race_ok checks answer = owner before or owner
   after); with another node of positive weight present all the time both answers are present nodes, never absent *)
Theorem c13_get_overlapping_remove : forall vh cap, inj vh cap -> forall ops x i1 i2 n,
  (exists a r, a <> n /\ In (a, r) (members_of cap ops) /\ (0 < r)%nat) ->
  (exists p, get (run vh cap ops) x i1 = Ok (Some p)) /\
  (exists q, get (run vh cap (ops ++ [Remove n])) x i2 = Ok (Some q) /\ q <> n).
Proof. exact overlap_remove. Qed.
Print Assumptions c13_get_overlapping_remove.

(* kv multi-key Del: with every key stored on its owner shard, one Del(keys...) leaves none of the named keys on
   any shard (whatever the owners of adjacent keys are) and touches no other key *)
Theorem c13_multidel_removes_all : forall owner ks st, (forall k n, In k (st n) -> n = owner k) ->
  forall k, In k ks -> forall n, ~ In k (kv_del owner ks st n).
Proof. exact kv_del_all. Qed.
Print Assumptions c13_multidel_removes_all.

Theorem c13_multidel_keeps_others : forall owner ks st n x, ~ In x ks -> In x (st n) -> In x (kv_del owner ks st n).
Proof. exact kv_del_keeps. Qed.
Print Assumptions c13_multidel_keeps_others.

Require Coq.Strings.String.
Import Coq.Strings.String.StringSyntax.
Local Open Scope string_scope.
Example c13_text_examples :
  text_of (GPtr None) = "<nil>" /\ text_of GNil = "" /\
  text_of (GPtr (Some "abc")) = text_of (GVal "abc") /\
  repr (GPtr None) = Ok "<nil>" /\ repr (GStringer "nil-safe") = Ok "nil-safe".
Proof. repeat split. Qed.
