(* C13 Proofs: the model's Get refines the Spec's owner relation for every history. *)
From God Require Import Base.Prelude C13.Model C13.Spec.
From Coq Require Import Sorting.Sorted.
Local Open Scope N_scope.

(* ---------- association lists ---------- *)
Lemma alookup_aremove_eq {V} k (m : list (N * V)) : alookup N.eqb k (aremove N.eqb k m) = None.
Proof. induction m as [|[k' v] r IH]; simpl; auto. destruct (N.eqb_spec k k'); simpl; auto.
  destruct (N.eqb_spec k k'); congruence. Qed.
Lemma alookup_aremove_neq {V} k k' (m : list (N * V)) : k <> k' ->
  alookup N.eqb k (aremove N.eqb k' m) = alookup N.eqb k m.
Proof. intro H. induction m as [|[k2 v] r IH]; simpl; auto.
  destruct (N.eqb_spec k' k2); simpl.
  - subst. destruct (N.eqb_spec k k2); congruence.
  - destruct (N.eqb_spec k k2); auto. Qed.
Lemma alookup_aset_eq {V} k (v : V) m : alookup N.eqb k (aset N.eqb k v m) = Some v.
Proof. unfold aset; simpl. rewrite N.eqb_refl. reflexivity. Qed.
Lemma alookup_aset_neq {V} k k' (v : V) m : k <> k' ->
  alookup N.eqb k (aset N.eqb k' v m) = alookup N.eqb k m.
Proof. intro H. unfold aset; simpl. destruct (N.eqb_spec k k'); [congruence|].
  apply alookup_aremove_neq; auto. Qed.

(* ---------- sorted key lists ---------- *)
Lemma insert_In h l p : In p (insert h l) <-> p = h \/ In p l.
Proof. induction l as [|k r IH]; simpl; [intuition|].
  destruct (h <=? k); simpl; rewrite ?IH; intuition. Qed.

Lemma insert_sorted h l : StronglySorted N.lt l -> ~ In h l -> StronglySorted N.lt (insert h l).
Proof.
  induction l as [|k r IH]; simpl; intros Hs Hn.
  - constructor; constructor.
  - inversion Hs as [|? ? Hs' Hall]; subst.
    destruct (N.leb_spec h k) as [Hle|Hgt].
    + assert (h < k) by (destruct (N.eq_dec h k); [subst; tauto | lia]).
      constructor; [assumption|]. constructor; [assumption|].
      rewrite Forall_forall in *. intros y Hy. specialize (Hall y Hy). lia.
    + constructor; [apply IH; tauto|].
      rewrite Forall_forall in *. intros y Hy. apply insert_In in Hy as [->|Hy]; [lia|auto]. Qed.

Lemma remove_ge_In h l p : StronglySorted N.lt l -> (In p (remove_ge h l) <-> In p l /\ p <> h).
Proof.
  induction l as [|k r IH]; simpl; intros Hs; [tauto|].
  inversion Hs as [|? ? Hs' Hall]; subst. rewrite Forall_forall in Hall.
  destruct (N.leb_spec h k) as [Hle|Hgt].
  - destruct (N.eqb_spec k h) as [->|Hne]; simpl.
    + split; [intro Hp; specialize (Hall p Hp); split; [tauto|lia] | intros [[->|Hp] Hne]; tauto].
    + split; [intros [->|Hp]; [split; auto|]| tauto].
      specialize (Hall p Hp). split; [tauto|lia].
  - simpl. rewrite IH by assumption. split; [intros [->|[Hp Hne]]; [split; [tauto|lia]|tauto]|].
    intros [[->|Hp] Hne]; tauto. Qed.

Lemma remove_ge_sorted h l : StronglySorted N.lt l -> StronglySorted N.lt (remove_ge h l).
Proof.
  induction l as [|k r IH]; simpl; intros Hs; [constructor|].
  inversion Hs as [|? ? Hs' Hall]; subst.
  destruct (h <=? k); [destruct (k =? h); assumption|].
  constructor; [auto|]. rewrite Forall_forall in *. intros y Hy.
  apply remove_ge_In in Hy; [|assumption]. apply Hall; tauto. Qed.

Lemma find_ge_some x l k : StronglySorted N.lt l -> find_ge x l = Some k ->
  In k l /\ x <= k /\ forall q, In q l -> q = k \/ q < x \/ k < q.
Proof.
  induction l as [|a r IH]; simpl; intros Hs Hf; [discriminate|].
  inversion Hs as [|? ? Hs' Hall]; subst. rewrite Forall_forall in Hall.
  destruct (N.leb_spec x a) as [Hle|Hgt].
  - inversion Hf; subst. split; [auto|]. split; [assumption|].
    intros q [->|Hq]; [auto|]. right; right. auto.
  - destruct (IH Hs' Hf) as (Hin & Hxk & Hmin). split; [auto|]. split; [assumption|].
    intros q [->|Hq]; [right; left; lia | auto]. Qed.

Lemma find_ge_none x l : find_ge x l = None -> forall q, In q l -> q < x.
Proof.
  induction l as [|a r IH]; simpl; intros Hf q Hq; [tauto|].
  destruct (N.leb_spec x a); [discriminate|]. destruct Hq as [->|Hq]; auto. Qed.

Lemma classic_dec_ex (P : list (N * nat)) h : {n | In (h, n) P} + {forall n, ~ In (h, n) P}.
Proof.
  induction P as [|[p n] r IH].
  - right. intros n [].
  - destruct (N.eq_dec p h) as [->|Hne]; [left; exists n; simpl; auto|].
    destruct IH as [[n' Hn']|Hnone]; [left; exists n'; simpl; auto|].
    right. intros n' [Heq|Hn']; [inversion Heq; congruence | exact (Hnone n' Hn')].
Qed.

(* ---------- the (keys, ring) pair represents a set of (position,node) pairs ---------- *)
Definition KR (k : list N) (rg : list (N * list nat)) (P : list (N * nat)) : Prop :=
  StronglySorted N.lt k /\
  (forall p, In p k <-> exists n, In (p, n) P) /\
  (forall p n, In (p, n) P -> alookup N.eqb p rg = Some [n]) /\
  (forall p, (forall n, ~ In (p, n) P) -> alookup N.eqb p rg = None).

Lemma KR_ext k rg P P' : (forall pn, In pn P <-> In pn P') -> KR k rg P -> KR k rg P'.
Proof.
  intros E (H1 & H2 & H3 & H4). repeat split.
  - assumption.
  - intro Hp. apply H2 in Hp as [n Hn]. exists n. apply E; assumption.
  - intros [n Hn]. apply H2. exists n. apply E; assumption.
  - intros p n Hn. apply H3. apply E; assumption.
  - intros p Hp. apply H4. intros n Hn. apply (Hp n). apply E; assumption. Qed.

Lemma KR_nil : KR [] [] [].
Proof. repeat split; try constructor; simpl; try tauto. intros [n []]. Qed.

Lemma KR_fun k rg P p n n' : KR k rg P -> In (p, n) P -> In (p, n') P -> n = n'.
Proof. intros (_ & _ & H3 & _) Ha Hb. apply H3 in Ha. apply H3 in Hb. congruence. Qed.

Lemma KR_add k rg P h n : KR k rg P -> (forall n', ~ In (h, n') P) ->
  KR (insert h k) (ring_append h n rg) ((h, n) :: P).
Proof.
  intros (H1 & H2 & H3 & H4) Hfresh.
  assert (Hnk : ~ In h k) by (intro Hk; apply H2 in Hk as [n' Hn']; exact (Hfresh n' Hn')).
  unfold ring_append, ring_get. rewrite (H4 h Hfresh). simpl.
  repeat split.
  - apply insert_sorted; assumption.
  - intro Hp. apply insert_In in Hp as [->|Hp]; [exists n; simpl; auto|].
    apply H2 in Hp as [n' Hn']. exists n'. simpl; auto.
  - intros [n' [Heq|Hn']]; apply insert_In; [inversion Heq; auto|]. right. apply H2. eauto.
  - intros p n' [Heq|Hn'].
    + inversion Heq; subst. apply alookup_aset_eq.
    + rewrite alookup_aset_neq; [auto|]. intros ->. exact (Hfresh n' Hn').
  - intros p Hp. rewrite alookup_aset_neq.
    + apply H4. intros n' Hn'. apply (Hp n'). simpl; auto.
    + intros ->. apply (Hp n). simpl; auto. Qed.

Lemma KR_remove k rg P h n : KR k rg P -> (forall n', In (h, n') P -> n' = n) ->
  KR (remove_ge h k) (ring_remove h n rg) (filter (fun pn => negb (fst pn =? h)) P).
Proof.
  intros (H1 & H2 & H3 & H4) Hown.
  assert (HF : forall p n', In (p, n') (filter (fun pn => negb (fst pn =? h)) P) <-> In (p, n') P /\ p <> h).
  { intros p n'. rewrite filter_In. simpl. destruct (N.eqb_spec p h); simpl; intuition congruence. }
  assert (Hring : forall p, alookup N.eqb p (ring_remove h n rg) =
                            if p =? h then None else alookup N.eqb p rg).
  { intro p. unfold ring_remove. destruct (alookup N.eqb h rg) as [l|] eqn:El.
    - assert (Hl : filter (fun x => negb (Nat.eqb x n)) l = []).
      { destruct (classic_dec_ex P h) as [[n' Hn']|Hnone].
        - pose proof (Hown n' Hn'); subst n'. rewrite (H3 _ _ Hn') in El. inversion El; subst.
          simpl. rewrite Nat.eqb_refl. reflexivity.
        - rewrite (H4 h Hnone) in El. discriminate. }
      rewrite Hl. destruct (N.eqb_spec p h) as [->|Hne].
      + apply alookup_aremove_eq.
      + apply alookup_aremove_neq; assumption.
    - destruct (N.eqb_spec p h) as [->|Hne]; auto. }
  repeat split.
  - apply remove_ge_sorted; assumption.
  - intro Hp. apply remove_ge_In in Hp as [Hp Hne]; [|assumption].
    apply H2 in Hp as [n' Hn']. exists n'. apply HF. tauto.
  - intros [n' Hn']. apply HF in Hn' as [Hn' Hne]. apply remove_ge_In; [assumption|]. split; [|assumption].
    apply H2. eauto.
  - intros p n' Hn'. apply HF in Hn' as [Hn' Hne]. rewrite Hring.
    destruct (N.eqb_spec p h); [tauto|]. auto.
  - intros p Hp. rewrite Hring. destruct (N.eqb_spec p h) as [->|Hne]; [reflexivity|].
    apply H4. intros n' Hn'. apply (Hp n'). apply HF. tauto.
Qed.

(* ---------- membership-level facts ---------- *)
Lemma aremove_In (n : nat) (m : list (nat * nat)) a r : In (a, r) (aremove Nat.eqb n m) <-> In (a, r) m /\ a <> n.
Proof.
  induction m as [|[a' r'] t IH]; simpl; [tauto|].
  destruct (Nat.eqb_spec n a'); simpl; rewrite IH; split.
  - intros [H1 H2]; auto.
  - intros [[Heq|H1] H2]; [inversion Heq; subst; congruence | auto].
  - intros [Heq|[H1 H2]]; [inversion Heq; subst; split; auto | auto].
  - intros [[Heq|H1] H2]; auto.
Qed.

Lemma aremove_notin (n : nat) (m : list (nat * nat)) : ~ In n (map fst m) -> aremove Nat.eqb n m = m.
Proof.
  induction m as [|[a r] t IH]; simpl; intro H; [reflexivity|].
  destruct (Nat.eqb_spec n a); [subst; tauto|]. f_equal. apply IH. tauto. Qed.

Lemma aremove_fst_In (n : nat) (m : list (nat * nat)) a :
  In a (map fst (aremove Nat.eqb n m)) <-> In a (map fst m) /\ a <> n.
Proof.
  rewrite !in_map_iff. split.
  - intros [[a' r] [<- H]]. apply aremove_In in H as [H1 H2]. split; [exists (a', r); auto | auto].
  - intros [[[a' r] [<- H]] Hne]. exists (a', r). split; [reflexivity|]. apply aremove_In. auto. Qed.

Lemma aremove_NoDup (n : nat) (m : list (nat * nat)) : NoDup (map fst m) -> NoDup (map fst (aremove Nat.eqb n m)).
Proof.
  induction m as [|[a r] t IH]; simpl; intro H; [constructor|].
  inversion H; subst. destruct (Nat.eqb_spec n a); simpl; [auto|].
  constructor; [|auto]. intro Hin. apply aremove_fst_In in Hin. tauto. Qed.

Section Refine.
  Variable vh : nat -> nat -> N.
  Variable cap : nat.
  Hypothesis Hinj : forall n i n' i', (i < cap)%nat -> (i' < cap)%nat -> vh n i = vh n' i' -> n = n' /\ i = i'.

  Definition wf (m : members) : Prop :=
    NoDup (map fst m) /\ forall n r, In (n, r) m -> (r <= cap)%nat.

  Lemma in_positions m p n :
    In (p, n) (positions vh m) <-> exists r i, In (n, r) m /\ (i < r)%nat /\ p = vh n i.
  Proof.
    unfold positions. rewrite in_flat_map. split.
    - intros [[a r] [Hm Hv]]. unfold vnodes in Hv. simpl in Hv. apply in_map_iff in Hv as [i [Heq Hi]].
      inversion Heq; subst. apply in_seq in Hi. exists r, i. repeat split; [assumption|lia].
    - intros (r & i & Hm & Hi & ->). exists (n, r). split; [assumption|].
      unfold vnodes; simpl. apply in_map_iff. exists i. split; [reflexivity|]. apply in_seq. lia.
  Qed.

  Definition Inv (s : st) (m : members) : Prop :=
    R s = cap /\ KR (keys s) (ring s) (positions vh m) /\
    (forall n, In n (nodes s) <-> In n (map fst m)) /\ wf m.

  Lemma Inv_init : Inv (init cap) [].
  Proof. refine (conj _ (conj _ (conj _ (conj _ _)))); simpl; try tauto; try apply KR_nil; try constructor. Qed.

  Lemma remove_loop n k rg P j :
    KR k rg P -> (forall i n', (i < j)%nat -> In (vh n i, n') P -> n' = n) ->
    exists P', KR (fst (fold_left (remove_step vh n) (seq 0 j) (k, rg)))
                  (snd (fold_left (remove_step vh n) (seq 0 j) (k, rg))) P' /\
      forall pn, In pn P' <-> In pn P /\ forall i, (i < j)%nat -> fst pn <> vh n i.
  Proof.
    induction j as [|j IH]; intros HK Hown.
    - exists P. simpl. split; [assumption|]. intro pn. split; [intro; split; [assumption|intros; lia]|tauto].
    - destruct IH as (P' & HK' & HP'); [assumption | intros i n' Hi Hin; apply (Hown i n'); [lia|assumption] |].
      rewrite seq_S, fold_left_app. simpl.
      set (kr := fold_left (remove_step vh n) (seq 0 j) (k, rg)) in *.
      exists (filter (fun pn => negb (fst pn =? vh n j)) P'). split.
      + unfold remove_step; simpl. apply KR_remove; [assumption|].
        intros n' Hn'. apply HP' in Hn' as [Hn' _]. eapply Hown; [|eassumption]. lia.
      + intro pn. rewrite filter_In, HP'. destruct (N.eqb_spec (fst pn) (vh n j)) as [He|Hne]; simpl.
        * split; [intros [_ H]; discriminate|]. intros [_ H]. exfalso. apply (H j); [lia|assumption].
        * split; [intros [[H1 H2] _]; split; [assumption|]|intros [H1 H2]; split; [split; [assumption|]|reflexivity]].
          -- intros i Hi. destruct (Nat.eq_dec i j); [subst; assumption | apply H2; lia].
          -- intros i Hi. apply H2. lia.
  Qed.

  Lemma add_loop n k rg P j :
    KR k rg P -> (forall i n', (i < j)%nat -> ~ In (vh n i, n') P) ->
    (forall i i', (i < j)%nat -> (i' < j)%nat -> vh n i = vh n i' -> i = i') ->
    exists P', KR (fst (fold_left (add_step vh n) (seq 0 j) (k, rg)))
                  (snd (fold_left (add_step vh n) (seq 0 j) (k, rg))) P' /\
      forall pn, In pn P' <-> In pn P \/ exists i, (i < j)%nat /\ pn = (vh n i, n).
  Proof.
    induction j as [|j IH]; intros HK Hfresh Hdist.
    - exists P. simpl. split; [assumption|]. intro pn. split; [auto|]. intros [H|[i [Hi _]]]; [assumption|lia].
    - destruct IH as (P' & HK' & HP'); [assumption | intros i n' Hi Hin; apply (Hfresh i n'); [lia|assumption] | intros i i' Hi Hi' He; apply Hdist; [lia|lia|assumption] |].
      rewrite seq_S, fold_left_app. simpl.
      set (kr := fold_left (add_step vh n) (seq 0 j) (k, rg)) in *.
      exists ((vh n j, n) :: P'). split.
      + unfold add_step; simpl. apply KR_add; [assumption|].
        intros n' Hn'. apply HP' in Hn' as [Hn'|[i [Hi Heq]]].
        * eapply Hfresh; [|eassumption]. lia.
        * inversion Heq as [[He Hn]]. assert (j = i) by (apply Hdist; auto; lia). lia.
      + intro pn. simpl. rewrite HP'. split.
        * intros [<-|[H|[i [Hi Heq]]]]; [right; exists j; split; [lia|reflexivity] | auto | right; exists i; split; [lia|assumption]].
        * intros [H|[i [Hi Heq]]]; [auto|]. destruct (Nat.eq_dec i j); [subst; auto|].
          right; right. exists i. split; [lia|assumption].
  Qed.

  Lemma Inv_remove n s m : Inv s m -> Inv (remove vh n s) (m_remove n m).
  Proof.
    intros (HR & HK & Hn & Hnd & Hb). unfold remove, m_remove.
    destruct (existsb (Nat.eqb n) (nodes s)) eqn:Ex.
    - destruct (remove_loop n (keys s) (ring s) (positions vh m) (R s) HK) as (P' & HK' & HP').
      { intros i n' Hi Hin. apply in_positions in Hin as (r & i' & Hm & Hi' & Heq).
        specialize (Hb _ _ Hm). symmetry. eapply (Hinj n i n' i'); [lia|lia|assumption]. }
      refine (conj _ (conj _ (conj _ (conj _ _)))); simpl.
      + assumption.
      + apply (KR_ext _ _ P'); [|exact HK'].
        intros [p a].
        rewrite HP'.
        rewrite !in_positions.
        simpl. split.
        * intros [(r & i & Hm & Hi & ->) Hne]. exists r, i. repeat split; [|assumption].
          apply aremove_In. split; [assumption|]. intros ->. apply (Hne i); [specialize (Hb _ _ Hm); lia | reflexivity].
        * intros (r & i & Hm & Hi & ->). apply aremove_In in Hm as [Hm Hne]. split; [exists r, i; auto|].
          intros i' Hi' Heq. specialize (Hb _ _ Hm). apply Hne. eapply (Hinj a i n i'); [lia|lia|assumption].
      + intro n0. split.
        * intro Hin. apply filter_In in Hin as [Hin Hne]. apply aremove_fst_In. split; [apply Hn; assumption|].
          destruct (Nat.eqb_spec n0 n); [discriminate|assumption].
        * intro Hin. apply aremove_fst_In in Hin as [Hin Hne]. apply filter_In. split; [apply Hn; assumption|].
          destruct (Nat.eqb_spec n0 n); [contradiction|reflexivity].
      + apply aremove_NoDup; assumption.
      + intros a r Hin. apply aremove_In in Hin as [Hin _]. eauto.
    - assert (Hnot : ~ In n (map fst m)).
      { intro Hin. apply Hn in Hin. assert (existsb (Nat.eqb n) (nodes s) = true); [|congruence].
        apply existsb_exists. exists n. split; [assumption|apply Nat.eqb_refl]. }
      rewrite aremove_notin by assumption. refine (conj _ (conj _ (conj _ (conj _ _)))); assumption.
  Qed.

  Lemma remove_R n s : R (remove vh n s) = R s.
  Proof. unfold remove. destruct (existsb _ _); reflexivity. Qed.

  Lemma Inv_add n r s m : Inv s m -> Inv (add_replicas vh n r s) (m_add n r cap m).
  Proof.
    intro HI. pose proof (Inv_remove n s m HI) as (HR & HK & Hn & Hnd & Hb).
    unfold add_replicas, m_add. set (s1 := remove vh n s) in *. set (m1 := m_remove n m) in *.
    assert (Hnot : ~ In n (map fst m1)) by (intro H; apply aremove_fst_In in H; tauto).
    rewrite HR. set (j := Nat.min r cap).
    destruct (add_loop n (keys s1) (ring s1) (positions vh m1) j HK) as (P' & HK' & HP').
    { intros i n' Hi Hin. apply in_positions in Hin as (r' & i' & Hm & Hi' & Heq).
      specialize (Hb _ _ Hm). assert (n = n') by (eapply (Hinj n i n' i'); [lia|lia|assumption]). subst n'.
      apply Hnot. apply in_map_iff. exists (n, r'). auto. }
    { intros i i' Hi Hi' Heq. eapply (Hinj n i n i'); [lia|lia|assumption]. }
    refine (conj _ (conj _ (conj _ (conj _ _)))); simpl.
    - reflexivity.
    - apply (KR_ext _ _ P'); [|exact HK']. intros [p a]. rewrite HP'. rewrite in_app_iff.
      unfold vnodes at 1; simpl. rewrite in_map_iff. split.
      + intros [H|[i [Hi Heq]]]; [right; assumption|]. left. exists i. split; [congruence|]. apply in_seq. lia.
      + intros [[i [Heq Hi]]|H]; [|left; assumption]. right. exists i. apply in_seq in Hi. split; [lia|congruence].
    - intro n0. split.
      + intros [<-|Hin]; [left; reflexivity|]. right. apply Hn. assumption.
      + intros [<-|Hin]; [left; reflexivity|]. right. apply Hn. assumption.
    - constructor; assumption.
    - intros a r' [Heq|Hin]; [inversion Heq; subst; lia|eauto].
  Qed.

  Definition abs_op (o : op) : sop := match o with Add n r => SAdd n r | Remove n => SRemove n end.

  Lemma Inv_step s m o : Inv s m -> Inv (step vh s o) (sstep cap m (abs_op o)).
  Proof. destruct o; simpl; [apply Inv_add | apply Inv_remove]. Qed.

  Lemma Inv_run_from ops : forall s m, Inv s m ->
    Inv (fold_left (step vh) ops s) (fold_left (sstep cap) (map abs_op ops) m).
  Proof. induction ops as [|o t IH]; simpl; intros s m H; [assumption|]. apply IH. apply Inv_step. assumption. Qed.

  Lemma Inv_run ops : Inv (run vh cap ops) (srun cap (map abs_op ops)).
  Proof. apply Inv_run_from. apply Inv_init. Qed.

  (* ---------- Get ---------- *)
  Lemma get_spec s m x inner : Inv s m ->
    (get s x inner = Ok None /\ positions vh m = []) \/
    (exists n, get s x inner = Ok (Some n) /\ is_owner vh m x n).
  Proof.
    intros (HR & (H1 & H2 & H3 & H4) & _ & _). unfold get.
    destruct (ring s) as [|[p0 l0] rg] eqn:Er.
    - left. split; [reflexivity|]. destruct (positions vh m) as [|[p n] t] eqn:Ep; [reflexivity|].
      assert (Hc : alookup N.eqb p ([] : list (N * list nat)) = Some [n]) by (apply H3; left; reflexivity).
      discriminate.
    - right. destruct (keys s) as [|k0 kt] eqn:Ek.
      + exfalso. assert (Hl : alookup N.eqb p0 ((p0, l0) :: rg) = None).
        { apply H4. intros n Hn. assert (Hin : In p0 []) by (apply H2; eauto). exact Hin. }
        simpl in Hl. rewrite N.eqb_refl in Hl. discriminate.
      + set (k := match find_ge x (k0 :: kt) with Some k => k | None => k0 end).
        assert (Hk : In k (k0 :: kt) /\ forall q, In q (k0 :: kt) -> q = k \/ cyc_lt x k q).
        { unfold k. destruct (find_ge x (k0 :: kt)) as [k'|] eqn:Ef.
          - destruct (find_ge_some _ _ _ H1 Ef) as (Hin & Hle & Hmin). split; [assumption|].
            intros q Hq. destruct (Hmin q Hq) as [->|[Hlt|Hgt]]; [auto | right; left; split; [lia|left; lia] | right; left; split; [lia|right; lia]].
          - pose proof (find_ge_none _ _ Ef) as Hall. split; [left; reflexivity|].
            intros q Hq. destruct Hq as [<-|Hq]; [auto|]. right. right.
            inversion H1 as [|? ? _ Hfa]; subst. rewrite Forall_forall in Hfa.
            repeat split; [apply Hall; left; reflexivity | apply Hall; right; assumption | apply Hfa; assumption]. }
        destruct Hk as [Hkin Hkmin]. apply H2 in Hkin as [n Hn]. exists n.
        unfold ring_get. rewrite (H3 _ _ Hn). split; [reflexivity|].
        exists k. split; [assumption|]. intros q n' Hq. apply Hkmin. apply H2. eauto.
  Qed.

  Lemma positions_fun m p n n' : wf m -> In (p, n) (positions vh m) -> In (p, n') (positions vh m) -> n = n'.
  Proof.
    intros [_ Hb] Ha Hc. apply in_positions in Ha as (r & i & Hm & Hi & ->).
    apply in_positions in Hc as (r' & i' & Hm' & Hi' & Heq).
    pose proof (Hb _ _ Hm). pose proof (Hb _ _ Hm'). eapply (Hinj n i n' i'); [lia|lia|assumption].
  Qed.

  Lemma cyc_lt_asym x p q : cyc_lt x p q -> cyc_lt x q p -> False.
  Proof. unfold cyc_lt. lia. Qed.

  Lemma owner_unique m x n n' : wf m -> is_owner vh m x n -> is_owner vh m x n' -> n = n'.
  Proof.
    intros Hwf (p & Hp & Hmin) (p' & Hp' & Hmin').
    destruct (Hmin _ _ Hp') as [->|Hlt]; [eapply positions_fun; eauto|].
    destruct (Hmin' _ _ Hp) as [->|Hlt']; [eapply positions_fun; eauto|].
    exfalso. eapply cyc_lt_asym; eauto.
  Qed.
End Refine.

(* ---------- Spec-level monotonicity (no hypothesis on the hash at all) ---------- *)
Section SpecFacts.
  Variable vh : nat -> nat -> N.

  Lemma in_positions' m p n :
    In (p, n) (positions vh m) <-> exists r i, In (n, r) m /\ (i < r)%nat /\ p = vh n i.
  Proof.
    unfold positions. rewrite in_flat_map. split.
    - intros [[a r] [Hm Hv]]. unfold vnodes in Hv. simpl in Hv. apply in_map_iff in Hv as [i [Heq Hi]].
      inversion Heq; subst. apply in_seq in Hi. exists r, i. repeat split; [assumption|lia].
    - intros (r & i & Hm & Hi & ->). exists (n, r). split; [assumption|].
      unfold vnodes; simpl. apply in_map_iff. exists i. split; [reflexivity|]. apply in_seq. lia.
  Qed.

  Lemma owner_is_member m x n : is_owner vh m x n -> exists r, In (n, r) m /\ (0 < r)%nat.
  Proof. intros (p & Hp & _). apply in_positions' in Hp as (r & i & Hm & Hi & _). exists r. split; [assumption|lia]. Qed.

  Lemma spec_remove_monotone m x a n : is_owner vh m x a -> a <> n -> is_owner vh (m_remove n m) x a.
  Proof.
    intros (p & Hp & Hmin) Hne. exists p. split.
    - apply in_positions' in Hp as (r & i & Hm & Hi & ->). apply in_positions'. exists r, i.
      repeat split; [|assumption]. apply aremove_In. auto.
    - intros q n' Hq. apply (Hmin q n'). apply in_positions' in Hq as (r & i & Hm & Hi & ->).
      apply aremove_In in Hm as [Hm _]. apply in_positions'. eauto.
  Qed.

  Lemma spec_add_monotone m x a n r cap : is_owner vh (m_add n r cap m) x a -> a = n \/ is_owner vh (m_remove n m) x a.
  Proof.
    intros (p & Hp & Hmin). unfold m_add in *. destruct (Nat.eq_dec a n) as [|Hne]; [left; assumption|right].
    exists p. split.
    - apply in_positions' in Hp as (r' & i & Hm & Hi & ->). destruct Hm as [Heq|Hm]; [inversion Heq; congruence|].
      apply in_positions'. eauto.
    - intros q n' Hq. apply (Hmin q n'). apply in_positions' in Hq as (r' & i & Hm & Hi & ->).
      apply in_positions'. exists r', i. repeat split; [right; assumption|assumption].
  Qed.

  Lemma spec_weight_zero m x n cap : ~ is_owner vh (m_add n 0 cap m) x n.
  Proof.
    intros (p & Hp & _). apply in_positions' in Hp as (r & i & Hm & Hi & _). unfold m_add in Hm.
    destruct Hm as [Heq|Hm]; [inversion Heq; subst; simpl in Hi; lia|]. apply aremove_In in Hm. tauto.
  Qed.

  Lemma spec_readd_replaces m n r cap p :
    In (p, n) (positions vh (m_add n r cap m)) <-> exists i, (i < Nat.min r cap)%nat /\ p = vh n i.
  Proof.
    rewrite in_positions'. unfold m_add. split.
    - intros (r' & i & [Heq|Hm] & Hi & ->); [inversion Heq; subst; eauto|]. apply aremove_In in Hm. tauto.
    - intros (i & Hi & ->). exists (Nat.min r cap), i. repeat split; [left; reflexivity|assumption].
  Qed.
End SpecFacts.

(* ---------- statements used by Props.v ---------- *)
Definition inj (vh : nat -> nat -> N) (cap : nat) : Prop :=
  forall n i n' i', (i < cap)%nat -> (i' < cap)%nat -> vh n i = vh n' i' -> n = n' /\ i = i'.

Definition members_of (cap : nat) (ops : list op) : members := srun cap (map abs_op ops).

Section Final.
  Variable vh : nat -> nat -> N.
  Variable cap : nat.
  Hypothesis Hinj : inj vh cap.

  Lemma get_owner_iff s m x inner n : Inv vh cap s m ->
    (get s x inner = Ok (Some n) <-> is_owner vh m x n).
  Proof.
    intro HI. destruct (get_spec vh cap Hinj s m x inner HI) as [[Hg Hp]|[n' [Hg Ho]]].
    - split; [rewrite Hg; discriminate|]. intros (p & Hp' & _). rewrite Hp in Hp'. destruct Hp'.
    - split; [rewrite Hg; intro E; inversion E; subst; assumption|].
      intro Ho'. destruct HI as (_ & _ & _ & Hwf). rewrite Hg. do 2 f_equal. eapply (owner_unique vh cap Hinj); eauto.
  Qed.

  Lemma refines ops x inner :
    (get (run vh cap ops) x inner = Ok None /\ positions vh (members_of cap ops) = []) \/
    (exists n, get (run vh cap ops) x inner = Ok (Some n) /\ is_owner vh (members_of cap ops) x n).
  Proof. apply (get_spec vh cap Hinj). apply Inv_run. exact Hinj. Qed.

  Lemma positions_nil_iff m : positions vh m = [] <-> forall n r, In (n, r) m -> r = 0%nat.
  Proof.
    split.
    - intros Hp n r Hm. destruct r as [|r]; [reflexivity|]. exfalso.
      assert (Hin : In (vh n 0%nat, n) (positions vh m)) by (apply in_positions'; exists (S r), 0%nat; repeat split; [assumption|lia]).
      rewrite Hp in Hin. destruct Hin.
    - intro H. destruct (positions vh m) as [|[p n] t] eqn:E; [reflexivity|]. exfalso.
      assert (Hin : In (p, n) (positions vh m)) by (rewrite E; left; reflexivity).
      apply in_positions' in Hin as (r & i & Hm & Hi & _). specialize (H _ _ Hm). lia.
  Qed.

  Lemma total ops x inner :
    get (run vh cap ops) x inner <> Panic /\
    (forall n, get (run vh cap ops) x inner = Ok (Some n) ->
               exists r, In (n, r) (members_of cap ops) /\ (0 < r)%nat) /\
    (get (run vh cap ops) x inner = Ok None <->
       forall n r, In (n, r) (members_of cap ops) -> r = 0%nat).
  Proof.
    destruct (refines ops x inner) as [[Hg Hp]|[n [Hg Ho]]]; rewrite Hg.
    - split; [discriminate|]. split; [discriminate|]. split; [intros _; apply positions_nil_iff; assumption | reflexivity].
    - split; [discriminate|]. split.
      + intros n' E. inversion E; subst. eapply owner_is_member; eauto.
      + split; [discriminate|]. intro H. exfalso. apply owner_is_member in Ho as (r & Hm & Hr).
        specialize (H _ _ Hm). lia.
  Qed.

  Lemma stable ops1 ops2 x i1 i2 :
    (forall pn, In pn (positions vh (members_of cap ops1)) <-> In pn (positions vh (members_of cap ops2))) ->
    get (run vh cap ops1) x i1 = get (run vh cap ops2) x i2.
  Proof.
    intro E.
    assert (Hown : forall n, is_owner vh (members_of cap ops1) x n -> is_owner vh (members_of cap ops2) x n).
    { intros n (p & Hp & Hmin). exists p. split; [apply E; assumption|]. intros q n' Hq. apply (Hmin q n'). apply E. assumption. }
    pose proof (Inv_run vh cap Hinj ops2) as HI2.
    destruct (refines ops1 x i1) as [[Hg Hp]|[n [Hg Ho]]]; rewrite Hg.
    - destruct (refines ops2 x i2) as [[Hg2 Hp2]|[n [Hg2 (p & Hin & _)]]]; [congruence|].
      apply E in Hin. rewrite Hp in Hin. destruct Hin.
    - symmetry. apply (get_owner_iff _ _ x i2 n HI2). apply Hown. assumption.
  Qed.

  Lemma run_snoc ops o : run vh cap (ops ++ [o]) = step vh (run vh cap ops) o.
  Proof. unfold run. rewrite fold_left_app. reflexivity. Qed.

  Lemma members_snoc ops o : members_of cap (ops ++ [o]) = sstep cap (members_of cap ops) (abs_op o).
  Proof. unfold members_of, srun. rewrite map_app, fold_left_app. reflexivity. Qed.

  Lemma remove_monotone ops x i1 i2 a n :
    get (run vh cap ops) x i1 = Ok (Some a) -> a <> n ->
    get (run vh cap (ops ++ [Remove n])) x i2 = Ok (Some a).
  Proof.
    intros Hg Hne. pose proof (Inv_run vh cap Hinj ops) as HI. pose proof (Inv_run vh cap Hinj (ops ++ [Remove n])) as HI'.
    apply (get_owner_iff _ _ x i1 a HI) in Hg. apply (get_owner_iff _ _ x i2 a HI').
    fold (members_of cap (ops ++ [Remove n])). rewrite members_snoc. simpl. apply spec_remove_monotone; assumption.
  Qed.

  Lemma add_monotone ops x i1 i2 a n r :
    get (run vh cap (ops ++ [Add n r])) x i1 = Ok (Some a) ->
    a = n \/ get (run vh cap (ops ++ [Remove n])) x i2 = Ok (Some a).
  Proof.
    intros Hg. pose proof (Inv_run vh cap Hinj (ops ++ [Add n r])) as HI. pose proof (Inv_run vh cap Hinj (ops ++ [Remove n])) as HI'.
    apply (get_owner_iff _ _ x i1 a HI) in Hg. fold (members_of cap (ops ++ [Add n r])) in Hg. rewrite members_snoc in Hg. simpl in Hg.
    apply spec_add_monotone in Hg as [->|Ho]; [left; reflexivity|right].
    apply (get_owner_iff _ _ x i2 a HI'). fold (members_of cap (ops ++ [Remove n])). rewrite members_snoc. exact Ho.
  Qed.

  Lemma add_monotone_fresh ops x i1 i2 a n r :
    ~ In n (map fst (members_of cap ops)) ->
    get (run vh cap (ops ++ [Add n r])) x i1 = Ok (Some a) ->
    a = n \/ get (run vh cap ops) x i2 = Ok (Some a).
  Proof.
    intros Hfresh Hg. destruct (add_monotone ops x i1 i2 a n r Hg) as [->|H]; [left; reflexivity|right].
    rewrite <- H. apply stable. intro pn. rewrite members_snoc. simpl. unfold m_remove.
    rewrite aremove_notin by assumption. reflexivity.
  Qed.

  Lemma weight_zero ops x i n : get (run vh cap (ops ++ [Add n 0%nat])) x i <> Ok (Some n).
  Proof.
    intro Hg. pose proof (Inv_run vh cap Hinj (ops ++ [Add n 0%nat])) as HI.
    apply (get_owner_iff _ _ x i n HI) in Hg. fold (members_of cap (ops ++ [Add n 0%nat])) in Hg.
    rewrite members_snoc in Hg. simpl in Hg. eapply spec_weight_zero; eauto.
  Qed.

  Lemma readd_replaces ops n r p :
    In (p, n) (positions vh (members_of cap (ops ++ [Add n r]))) <-> exists i, (i < Nat.min r cap)%nat /\ p = vh n i.
  Proof. rewrite members_snoc. simpl. apply spec_readd_replaces. Qed.
  (* ---- keys as Go values ---- *)
  Lemma repr_text k : repr k = Ok (text_of k).
  Proof. destruct k as [|s|[t|]|t]; reflexivity. Qed.

  Lemma get_key_eq hf s k inner : get_key hf s k inner = get s (hf (text_of k)) inner.
  Proof. unfold get_key. rewrite repr_text. unfold get. destruct (ring s); reflexivity. Qed.

  Lemma key_total hf ops k inner :
    get_key hf (run vh cap ops) k inner <> Panic /\
    (forall n, get_key hf (run vh cap ops) k inner = Ok (Some n) ->
               exists r, In (n, r) (members_of cap ops) /\ (0 < r)%nat) /\
    (get_key hf (run vh cap ops) k inner = Ok None <->
       forall n r, In (n, r) (members_of cap ops) -> r = 0%nat).
  Proof. rewrite get_key_eq. apply total. Qed.

  Lemma key_same_text hf ops k1 k2 i1 i2 : text_of k1 = text_of k2 ->
    get_key hf (run vh cap ops) k1 i1 = get_key hf (run vh cap ops) k2 i2.
  Proof. intros E. rewrite !get_key_eq, E. apply stable. intro pn. reflexivity. Qed.

  Lemma key_empty_ring hf k inner : get_key hf (run vh cap []) k inner = Ok None.
  Proof. reflexivity. Qed.

  (* removing every node (or leaving only weight-0 nodes) leaves no virtual node behind *)
  Lemma alist_all_none {V} (rg : list (N * V)) : (forall p, alookup N.eqb p rg = None) -> rg = [].
  Proof.
    destruct rg as [|[p v] t]; [reflexivity|]. intro H. specialize (H p). simpl in H.
    rewrite N.eqb_refl in H. discriminate.
  Qed.

  Lemma remove_all_empties ops :
    (forall n r, In (n, r) (members_of cap ops) -> r = 0%nat) ->
    keys (run vh cap ops) = [] /\ ring (run vh cap ops) = [].
  Proof.
    intro H. apply positions_nil_iff in H.
    destruct (Inv_run vh cap Hinj ops) as (_ & (_ & H2 & _ & H4) & _). fold (members_of cap ops) in H2, H4.
    rewrite H in H2, H4. split.
    - destruct (keys (run vh cap ops)) as [|p t]; [reflexivity|]. exfalso.
      destruct (proj1 (H2 p) (or_introl eq_refl)) as [n []].
    - apply alist_all_none. intro p. apply H4. intros n [].
  Qed.

  Lemma members_nil_nodes ops : members_of cap ops = [] -> nodes (run vh cap ops) = [].
  Proof.
    intro H. destruct (Inv_run vh cap Hinj ops) as (_ & _ & Hn & _). fold (members_of cap ops) in Hn. rewrite H in Hn.
    destruct (nodes (run vh cap ops)) as [|n t]; [reflexivity|]. exfalso. apply (Hn n). left. reflexivity.
  Qed.
  (* repeated lookups of one key (whatever its inner hash evaluates to) agree *)
  Lemma key_repeatable hf ops k i1 i2 :
    get_key hf (run vh cap ops) k i1 = get_key hf (run vh cap ops) k i2.
  Proof. apply key_same_text. reflexivity. Qed.

  (* a removed node answers no lookup, whatever was looked up before the removal *)
  Lemma after_remove ops x i n : get (run vh cap (ops ++ [Remove n])) x i <> Ok (Some n).
  Proof.
    intro Hg. destruct (total (ops ++ [Remove n]) x i) as (_ & Hm & _). destruct (Hm n Hg) as (r & Hin & _).
    rewrite members_snoc in Hin. simpl in Hin. unfold m_remove in Hin. apply aremove_In in Hin. tauto.
  Qed.

  Lemma key_after_remove hf ops k i n : get_key hf (run vh cap (ops ++ [Remove n])) k i <> Ok (Some n).
  Proof. rewrite get_key_eq. apply after_remove. Qed.
  (* a Get overlapping Remove n answers like a Get before it or a Get after it; with another node of positive weight
     present all the time both are present nodes (never absent), and the later one is not n *)
  Lemma has_positive_not_none ops x i : (exists a r, In (a, r) (members_of cap ops) /\ (0 < r)%nat) ->
    exists p, get (run vh cap ops) x i = Ok (Some p).
  Proof.
    intros (a & r & Hin & Hr). destruct (refines ops x i) as [[Hg Hp]|[p [Hg _]]]; [|eauto].
    exfalso. pose proof (proj1 (positions_nil_iff _) Hp _ _ Hin). lia.
  Qed.

  Lemma overlap_remove ops x i1 i2 n :
    (exists a r, a <> n /\ In (a, r) (members_of cap ops) /\ (0 < r)%nat) ->
    (exists p, get (run vh cap ops) x i1 = Ok (Some p)) /\
    (exists q, get (run vh cap (ops ++ [Remove n])) x i2 = Ok (Some q) /\ q <> n).
  Proof.
    intros (a & r & Hne & Hin & Hr). split.
    - apply has_positive_not_none. eauto.
    - destruct (has_positive_not_none (ops ++ [Remove n]) x i2) as [q Hq].
      + exists a, r. split; [|assumption]. rewrite members_snoc. simpl. unfold m_remove. apply aremove_In. tauto.
      + exists q. split; [assumption|]. intros ->. exact (after_remove ops x i2 n Hq).
  Qed.
End Final.

(* ---------- a ring built from a configuration (cache.New / kv.NewStore: AddWithWeight(node_i, weight_i) in order) ---------- *)
Fixpoint config_from (cap top i : nat) (ws : list nat) : list op :=
  match ws with
  | [] => []
  | w :: r => Add i (weight_replicas cap w top) :: config_from cap top (S i) r
  end.
Definition config_ops (cap top : nat) (ws : list nat) : list op := config_from cap top 0 ws.

Lemma config_preserve cap top ws : forall i0 m n r, In (n, r) m -> (n < i0)%nat ->
  In (n, r) (fold_left (sstep cap) (map abs_op (config_from cap top i0 ws)) m).
Proof.
  induction ws as [|w t IH]; simpl; intros i0 m n r Hin Hlt; [assumption|].
  apply IH; [|lia]. unfold m_add, m_remove. right. apply aremove_In. split; [assumption|lia].
Qed.

Lemma config_members_from cap top ws : forall i0 m j w, nth_error ws j = Some w ->
  In ((i0 + j)%nat, Nat.min (weight_replicas cap w top) cap)
     (fold_left (sstep cap) (map abs_op (config_from cap top i0 ws)) m).
Proof.
  induction ws as [|w0 t IH]; intros i0 m [|j] w Hn; simpl in Hn; try discriminate.
  - inversion Hn; subst. simpl. rewrite Nat.add_0_r. apply config_preserve; [|lia]. left. reflexivity.
  - simpl. replace (i0 + S j)%nat with (S i0 + j)%nat by lia. apply IH. assumption.
Qed.

(* every configured node keeps ITS weight, wherever weight-0 entries sit in the configuration *)
Lemma config_members cap top ws i w : nth_error ws i = Some w ->
  In (i, Nat.min (weight_replicas cap w top) cap) (members_of cap (config_ops cap top ws)).
Proof. intro H. apply (config_members_from cap top ws 0%nat [] i w H). Qed.

Lemma nodup_fst_fun (m : members) n r r' : NoDup (map fst m) -> In (n, r) m -> In (n, r') m -> r = r'.
Proof.
  induction m as [|[a b] t IH]; simpl; intros Hnd H1 H2; [tauto|]. inversion Hnd as [|? ? Hni Hnd']; subst.
  destruct H1 as [E1|H1], H2 as [E2|H2].
  - congruence.
  - inversion E1; subst. exfalso. apply Hni. apply in_map_iff. exists (n, r'). split; [reflexivity|assumption].
  - inversion E2; subst. exfalso. apply Hni. apply in_map_iff. exists (n, r). split; [reflexivity|assumption].
  - apply IH; assumption.
Qed.

(* ... and a drained (weight 0) entry receives no key, wherever it sits *)
Lemma config_zero_no_keys vh cap (Hinj : inj vh cap) top ws i x inner : nth_error ws i = Some 0%nat ->
  get (run vh cap (config_ops cap top ws)) x inner <> Ok (Some i).
Proof.
  intros H Hg. destruct (total vh cap Hinj (config_ops cap top ws) x inner) as (_ & Hm & _).
  destruct (Hm i Hg) as (r & Hin & Hr). pose proof (config_members cap top ws i 0%nat H) as H0.
  assert (E : weight_replicas cap 0 top = 0%nat) by (unfold weight_replicas; rewrite Nat.mul_0_r; destruct top; reflexivity).
  rewrite E in H0. simpl in H0.
  destruct (Inv_run vh cap Hinj (config_ops cap top ws)) as (_ & _ & _ & Hnd & _).
  fold (members_of cap (config_ops cap top ws)) in Hnd.
  pose proof (nodup_fst_fun _ _ _ _ Hnd Hin H0). lia.
Qed.

(* non-vacuity: a hash satisfying the hypothesis, and a history on which a key moves *)
Definition demo_vh (n i : nat) : N := N.of_nat (n * 10 + i * 37 mod 10 + 100 * i).

(* ---------- kv multi-key Del ---------- *)
Lemma kv_del_subset owner ks : forall st n x, In x (kv_del owner ks st n) -> In x (st n).
Proof.
  induction ks as [|a t IH]; simpl; intros st n x H; [assumption|].
  apply IH in H. unfold kv_del1 in H. destruct (Nat.eqb n (owner a)); [|assumption].
  apply in_remove in H. tauto.
Qed.

Lemma kv_del_owner owner ks : forall st k, In k ks -> ~ In k (kv_del owner ks st (owner k)).
Proof.
  induction ks as [|a t IH]; simpl; intros st k Hin; [tauto|].
  destruct (N.eq_dec a k) as [->|Hne].
  - intro H. apply kv_del_subset in H. unfold kv_del1 in H. rewrite Nat.eqb_refl in H.
    apply in_remove in H. tauto.
  - destruct Hin as [E|Hin]; [congruence|]. apply IH. assumption.
Qed.

Lemma kv_del_all owner ks st : (forall k n, In k (st n) -> n = owner k) ->
  forall k, In k ks -> forall n, ~ In k (kv_del owner ks st n).
Proof.
  intros Hplaced k Hin n H. destruct (Nat.eq_dec n (owner k)) as [->|Hne].
  - exact (kv_del_owner owner ks st k Hin H).
  - apply kv_del_subset in H. apply Hplaced in H. congruence.
Qed.

Lemma kv_del_keeps owner ks : forall st n x, ~ In x ks -> In x (st n) -> In x (kv_del owner ks st n).
Proof.
  induction ks as [|a t IH]; simpl; intros st n x Hni H; [assumption|].
  apply IH; [tauto|]. unfold kv_del1. destruct (Nat.eqb n (owner a)); [|assumption].
  apply in_in_remove; [|assumption]. intro E. apply Hni. left. congruence.
Qed.
