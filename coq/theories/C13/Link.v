(* C13 Link: constants regenerated from lib/hash/consistenthash.go are the ones the model and the
   property statement use; the executable Spec owner is the relation the theorems speak of. *)
From God Require Import Base.Prelude C13.Model C13.Spec C13.Proofs C13.Exec.
From GodGen Require C13_Gen.
Local Open Scope N_scope.

Lemma link_minReplicas : C13_Gen.minReplicas = 100%Z.
Proof. reflexivity. Qed.

Lemma link_topWeight : C13_Gen.TopWeight = 100%Z.
Proof. reflexivity. Qed.

(* the checkers' own numbers (Exec) are the regenerated ones *)
Lemma link_exec_constants :
  Z.of_nat Exec.min_replicas = C13_Gen.minReplicas /\ Z.of_nat Exec.top_weight = C13_Gen.TopWeight.
Proof. split; reflexivity. Qed.

Lemma cyc_ltb_spec x p q : cyc_ltb x p q = true <-> cyc_lt x p q.
Proof. unfold cyc_ltb, cyc_lt. lia. Qed.

Lemma cyc_total x p q : p = q \/ cyc_lt x p q \/ cyc_lt x q p.
Proof. unfold cyc_lt. lia. Qed.

Lemma cyc_trans x p q r : cyc_lt x p q -> cyc_lt x q r -> cyc_lt x p r.
Proof. unfold cyc_lt. lia. Qed.

Lemma fold_best_spec x l acc b :
  fold_left (best x) l acc = Some b ->
  (In b l \/ acc = Some b) /\
  (forall pn, In pn l \/ acc = Some pn -> fst pn = fst b \/ cyc_lt x (fst b) (fst pn)).
Proof.
  revert acc. induction l as [|a t IH]; simpl; intros acc H.
  - subst. split; [auto|]. intros pn [[]|E]. inversion E; auto.
  - apply IH in H as [Hin Hmin]. split.
    + destruct Hin as [Hin|Hacc]; [auto|]. unfold best in Hacc. destruct acc as [c|].
      * destruct (cyc_ltb x (fst a) (fst c)); inversion Hacc; subst; auto.
      * inversion Hacc; auto.
    + intros pn [[<-|Hin']|Hacc].
      * unfold best in Hmin. destruct acc as [c|].
        -- destruct (cyc_ltb x (fst a) (fst c)) eqn:E.
           ++ apply Hmin. right. reflexivity.
           ++ assert (Hc : fst c = fst b \/ cyc_lt x (fst b) (fst c)) by (apply Hmin; right; reflexivity).
              assert (Hn : ~ cyc_lt x (fst a) (fst c)) by (rewrite <- cyc_ltb_spec; congruence).
              destruct (cyc_total x (fst a) (fst c)) as [E'|[E'|E']]; [rewrite E'; assumption|tauto|].
              destruct Hc as [<-|Hc]; [right; assumption|]. right. eapply cyc_trans; eauto.
        -- apply Hmin. right. reflexivity.
      * apply Hmin. left. assumption.
      * subst acc. unfold best in Hmin. destruct (cyc_ltb x (fst a) (fst pn)) eqn:E.
        -- apply cyc_ltb_spec in E. assert (Hc : fst a = fst b \/ cyc_lt x (fst b) (fst a)) by (apply Hmin; right; reflexivity).
           destruct Hc as [<-|Hc]; [right; assumption|]. right. eapply cyc_trans; eauto.
        -- apply Hmin. right. reflexivity.
Qed.

(* the executable owner used by spec_ok is sound for the relational Spec *)
Lemma owner_fn_sound vh m x n : owner_fn vh m x = Some n -> is_owner vh m x n.
Proof.
  unfold owner_fn, owner_pos. destruct (fold_left (best x) (positions vh m) None) as [[p a]|] eqn:E; simpl; [|discriminate].
  intro H; inversion H; subst. apply fold_best_spec in E as [[Hin|Hacc] Hmin]; [|discriminate].
  exists p. split; [assumption|]. intros q n' Hq. destruct (Hmin (q, n')) as [H1|H1]; simpl in *; auto.
Qed.

Lemma owner_fn_none vh m x : owner_fn vh m x = None -> positions vh m = [].
Proof.
  unfold owner_fn, owner_pos. destruct (positions vh m) as [|a t]; [reflexivity|]. simpl.
  assert (forall l acc, acc <> None -> fold_left (best x) l acc <> None).
  { induction l as [|b l IH]; simpl; intros acc Ha; [assumption|]. apply IH. unfold best. destruct acc; [|congruence].
    destruct (cyc_ltb x (fst b) (fst p)); discriminate. }
  intro E. destruct (fold_left (best x) t (Some a)) eqn:E2; [discriminate|]. exfalso. eapply H; [|exact E2]. discriminate.
Qed.

(* ---- checkers on keys / nodes as Go values ---- *)
Lemma repr_eqb_sound k o : repr_eqb (repr k) o = true -> o = Some (text_of k).
Proof.
  rewrite (repr_text k). destruct o as [b|]; simpl; [|discriminate]. intro H. apply String.eqb_eq in H. congruence.
Qed.

Lemma optnat_eqb_eq a b : optnat_eqb a b = true -> a = b.
Proof.
  destruct a, b; simpl; try discriminate; try reflexivity. intro H. apply Nat.eqb_eq in H. congruence.
Qed.

(* same_text_row is sound for c13_lookup_same_text on one row of observations *)
Lemma same_text_row_sound ks : forall row seen, same_text_row ks row seen = true ->
  (forall k o o', In (k, o) (combine ks row) -> alookup String.eqb (text_of k) seen = Some o' -> o = o') /\
  (forall k1 o1 k2 o2, In (k1, o1) (combine ks row) -> In (k2, o2) (combine ks row) ->
     text_of k1 = text_of k2 -> o1 = o2).
Proof.
  induction ks as [|k ks IH]; intros [|ob row] seen H; simpl; try (split; intros; tauto).
  simpl in H. destruct (alookup String.eqb (text_of k) seen) as [ob'|] eqn:E.
  - apply andb_true_iff in H as [H1 H2]. apply optnat_eqb_eq in H1. subst ob'.
    destruct (IH _ _ H2) as [A B]. split.
    + intros k0 o o' [Heq|Hin] Hl; [inversion Heq; subst; congruence | eapply A; eauto].
    + intros k1 o1 k2 o2 [H1|H1] [H3|H3] Ht; try (inversion H1; subst); try (inversion H3; subst).
      * reflexivity.
      * symmetry. eapply A; eauto. rewrite <- Ht. assumption.
      * eapply A; eauto. rewrite Ht. assumption.
      * eapply B; eauto.
  - destruct (IH _ _ H) as [A B]. split.
    + intros k0 o o' [Heq|Hin] Hl; [inversion Heq; subst; congruence|].
      eapply A; eauto. simpl. destruct (String.eqb (text_of k0) (text_of k)) eqn:E2; [|assumption].
      apply String.eqb_eq in E2. rewrite E2 in Hl. congruence.
    + intros k1 o1 k2 o2 [H1|H1] [H3|H3] Ht; try (inversion H1; subst); try (inversion H3; subst).
      * reflexivity.
      * symmetry. eapply A; eauto. simpl. rewrite <- Ht, String.eqb_refl. reflexivity.
      * eapply A; eauto. simpl. rewrite Ht, String.eqb_refl. reflexivity.
      * eapply B; eauto.
Qed.
