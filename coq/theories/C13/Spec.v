(* C13 Spec: the ring as a set of (position, node) pairs determined by membership alone. *)
From God Require Import Base.Prelude C13.Model.
Require Coq.Strings.String.
Import Coq.Strings.String.StringSyntax.
Local Open Scope N_scope.

Section Spec.
  Variable vh : nat -> nat -> N.

  (* membership: node |-> number of virtual nodes *)
  Definition members := list (nat * nat).

  Definition vnodes (nr : nat * nat) : list (N * nat) :=
    map (fun i => (vh (fst nr) i, fst nr)) (seq 0 (snd nr)).

  Definition positions (m : members) : list (N * nat) := flat_map vnodes m.

  (* cyclic order starting at x: positions >= x first (ascending), then the ones below x *)
  Definition cyc_lt (x p q : N) : Prop :=
    (x <= p /\ (q < x \/ p < q)) \/ (p < x /\ q < x /\ p < q).

  (* n owns x: one of n's positions is the first at or after x, cyclically *)
  Definition is_owner (m : members) (x : N) (n : nat) : Prop :=
    exists p, In (p, n) (positions m) /\
      forall q n', In (q, n') (positions m) -> q = p \/ cyc_lt x p q.

  Definition m_remove (n : nat) (m : members) : members := aremove Nat.eqb n m.
  Definition m_add (n r cap : nat) (m : members) : members := (n, Nat.min r cap) :: m_remove n m.

  Inductive sop := SAdd (n r : nat) | SRemove (n : nat).
  Definition sstep (cap : nat) (m : members) (o : sop) : members :=
    match o with SAdd n r => m_add n r cap m | SRemove n => m_remove n m end.
  Definition srun (cap : nat) (ops : list sop) : members := fold_left (sstep cap) ops [].
End Spec.

(* What a key or a node IS for the ring: its text. A pointer stands for the value it points to, a Stringer for
   its String() (also on a nil receiver), a nil pointer of any other type for "<nil>" as fmt prints it, the nil interface for "".
   Two Go values with the same text are the same key / the same node. *)
Local Open Scope string_scope.
Definition text_of (v : gval) : string :=
  match v with
  | GNil => ""
  | GStringer s => s
  | GPtr (Some t) => t
  | GPtr None => "<nil>"
  | GVal t => t
  end.
