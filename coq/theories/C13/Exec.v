(* C13 Exec: the checkers evaluated by vm_compute on (history, observed Get results). *)
From God Require Import Base.Prelude C13.Spec.
From God Require Export C13.Model.   (* gval constructors appear in the encoded cases *)
(* Exec does not import the regenerated constants: a change that alters or breaks gen/C13_Gen.v must break
   Link.v (link_minReplicas / link_topWeight) only, while the checkers keep the statement's own numbers. *)
Require Coq.Strings.String.
Local Open Scope N_scope.

Inductive xop := XAdd (n : nat) | XAddW (n w : nat) | XAddR (n r : nat) | XRemove (n : nat).

Record hcase := mkcase {
  c_replicas : nat;                 (* argument of NewCustomConsistentHash *)
  c_custom : bool;                  (* false: NewConsistentHash() *)
  c_ops : list xop;
  c_vh : list (nat * list N);       (* node |-> hash of its i-th virtual node, i < cap *)
  c_probes : list (N * N);          (* (hash of probe key, hash of its inner repr) *)
  c_results : list (list (option nat)); (* observed: per op, Get of every probe (None = absent) *)
  c_balance_tol : nat;              (* 0: no balance test; t > 0: final shares within t percent of weight share *)
  (* keys and nodes as Go values (every key / node TYPE) *)
  c_keys : list gval;               (* the probe keys as Go values, same order as c_probes *)
  c_krepr : list (option string);   (* observed hash.repr(key); None = the call panicked *)
  c_nodes : list (nat * gval);      (* node id |-> the Go value handed to Add* / Remove *)
  c_nrepr : list (nat * option string); (* observed hash.repr(node) *)
  c_gpanic : list (list bool);      (* observed: per op, per probe: Get panicked (its c_results entry is None) *)
  c_oppanic : list bool;            (* observed: per op: Add* / Remove panicked *)
  c_final : nat * nat;              (* observed len(h.keys), len(h.ring) after the last op *)
  c_unstable : list (nat * nat)     (* observed: (op index, probe index) where two lookups of the same key under the
                                       same membership (before the next op / repeated after the op; keys holding a
                                       map: 200 in a row) returned different answers *)
}.

Definition optnat_eqb := option_eqb Nat.eqb.

Definition min_replicas : nat := 100.
Definition top_weight : nat := 100.

Definition cap_of (c : hcase) : nat :=
  if c_custom c then Nat.max (c_replicas c) min_replicas else min_replicas.

Definition vh_of (c : hcase) (n i : nat) : N :=
  match alookup Nat.eqb n (c_vh c) with Some l => nth i l 0 | None => 0 end.

Definition to_op (cap : nat) (o : xop) : op :=
  match o with
  | XAdd n => Add n cap
  | XAddW n w => Add n (weight_replicas cap w top_weight)
  | XAddR n r => Add n r
  | XRemove n => Remove n
  end.

Definition res_eqb (r : result (option nat)) (o : option nat) : bool :=
  match r, o with
  | Ok (Some a), Some b => Nat.eqb a b
  | Ok None, None => true
  | _, _ => false
  end.

Fixpoint all2 {A B} (f : A -> B -> bool) (l1 : list A) (l2 : list B) : bool :=
  match l1, l2 with
  | [], [] => true
  | a :: r1, b :: r2 => f a b && all2 f r1 r2
  | _, _ => false
  end.

(* --- model agreement: the transcription of the Go code gives exactly the observed answers --- *)
Definition ostr_eqb := option_eqb String.eqb.

Definition res_eqb3 (r : result (option nat)) (ob : option nat * bool) : bool :=
  match r, ob with
  | Panic, (None, true) => true
  | Ok x, (o, false) => res_eqb (Ok x) o
  | _, _ => false
  end.

Definition repr_eqb (r : result string) (o : option string) : bool :=
  match r, o with
  | Ok a, Some b => String.eqb a b
  | Panic, None => true
  | _, _ => false
  end.

(* Get on the key VALUE: repr through the model of lang.Repr, its hash as tabulated by the driver *)
Definition model_get (s : st) (pk : (N * N) * gval) : result (option nat) :=
  get_key (fun _ => fst (fst pk)) s (snd pk) (snd (fst pk)).

Fixpoint model_rows (vh : nat -> nat -> N) (probes : list ((N * N) * gval)) (s : st) (ops : list op)
         (rows : list (list (option nat * bool))) : option st :=
  match ops, rows with
  | [], [] => Some s
  | o :: ops', row :: rows' =>
      let s' := step vh s o in
      (* an EMPTY row: the driver made no lookup between this op and the next one (nothing to compare) *)
      if match row with [] => true | _ => all2 (fun pk ob => res_eqb3 (model_get s' pk) ob) probes row end
      then model_rows vh probes s' ops' rows' else None
  | _, _ => None
  end.

Definition zip_rows (c : hcase) : list (list (option nat * bool)) :=
  map (fun rp => combine (fst rp) (snd rp)) (combine (c_results c) (c_gpanic c)).

Definition shape_ok (c : hcase) : bool :=
  Nat.eqb (List.length (c_keys c)) (List.length (c_probes c)) &&
  Nat.eqb (List.length (c_krepr c)) (List.length (c_probes c)) &&
  Nat.eqb (List.length (c_gpanic c)) (List.length (c_results c)) &&
  Nat.eqb (List.length (c_oppanic c)) (List.length (c_results c)) &&
  all2 (fun r p => Nat.eqb (List.length r) (List.length p)) (c_results c) (c_gpanic c).

Definition ring_model_ok (c : hcase) : bool :=
  let cap := cap_of c in
  shape_ok c &&
  (* get is a function of the state: repeated lookups cannot differ *)
  match c_unstable c with [] => true | _ => false end &&
  (* lang.Repr as transcribed gives the observed representation of every key and node *)
  all2 (fun k o => repr_eqb (repr k) o) (c_keys c) (c_krepr c) &&
  all2 (fun ng no => Nat.eqb (fst ng) (fst no) && repr_eqb (repr (snd ng)) (snd no)) (c_nodes c) (c_nrepr c) &&
  (* the model's nodes never make Add* / Remove panic *)
  forallb negb (c_oppanic c) &&
  match model_rows (vh_of c) (combine (c_probes c) (c_keys c)) (init cap) (map (to_op cap) (c_ops c)) (zip_rows c) with
  | Some s => Nat.eqb (List.length (keys s)) (fst (c_final c)) && Nat.eqb (List.length (ring s)) (snd (c_final c))
  | None => false
  end.

(* --- the Spec's owner as a function: cyclic minimum over the abstract ring --- *)
Definition cyc_ltb (x p q : N) : bool :=
  ((x <=? p) && ((q <? x) || (p <? q))) || ((p <? x) && (q <? x) && (p <? q)).

Definition best (x : N) (acc : option (N * nat)) (pn : N * nat) : option (N * nat) :=
  match acc with
  | None => Some pn
  | Some b => if cyc_ltb x (fst pn) (fst b) then Some pn else acc
  end.

Definition owner_pos (P : list (N * nat)) (x : N) : option nat :=
  option_map snd (fold_left (best x) P None).

Definition owner_fn (vh : nat -> nat -> N) (m : members) (x : N) : option nat :=
  owner_pos (positions vh m) x.

Definition sop_of (o : op) : sop := match o with Add n r => SAdd n r | Remove n => SRemove n end.

Definition is_member (n : nat) (m : members) : bool := existsb (fun nr => Nat.eqb (fst nr) n) m.
Definition positive_member (n : nat) (m : members) : bool :=
  existsb (fun nr => Nat.eqb (fst nr) n && Nat.ltb 0 (snd nr)) m.

(* --- property-level checks on what the implementation answered --- *)
Definition row_ok (vh : nat -> nat -> N) (cap : nat) (probes : list (N * N)) (m m' : members) (o : op)
           (prev row : list (option nat)) : bool :=
  (* the answer is the Spec owner (total, a function of membership only);
     owner_pos (positions vh m') x is owner_fn vh m' x with the ring computed once per row *)
  (let P := positions vh m' in all2 (fun pr ob => option_eqb Nat.eqb (owner_pos P (fst pr)) ob) probes row) &&
  (* totality, stated on observations alone *)
  forallb (fun ob => match ob with
                     | Some a => positive_member a m'
                     | None => forallb (fun nr => Nat.eqb (snd nr) 0) m'
                     end) row &&
  (* minimal disruption, stated on observations alone (prev = []: no lookups were made under the previous
     membership, nothing to compare with) *)
  match o with
  | Remove n =>
      match prev with [] => true | _ =>
      all2 (fun pv ob => match pv with Some a => if Nat.eqb a n then true else option_eqb Nat.eqb ob (Some a) | None => true end) prev row end
  | Add n r =>
      (if is_member n m then true
       else match prev with [] => true | _ =>
            all2 (fun pv ob => match ob with Some a => Nat.eqb a n || option_eqb Nat.eqb pv (Some a) | None => true end) prev row end) &&
      (if Nat.eqb (Nat.min r cap) 0 then forallb (fun ob => negb (option_eqb Nat.eqb ob (Some n))) row else true)
  end.

Fixpoint spec_rows (vh : nat -> nat -> N) (cap : nat) (probes : list (N * N)) (m : members) (prev : list (option nat))
         (ops : list op) (rows : list (list (option nat))) : bool :=
  match ops, rows with
  | [], [] => true
  | o :: ops', row :: rows' =>
      let m' := sstep cap m (sop_of o) in
      (* an EMPTY row: membership ops made back to back, without a lookup in between *)
      match row with
      | [] => spec_rows vh cap probes m' [] ops' rows'
      | _ => row_ok vh cap probes m m' o prev row && spec_rows vh cap probes m' row ops' rows'
      end
  | _, _ => false
  end.

(* statistical clause ("share roughly proportional to weight"): a TEST on fixed configurations, not a theorem *)
Definition count_owner (n : nat) (row : list (option nat)) : nat :=
  List.length (filter (fun ob => option_eqb Nat.eqb ob (Some n)) row).

Definition balance_ok (tol : nat) (m : members) (row : list (option nat)) : bool :=
  let total := fold_left (fun a nr => a + N.of_nat (snd nr)) m 0 in
  let keys := N.of_nat (List.length row) in
  forallb (fun nr =>
    let got := N.of_nat (count_owner (fst nr) row) * total * 100 in      (* observed share * total * 100 *)
    let want := keys * N.of_nat (snd nr) * 100 in
    let slack := keys * N.of_nat (snd nr) * N.of_nat tol in
    (got <=? want + slack) && (want <=? got + slack)) m.

(* values with the same text are the same key: one answer per text in every row *)
Fixpoint same_text_row (ks : list gval) (row : list (option nat)) (seen : list (string * option nat)) : bool :=
  match ks, row with
  | k :: ks', ob :: row' =>
      let t := text_of k in
      match alookup String.eqb t seen with
      | Some ob' => optnat_eqb ob ob' && same_text_row ks' row' seen
      | None => same_text_row ks' row' ((t, ob) :: seen)
      end
  | _, _ => true
  end.

(* nothing panicked: no Get on any key value, no Add* / Remove on any node value, no repr *)
Definition no_panic_ok (c : hcase) : bool :=
  forallb (forallb negb) (c_gpanic c) && forallb negb (c_oppanic c) &&
  forallb (fun o => match o with Some _ => true | None => false end) (c_krepr c) &&
  forallb (fun no => match snd no with Some _ => true | None => false end) (c_nrepr c).

Definition ring_spec_ok (c : hcase) : bool :=
  let cap := cap_of c in
  let ops := map (to_op cap) (c_ops c) in
  shape_ok c && no_panic_ok c &&
  (* the same node every time while membership is unchanged *)
  match c_unstable c with [] => true | _ => false end &&
  forallb (fun row => same_text_row (c_keys c) row []) (c_results c) &&
  spec_rows (vh_of c) cap (c_probes c) [] (map (fun _ => None) (c_probes c)) ops (c_results c) &&
  match c_balance_tol c with
  | O => true
  | tol => balance_ok tol (fold_left (sstep cap) (map sop_of ops) []) (last (c_results c) [])
  end.

(* the hash table of a case must satisfy the no-collision hypothesis of the theorems; measured per case *)
Fixpoint nodup_N (l : list N) : bool :=
  match l with [] => true | a :: r => negb (existsb (N.eqb a) r) && nodup_N r end.
Definition hyp_ok (c : hcase) : bool :=
  nodup_N (flat_map (fun nl => firstn (cap_of c) (snd nl)) (c_vh c)).


(* --- users of the ring and the hash function itself ---
   CX: a cache cluster / KV store built from configured (address, weight) pairs must dispatch every key to the node a
       consistent hash built directly from the same pairs returns (got = ref, element-wise; None = absent);
       both sides are observations of the real code, the reference being the ring that the CH cases tie to the model.
   CF: Hash(data) must be the 64-bit murmur3 of the WHOLE input (got = ref). *)
Inductive case :=
| CH (h : hcase)
| CX (weights : list nat) (got ref : list (option nat))
| CF (got ref : list N)
(* CL: like CX, but the configuration went through the conf loader (JSON / YAML text, Weight entries omitted for some
       nodes): written = the Weight entries of the text (None = omitted, which MEANS the documented default 100), loaded = the weights found
       in the loaded configuration; tol > 0: every node's share of the keys within tol percent of its weight share.
   CD: kv multi-key Del over several shards: nkeys keys (adjacent keys on different shards) deleted in ONE call;
       count = its result, remaining = named keys still present on any shard afterwards, kept = the other keys survived,
       errors = failed calls; s* = the same with one Del call per key on a twin store. *)
| CL (written : list (option nat)) (got ref : list (option nat)) (loaded : list nat) (tol : nat)
| CD (nkeys count : nat) (remaining : list nat) (kept : bool) (errors scount : nat) (sremaining : list nat)
     (skept : bool) (serrors : nat)
(* CR: a Get parked in the middle of its lookup (inside the caller-supplied hash function) while Remove(removed) is
       attempted on a ring of nodes 0,1,2; per probe key (owner before, answer of the overlapping Get, owner after);
       None = absent / panicked; hung = some call did not return or Remove panicked. *)
| CR (removed : nat) (rows : list (option nat * option nat * option nat)) (hung : bool)
(* CT: two cache clusters built from the SAME configuration (two service instances): gota / gotb = the node each
       instance places every key on, ref as in CX (twin over real servers: ref = gota), missing = keys written through
       instance A that instance B does not read back. Placement depends on the configuration only. *)
| CT (weights : list nat) (gota gotb ref : list (option nat)) (missing : nat).

Definition dispatch_ok (weights : list nat) (got ref : list (option nat)) : bool :=
  list_eqb optnat_eqb got ref &&
  (* total: with some positive weight no key is absent, and only positive-weight nodes receive keys *)
  forallb (fun g => match g with
                    | Some i => Nat.ltb 0 (nth i weights 0%nat)
                    | None => forallb (fun w => Nat.eqb w 0) weights
                    end) got.

Definition default_weight : nat := 100.   (* cache.NodeConfig: Weight int `json:",default=100"` *)

Definition loaded_ok (written : list (option nat)) (got ref : list (option nat)) (loaded : list nat) (tol : nat) : bool :=
  let weights := map (fun o => match o with Some w => w | None => default_weight end) written in
  dispatch_ok weights got ref && list_eqb Nat.eqb loaded weights &&
  match tol with
  | O => true
  | _ => balance_ok tol (combine (seq 0 (List.length weights)) weights) got
  end.

Definition multidel_ok (nkeys count : nat) (remaining : list nat) (kept : bool) (errors scount : nat)
           (sremaining : list nat) (skept : bool) (serrors : nat) : bool :=
  (* every named key is removed from ITS owner: none exists afterwards, all were counted, nothing else was touched *)
  Nat.eqb count nkeys && match remaining with [] => true | _ => false end && kept && Nat.eqb errors 0 &&
  (* ... exactly like single-key deletes *)
  Nat.eqb scount count && match sremaining with [] => true | _ => false end && skept && Nat.eqb serrors 0.

(* a Get overlapping a Remove answers as if it ran entirely before or entirely after it: the owner before or the
   owner after -- in particular a present node (two other nodes are present all the time), never "absent" *)
Definition race_row_ok (removed : nat) (r : option nat * option nat * option nat) : bool :=
  match r with
  | (Some p, ans, Some q) =>
      Nat.ltb p 3 && Nat.ltb q 3 && negb (Nat.eqb q removed) && (Nat.eqb p removed || Nat.eqb q p) &&
      (optnat_eqb ans (Some p) || optnat_eqb ans (Some q))
  | _ => false
  end.
Definition race_ok (removed : nat) (rows : list (option nat * option nat * option nat)) (hung : bool) : bool :=
  negb hung && forallb (race_row_ok removed) rows.

Definition twin_ok (weights : list nat) (gota gotb ref : list (option nat)) (missing : nat) : bool :=
  dispatch_ok weights gota ref && list_eqb optnat_eqb gotb gota && Nat.eqb missing 0.

Definition model_ok (c : case) : bool :=
  match c with
  | CH h => ring_model_ok h
  | CX w got ref => dispatch_ok w got ref
  | CF got ref => list_eqb N.eqb got ref
  | CL w got ref l tol => loaded_ok w got ref l tol
  | CD n c r k e sc sr sk se => multidel_ok n c r k e sc sr sk se
  | CR n rows hung => race_ok n rows hung
  | CT w ga gb ref mi => twin_ok w ga gb ref mi
  end.

Definition spec_ok (c : case) : bool :=
  match c with
  | CH h => ring_spec_ok h
  | CX w got ref => dispatch_ok w got ref
  | CF got ref => list_eqb N.eqb got ref
  | CL w got ref l tol => loaded_ok w got ref l tol
  | CD n c r k e sc sr sk se => multidel_ok n c r k e sc sr sk se
  | CR n rows hung => race_ok n rows hung
  | CT w ga gb ref mi => twin_ok w ga gb ref mi
  end.
