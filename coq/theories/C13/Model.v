(* C13 Model: transcription of lib/hash/consistenthash.go (executable definitions only).
   Nodes are nat identifiers (their repr strings are distinct); hashing is a parameter:
   vh n i = hashFunc(repr n ++ itoa i). *)
From God Require Import Base.Prelude.
Local Open Scope N_scope.

Record st := mk { R : nat; keys : list N; ring : list (N * list nat); nodes : list nat }.

Definition init (r : nat) : st := mk r [] [] [].

(* sort.Slice after append of one hash: the sorted multiset *)
Fixpoint insert (h : N) (l : list N) : list N :=
  match l with
  | [] => [h]
  | k :: r => if h <=? k then h :: k :: r else k :: insert h r
  end.

(* index := sort.Search(keys[i] >= hash); if index < len && keys[index] == hash then delete it *)
Fixpoint remove_ge (h : N) (l : list N) : list N :=
  match l with
  | [] => []
  | k :: r => if h <=? k then (if k =? h then r else k :: r) else k :: remove_ge h r
  end.

(* sort.Search(keys[i] >= hash) as the first such key, None when index = len *)
Fixpoint find_ge (h : N) (l : list N) : option N :=
  match l with
  | [] => None
  | k :: r => if h <=? k then Some k else find_ge h r
  end.

Definition ring_get (p : N) (rg : list (N * list nat)) : list nat :=
  match alookup N.eqb p rg with Some l => l | None => [] end.

Definition ring_append (p : N) (n : nat) (rg : list (N * list nat)) : list (N * list nat) :=
  aset N.eqb p (ring_get p rg ++ [n]) rg.

(* removeRingNode *)
Definition ring_remove (p : N) (n : nat) (rg : list (N * list nat)) : list (N * list nat) :=
  match alookup N.eqb p rg with
  | None => rg
  | Some l =>
      let l' := filter (fun x => negb (Nat.eqb x n)) l in
      match l' with
      | [] => aremove N.eqb p rg
      | _ => aset N.eqb p l' rg
      end
  end.

Section WithHash.
  Variable vh : nat -> nat -> N.

  Definition remove_step (n : nat) (kr : list N * list (N * list nat)) (i : nat) :=
    let h := vh n i in (remove_ge h (fst kr), ring_remove h n (snd kr)).

  Definition remove (n : nat) (s : st) : st :=
    if existsb (Nat.eqb n) (nodes s) then
      let kr := fold_left (remove_step n) (seq 0 (R s)) (keys s, ring s) in
      mk (R s) (fst kr) (snd kr) (filter (fun x => negb (Nat.eqb x n)) (nodes s))
    else s.

  Definition add_step (n : nat) (kr : list N * list (N * list nat)) (i : nat) :=
    let h := vh n i in (insert h (fst kr), ring_append h n (snd kr)).

  Definition add_replicas (n : nat) (r : nat) (s : st) : st :=
    let s := remove n s in
    let r := Nat.min r (R s) in
    let kr := fold_left (add_step n) (seq 0 r) (keys s, ring s) in
    mk (R s) (fst kr) (snd kr) (n :: nodes s).

  (* Get: x = hash of the key, inner = hash of its inner representation *)
  Definition get (s : st) (x inner : N) : result (option nat) :=
    match ring s with
    | [] => Ok None
    | _ =>
        match keys s with
        | [] => Panic                      (* index % len(keys) with len = 0 *)
        | k0 :: _ =>
            let k := match find_ge x (keys s) with Some k => k | None => k0 end in
            match ring_get k (ring s) with
            | [] => Ok None
            | [n] => Ok (Some n)
            | l => Ok (Some (nth (N.to_nat (inner mod N.of_nat (length l))) l 0%nat))
            end
        end
    end.

  Inductive op := Add (n : nat) (r : nat) | Remove (n : nat).

  Definition step (s : st) (o : op) : st :=
    match o with
    | Add n r => add_replicas n r s
    | Remove n => remove n s
    end.

  Definition run (r : nat) (ops : list op) : st := fold_left step ops (init r).
End WithHash.

(* AddWithWeight's replica count: h.replicas * weight / TopWeight (Go int division, weight >= 0) *)
Definition weight_replicas (r : nat) (w : nat) (top : nat) : nat := (r * w / top)%nat.

(* ---- keys and nodes as Go values: lang.Repr (lib/lang/lang.go:19-36), hash.repr (consistenthash.go:173) ----
   A Go value is described by the branch of Repr it takes. The texts produced by strconv, by fmt.Sprint of a
   struct and by a value's own String method are inputs (like the hash), Repr's own dispatch is transcribed. *)
Require Coq.Strings.String.
Import Coq.Strings.String.StringSyntax.
Notation string := String.string.
Local Open Scope string_scope.

Inductive gval :=
| GNil                               (* untyped nil interface *)
| GStringer (s : string)             (* implements fmt.Stringer (pointer or value receiver, nil receiver or not) and
                                        v.String() = s. A value whose OWN String method panics is a caller fault
                                        and outside the model: Repr would propagate that panic. *)
| GPtr (elem : option string)        (* pointer that is no Stringer: None = typed nil pointer,
                                        Some t = points to a non-pointer value whose reprOfValue text is t *)
| GVal (t : string).                 (* bool, ints, floats, string, []byte, struct value, map (fmt.Sprint prints a
                                        map's entries in key order, so t is a function of the map's CONTENT): text t *)

Definition repr (v : gval) : result string :=
  match v with
  | GNil => Ok ""                    (* lang.go:20 if v == nil *)
  | GStringer s => Ok s              (* lang.go:25 case fmt.Stringer: return vt.String() *)
  | GPtr (Some t) => Ok t            (* lang.go:31 val = val.Elem() *)
  | GPtr None => Ok "<nil>"          (* Kind()==Ptr && IsNil: kept; reprOfValue default: fmt.Sprint -> <nil> *)
  | GVal t => Ok t                   (* reprOfValue *)
  end.

(* ConsistentHash.Get on a Go value: consistenthash.go:97 tests the ring BEFORE repr(v) is evaluated;
   hf = hashFunc on the representation, inner = hashFunc (innerRepr v) (fmt.Sprintf, never panics) *)
Definition get_key (hf : string -> N) (s : st) (k : gval) (inner : N) : result (option nat) :=
  match ring s with
  | [] => Ok None
  | _ => match repr k with
         | Ok r => get s (hf r) inner
         | Err e => Err e
         | Panic => Panic
         end
  end.

(* ---- a user of the ring: kv Store.Del(keys...) (lib/store/kv/store.go:355-374): every key is deleted on the shard
   the ring answers for THAT key (owner), one key after the other ---- *)
Definition kv_del1 (owner : N -> nat) (st : nat -> list N) (k : N) : nat -> list N :=
  fun n => if Nat.eqb n (owner k) then List.remove N.eq_dec k (st n) else st n.
Definition kv_del (owner : N -> nat) (ks : list N) (st : nat -> list N) : nat -> list N :=
  fold_left (kv_del1 owner) ks st.
