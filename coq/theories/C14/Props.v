(* C14 Props: the property theorems, nothing else.
   The model is parametric in W (type of the decay weight w = exp(-td/decayTime)), wzero (w = 0),
   fexpr (the truncated float expression of ewma) and fsqrt (int64(math.Sqrt(float64 x))): every theorem
   quantified over them holds for whatever binary64 arithmetic computes.  Hypotheses about them are
   explicit; the *_exact corollaries discharge them for exact rational arithmetic (fexprQ = floor).
   A history is a list of Pick draws / Done k code w / Advance dt; `ledger s0 ops` records who was picked,
   how often each done func was called and the latencies each connection observed (C14.Proofs.gstep). *)
From Coq Require Import QArith.
From Coq Require Import String.
From God Require Import Base.Prelude C14.Model C14.Spec C14.Proofs C14.Client.
Local Open Scope Z_scope.

(* Every pick returns one of the ready connections (the SubConn at the chosen position of the ready set). *)
Theorem c14_pick_is_ready : forall W wzero fexpr fsqrt start order s0 ops d i id u s',
  build start order = Some s0 ->
  pick fsqrt (run W wzero fexpr fsqrt s0 ops) d = Ok (i, id, u, s') ->
  nth_error order i = Some id /\ In id order.
Proof. exact pick_is_ready. Qed.
Print Assumptions c14_pick_is_ready.

(* Picker construction from the READY set as gRPC hands it over: the ReadySCs map is keyed by the SubConn, so
   `ready` has distinct ids, but several of them may carry the same Address.Addr (differing in ServerName or
   Attributes, or exact duplicates).  Whatever the addresses are -- the theorem does not look at them --
   every ready SubConn has its own tracked connection, after every history, for every N. *)
Theorem c14_build_tracks_all_ready : forall W wzero fexpr fsqrt start (ready : ready_set) order s0 ops id,
  build_ready start ready order = Some s0 ->
  (forall x, In x (map fst ready) -> In x order) ->        (* order = iteration order of the map *)
  In id (map fst ready) ->
  List.length (conns (run W wzero fexpr fsqrt s0 ops)) = List.length order /\
  exists pos c, nth_error (conns (run W wzero fexpr fsqrt s0 ops)) pos = Some c /\ scid c = id /\
                nth_error order pos = Some id.
Proof. exact tracks_all_ready. Qed.
Print Assumptions c14_build_tracks_all_ready.

(* Several pickers built by the SAME picker builder (the registered builder is one process-wide object shared
   by every ClientConn).  A world history is any sequence of Builds (any ready sets: equal, smaller, overlapping,
   empty) and operations addressed to any live picker.  Each picker sees exactly the operations addressed to it:
   later Builds and other pickers' picks / completions cannot touch it ... *)
Theorem c14_pickers_independent : forall W wzero fexpr fsqrt xs w p s,
  nth_error w p = Some (Some s) ->
  nth_error (wrun W wzero fexpr fsqrt w xs) p = Some (Some (run W wzero fexpr fsqrt s (wproj W p xs))).
Proof. exact pickers_independent. Qed.
Print Assumptions c14_pickers_independent.

(* ... so a picker owns its connection slice: the picker built from ready set `order`, after ANY further world
   history, still returns only SubConns of ITS ready set. *)
Theorem c14_picker_owns_connections : forall W wzero fexpr fsqrt w xs start order s0 ys d i id u s' sp,
  build start order = Some s0 ->
  nth_error (wrun W wzero fexpr fsqrt w (xs ++ [WBuild W start order] ++ ys))
            (List.length (wrun W wzero fexpr fsqrt w xs)) = Some (Some sp) ->
  pick fsqrt sp d = Ok (i, id, u, s') ->
  nth_error order i = Some id /\ In id order.
Proof. exact picker_owns_connections. Qed.
Print Assumptions c14_picker_owns_connections.

(* In-flight = picks - completions for every connection after every history; never negative when every
   done func was called at most once. *)
Theorem c14_inflight : forall W wzero fexpr fsqrt start order s0 ops i c,
  build start order = Some s0 ->
  nth_error (conns (run W wzero fexpr fsqrt s0 ops)) i = Some c ->
  inflight c = picks_of (g_L (ledger W wzero fexpr fsqrt s0 ops)) i
               - completions_of (g_L (ledger W wzero fexpr fsqrt s0 ops)) i /\
  (at_most_once (g_L (ledger W wzero fexpr fsqrt s0 ops)) -> 0 <= inflight c).
Proof. exact inflight_run. Qed.
Print Assumptions c14_inflight.

(* ... in particular: a history that calls no done func twice never drives an in-flight count negative. *)
Theorem c14_inflight_nonneg : forall W wzero fexpr fsqrt start order s0 ops i c,
  build start order = Some s0 ->
  (forall k, done_calls_of W k ops <= 1) ->
  nth_error (conns (run W wzero fexpr fsqrt s0 ops)) i = Some c ->
  0 <= inflight c.
Proof.
  intros W wzero fexpr fsqrt start order s0 ops i c Hb Ho Hn.
  destruct (inflight_run W wzero fexpr fsqrt start order s0 ops i c Hb Hn) as (_ & H). apply H.
  apply once_ledger. exact Ho.
Qed.
Print Assumptions c14_inflight_nonneg.

(* The success score stays within [0, 1000] -- for ANY value of the float expression (ewma clamps). *)
Theorem c14_success_range : forall W wzero fexpr fsqrt start order s0 ops i c,
  build start order = Some s0 ->
  nth_error (conns (run W wzero fexpr fsqrt s0 ops)) i = Some c ->
  0 <= success c <= 1000.
Proof. exact score_range. Qed.
Print Assumptions c14_success_range.

(* A completion moves the score of its connection toward 1000 (nil / acceptable error) or toward 0
   (DeadlineExceeded, Internal, Unavailable, DataLoss, Unimplemented): new lies between old and target. *)
Theorem c14_success_monotone : forall W wzero fexpr s k code w s' tk c c',
  done W wzero fexpr s k code w = Ok s' -> nth_error (tokens s) k = Some tk ->
  nth_error (conns s) (t_conn tk) = Some c -> nth_error (conns s') (t_conn tk) = Some c' ->
  toward (success c) (match code with None => 1000 | Some x => if acceptable x then 1000 else 0 end) (success c').
Proof. exact success_toward. Qed.
Print Assumptions c14_success_monotone.

(* Completion info as gRPC fills it: BytesSent / BytesReceived / Trailer / ServerLoad play no role -- two
   DoneInfos with the same Err have exactly the same effect on every counter ... *)
Theorem c14_done_ignores_transport_flags : forall W wzero fexpr s k (i1 i2 : doneinfo) w,
  d_err i1 = d_err i2 -> done_info W wzero fexpr s k i1 w = done_info W wzero fexpr s k i2 w.
Proof. intros W wzero fexpr s k i1 i2 w H. unfold done_info. rewrite H. reflexivity. Qed.
Print Assumptions c14_done_ignores_transport_flags.

(* ... so a backend that ANSWERS with an unacceptable status (bytes sent and received, trailer present) moves
   its score toward 0 exactly like a call that never reached it; an acceptable answer moves it toward 1000. *)
Theorem c14_error_answer_lowers_score : forall W wzero fexpr s k info w s' tk c c' code,
  d_err info = Some code ->
  done_info W wzero fexpr s k info w = Ok s' -> nth_error (tokens s) k = Some tk ->
  nth_error (conns s) (t_conn tk) = Some c -> nth_error (conns s') (t_conn tk) = Some c' ->
  0 <= success c <= 1000 ->
  (acceptable code = false -> 0 <= success c' <= success c) /\
  (acceptable code = true -> success c <= success c' <= 1000).
Proof.
  intros W wzero fexpr s k info w s' tk c c' code He Hd Ht Hc Hc' Hr. unfold done_info in Hd. rewrite He in Hd.
  pose proof (success_toward W wzero fexpr s k (Some code) w s' tk c c' Hd Ht Hc Hc') as T.
  unfold toward, target_of, initSuccess in T. split; intro Ha; rewrite Ha in T; lia.
Qed.
Print Assumptions c14_error_answer_lowers_score.

(* The classification does not depend on a table's length: exactly the five named codes are unacceptable, so
   every code from 16 (Unauthenticated) upward -- application-defined codes 17, 100, ... included -- is
   acceptable and moves the score toward 1000 (c14_error_answer_lowers_score, second half). *)
Theorem c14_only_five_codes_unacceptable : forall code,
  (acceptable code = false -> code = 4 \/ code = 12 \/ code = 13 \/ code = 14 \/ code = 15) /\
  (16 <= code -> acceptable code = true).
Proof.
  intro code. split.
  - unfold acceptable. destruct code as [|p|p]; try discriminate.
    do 5 (destruct p as [p|p|]; try discriminate; try (intros _; lia)).
  - intro H. unfold acceptable. destruct code as [|p|p]; try reflexivity.
    do 5 (destruct p as [p|p|]; try reflexivity; try lia).
Qed.
Print Assumptions c14_only_five_codes_unacceptable.

(* DeadlineExceeded with EVERY status message ("context deadline exceeded" from status.FromContextError,
   "deadline", "", ...), every flag combination: unacceptable -- the classification depends on the code only, so
   a hung backend (every call ends with the caller's deadline firing) moves toward 0 at every completion and, by
   c14_error_answer_strictly_lowers / c14_all_fail_unhealthy_within_500, is unhealthy after a bounded number. *)
Theorem c14_deadline_always_unacceptable : forall W wzero fexpr s k info w s' tk c c',
  d_err info = Some 4 (* codes.DeadlineExceeded *) ->
  done_info W wzero fexpr s k info w = Ok s' -> nth_error (tokens s) k = Some tk ->
  nth_error (conns s) (t_conn tk) = Some c -> nth_error (conns s') (t_conn tk) = Some c' ->
  0 <= success c <= 1000 ->
  0 <= success c' <= success c /\
  forall info2, d_err info2 = Some 4 -> done_info W wzero fexpr s k info2 w = Ok s'.
Proof.
  intros W wzero fexpr s k info w s' tk c c' He Hd Ht Hc Hc' Hr. split.
  - apply (c14_error_answer_lowers_score W wzero fexpr s k info w s' tk c c' 4 He Hd Ht Hc Hc' Hr). reflexivity.
  - intros info2 H2. rewrite <- Hd. apply c14_done_ignores_transport_flags. congruence.
Qed.
Print Assumptions c14_deadline_always_unacceptable.

(* ... and, with a weight < 1, lowers a positive score by at least one point whatever the flags say: the step
   behind the bounded-unhealthy theorem (c14_all_fail_unhealthy_within_500 quantifies over Done ops, i.e. over
   every DoneInfo with that Err). *)
Theorem c14_error_answer_strictly_lowers : forall W wzero fexpr (lt1 : W -> Prop),
  (forall w o, lt1 w -> 0 < o -> fexpr w o 0 < o) -> lt1 wzero ->
  forall t start (info : doneinfo) code w c,
  d_err info = Some code -> acceptable code = false -> lt1 w -> 0 <= success c ->
  success (done_conn W wzero fexpr t start (d_err info) w c) <= Z.max 0 (success c - 1).
Proof.
  intros W wzero fexpr lt1 Hdec H0 t start info code w c He Ha Hw Hs. rewrite He.
  eapply fail_conn; eauto. unfold target_of. rewrite Ha. reflexivity.
Qed.
Print Assumptions c14_error_answer_strictly_lowers.

(* ... and nothing else moves a score or a latency estimate: other connections' completions and picks leave them. *)
Theorem c14_success_only_own_completion : forall W wzero fexpr fsqrt,
  (forall s k code w s' tk j c c',
     done W wzero fexpr s k code w = Ok s' -> nth_error (tokens s) k = Some tk -> j <> t_conn tk ->
     nth_error (conns s) j = Some c -> nth_error (conns s') j = Some c' ->
     success c' = success c /\ lag c' = lag c) /\
  (forall s d i id u s' j c c',
     pick fsqrt s d = Ok (i, id, u, s') -> nth_error (conns s) j = Some c -> nth_error (conns s') j = Some c' ->
     success c' = success c /\ lag c' = lag c).
Proof. intros W wzero fexpr fsqrt. split; [exact (success_others W wzero fexpr)|exact (success_pick fsqrt)]. Qed.
Print Assumptions c14_success_only_own_completion.

(* The latency estimate of a connection with at least one completion lies between the smallest and the
   largest latency it observed.  Hypothesis: with weight 0 the float expression returns the sample
   (float64(0)*0 + float64(x)*(1-0)); checked on every completion by the correspondence. *)
Theorem c14_lag_between_min_max : forall W wzero fexpr fsqrt start order s0 ops i c,
  (forall x, 0 <= x -> fexpr wzero 0 x = x) ->
  build start order = Some s0 ->
  nth_error (conns (run W wzero fexpr fsqrt s0 ops)) i = Some c ->
  within_samples (samples_at (ledger W wzero fexpr fsqrt s0 ops) i) (lag c).
Proof. exact lag_run. Qed.
Print Assumptions c14_lag_between_min_max.

Theorem c14_lag_between_min_max_exact : forall fsqrt start order s0 ops i c,
  build start order = Some s0 ->
  nth_error (conns (run Q 0%Q fexprQ fsqrt s0 ops)) i = Some c ->
  within_samples (samples_at (ledger Q 0%Q fexprQ fsqrt s0 ops) i) (lag c).
Proof. intros. eapply lag_run; eauto. exact fexprQ_w0. Qed.
Print Assumptions c14_lag_between_min_max_exact.

(* A backend whose completions all fail, each with weight < 1 (td > 0), loses at least one point per
   completion: from any state with scores in range, after n such completions its score is at most
   max 0 (old - n); hence at most 500 = throttleSuccess (unhealthy) after 500 completions at the latest.
   Hypothesis on the float expression: float64(old)*w truncated is < old for w < 1 and old > 0. *)
Theorem c14_all_fail_unhealthy_within_500 : forall W wzero fexpr fsqrt (lt1 : W -> Prop),
  (forall w o, lt1 w -> 0 < o -> fexpr w o 0 < o) -> lt1 wzero ->
  forall i ops s c c',
  (forall j cj, nth_error (conns s) j = Some cj -> 0 <= success cj <= 1000) ->
  nth_error (conns s) i = Some c ->
  fails_only W wzero fexpr fsqrt lt1 i s ops ->
  nth_error (conns (run W wzero fexpr fsqrt s ops)) i = Some c' ->
  success c' <= Z.max 0 (success c - ncompl W wzero fexpr fsqrt i s ops) /\
  (500 <= ncompl W wzero fexpr fsqrt i s ops -> healthy c' = false).
Proof.
  intros W wzero fexpr fsqrt lt1 Hdec H0 i ops s c c' Hr Hc Hf Hn.
  pose proof (all_fail W wzero fexpr fsqrt lt1 Hdec H0 i ops s c c' Hr Hc Hf Hn) as B.
  split; [exact B|]. intro H5. specialize (Hr _ _ Hc). unfold healthy. change throttleSuccess with 500.
  rewrite Z.gtb_ltb. apply Z.ltb_ge. lia.
Qed.
Print Assumptions c14_all_fail_unhealthy_within_500.

Theorem c14_all_fail_unhealthy_within_500_exact : forall fsqrt i ops s c c',
  (forall j cj, nth_error (conns s) j = Some cj -> 0 <= success cj <= 1000) ->
  nth_error (conns s) i = Some c ->
  fails_only Q 0%Q fexprQ fsqrt w_lt1 i s ops ->
  nth_error (conns (run Q 0%Q fexprQ fsqrt s ops)) i = Some c' ->
  success c' <= Z.max 0 (success c - ncompl Q 0%Q fexprQ fsqrt i s ops) /\
  (500 <= ncompl Q 0%Q fexprQ fsqrt i s ops -> healthy c' = false).
Proof. intros fsqrt. apply (c14_all_fail_unhealthy_within_500 Q 0%Q fexprQ fsqrt w_lt1 fexprQ_dec w_lt1_0). Qed.
Print Assumptions c14_all_fail_unhealthy_within_500_exact.

(* Explicit bound under an explicit hypothesis on w (exact arithmetic): one failing completion with
   w <= num/den scales the score by num/den; with w <= 1/2 (td >= 10 s * ln 2 = 6.94 s since the previous
   completion) a single failing completion makes any connection unhealthy. *)
Theorem c14_all_fail_unhealthy_within_bound : forall t start code w c num den,
  0 < den -> 0 <= num -> target_of code = 0 -> w_le w num den -> 0 <= success c <= 1000 ->
  success (done_conn Q 0%Q fexprQ t start code w c) * den <= success c * num /\
  (2 * num <= den -> healthy (done_conn Q 0%Q fexprQ t start code w c) = false).
Proof.
  intros t start code w c num den Hd Hn Ht Hw Hs.
  pose proof (fail_conn_scale t start code w c num den Hd Hn Ht Hw ltac:(lia)) as F.
  split; [exact F|]. intro H2. unfold healthy. change throttleSuccess with 500.
  set (x := success (done_conn Q 0%Q fexprQ t start code w c)) in *. rewrite Z.gtb_ltb. apply Z.ltb_ge. nia.
Qed.
Print Assumptions c14_all_fail_unhealthy_within_bound.

(* >= 3 connections: if one of the (at most pickTimes = 3) drawn pairs has two healthy members, the chosen
   connection is healthy: an unhealthy connection is not chosen while a healthy pair was drawn. *)
Theorem c14_unhealthy_avoided : forall fsqrt s d i id u s',
  (3 <= List.length (conns s))%nat -> pick fsqrt s d = Ok (i, id, u, s') ->
  (exists k a b0, (k < 3)%nat /\ nth_error d k = Some (a, b0) /\ both_healthy (conns s) a (adj a b0)) ->
  exists c, nth_error (conns s) i = Some c /\ healthy c = true.
Proof. exact unhealthy_avoided. Qed.
Print Assumptions c14_unhealthy_avoided.

(* 2 connections: the one that was not picked for more than forcePick (1 s) is picked now
   (when the other one was picked within the last second). *)
Theorem c14_force_pick : forall fsqrt s d c0 c1 i id u s',
  conns s = [c0; c1] -> pick fsqrt s d = Ok (i, id, u, s') ->
  (stale (now s) (pickt c1) -> ~ stale (now s) (pickt c0) -> i = 1%nat) /\
  (stale (now s) (pickt c0) -> ~ stale (now s) (pickt c1) -> i = 0%nat).
Proof.
  intros fsqrt s d c0 c1 i id u s' Hcs E. destruct (force_pick fsqrt s d c0 c1 i id u s' Hcs E) as (F1 & F0 & _).
  unfold stale. unfold forcePick in *. split; intros A B; [apply F1|apply F0]; lia.
Qed.
Print Assumptions c14_force_pick.

(* >= 3 connections (every N): of the two connections handed to choose (the first all-healthy drawn pair, else
   the third pair), the one not picked for more than forcePick is picked now when the other one was picked
   within the last second -- so a tracked connection that keeps being drawn is not starved. *)
Theorem c14_pair_force_pick : forall fsqrt s d i id u s',
  (3 <= List.length (conns s))%nat -> pick fsqrt s d = Ok (i, id, u, s') ->
  exists i1 i2 c1 c2,
    draw_loop (conns s) 3 d None 0 = Ok (i1, i2, u) /\
    nth_error (conns s) i1 = Some c1 /\ nth_error (conns s) i2 = Some c2 /\ (i = i1 \/ i = i2) /\
    (stale (now s) (pickt c1) -> ~ stale (now s) (pickt c2) -> i = i1) /\
    (stale (now s) (pickt c2) -> ~ stale (now s) (pickt c1) -> i = i2).
Proof.
  intros fsqrt s d i id u s' Hlen E.
  destruct (pair_force_pick fsqrt s d i id u s' Hlen E) as (i1 & i2 & c1 & c2 & H1 & H2 & H3 & H4 & F1 & F2).
  exists i1, i2, c1, c2. unfold stale. unfold forcePick in *.
  split; [exact H1|]. split; [exact H2|]. split; [exact H3|]. split; [exact H4|].
  split; intros A B; [apply F1|apply F2]; lia.
Qed.
Print Assumptions c14_pair_force_pick.

(* 2 connections, sustained traffic (every Pick comes at most 1 s after the previous one, i.e. while some
   connection is fresh): after EVERY Pick of EVERY such history each connection has been picked within
   the last second -- so between picks no connection is ever left unpicked for more than forcePick + the
   current inter-pick gap. *)
Theorem c14_two_conn_no_starvation : forall W wzero fexpr fsqrt s ops,
  List.length (conns s) = 2%nat ->
  sustained W wzero fexpr fsqrt s ops -> fresh_after_picks W wzero fexpr fsqrt s ops.
Proof. intros. apply two_conn_history; assumption. Qed.
Print Assumptions c14_two_conn_no_starvation.

Theorem c14_two_conn_no_starvation_step : forall fsqrt s d i id u s',
  List.length (conns s) = 2%nat ->
  (exists c, In c (conns s) /\ now s - pickt c <= 1000000000) ->
  pick fsqrt s d = Ok (i, id, u, s') ->
  forall c', In c' (conns s') -> now s' - pickt c' <= 1000000000.
Proof. exact two_conn_step. Qed.
Print Assumptions c14_two_conn_no_starvation_step.

(* With at least one ready connection and draws in the range Intn produces, Pick never panics and never
   fails: it returns a connection (which is ready by c14_pick_is_ready). *)
Theorem c14_pick_total : forall fsqrt s d,
  conns s <> [] ->
  ((3 <= List.length (conns s))%nat ->
   (3 <= List.length d)%nat /\ Forall (draw_ok (List.length (conns s))) (firstn 3 d)) ->
  exists i id u s', pick fsqrt s d = Ok (i, id, u, s').
Proof. exact pick_total. Qed.
Print Assumptions c14_pick_total.

(* Concurrent callers: the done func is a sequence of atomic operations; for EVERY interleaving (schedule)
   of any number of Picks and done funcs on a connection, with arbitrary raw float values v:
   in-flight = picks - done funcs begun, and the score stays within [0, 1000] (lost updates included). *)
Theorem c14_conc_inflight : forall sched s',
  crun cinit sched = Some s' -> k_inflight s' = count_pick sched - count_begin sched.
Proof. intros sched s' H. rewrite (conc_inflight sched cinit s' H). reflexivity. Qed.
Print Assumptions c14_conc_inflight.

Theorem c14_conc_success_range : forall sched s',
  targets_ok sched -> crun cinit sched = Some s' -> 0 <= k_success s' <= 1000.
Proof. intros sched s' Ht H. exact (proj1 (conc_score sched cinit s' Ht cinv_init H)). Qed.
Print Assumptions c14_conc_success_range.

(* How a client ends up with this balancer (rpc/internal/client.go): whatever ClientOptions the caller passes
   to NewClient, in whatever order and multiplicity, the dial options handed to grpc.DialContext contain the
   default service config naming the balancer (every ClientOption only appends dial options or sets a flag) ... *)
Theorem c14_client_keeps_balancer : forall name opts,
  In (DSvcCfg name) (new_client_dial_options name opts).
Proof. exact keeps_balancer. Qed.
Print Assumptions c14_client_keeps_balancer.

(* ... and it is the one grpc acts on (the last default service config wins), unless the caller himself hands
   another default service config to WithDialOption. *)
Theorem c14_client_balancer_effective : forall name opts,
  forallb (fun o => negb (passes_svc o)) opts = true ->
  effective_policy (new_client_dial_options name opts) = Some name.
Proof. exact balancer_effective. Qed.
Print Assumptions c14_client_balancer_effective.

(* ---------------- non-vacuity: the hypotheses are satisfiable and the conclusions bite ---------------- *)
Definition ex_run (order : list nat) (ops : list (op Q)) : option st :=
  option_map (fun s0 => run Q 0%Q fexprQ Z.sqrt s0 ops) (build 3600000000000 order).

(* three connections; the connection at position 1 is picked, fails and is unhealthy (score 0); then the pairs
   (0,1) and (1,2) are drawn, both contain it, and the healthy pair (2,0) third: position 1 is not chosen *)
Example c14_nonvacuous_unhealthy :
  match ex_run [7; 8; 9]%nat [Pick Q [(0, 0); (0, 0); (0, 0)]; Advance Q 5000000; Done Q 0%nat (Some 14) (1 # 2)] with
  | Some s =>
      map success (conns s) = [1000; 0; 1000] /\ map inflight (conns s) = [0; 0; 0] /\
      map lag (conns s) = [0; 5000000; 0] /\
      match pick Z.sqrt s [(0, 0); (1, 1); (2, 0)] with
      | Ok (i, id, used, _) => i = 0%nat /\ id = 7%nat /\ used = 3%nat
      | _ => False
      end
  | None => False
  end.
Proof. vm_compute. repeat split; reflexivity. Qed.

(* two connections, picks 0.4 s apart: `sustained` holds from the second pick on and both get picked *)
Example c14_nonvacuous_two_conn :
  match build 3600000000000 [0; 1]%nat with
  | Some s0 =>
      let s1 := step Q 0%Q fexprQ Z.sqrt s0 (Pick Q []) in
      sustained Q 0%Q fexprQ Z.sqrt s1 [Advance Q 400000000; Pick Q []; Advance Q 400000000; Pick Q []] /\
      map pickt (conns (run Q 0%Q fexprQ Z.sqrt s1 [Advance Q 400000000; Pick Q []])) = [3600400000000; 3600000000000]
  | None => False
  end.
Proof.
  cbv zeta. cbn [build]. split.
  - unfold sustained. repeat split; apply some_freshb_sound; vm_compute; reflexivity.
  - vm_compute. reflexivity.
Qed.

(* a failing history satisfying fails_only with weight 999/1000 < 1: the score decreases at every completion *)
Example c14_nonvacuous_all_fail :
  match ex_run [0]%nat [Pick Q []; Advance Q 1000; Done Q 0%nat None (1 # 2)] with
  | Some s =>
      let ops := [Pick Q []; Advance Q 1000; Done Q 1%nat (Some 14) (999 # 1000);
                  Pick Q []; Advance Q 1000; Done Q 2%nat (Some 13) (999 # 1000)] in
      fails_only Q 0%Q fexprQ Z.sqrt w_lt1 0 s ops /\ ncompl Q 0%Q fexprQ Z.sqrt 0 s ops = 2 /\
      map success (conns (run Q 0%Q fexprQ Z.sqrt s ops)) = [998]
  | None => False
  end.
Proof. vm_compute. repeat split; try reflexivity; intro H; discriminate H. Qed.

(* an interleaving of two done funcs in which the first one's failure is lost (both load 1000, the success
   store comes last): the schedule is executable, the theorems apply to it *)
Definition ex_sched : list lbl :=
  [LPick; LPick; LBegin; LBegin; LLoadLag 0; LLoadLag 1; LStoreLag 0 5 5; LStoreLag 1 7 7;
   LLoadSucc 0; LLoadSucc 1; LStoreSucc 0 0 300; LStoreSucc 1 1000 1000].
Example c14_nonvacuous_interleaving :
  targets_ok ex_sched /\
  option_map (fun s => [k_inflight s; k_lag s; k_success s]) (crun cinit ex_sched) = Some [0; 7; 1000].
Proof.
  split.
  - intros t tg v Hin. cbn in Hin. repeat (destruct Hin as [Hin|Hin]; [inversion Hin; subst; lia|]). destruct Hin.
  - vm_compute. reflexivity.
Qed.

(* credentials first, then a user option, non-blocking: 2 built-in chains, then balancer, creds, user option *)
Example c14_nonvacuous_client :
  new_client_dial_options "p2c_ewma" [WithTransportCredentials; WithDialOption (DUser 7); WithNonBlock; WithTimeout 5]
  = [DUnaryChain 5; DStreamChain; DSvcCfg "p2c_ewma"; DCreds; DUser 7].
Proof. reflexivity. Qed.

(* four ready SubConns, three of them on the same Addr (two of those with the same ServerName): all four are tracked *)
Definition ex_ready : ready_set := [(0%nat, (1, 0)); (1%nat, (1, 5)); (2%nat, (1, 5)); (3%nat, (2, 0))].
Example c14_nonvacuous_shared_addr :
  match build_ready 3600000000000 ex_ready [2; 3; 0; 1]%nat with
  | Some s0 => map scid (conns s0) = [2; 3; 0; 1]%nat /\
               conn_addrs ex_ready [2; 3; 0; 1]%nat = [Some (1, 5); Some (2, 0); Some (1, 0); Some (1, 5)]
  | None => False
  end.
Proof. vm_compute. split; reflexivity. Qed.

(* Build {0,1,2}, pick on it, Build {1,2} (a rebuild with a smaller ready set), pick on both: the first picker still
   returns one of ITS three SubConns and keeps its in-flight count *)
Example c14_nonvacuous_two_pickers :
  let w := wrun Q 0%Q fexprQ Z.sqrt []
             [WBuild Q 3600000000000 [0; 1; 2]%nat; WOn Q 0 (Pick Q [(0, 0); (0, 0); (0, 0)]);
              WBuild Q 3600000000000 [2; 1]%nat; WOn Q 1 (Pick Q []); WOn Q 0 (Pick Q [(2, 0); (2, 0); (2, 0)])] in
  map (option_map (fun s => (map scid (conns s), map inflight (conns s)))) w =
  [Some ([0; 1; 2]%nat, [1; 1; 0]); Some ([2; 1]%nat, [0; 1])].
Proof. vm_compute. reflexivity. Qed.
