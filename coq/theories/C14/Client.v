(* C14 Client: how a client gets the p2c balancer (rpc/internal/client.go).
   NewClient prepends WithDialOption(grpc.WithDefaultServiceConfig({"loadBalancingPolicy": p2c.Name})) to the
   caller's ClientOptions; buildDialOptions folds every ClientOption over a ClientOptions record and assembles
   the grpc dial options.  Model: options as list transformers; theorem: whatever ClientOptions the caller
   passes, in whatever order, the assembled dial options still contain the balancer's service config, and it
   is the only default-service-config option unless the caller passes one himself. *)
From Coq Require Import String.
From God Require Import Base.Prelude.
Local Open Scope Z_scope.

(* p2c.Name (p2c.go:22): the name the balancer registers under and the client's service config asks for.
   Hand-transcribed; C14.Link proves the regenerated constant equal to it. *)
Definition p2c_name : string := "p2c_ewma".

(* grpc.DialOption values, by what they are *)
Inductive dialopt :=
| DInsecure                      (* grpc.WithTransportCredentials(insecure.NewCredentials())   client.go:93 *)
| DBlock                         (* grpc.WithBlock()                                           client.go:97 *)
| DUnaryChain (timeout : Z)      (* the five built-in unary interceptors                       client.go:101-107 *)
| DStreamChain                   (* the built-in stream interceptor                            client.go:108-110 *)
| DSvcCfg (policy : string)      (* grpc.WithDefaultServiceConfig({"loadBalancingPolicy":policy}) *)
| DUser (tag : nat)              (* any other dial option handed to WithDialOption *)
| DCreds                         (* grpc.WithTransportCredentials(creds)                       client.go:142 *)
| DUnary                         (* WithUnaryClientInterceptors(interceptor)                   client.go:149 *)
| DStream.                       (* WithStreamClientInterceptors(interceptor)                  client.go:156 *)

(* ClientOptions (client.go:32-37) *)
Record copts := mkcopts { nonblock : bool; timeout : Z; secure : bool; dials : list dialopt }.
Definition copts0 : copts := mkcopts false 0 false [].

(* the exported ClientOption constructors (client.go:117-158) *)
Inductive copt :=
| WithDialOption (d : dialopt)
| WithNonBlock
| WithTimeout (t : Z)
| WithTransportCredentials
| WithUnaryClientInterceptor
| WithStreamClientInterceptor.

Definition apply_opt (c : copts) (o : copt) : copts :=
  match o with
  | WithDialOption d => mkcopts (nonblock c) (timeout c) (secure c) (dials c ++ [d])
  | WithNonBlock => mkcopts true (timeout c) (secure c) (dials c)
  | WithTimeout t => mkcopts (nonblock c) t (secure c) (dials c)
  | WithTransportCredentials => mkcopts (nonblock c) (timeout c) true (dials c ++ [DCreds])
  | WithUnaryClientInterceptor => mkcopts (nonblock c) (timeout c) (secure c) (dials c ++ [DUnary])
  | WithStreamClientInterceptor => mkcopts (nonblock c) (timeout c) (secure c) (dials c ++ [DStream])
  end.

(* client.go:85-115 buildDialOptions *)
Definition build_dial_options (opts : list copt) : list dialopt :=
  let c := fold_left apply_opt opts copts0 in
  (if secure c then [] else [DInsecure]) ++
  (if nonblock c then [] else [DBlock]) ++
  [DUnaryChain (timeout c); DStreamChain] ++
  dials c.

(* client.go:47-58 NewClient: the dial options handed to grpc.DialContext *)
Definition new_client_dial_options (name : string) (opts : list copt) : list dialopt :=
  build_dial_options (WithDialOption (DSvcCfg name) :: opts).

(* ---- Spec: the client is wired to the balancer named `name` ---- *)
Definition is_svc (d : dialopt) : bool := match d with DSvcCfg _ => true | _ => false end.
Definition wired (name : string) (ds : list dialopt) : Prop := In (DSvcCfg name) ds.
(* grpc applies dial options in order, the last default service config wins *)
Definition effective_policy (ds : list dialopt) : option string :=
  match rev (filter is_svc ds) with DSvcCfg p :: _ => Some p | _ => None end.
Definition passes_svc (o : copt) : bool := match o with WithDialOption d => is_svc d | _ => false end.

(* ---- Proofs ---- *)
Lemma dials_grow c o d : In d (dials c) -> In d (dials (apply_opt c o)).
Proof. destruct o; cbn [apply_opt dials]; intro H; try exact H; apply in_or_app; left; exact H. Qed.

Lemma dials_fold opts : forall c d, In d (dials c) -> In d (dials (fold_left apply_opt opts c)).
Proof. induction opts as [|o r IH]; intros c d H; [exact H|]. cbn [fold_left]. apply IH, dials_grow, H. Qed.

Lemma keeps_balancer name opts : wired name (new_client_dial_options name opts).
Proof.
  unfold wired, new_client_dial_options, build_dial_options. cbn [fold_left].
  apply in_or_app; right. apply in_or_app; right. apply in_or_app; right.
  apply dials_fold. cbn. left. reflexivity.
Qed.

Lemma svc_of_apply c o : passes_svc o = false -> filter is_svc (dials (apply_opt c o)) = filter is_svc (dials c).
Proof.
  destruct o; cbn [apply_opt dials passes_svc]; intro H; try reflexivity;
    rewrite filter_app; cbn [filter is_svc]; try rewrite H; apply app_nil_r.
Qed.

Lemma svc_of_fold opts : forall c, forallb (fun o => negb (passes_svc o)) opts = true ->
  filter is_svc (dials (fold_left apply_opt opts c)) = filter is_svc (dials c).
Proof.
  induction opts as [|o r IH]; intros c H; [reflexivity|]. cbn [forallb] in H. apply andb_true_iff in H as (H1 & H2).
  cbn [fold_left]. rewrite IH by exact H2. apply svc_of_apply. destruct (passes_svc o); [discriminate|reflexivity].
Qed.

Lemma balancer_effective name opts :
  forallb (fun o => negb (passes_svc o)) opts = true ->
  effective_policy (new_client_dial_options name opts) = Some name.
Proof.
  intro H. unfold effective_policy, new_client_dial_options, build_dial_options. cbn [fold_left].
  rewrite !filter_app. rewrite (svc_of_fold opts _ H).
  destruct (secure _), (nonblock _); reflexivity.
Qed.
