(* C14 Proofs: invariants of the P2C picker model over ALL histories. *)
From God Require Import Base.Prelude C14.Model C14.Spec.
Local Open Scope Z_scope.

(* ------------------------------------------------------------------ lists *)
Lemma set_nth_nil {A} i (x : A) : set_nth i x [] = [].
Proof. unfold set_nth. destruct i; reflexivity. Qed.
Lemma set_nth_0 {A} (x a : A) l : set_nth 0 x (a :: l) = x :: l.
Proof. reflexivity. Qed.
Lemma set_nth_S {A} i (x a : A) l : set_nth (S i) x (a :: l) = a :: set_nth i x l.
Proof. reflexivity. Qed.

Lemma set_nth_length {A} i (x : A) l : List.length (set_nth i x l) = List.length l.
Proof.
  revert i; induction l as [|a l IH]; intros i.
  - rewrite set_nth_nil. reflexivity.
  - destruct i; [reflexivity|]. rewrite set_nth_S. cbn [List.length]. rewrite IH. reflexivity.
Qed.

Lemma nth_error_set_nth_eq {A} i (x : A) l :
  (i < List.length l)%nat -> nth_error (set_nth i x l) i = Some x.
Proof.
  revert i; induction l as [|a l IH]; intros i H; cbn [List.length] in H; [lia|].
  destruct i; [reflexivity|]. rewrite set_nth_S. cbn [nth_error]. apply IH. lia.
Qed.

Lemma nth_error_set_nth_neq {A} i j (x : A) l :
  i <> j -> nth_error (set_nth i x l) j = nth_error l j.
Proof.
  revert i j; induction l as [|a l IH]; intros i j H.
  - rewrite set_nth_nil. reflexivity.
  - destruct i.
    + destruct j; [congruence|reflexivity].
    + rewrite set_nth_S. destruct j; [reflexivity|]. cbn [nth_error]. apply IH. congruence.
Qed.

Lemma set_nth_set_nth {A} i (x y : A) l : set_nth i y (set_nth i x l) = set_nth i y l.
Proof.
  revert i; induction l as [|a l IH]; intros i.
  - rewrite !set_nth_nil. reflexivity.
  - destruct i; [reflexivity|]. rewrite !set_nth_S. f_equal. apply IH.
Qed.

Lemma map_set_nth {A B} (f : A -> B) i x l : map f (set_nth i x l) = set_nth i (f x) (map f l).
Proof.
  revert i; induction l as [|a l IH]; intros i.
  - cbn [map]. rewrite !set_nth_nil. reflexivity.
  - destruct i; [reflexivity|]. cbn [map]. rewrite !set_nth_S. cbn [map]. f_equal. apply IH.
Qed.

Lemma set_nth_same {A} i (x : A) l : nth_error l i = Some x -> set_nth i x l = l.
Proof.
  revert i; induction l as [|a l IH]; intros i H.
  - destruct i; discriminate.
  - destruct i; cbn [nth_error] in H; [inversion H; reflexivity|]. rewrite set_nth_S. f_equal. auto.
Qed.

Lemma nth_error_lt {A} (l : list A) i x : nth_error l i = Some x -> (i < List.length l)%nat.
Proof. intro H. apply nth_error_Some. congruence. Qed.

(* what a position holds after set_nth *)
Lemma nth_error_set_nth {A} i j (x : A) l c :
  nth_error (set_nth i x l) j = Some c ->
  (j = i /\ c = x) \/ (j <> i /\ nth_error l j = Some c).
Proof.
  intro H. destruct (Nat.eq_dec i j) as [->|N].
  - left. split; [reflexivity|]. assert (L : (j < List.length l)%nat).
    { apply nth_error_lt in H. rewrite set_nth_length in H. exact H. }
    rewrite nth_error_set_nth_eq in H by exact L. congruence.
  - right. rewrite nth_error_set_nth_neq in H by exact N. auto.
Qed.

(* ------------------------------------------------------------------ one step *)
Section PickSteps.
  Variable fsqrt : Z -> Z.

  Notation choose := (choose fsqrt).
  Notation pick := (pick fsqrt).

  Lemma choose_spec t cs i1 o2 i cs' :
    choose t cs i1 o2 = Ok (i, cs') ->
    exists c, nth_error cs i = Some c /\ cs' = set_nth i (set_pick t c) cs /\ (i = i1 \/ o2 = Some i).
  Proof.
    unfold Model.choose. destruct (nth_error cs i1) as [c1|] eqn:E1; [|discriminate].
    destruct o2 as [i2|].
    - destruct (nth_error cs i2) as [c2|] eqn:E2; [|discriminate].
      destruct (load fsqrt c1 >? load fsqrt c2);
        match goal with |- context [if ?b then _ else _] => destruct b end;
        intro H; inversion H; subst; eauto 6.
    - intro H; inversion H; subst. eauto 6.
  Qed.

  Definition adj (a b0 : Z) : Z := if b0 >=? a then b0 + 1 else b0.

  Definition both_healthy (cs : list conn) (a b : Z) : Prop :=
    exists n1 n2, nth_error cs (Z.to_nat a) = Some n1 /\ nth_error cs (Z.to_nat b) = Some n2 /\
                  healthy n1 = true /\ healthy n2 = true.

  Lemma draw_loop_in cs fuel draws cur used i j u :
    draw_loop cs fuel draws cur used = Ok (i, j, u) ->
    (forall a b, cur = Some (a, b) -> (a < List.length cs)%nat /\ (b < List.length cs)%nat) ->
    (i < List.length cs)%nat /\ (j < List.length cs)%nat.
  Proof.
    revert draws cur used. induction fuel as [|f IH]; intros draws cur used; cbn [draw_loop].
    - destruct cur as [[a b]|]; [|discriminate]. intros H Hc. inversion H; subst. eauto.
    - destruct draws as [|[a b0] rest]; [discriminate|].
      fold (adj a b0). destruct ((a <? 0) || (adj a b0 <? 0)); [discriminate|].
      destruct (nth_error cs (Z.to_nat a)) as [n1|] eqn:E1; [|discriminate].
      destruct (nth_error cs (Z.to_nat (adj a b0))) as [n2|] eqn:E2; [|discriminate].
      apply nth_error_lt in E1. apply nth_error_lt in E2.
      destruct (healthy n1 && healthy n2).
      + intros H _. inversion H; subst. auto.
      + intros H _. eapply IH; [exact H|]. intros a' b' E. inversion E; subst. auto.
  Qed.

  (* if one of the first `fuel` drawn pairs is all-healthy, the pair handed to choose is all-healthy *)
  Lemma draw_loop_healthy cs fuel draws cur used i j u :
    draw_loop cs fuel draws cur used = Ok (i, j, u) ->
    (exists k a b0, (k < fuel)%nat /\ nth_error draws k = Some (a, b0) /\ both_healthy cs a (adj a b0)) ->
    exists n1 n2, nth_error cs i = Some n1 /\ nth_error cs j = Some n2 /\ healthy n1 = true /\ healthy n2 = true.
  Proof.
    revert draws cur used. induction fuel as [|f IH]; intros draws cur used; cbn [draw_loop].
    - intros _ (k & a & b0 & Hk & _). lia.
    - destruct draws as [|[a b0] rest]; [discriminate|].
      fold (adj a b0). destruct ((a <? 0) || (adj a b0 <? 0)); [discriminate|].
      destruct (nth_error cs (Z.to_nat a)) as [n1|] eqn:E1; [|discriminate].
      destruct (nth_error cs (Z.to_nat (adj a b0))) as [n2|] eqn:E2; [|discriminate].
      destruct (healthy n1 && healthy n2) eqn:Eh.
      + intros H _. inversion H; subst. apply andb_true_iff in Eh as [? ?]. eauto 8.
      + intros H (k & a' & b0' & Hk & Hn & Hb). destruct k as [|k].
        * cbn [nth_error] in Hn. inversion Hn; subst a' b0'.
          destruct Hb as (m1 & m2 & F1 & F2 & H1 & H2). rewrite E1 in F1. rewrite E2 in F2.
          inversion F1; inversion F2; subst. rewrite H1, H2 in Eh. discriminate.
        * eapply IH; [exact H|]. exists k, a', b0'. cbn [nth_error] in Hn. repeat split; auto. lia.
  Qed.

  (* anatomy of a successful Pick *)
  Lemma pick_spec s d i id used s' :
    pick s d = Ok (i, id, used, s') ->
    exists c i1 o2,
      choose (now s) (conns s) i1 o2 = Ok (i, set_nth i (set_pick (now s) c) (conns s)) /\
      nth_error (conns s) i = Some c /\ id = scid c /\
      s' = mkst (now s) (set_nth i (bump (set_pick (now s) c)) (conns s)) (stamp s) (tokens s ++ [mktoken i (now s)]) /\
      ((List.length (conns s) = 1%nat /\ i1 = 0%nat /\ o2 = None) \/
       (List.length (conns s) = 2%nat /\ i1 = 0%nat /\ o2 = Some 1%nat) \/
       ((3 <= List.length (conns s))%nat /\ exists j, o2 = Some j /\ draw_loop (conns s) pickTimes d None 0 = Ok (i1, j, used))).
  Proof.
    unfold Model.pick.
    set (chosen := match conns s with [] => _ | _ => _ end).
    assert (Hc : forall i cs' u, chosen = Ok ((i, cs'), u) ->
      exists i1 o2, choose (now s) (conns s) i1 o2 = Ok (i, cs') /\
      ((List.length (conns s) = 1%nat /\ i1 = 0%nat /\ o2 = None) \/
       (List.length (conns s) = 2%nat /\ i1 = 0%nat /\ o2 = Some 1%nat) \/
       ((3 <= List.length (conns s))%nat /\ exists j, o2 = Some j /\ draw_loop (conns s) pickTimes d None 0 = Ok (i1, j, u)))).
    { subst chosen. intros i0 cs0 u0. destruct (conns s) as [|c0 [|c1 [|c2 r]]] eqn:Ecs.
      - discriminate.
      - destruct (choose (now s) [c0] 0 None) as [[a b]| |] eqn:E; try discriminate.
        intro H; inversion H; subst. exists 0%nat, None. split; [exact E|]. left. auto.
      - destruct (choose (now s) [c0; c1] 0 (Some 1%nat)) as [[a b]| |] eqn:E; try discriminate.
        intro H; inversion H; subst. exists 0%nat, (Some 1%nat). split; [exact E|]. right; left. auto.
      - destruct (draw_loop (c0 :: c1 :: c2 :: r) pickTimes d None 0) as [[[a b] u]| |] eqn:E; try discriminate.
        destruct (choose (now s) (c0 :: c1 :: c2 :: r) a (Some b)) as [[x y]| |] eqn:E2; try discriminate.
        intro H; inversion H; subst. exists a, (Some b). split; [exact E2|]. right; right.
        split; [cbn [List.length]; lia|]. eauto. }
    destruct chosen as [[[i0 cs0] u0]| |] eqn:Ech; try discriminate.
    destruct (Hc _ _ _ eq_refl) as (i1 & o2 & Hch & Hshape).
    destruct (choose_spec _ _ _ _ _ _ Hch) as (c & Hn & Hcs & Hi).
    assert (Hn' : nth_error cs0 i0 = Some (set_pick (now s) c)).
    { subst cs0. apply nth_error_set_nth_eq. eapply nth_error_lt; eauto. }
    rewrite Hn'. intro H; inversion H; subst i0 id used s'. clear H.
    exists c, i1, o2. subst cs0. rewrite set_nth_set_nth. repeat split; auto.
  Qed.

  Lemma pick_nth s d i id used s' j c' :
    pick s d = Ok (i, id, used, s') -> nth_error (conns s') j = Some c' ->
    exists c, nth_error (conns s) j = Some c /\
      ((j = i /\ c' = bump (set_pick (now s) c)) \/ (j <> i /\ c' = c)).
  Proof.
    intros H Hn. apply pick_spec in H as (c & i1 & o2 & _ & Hc & _ & -> & _). cbn [conns] in Hn.
    apply nth_error_set_nth in Hn as [[-> ->]|[N Hn]]; eauto.
  Qed.
End PickSteps.

Section DoneSteps.
  Variable W : Type.
  Variable wzero : W.
  Variable fexpr : W -> Z -> Z -> Z.

  Notation done := (done W wzero fexpr).
  Notation done_conn := (done_conn W wzero fexpr).
  Notation ewma := (ewma W fexpr).

  Lemma done_spec s k code w s' :
    done s k code w = Ok s' ->
    exists tk c, nth_error (tokens s) k = Some tk /\ nth_error (conns s) (t_conn tk) = Some c /\
      s' = log_stats (mkst (now s) (set_nth (t_conn tk) (done_conn (now s) (t_start tk) code w c) (conns s))
                           (stamp s) (tokens s)).
  Proof.
    unfold Model.done. destruct (nth_error (tokens s) k) as [tk|]; [|discriminate].
    destruct (nth_error (conns s) (t_conn tk)) as [c|] eqn:E; [|discriminate].
    intro H; inversion H. eauto.
  Qed.

  (* ewma never leaves [min old sample, max old sample], whatever the float expression yields *)
  Lemma ewma_between old sample w : Z.min old sample <= ewma old sample w <= Z.max old sample.
  Proof. unfold Model.ewma. destruct (_ <? _) eqn:E1; [lia|]. destruct (_ >? _) eqn:E2; lia. Qed.

  (* fields of a connection that logStats does not touch *)
  Definition eqr (c c' : conn) : Prop :=
    lag c = lag c' /\ inflight c = inflight c' /\ success c = success c' /\ last c = last c' /\
    pickt c = pickt c' /\ scid c = scid c'.

  Lemma log_stats_nth s j :
    match nth_error (conns s) j with
    | Some c => exists c', nth_error (conns (log_stats s)) j = Some c' /\ eqr c c'
    | None => nth_error (conns (log_stats s)) j = None
    end.
  Proof.
    unfold log_stats. destruct (now s - stamp s >=? logInterval); cbn [conns].
    - rewrite nth_error_map. destruct (nth_error (conns s) j) as [c|]; cbn [option_map]; [|reflexivity].
      eexists; split; [reflexivity|]. unfold eqr; cbn. tauto.
    - destruct (nth_error (conns s) j) as [c|]; [|reflexivity]. eexists; split; [reflexivity|]. unfold eqr; tauto.
  Qed.

  Lemma log_stats_nth_inv s j c' :
    nth_error (conns (log_stats s)) j = Some c' -> exists c, nth_error (conns s) j = Some c /\ eqr c c'.
  Proof.
    intro H. pose proof (log_stats_nth s j) as L. destruct (nth_error (conns s) j) as [c|].
    - destruct L as (c2 & E & R). rewrite E in H. inversion H; subst. eauto.
    - congruence.
  Qed.

  Lemma log_stats_misc s : now (log_stats s) = now s /\ tokens (log_stats s) = tokens s /\
                           List.length (conns (log_stats s)) = List.length (conns s).
  Proof. unfold log_stats. destruct (_ >=? _); cbn; rewrite ?map_length; auto. Qed.

  (* a completed step seen from one position j of the connection list *)
  Lemma done_nth s k code w s' j c' :
    done s k code w = Ok s' -> nth_error (conns s') j = Some c' ->
    exists tk c, nth_error (tokens s) k = Some tk /\ nth_error (conns s) j = Some c /\
      ((j = t_conn tk /\ eqr (done_conn (now s) (t_start tk) code w c) c') \/ (j <> t_conn tk /\ eqr c c')).
  Proof.
    intros H Hn. apply done_spec in H as (tk & c & Ht & Hc & ->).
    apply log_stats_nth_inv in Hn as (c1 & Hn & R). cbn [conns] in Hn.
    apply nth_error_set_nth in Hn as [[-> ->]|[N Hn]].
    - exists tk, c. auto.
    - exists tk, c1. auto.
  Qed.

End DoneSteps.

(* ------------------------------------------------------------------ ledger arithmetic *)
Fixpoint upd_calls (k : nat) (L : list entry) : list entry :=
  match L, k with
  | [], _ => []
  | e :: r, O => mkentry (e_conn e) (e_calls e + 1) :: r
  | e :: r, S k' => e :: upd_calls k' r
  end.

Lemma picks_of_app L i j :
  picks_of (L ++ [mkentry i 0]) j = picks_of L j + (if Nat.eqb i j then 1 else 0).
Proof.
  unfold picks_of, of_conn. rewrite filter_app, app_length. cbn [filter e_conn].
  destruct (Nat.eqb i j); cbn [List.length]; lia.
Qed.

Lemma sumZ_app a b : sumZ (a ++ b) = sumZ a + sumZ b.
Proof. unfold sumZ. induction a as [|x a IH]; cbn [fold_right app]; lia. Qed.

Lemma completions_of_app L i j : completions_of (L ++ [mkentry i 0]) j = completions_of L j.
Proof.
  unfold completions_of, of_conn. rewrite filter_app, map_app, sumZ_app. cbn [filter e_conn].
  destruct (Nat.eqb i j); cbn; lia.
Qed.

Lemma upd_calls_conn k L : map e_conn (upd_calls k L) = map e_conn L.
Proof. revert k; induction L as [|e r IH]; intros [|k]; cbn; try reflexivity. f_equal. apply IH. Qed.

Lemma picks_of_upd k L j : picks_of (upd_calls k L) j = picks_of L j.
Proof.
  unfold picks_of, of_conn. f_equal. revert k; induction L as [|e r IH]; intros [|k]; cbn [upd_calls filter e_conn]; try reflexivity.
  - destruct (Nat.eqb (e_conn e) j); reflexivity.
  - destruct (Nat.eqb (e_conn e) j); cbn [List.length]; rewrite IH; reflexivity.
Qed.

Lemma completions_of_upd k L e j :
  nth_error L k = Some e ->
  completions_of (upd_calls k L) j = completions_of L j + (if Nat.eqb (e_conn e) j then 1 else 0).
Proof.
  unfold completions_of, of_conn, sumZ. revert k; induction L as [|a r IH]; intros [|k] H; cbn [nth_error] in H; try discriminate.
  - inversion H; subst. cbn [upd_calls filter e_conn]. destruct (Nat.eqb (e_conn e) j); cbn; lia.
  - cbn [upd_calls filter]. specialize (IH k H). destruct (Nat.eqb (e_conn a) j); cbn [map fold_right]; lia.
Qed.

Lemma completions_le_picks L i : at_most_once L -> completions_of L i <= picks_of L i.
Proof.
  unfold at_most_once, completions_of, picks_of, of_conn, sumZ. induction L as [|e r IH]; intro H; cbn [filter]; [cbn; lia|].
  assert (He : e_calls e <= 1) by (apply H; left; reflexivity).
  assert (Hr : forall e0, In e0 r -> e_calls e0 <= 1) by (intros; apply H; right; assumption).
  specialize (IH Hr). destruct (Nat.eqb (e_conn e) i); cbn [map fold_right List.length]; lia.
Qed.

(* ------------------------------------------------------------------ histories *)
Record ghost := mkg { g_L : list entry; g_samples : list (list Z) }.

Definition add_sample (i : nat) (x : Z) (sm : list (list Z)) : list (list Z) :=
  match nth_error sm i with Some l => set_nth i (x :: l) sm | None => sm end.
Definition samples_at (g : ghost) (i : nat) : list Z :=
  match nth_error (g_samples g) i with Some l => l | None => [] end.

Section Hist.
  Variable W : Type.
  Variable wzero : W.
  Variable fexpr : W -> Z -> Z -> Z.
  Variable fsqrt : Z -> Z.

  Notation pick := (pick fsqrt).
  Notation done := (done W wzero fexpr).
  Notation done_conn := (done_conn W wzero fexpr).
  Notation ewma := (ewma W fexpr).
  Notation op := (op W).
  Notation step := (step W wzero fexpr fsqrt).
  Notation run := (run W wzero fexpr fsqrt).

  (* the ledger kept next to the model: who was picked, how often each done func was called,
     which latencies (now - start) each connection has seen *)
  Definition gstep (sg : st * ghost) (o : op) : st * ghost :=
    let (s, g) := sg in
    match o with
    | Pick _ d =>
        match pick s d with
        | Ok (i, _, _, s') => (s', mkg (g_L g ++ [mkentry i 0]) (g_samples g))
        | _ => (s, g)
        end
    | Done _ k code w =>
        match done s k code w, nth_error (tokens s) k with
        | Ok s', Some tk =>
            (s', mkg (upd_calls k (g_L g)) (add_sample (t_conn tk) (Z.max 0 (now s - t_start tk)) (g_samples g)))
        | _, _ => (s, g)
        end
    | Advance _ dt => (advance s dt, g)
    end.
  Definition grun (sg : st * ghost) (ops : list op) : st * ghost := fold_left gstep ops sg.

  Lemma gstep_fst sg o : fst (gstep sg o) = step (fst sg) o.
  Proof.
    destruct sg as [s g]. destruct o as [d|k code w|dt]; cbn [gstep Model.step fst].
    - destruct (pick s d) as [[[[i id] u] s']| |]; reflexivity.
    - destruct (done s k code w) as [s'| |] eqn:E; try reflexivity.
      destruct (nth_error (tokens s) k) eqn:E2; [reflexivity|].
      apply done_spec in E as (tk & c & Ht & _). congruence.
    - reflexivity.
  Qed.

  Lemma grun_fst ops : forall sg, fst (grun sg ops) = run (fst sg) ops.
  Proof.
    induction ops as [|o r IH]; intro sg; [reflexivity|]. unfold grun, Model.run in *. cbn [fold_left].
    rewrite IH, gstep_fst. reflexivity.
  Qed.

  Lemma grun_inv (I : st * ghost -> Prop) :
    (forall sg o, I sg -> I (gstep sg o)) -> forall ops sg, I sg -> I (grun sg ops).
  Proof. intros H ops. induction ops as [|o r IH]; intros sg Hs; [exact Hs|]. apply IH, H, Hs. Qed.

  Definition ghost0 (n : nat) : ghost := mkg [] (repeat [] n).

  (* ---------- structure ---------- *)
  Definition wf (order : list nat) (sg : st * ghost) : Prop :=
    let (s, g) := sg in
    map scid (conns s) = order /\
    Forall (fun tk => (t_conn tk < List.length (conns s))%nat) (tokens s) /\
    map e_conn (g_L g) = map t_conn (tokens s) /\
    List.length (g_samples g) = List.length (conns s).

  Lemma log_stats_scid s : map scid (conns (log_stats s)) = map scid (conns s).
  Proof.
    unfold log_stats. destruct (_ >=? _); cbn [conns]; [|reflexivity]. rewrite map_map. apply map_ext. reflexivity.
  Qed.

  Lemma add_sample_length i x sm : List.length (add_sample i x sm) = List.length sm.
  Proof. unfold add_sample. destruct (nth_error sm i); [apply set_nth_length|reflexivity]. Qed.

  Lemma wf_step order sg o : wf order sg -> wf order (gstep sg o).
  Proof.
    destruct sg as [s g]. intros (Hid & Htk & HL & Hsm). destruct o as [d|k code w|dt]; cbn [gstep].
    - destruct (pick s d) as [[[[i id] u] s']| |] eqn:E; try (repeat split; assumption).
      apply pick_spec in E as (c & i1 & o2 & _ & Hc & _ & -> & _). cbn [wf conns tokens g_L g_samples].
      rewrite set_nth_length. repeat split.
      + rewrite map_set_nth. rewrite <- Hid. apply set_nth_same. rewrite nth_error_map, Hc. reflexivity.
      + apply Forall_app. split; [exact Htk|]. constructor; [|constructor]. cbn. eapply nth_error_lt; eauto.
      + rewrite !map_app, HL. reflexivity.
      + exact Hsm.
    - destruct (done s k code w) as [s'| |] eqn:E; try (repeat split; assumption).
      destruct (nth_error (tokens s) k) as [tk|] eqn:Et; try (repeat split; assumption).
      apply done_spec in E as (tk' & c & Ht & Hc & ->). cbn [wf g_L g_samples].
      destruct (log_stats_misc (mkst (now s) (set_nth (t_conn tk') (done_conn (now s) (t_start tk') code w c) (conns s)) (stamp s) (tokens s)))
        as (_ & -> & ->). rewrite log_stats_scid. cbn [conns tokens]. rewrite set_nth_length. repeat split.
      + rewrite map_set_nth. rewrite <- Hid. apply set_nth_same. rewrite nth_error_map, Hc. reflexivity.
      + exact Htk.
      + rewrite upd_calls_conn. exact HL.
      + rewrite add_sample_length. exact Hsm.
    - cbn [wf advance conns tokens]. repeat split; assumption.
  Qed.

  Lemma scid_new_conn l : map scid (map new_conn l) = l.
  Proof. induction l as [|a l IH]; cbn [map]; [reflexivity|]. rewrite IH. reflexivity. Qed.

  Lemma wf_build start order s0 : build start order = Some s0 -> wf order (s0, ghost0 (List.length order)).
  Proof.
    unfold build. intro H. assert (E : s0 = mkst start (map new_conn order) 0 []).
    { destruct order; [discriminate|]. inversion H. reflexivity. }
    subst s0. cbn [wf conns tokens ghost0 g_L g_samples]. repeat split.
    - apply scid_new_conn.
    - constructor.
    - rewrite repeat_length, map_length. reflexivity.
  Qed.

  (* ---------- in-flight = picks - completions ---------- *)
  Definition inv_inflight (sg : st * ghost) : Prop :=
    let (s, g) := sg in
    forall i c, nth_error (conns s) i = Some c -> inflight_ok (g_L g) i (inflight c).

  Lemma inflight_step order sg o : wf order sg -> inv_inflight sg -> inv_inflight (gstep sg o).
  Proof.
    destruct sg as [s g]. intros (Hid & Htk & HL & Hsm) Hinv. destruct o as [d|k code w|dt]; cbn [gstep].
    - destruct (pick s d) as [[[[i id] u] s']| |] eqn:E; try exact Hinv.
      intros j c' Hn. cbn [g_L]. unfold inflight_ok. rewrite picks_of_app, completions_of_app.
      destruct (pick_nth _ _ _ _ _ _ _ _ _ E Hn) as (c & Hc & [[-> ->]|[N ->]]).
      + rewrite Nat.eqb_refl. cbn [bump set_pick inflight]. specialize (Hinv _ _ Hc). unfold inflight_ok in Hinv. lia.
      + destruct (Nat.eqb_spec i j) as [->|_]; [congruence|]. specialize (Hinv _ _ Hc). unfold inflight_ok in Hinv. lia.
    - destruct (done s k code w) as [s'| |] eqn:E; try exact Hinv.
      destruct (nth_error (tokens s) k) as [tk|] eqn:Et; try exact Hinv.
      intros j c' Hn. cbn [g_L]. unfold inflight_ok.
      destruct (done_nth _ _ _ _ _ _ _ _ _ _ E Hn) as (tk' & c & Ht & Hc & Hcase).
      rewrite Et in Ht. inversion Ht; subst tk'. clear Ht.
      assert (He : exists e, nth_error (g_L g) k = Some e /\ e_conn e = t_conn tk).
      { assert (H1 : nth_error (map e_conn (g_L g)) k = Some (t_conn tk)) by (rewrite HL, nth_error_map, Et; reflexivity).
        rewrite nth_error_map in H1. destruct (nth_error (g_L g) k) as [e|]; cbn in H1; [|discriminate].
        inversion H1. eauto. }
      destruct He as (e & He & Hec). rewrite picks_of_upd, (completions_of_upd _ _ _ _ He), Hec.
      specialize (Hinv _ _ Hc). unfold inflight_ok in Hinv.
      destruct Hcase as [[-> R]|[N R]]; destruct R as (_ & R & _).
      + rewrite Nat.eqb_refl. cbn [Model.done_conn inflight] in R. lia.
      + destruct (Nat.eqb_spec (t_conn tk) j) as [Heq|_]; [congruence|]. lia.
    - exact Hinv.
  Qed.

  (* ---------- score range ---------- *)
  Definition inv_score (s : st) : Prop := forall i c, nth_error (conns s) i = Some c -> score_ok (success c).

  Lemma target_range code : 0 <= target_of code <= 1000.
  Proof. unfold target_of, initSuccess. destruct code as [c|]; [destruct (acceptable c)|]; lia. Qed.

  Lemma score_step s o : inv_score s -> inv_score (step s o).
  Proof.
    intros Hinv. destruct o as [d|k code w|dt]; cbn [Model.step].
    - destruct (pick s d) as [[[[i id] u] s']| |] eqn:E; try exact Hinv.
      intros j c' Hn. destruct (pick_nth _ _ _ _ _ _ _ _ _ E Hn) as (c & Hc & [[-> ->]|[N ->]]); cbn; eapply Hinv; eauto.
    - destruct (done s k code w) as [s'| |] eqn:E; try exact Hinv.
      intros j c' Hn. destruct (done_nth _ _ _ _ _ _ _ _ _ _ E Hn) as (tk & c & Ht & Hc & Hcase).
      specialize (Hinv _ _ Hc). unfold score_ok in *.
      destruct Hcase as [[-> R]|[N R]]; destruct R as (_ & _ & R & _); rewrite <- R; [|exact Hinv].
      cbn [Model.done_conn success].
      match goal with |- _ <= Model.ewma _ _ ?o ?t ?w <= _ => pose proof (ewma_between W fexpr o t w) end.
      pose proof (target_range code). lia.
    - exact Hinv.
  Qed.

  Lemma score_run ops : forall s, inv_score s -> inv_score (run s ops).
  Proof.
    induction ops as [|o r IH]; intros s H; [exact H|]. unfold Model.run in *. cbn [fold_left]. apply IH, score_step, H.
  Qed.

  Lemma score_build start order s0 : build start order = Some s0 -> inv_score s0.
  Proof.
    unfold build. intro H. assert (E : s0 = mkst start (map new_conn order) 0 []).
    { destruct order; [discriminate|]. inversion H. reflexivity. }
    subst s0. intros i c Hn. cbn [conns] in Hn.
    rewrite nth_error_map in Hn. destruct (nth_error order i); inversion Hn. unfold score_ok; cbn. unfold initSuccess. lia.
  Qed.

  (* ---------- score moves toward its target on a completion, and only then ---------- *)
  Lemma success_toward s k code w s' tk c c' :
    done s k code w = Ok s' -> nth_error (tokens s) k = Some tk ->
    nth_error (conns s) (t_conn tk) = Some c -> nth_error (conns s') (t_conn tk) = Some c' ->
    toward (success c) (target_of code) (success c').
  Proof.
    intros E Ht Hc Hn. destruct (done_nth _ _ _ _ _ _ _ _ _ _ E Hn) as (tk' & c2 & Ht' & Hc2 & Hcase).
    rewrite Ht in Ht'. inversion Ht'; subst tk'. rewrite Hc in Hc2. inversion Hc2; subst c2.
    destruct Hcase as [[_ R]|[N _]]; [|congruence]. destruct R as (_ & _ & R & _). rewrite <- R.
    cbn [Model.done_conn success]. apply ewma_between.
  Qed.

  Lemma success_others s k code w s' tk j c c' :
    done s k code w = Ok s' -> nth_error (tokens s) k = Some tk -> j <> t_conn tk ->
    nth_error (conns s) j = Some c -> nth_error (conns s') j = Some c' ->
    success c' = success c /\ lag c' = lag c.
  Proof.
    intros E Ht N Hc Hn. destruct (done_nth _ _ _ _ _ _ _ _ _ _ E Hn) as (tk' & c2 & Ht' & Hc2 & Hcase).
    rewrite Ht in Ht'. inversion Ht'; subst tk'. rewrite Hc in Hc2. inversion Hc2; subst c2.
    destruct Hcase as [[? _]|[_ R]]; [congruence|]. destruct R as (R1 & _ & R2 & _). auto.
  Qed.

  Lemma success_pick s d i id u s' j c c' :
    pick s d = Ok (i, id, u, s') -> nth_error (conns s) j = Some c -> nth_error (conns s') j = Some c' ->
    success c' = success c /\ lag c' = lag c.
  Proof.
    intros E Hc Hn. destruct (pick_nth _ _ _ _ _ _ _ _ _ E Hn) as (c2 & Hc2 & Hcase).
    rewrite Hc in Hc2. inversion Hc2; subst c2. destruct Hcase as [[_ ->]|[_ ->]]; auto.
  Qed.
End Hist.

(* ------------------------------------------------------------------ latency estimate *)
Section Lag.
  Variable W : Type.
  Variable wzero : W.
  Variable fexpr : W -> Z -> Z -> Z.
  Variable fsqrt : Z -> Z.
  (* with weight 0 the float expression is float64(sample)*1 = sample  (old = 0: first completion) *)
  Hypothesis Hw0 : forall x, 0 <= x -> fexpr wzero 0 x = x.

  Notation gstep := (gstep W wzero fexpr fsqrt).
  Notation ewma := (ewma W fexpr).

  Definition inv_lag (sg : st * ghost) : Prop :=
    let (s, g) := sg in
    forall i c, nth_error (conns s) i = Some c ->
      within_samples (samples_at g i) (lag c) /\ (samples_at g i = [] -> lag c = 0).

  Lemma ewma_lag olag x l w :
    0 <= x -> within_samples l olag -> (l = [] -> olag = 0) ->
    within_samples (x :: l) (ewma olag x (if olag =? 0 then wzero else w)).
  Proof.
    intros Hx Hin Hnil _. destruct (olag =? 0) eqn:E.
    - apply Z.eqb_eq in E. subst olag. unfold Model.ewma. rewrite (Hw0 x Hx).
      replace (x <? Z.min 0 x) with false by lia. replace (x >? Z.max 0 x) with false by lia.
      split; exists x; split; try (left; reflexivity); lia.
    - apply Z.eqb_neq in E. assert (Hl : l <> []) by (intro; apply E; auto).
      destruct (Hin Hl) as ((x1 & I1 & L1) & (y1 & I2 & L2)).
      pose proof (ewma_between W fexpr olag x w) as B. split.
      + destruct (Z.le_gt_cases olag x); [exists x1|exists x]; split; try (right; assumption); try (left; reflexivity); lia.
      + destruct (Z.le_gt_cases olag x); [exists x|exists y1]; split; try (right; assumption); try (left; reflexivity); lia.
  Qed.

  Lemma samples_at_add_same L sm i x l :
    nth_error sm i = Some l -> samples_at (mkg L (add_sample i x sm)) i = x :: l.
  Proof.
    intro H. unfold samples_at, add_sample. cbn [g_samples]. rewrite H.
    rewrite nth_error_set_nth_eq by (eapply nth_error_lt; eauto). reflexivity.
  Qed.

  Lemma samples_at_add_other L L' sm i j x :
    i <> j -> samples_at (mkg L (add_sample i x sm)) j = samples_at (mkg L' sm) j.
  Proof.
    intro N. unfold samples_at, add_sample. cbn [g_samples]. destruct (nth_error sm i); [|reflexivity].
    rewrite nth_error_set_nth_neq by exact N. reflexivity.
  Qed.

  Lemma lag_step order sg o : wf order sg -> inv_lag sg -> inv_lag (gstep sg o).
  Proof.
    destruct sg as [s g]. intros (Hid & Htk & HL & Hsm) Hinv. destruct o as [d|k code w|dt]; cbn [Proofs.gstep].
    - destruct (pick fsqrt s d) as [[[[i id] u] s']| |] eqn:E; try exact Hinv.
      intros j c' Hn. destruct (pick_nth _ _ _ _ _ _ _ _ _ E Hn) as (c & Hc & [[-> ->]|[N ->]]);
        specialize (Hinv _ _ Hc); exact Hinv.
    - destruct (done W wzero fexpr s k code w) as [s'| |] eqn:E; try exact Hinv.
      destruct (nth_error (tokens s) k) as [tk|] eqn:Et; try exact Hinv.
      intros j c' Hn. destruct (done_nth _ _ _ _ _ _ _ _ _ _ E Hn) as (tk' & c & Ht & Hc & Hcase).
      rewrite Et in Ht. inversion Ht; subst tk'. clear Ht. specialize (Hinv _ _ Hc). destruct Hinv as (Hw & Hn0).
      destruct g as [L sm]. cbn [g_L g_samples] in *.
      destruct Hcase as [[-> R]|[N R]]; destruct R as (R & _); rewrite <- R.
      + assert (Hs : exists l, nth_error sm (t_conn tk) = Some l).
        { destruct (nth_error sm (t_conn tk)) eqn:F; [eauto|]. apply nth_error_None in F.
          apply nth_error_lt in Hc. lia. }
        destruct Hs as (l & Hs). rewrite (samples_at_add_same _ _ _ _ _ Hs).
        unfold samples_at in Hw, Hn0. cbn [g_samples] in Hw, Hn0. rewrite Hs in Hw, Hn0.
        cbn [Model.done_conn lag]. split; [|discriminate]. apply ewma_lag; auto. lia.
      + rewrite (samples_at_add_other _ L _ _ _ _ (not_eq_sym N)). auto.
    - exact Hinv.
  Qed.

  Lemma lag_build start order s0 : build start order = Some s0 -> inv_lag (s0, ghost0 (List.length order)).
  Proof.
    unfold build. intro H. assert (E : s0 = mkst start (map new_conn order) 0 []).
    { destruct order; [discriminate|]. inversion H. reflexivity. }
    subst s0. intros i c Hn. cbn [conns] in Hn. rewrite nth_error_map in Hn.
    destruct (nth_error order i) eqn:F; inversion Hn. cbn [new_conn lag].
    assert (S0 : samples_at (ghost0 (List.length order)) i = []).
    { unfold samples_at, ghost0. cbn [g_samples]. destruct (nth_error (repeat [] (List.length order)) i) eqn:G; [|reflexivity].
      apply nth_error_In, repeat_spec in G. exact G. }
    rewrite S0. split; [intro; congruence|reflexivity].
  Qed.
End Lag.

(* ------------------------------------------------------------------ failing backends *)
Section Fail.
  Variable W : Type.
  Variable wzero : W.
  Variable fexpr : W -> Z -> Z -> Z.
  Variable fsqrt : Z -> Z.
  (* lt1 w: "w < 1" (td > 0).  A failing completion (sample 0) with such a weight strictly lowers a positive
     score: the float expression is float64(old)*w + 0*(1-w), truncated. *)
  Variable lt1 : W -> Prop.
  Hypothesis Hdec : forall w o, lt1 w -> 0 < o -> fexpr w o 0 < o.
  Hypothesis Hlt0 : lt1 wzero.

  Notation done_conn := (done_conn W wzero fexpr).
  Notation op := (op W).
  Notation step := (step W wzero fexpr fsqrt).
  Notation run := (run W wzero fexpr fsqrt).

  Lemma fail_conn t start code w c :
    target_of code = 0 -> lt1 w -> 0 <= success c ->
    success (done_conn t start code w c) <= Z.max 0 (success c - 1).
  Proof.
    intros Ht Hw Hs. cbn [Model.done_conn success]. rewrite Ht.
    set (w' := if lag c =? 0 then wzero else w). assert (Hw' : lt1 w') by (subst w'; destruct (_ =? _); auto).
    unfold Model.ewma. destruct (Z.eq_dec (success c) 0) as [E|E].
    - rewrite E. cbn [Z.min Z.max]. destruct (_ <? _); [lia|]. destruct (_ >? _) eqn:G; lia.
    - pose proof (Hdec w' (success c) Hw' ltac:(lia)). destruct (_ <? _) eqn:F; [lia|]. destruct (_ >? _) eqn:G; lia.
  Qed.

  (* Some (code, w) when o is a call of a done func of connection i (that exists) *)
  Definition completes (s : st) (o : op) (i : nat) : option (option Z * W) :=
    match o with
    | Done _ k code w =>
        match nth_error (tokens s) k with
        | Some tk => if Nat.eqb (t_conn tk) i then Some (code, w) else None
        | None => None
        end
    | _ => None
    end.

  Lemma step_length s o : List.length (conns (step s o)) = List.length (conns s).
  Proof.
    destruct o as [d|k code w|dt]; cbn [Model.step].
    - destruct (pick fsqrt s d) as [[[[i id] u] s']| |] eqn:E; try reflexivity.
      apply pick_spec in E as (c & i1 & o2 & _ & _ & _ & -> & _). cbn [conns]. apply set_nth_length.
    - destruct (done W wzero fexpr s k code w) as [s'| |] eqn:E; try reflexivity.
      apply done_spec in E as (tk & c & _ & _ & ->).
      match goal with |- context [log_stats ?x] => destruct (log_stats_misc x) as (_ & _ & ->) end.
      cbn [conns]. apply set_nth_length.
    - reflexivity.
  Qed.

  Lemma step_success s o i c :
    nth_error (conns s) i = Some c ->
    exists c1, nth_error (conns (step s o)) i = Some c1 /\
      match completes s o i with
      | Some (code, w) => exists t start, success c1 = success (done_conn t start code w c)
      | None => success c1 = success c
      end.
  Proof.
    intro Hc. assert (Hex : exists c1, nth_error (conns (step s o)) i = Some c1).
    { destruct (nth_error (conns (step s o)) i) eqn:F; [eauto|]. apply nth_error_None in F.
      rewrite step_length in F. apply nth_error_lt in Hc. lia. }
    destruct Hex as (c1 & Hn). exists c1. split; [exact Hn|].
    destruct o as [d|k code w|dt]; cbn [Model.step completes] in *.
    - destruct (pick fsqrt s d) as [[[[i0 id] u] s']| |] eqn:E; try congruence.
      destruct (pick_nth _ _ _ _ _ _ _ _ _ E Hn) as (c2 & Hc2 & Hcase). rewrite Hc in Hc2. inversion Hc2; subst c2.
      destruct Hcase as [[_ ->]|[_ ->]]; reflexivity.
    - destruct (done W wzero fexpr s k code w) as [s'| |] eqn:E.
      + destruct (done_nth _ _ _ _ _ _ _ _ _ _ E Hn) as (tk & c2 & Ht & Hc2 & Hcase). rewrite Hc in Hc2. inversion Hc2; subst c2.
        rewrite Ht. destruct Hcase as [[-> R]|[N R]]; destruct R as (_ & _ & R & _).
        * rewrite Nat.eqb_refl. eauto.
        * destruct (Nat.eqb_spec (t_conn tk) i); [congruence|]. congruence.
      + unfold Model.done in E. destruct (nth_error (tokens s) k) as [tk|]; [|congruence].
        destruct (nth_error (conns s) (t_conn tk)) eqn:F; [discriminate|discriminate].
      + unfold Model.done in E. destruct (nth_error (tokens s) k) as [tk|]; [|congruence].
        destruct (Nat.eqb_spec (t_conn tk) i) as [Heq|_]; [|congruence]. rewrite Heq, Hc in E. discriminate.
    - cbn [advance conns] in Hn. congruence.
  Qed.

  (* every completion of connection i in the history is unacceptable and has weight < 1 *)
  Fixpoint fails_only (i : nat) (s : st) (ops : list op) : Prop :=
    match ops with
    | [] => True
    | o :: r => match completes s o i with Some (code, w) => target_of code = 0 /\ lt1 w | None => True end /\
                fails_only i (step s o) r
    end.
  (* the number of completions of connection i in the history *)
  Fixpoint ncompl (i : nat) (s : st) (ops : list op) : Z :=
    match ops with
    | [] => 0
    | o :: r => (match completes s o i with Some _ => 1 | None => 0 end) + ncompl i (step s o) r
    end.

  Lemma ncompl_nonneg i ops : forall s, 0 <= ncompl i s ops.
  Proof. induction ops as [|o r IH]; intro s; cbn [ncompl]; [lia|]. specialize (IH (step s o)). destruct (completes s o i); lia. Qed.

  Lemma all_fail i ops : forall s c c',
    inv_score s -> nth_error (conns s) i = Some c -> fails_only i s ops ->
    nth_error (conns (run s ops)) i = Some c' ->
    success c' <= Z.max 0 (success c - ncompl i s ops).
  Proof.
    induction ops as [|o r IH]; intros s c c' Hinv Hc Hf Hn.
    - cbn in Hn. rewrite Hc in Hn. inversion Hn; subst. cbn [ncompl]. lia.
    - cbn [fails_only] in Hf. destruct Hf as (Hf1 & Hf2). unfold Model.run in Hn. cbn [fold_left] in Hn.
      destruct (step_success s o i c Hc) as (c1 & Hc1 & Hs).
      assert (Hinv1 : inv_score (step s o)) by (apply score_step; exact Hinv).
      specialize (IH (step s o) c1 c' Hinv1 Hc1 Hf2 Hn). cbn [ncompl].
      pose proof (ncompl_nonneg i r (step s o)) as Hnn.
      destruct (completes s o i) as [[code w]|].
      + destruct Hs as (t & start & Hs). destruct Hf1 as (Ht & Hw).
        pose proof (fail_conn t start code w c Ht Hw) as F. specialize (Hinv _ _ Hc). unfold score_ok in Hinv.
        rewrite <- Hs in F. lia.
      + lia.
  Qed.
End Fail.

(* ------------------------------------------------------------------ force pick, two connections *)
Section Force.
  Variable fsqrt : Z -> Z.
  Notation pick := (pick fsqrt).

  Lemma force_pick s d c0 c1 i id u s' :
    conns s = [c0; c1] -> pick s d = Ok (i, id, u, s') ->
    (now s - pickt c1 > forcePick -> now s - pickt c0 <= forcePick -> i = 1%nat) /\
    (now s - pickt c0 > forcePick -> now s - pickt c1 <= forcePick -> i = 0%nat) /\
    (i = 0%nat \/ i = 1%nat).
  Proof.
    intros Hcs E. apply pick_spec in E as (c & i1 & o2 & Hch & _ & _ & _ & Hshape).
    rewrite Hcs in *. cbn [List.length] in Hshape.
    destruct Hshape as [(F & _)|[(_ & -> & ->)|(F & _)]]; try lia.
    unfold choose in Hch. cbn [nth_error] in Hch.
    destruct (load fsqrt c0 >? load fsqrt c1);
      match type of Hch with context [if ?b then _ else _] => destruct b eqn:G end;
      inversion Hch; lia.
  Qed.

  Definition all_fresh (s : st) : Prop := forall c, In c (conns s) -> now s - pickt c <= forcePick.
  Definition some_fresh (s : st) : Prop := exists c, In c (conns s) /\ now s - pickt c <= forcePick.

  Definition some_freshb (s : st) : bool := existsb (fun c => now s - pickt c <=? forcePick) (conns s).
  Lemma some_freshb_sound s : some_freshb s = true -> some_fresh s.
  Proof.
    unfold some_freshb, some_fresh. intro H. apply existsb_exists in H as (c & Hin & Hc). exists c. split; [exact Hin|lia].
  Qed.

  Lemma two_conn_step s d i id u s' :
    List.length (conns s) = 2%nat -> some_fresh s -> pick s d = Ok (i, id, u, s') -> all_fresh s'.
  Proof.
    intros Hlen (cf & Hin & Hfresh) E.
    destruct (conns s) as [|c0 [|c1 [|c2 r]]] eqn:Hcs; try discriminate. clear Hlen.
    destruct (force_pick s d c0 c1 i id u s' Hcs E) as (F1 & F0 & Hi).
    apply pick_spec in E as (c & i1 & o2 & _ & Hc & _ & -> & _). rewrite Hcs in *.
    intros c' Hin'. cbn [conns now] in *. unfold forcePick in *.
    destruct Hi as [-> | ->]; cbn [nth_error] in Hc; inversion Hc; subst c; cbn in Hin'.
    - destruct Hin' as [<-|[<-|[]]]; cbn; [lia|].
      destruct (Z_le_gt_dec (now s - pickt c1) 1000000000) as [|G]; [assumption|].
      destruct Hin as [<-|[<-|[]]]; [|lia]. specialize (F1 G Hfresh). discriminate.
    - destruct Hin' as [<-|[<-|[]]]; cbn; [|lia].
      destruct (Z_le_gt_dec (now s - pickt c0) 1000000000) as [|G]; [assumption|].
      destruct Hin as [<-|[<-|[]]]; [lia|]. specialize (F0 G Hfresh). discriminate.
  Qed.
  (* >= 3 connections: if one of the (at most pickTimes) drawn pairs is all-healthy, the chosen connection
     is healthy -- an unhealthy connection is not chosen *)
  Lemma unhealthy_avoided s d i id u s' :
    (3 <= List.length (conns s))%nat -> pick s d = Ok (i, id, u, s') ->
    (exists k a b0, (k < pickTimes)%nat /\ nth_error d k = Some (a, b0) /\ both_healthy (conns s) a (adj a b0)) ->
    exists c, nth_error (conns s) i = Some c /\ healthy c = true.
  Proof.
    intros Hlen E Hex. apply pick_spec in E as (c & i1 & o2 & Hch & Hc & _ & _ & Hshape).
    destruct Hshape as [(F & _)|[(F & _)|(_ & j & -> & Hdl)]]; try lia.
    destruct (draw_loop_healthy fsqrt _ _ _ _ _ _ _ _ Hdl Hex) as (n1 & n2 & H1 & H2 & G1 & G2).
    apply choose_spec in Hch as (c' & Hc' & _ & [->| Hj]).
    - exists n1. auto.
    - inversion Hj; subst. exists n2. auto.
  Qed.
End Force.

(* ------------------------------------------------------------------ theorems over histories *)
Section Main.
  Variable W : Type.
  Variable wzero : W.
  Variable fexpr : W -> Z -> Z -> Z.
  Variable fsqrt : Z -> Z.

  Notation pick := (pick fsqrt).
  Notation op := (op W).
  Notation step := (step W wzero fexpr fsqrt).
  Notation run := (run W wzero fexpr fsqrt).
  Notation grun := (grun W wzero fexpr fsqrt).
  Notation gstep := (gstep W wzero fexpr fsqrt).

  (* the ledger of a history *)
  Definition ledger (s0 : st) (ops : list op) : ghost := snd (grun (s0, ghost0 (List.length (conns s0))) ops).

  Lemma build_length start order s0 : build start order = Some s0 -> List.length (conns s0) = List.length order.
  Proof.
    unfold build. intro H. assert (E : s0 = mkst start (map new_conn order) 0 []).
    { destruct order; [discriminate|]. inversion H. reflexivity. }
    subst. cbn. apply map_length.
  Qed.

  Lemma wf_run start order s0 ops :
    build start order = Some s0 -> wf order (grun (s0, ghost0 (List.length (conns s0))) ops).
  Proof.
    intro H. apply grun_inv; [intros; apply wf_step; assumption|].
    rewrite (build_length _ _ _ H). eapply wf_build; eauto.
  Qed.

  Lemma run_grun s0 ops g : run s0 ops = fst (grun (s0, g) ops).
  Proof. rewrite grun_fst. reflexivity. Qed.

  (* every pick returns one of the ready connections *)
  Lemma pick_is_ready start order s0 ops d i id u s' :
    build start order = Some s0 -> pick (run s0 ops) d = Ok (i, id, u, s') ->
    nth_error order i = Some id /\ In id order.
  Proof.
    intros Hb E. pose proof (wf_run _ _ _ ops Hb) as Hwf.
    rewrite (run_grun s0 ops (ghost0 (List.length (conns s0)))) in E.
    destruct (grun _ ops) as [s g]. cbn [fst] in E. destruct Hwf as (Hid & _).
    apply pick_spec in E as (c & _ & _ & _ & Hc & -> & _).
    assert (H : nth_error order i = Some (scid c)) by (rewrite <- Hid, nth_error_map, Hc; reflexivity).
    split; [exact H|]. eapply nth_error_In; eauto.
  Qed.

  (* in-flight = picks - completions, for every history *)
  Lemma inflight_run start order s0 ops i c :
    build start order = Some s0 -> nth_error (conns (run s0 ops)) i = Some c ->
    inflight_ok (g_L (ledger s0 ops)) i (inflight c) /\
    (at_most_once (g_L (ledger s0 ops)) -> 0 <= inflight c).
  Proof.
    intros Hb Hn. unfold ledger. rewrite (run_grun s0 ops (ghost0 (List.length (conns s0)))) in Hn.
    assert (Hinv : wf order (grun (s0, ghost0 (List.length (conns s0))) ops) /\
                   inv_inflight (grun (s0, ghost0 (List.length (conns s0))) ops)).
    { apply (grun_inv W wzero fexpr fsqrt (fun sg => wf order sg /\ inv_inflight sg)).
      - intros sg o (H1 & H2). split; [apply wf_step; assumption|eapply inflight_step; eauto].
      - split; [rewrite (build_length _ _ _ Hb); eapply wf_build; eauto|].
        intros j c0 Hc0. unfold inflight_ok, ghost0, picks_of, completions_of, of_conn. cbn.
        assert (E : s0 = mkst start (map new_conn order) 0 []).
        { unfold build in Hb. destruct order; [discriminate|]. inversion Hb. reflexivity. }
        subst s0. cbn [conns] in Hc0.
        rewrite nth_error_map in Hc0. destruct (nth_error order j); inversion Hc0. reflexivity. }
    destruct Hinv as (_ & Hinv). destruct (grun _ ops) as [s g]. cbn [fst snd] in *.
    specialize (Hinv _ _ Hn). split; [exact Hinv|]. intro Ham. unfold inflight_ok in Hinv.
    pose proof (completions_le_picks (g_L g) i Ham). lia.
  Qed.

  Lemma score_range start order s0 ops i c :
    build start order = Some s0 -> nth_error (conns (run s0 ops)) i = Some c -> score_ok (success c).
  Proof. intros Hb Hn. eapply (score_run W wzero fexpr fsqrt); eauto. eapply score_build; eauto. Qed.

  Lemma lag_run start order s0 ops i c :
    (forall x, 0 <= x -> fexpr wzero 0 x = x) ->
    build start order = Some s0 -> nth_error (conns (run s0 ops)) i = Some c ->
    within_samples (samples_at (ledger s0 ops) i) (lag c).
  Proof.
    intros Hw0 Hb Hn. unfold ledger. rewrite (run_grun s0 ops (ghost0 (List.length (conns s0)))) in Hn.
    assert (Hinv : wf order (grun (s0, ghost0 (List.length (conns s0))) ops) /\
                   inv_lag (grun (s0, ghost0 (List.length (conns s0))) ops)).
    { apply (grun_inv W wzero fexpr fsqrt (fun sg => wf order sg /\ inv_lag sg)).
      - intros sg o (H1 & H2). split; [apply wf_step; assumption|eapply lag_step; eauto].
      - split; rewrite (build_length _ _ _ Hb); [eapply wf_build; eauto|eapply lag_build; eauto]. }
    destruct Hinv as (_ & Hinv). destruct (grun _ ops) as [s g]. cbn [fst snd] in *.
    apply (Hinv _ _ Hn).
  Qed.

  (* sustained traffic over two connections: every Pick happens while some connection was picked at most
     forcePick ago; then after every Pick every connection has been picked within the last forcePick *)
  Fixpoint sustained (s : st) (ops : list op) : Prop :=
    match ops with
    | [] => True
    | o :: r => (match o with Pick _ _ => some_fresh s | _ => True end) /\ sustained (step s o) r
    end.
  Fixpoint fresh_after_picks (s : st) (ops : list op) : Prop :=
    match ops with
    | [] => True
    | o :: r => (match o with
                 | Pick _ d => match pick s d with Ok _ => all_fresh (step s o) | _ => True end
                 | _ => True
                 end) /\ fresh_after_picks (step s o) r
    end.

  Lemma two_conn_history ops : forall s,
    List.length (conns s) = 2%nat -> sustained s ops -> fresh_after_picks s ops.
  Proof.
    induction ops as [|o r IH]; intros s Hlen Hs; [exact I|]. cbn [sustained fresh_after_picks] in *.
    destruct Hs as (H1 & H2). split.
    - destruct o as [d|k code w|dt]; try exact I. cbn [Model.step].
      destruct (pick s d) as [[[[i id] u] s']| |] eqn:E; try exact I.
      eapply two_conn_step; eauto.
    - apply IH; [|exact H2]. rewrite (step_length W wzero fexpr fsqrt). exact Hlen.
  Qed.
End Main.

(* ------------------------------------------------------------------ the exact-arithmetic instance *)
From Coq Require Import QArith.
Local Open Scope Z_scope.

(* floor (old*w + sample*(1-w)) for the rational w = Qnum w / Qden w: what uint64() of the float
   expression is when the float operations are exact *)
Definition fexprQ (w : Q) (old sample : Z) : Z :=
  (old * Qnum w + sample * (Zpos (Qden w) - Qnum w)) / Zpos (Qden w).

Definition w_lt1 (w : Q) : Prop := 0 <= Qnum w < Zpos (Qden w).          (* 0 <= w < 1 *)
Definition w_le (w : Q) (num den : Z) : Prop := 0 <= Qnum w /\ Qnum w * den <= num * Zpos (Qden w). (* 0 <= w <= num/den *)

Lemma fexprQ_w0 x : 0 <= x -> fexprQ 0%Q 0 x = x.
Proof. intros _. unfold fexprQ. cbn [Qnum Qden]. rewrite Z.div_1_r. lia. Qed.

Lemma fexprQ_dec w o : w_lt1 w -> 0 < o -> fexprQ w o 0 < o.
Proof.
  unfold w_lt1, fexprQ. intros (H0 & H1) Ho. apply Z.div_lt_upper_bound; [lia|]. nia.
Qed.

Lemma w_lt1_0 : w_lt1 0%Q.
Proof. unfold w_lt1. cbn. lia. Qed.

(* quantitative decay: w <= num/den  ==>  the raw value is at most old*num/den *)
Lemma fexprQ_le w o num den : 0 < den -> w_le w num den -> 0 <= o -> fexprQ w o 0 * den <= o * num.
Proof.
  unfold w_le, fexprQ. intros Hd (H0 & H1) Ho. set (d := Zpos (Qden w)) in *. assert (Hdp : 0 < d) by (subst d; lia).
  replace (o * Qnum w + 0 * (d - Qnum w)) with (o * Qnum w) by lia.
  pose proof (Z.mul_div_le (o * Qnum w) d Hdp) as M. set (q := o * Qnum w / d) in *.
  assert (q * den * d <= o * num * d) by nia. nia.
Qed.

(* one failing completion with w <= num/den scales the score by num/den (clamped ewma) *)
Lemma fail_conn_scale t start code w c num den :
  0 < den -> 0 <= num -> target_of code = 0 -> w_le w num den -> 0 <= success c ->
  success (done_conn Q 0%Q fexprQ t start code w c) * den <= success c * num.
Proof.
  intros Hd Hn Ht Hw Hs. cbn [done_conn success]. rewrite Ht.
  set (w' := if lag c =? 0 then 0%Q else w).
  assert (Hw' : w_le w' num den).
  { subst w'. destruct (_ =? _); [|exact Hw]. unfold w_le. cbn. lia. }
  pose proof (fexprQ_le w' (success c) num den Hd Hw' Hs) as F.
  assert (G : 0 <= fexprQ w' (success c) 0).
  { unfold fexprQ. destruct Hw' as (A & _). apply Z.div_pos; [nia|lia]. }
  unfold ewma. replace (Z.min (success c) 0) with 0 by lia. replace (Z.max (success c) 0) with (success c) by lia.
  destruct (_ <? _) eqn:E1; [lia|]. destruct (_ >? _) eqn:E2; [|exact F]. nia.
Qed.

(* ------------------------------------------------------------------ Pick never panics *)
Section Total.
  Variable fsqrt : Z -> Z.

  Definition draw_ok (n : nat) (p : Z * Z) : Prop :=
    0 <= fst p < Z.of_nat n /\ 0 <= snd p < Z.of_nat n - 1.     (* Intn(n), Intn(n-1) *)

  Lemma choose_total t cs i1 o2 :
    (i1 < List.length cs)%nat -> (forall i2, o2 = Some i2 -> (i2 < List.length cs)%nat) ->
    exists i cs', choose fsqrt t cs i1 o2 = Ok (i, cs').
  Proof.
    intros H1 H2. unfold choose. destruct (nth_error cs i1) as [c1|] eqn:E1; [|apply nth_error_None in E1; lia].
    destruct o2 as [i2|]; [|eauto]. specialize (H2 i2 eq_refl).
    destruct (nth_error cs i2) as [c2|] eqn:E2; [|apply nth_error_None in E2; lia].
    destruct (load fsqrt c1 >? load fsqrt c2); match goal with |- context [if ?b then _ else _] => destruct b end; eauto.
  Qed.

  Lemma draw_loop_total cs fuel : forall draws cur used,
    (fuel <= List.length draws)%nat -> Forall (draw_ok (List.length cs)) (firstn fuel draws) ->
    (fuel = 0%nat -> cur <> None) ->
    exists r, draw_loop cs fuel draws cur used = Ok r.
  Proof.
    induction fuel as [|f IH]; intros draws cur used Hlen Hok Hcur; cbn [draw_loop].
    - destruct cur as [[a b]|]; [eauto|]. exfalso. apply Hcur; reflexivity.
    - destruct draws as [|[a b0] rest]; [cbn in Hlen; lia|]. cbn [firstn] in Hok. inversion Hok as [|x l Hd Hrest]; subst.
      destruct Hd as (Ha & Hb). cbn [fst snd] in Ha, Hb. fold (adj a b0).
      assert (Hadj : 0 <= adj a b0 < Z.of_nat (List.length cs)) by (unfold adj; destruct (b0 >=? a) eqn:G; lia).
      replace ((a <? 0) || (adj a b0 <? 0)) with false by (symmetry; apply orb_false_iff; split; lia).
      destruct (nth_error cs (Z.to_nat a)) as [n1|] eqn:E1; [|apply nth_error_None in E1; lia].
      destruct (nth_error cs (Z.to_nat (adj a b0))) as [n2|] eqn:E2; [|apply nth_error_None in E2; lia].
      destruct (healthy n1 && healthy n2); [eauto|]. apply IH; [cbn in Hlen; lia|exact Hrest|discriminate].
  Qed.

  (* with at least one connection and draws as Intn produces them, Pick returns a connection *)
  Lemma pick_total s d :
    conns s <> [] ->
    ((3 <= List.length (conns s))%nat ->
     (pickTimes <= List.length d)%nat /\ Forall (draw_ok (List.length (conns s))) (firstn pickTimes d)) ->
    exists i id u s', pick fsqrt s d = Ok (i, id, u, s').
  Proof.
    intros Hne Hd. unfold pick.
    set (chosen := match conns s with [] => _ | _ => _ end).
    assert (Hc : exists i cs' u, chosen = Ok ((i, cs'), u) /\ List.length cs' = List.length (conns s) /\ (i < List.length (conns s))%nat).
    { assert (G : forall i1 o2, (i1 < List.length (conns s))%nat ->
                (forall i2, o2 = Some i2 -> (i2 < List.length (conns s))%nat) ->
                exists i cs', choose fsqrt (now s) (conns s) i1 o2 = Ok (i, cs') /\
                              List.length cs' = List.length (conns s) /\ (i < List.length (conns s))%nat).
      { intros i1 o2 H1 H2. destruct (choose_total (now s) (conns s) i1 o2 H1 H2) as (i & cs' & E).
        exists i, cs'. split; [exact E|]. apply choose_spec in E as (c & Hc & -> & _).
        rewrite set_nth_length. split; [reflexivity|]. eapply nth_error_lt; eauto. }
      subst chosen. destruct (conns s) as [|c0 [|c1 [|c2 r]]] eqn:Ecs; [congruence| | |].
      - destruct (G 0%nat None) as (i & cs' & E & L1 & L2); [cbn; lia|discriminate|]. rewrite E. eauto 6.
      - destruct (G 0%nat (Some 1%nat)) as (i & cs' & E & L1 & L2); [cbn; lia|intros ? H; inversion H; cbn; lia|].
        rewrite E. eauto 6.
      - destruct Hd as (Hl & Hok); [cbn; lia|].
        destruct (draw_loop_total (c0 :: c1 :: c2 :: r) pickTimes d None 0 Hl Hok) as ([[a b] u] & E); [discriminate|].
        rewrite E. destruct (draw_loop_in _ _ _ _ _ _ _ _ E) as (La & Lb); [discriminate|].
        destruct (G a (Some b) La) as (i & cs' & E2 & L1 & L2); [intros ? H; inversion H; subst; exact Lb|].
        rewrite E2. eauto 6. }
    destruct Hc as (i & cs' & u & -> & L1 & L2).
    destruct (nth_error cs' i) as [c|] eqn:E; [eauto 6|]. apply nth_error_None in E. lia.
  Qed.
End Total.

(* ------------------------------------------------------------------ interleaved done funcs *)
(* The done func is not atomic in the Go code: it is a sequence of atomic operations on its connection
   (p2c.go:138-160), and several done funcs and Picks of the same connection may interleave (lost updates
   of lag / success are possible).  One connection, any number of concurrent done funcs, every schedule;
   the raw value v of the float expression is an arbitrary input of each store. *)
Definition clampv (old sample v : Z) : Z :=
  let lo := Z.min old sample in let hi := Z.max old sample in
  if v <? lo then lo else if v >? hi then hi else v.

Lemma ewma_clampv W fexpr old sample w : ewma W fexpr old sample w = clampv old sample (fexpr w old sample).
Proof. reflexivity. Qed.

Record thread := mkth { th_pc : nat; th_olag : Z; th_osucc : Z }.
Record cst := mkc { k_inflight : Z; k_lag : Z; k_success : Z; k_threads : list thread }.

Inductive lbl :=
| LPick                                  (* a Pick chose this connection: atomic.AddInt64(&inflight, 1) *)
| LBegin                                 (* a done func starts: atomic.AddInt64(&inflight, -1); Swap(&last) *)
| LLoadLag (t : nat)                     (* olag := atomic.LoadUint64(&c.lag) *)
| LStoreLag (t : nat) (sample v : Z)     (* atomic.StoreUint64(&c.lag, ewma(olag, sample, w)) *)
| LLoadSucc (t : nat)                    (* oSuccess := atomic.LoadUint64(&c.success) *)
| LStoreSucc (t : nat) (target v : Z).   (* atomic.StoreUint64(&c.success, ewma(oSuccess, target, w)) *)

Definition with_thread (s : cst) (t pc : nat) (f : thread -> cst) : option cst :=
  match nth_error (k_threads s) t with
  | Some th => if Nat.eqb (th_pc th) pc then Some (f th) else None      (* not this thread's turn: blocked *)
  | None => None
  end.

Definition cstep (s : cst) (l : lbl) : option cst :=
  match l with
  | LPick => Some (mkc (k_inflight s + 1) (k_lag s) (k_success s) (k_threads s))
  | LBegin => Some (mkc (k_inflight s - 1) (k_lag s) (k_success s) (k_threads s ++ [mkth 0 0 0]))
  | LLoadLag t => with_thread s t 0 (fun th =>
      mkc (k_inflight s) (k_lag s) (k_success s) (set_nth t (mkth 1 (k_lag s) (th_osucc th)) (k_threads s)))
  | LStoreLag t sample v => with_thread s t 1 (fun th =>
      mkc (k_inflight s) (clampv (th_olag th) sample v) (k_success s) (set_nth t (mkth 2 (th_olag th) (th_osucc th)) (k_threads s)))
  | LLoadSucc t => with_thread s t 2 (fun th =>
      mkc (k_inflight s) (k_lag s) (k_success s) (set_nth t (mkth 3 (th_olag th) (k_success s)) (k_threads s)))
  | LStoreSucc t target v => with_thread s t 3 (fun th =>
      mkc (k_inflight s) (k_lag s) (clampv (th_osucc th) target v) (set_nth t (mkth 4 (th_olag th) (th_osucc th)) (k_threads s)))
  end.

Fixpoint crun (s : cst) (sched : list lbl) : option cst :=
  match sched with
  | [] => Some s
  | l :: r => match cstep s l with Some s' => crun s' r | None => None end
  end.

Definition cinit : cst := mkc 0 0 initSuccess [].

Fixpoint count_pick (sched : list lbl) : Z :=
  match sched with [] => 0 | LPick :: r => 1 + count_pick r | _ :: r => count_pick r end.
Fixpoint count_begin (sched : list lbl) : Z :=
  match sched with [] => 0 | LBegin :: r => 1 + count_begin r | _ :: r => count_begin r end.
Definition targets_ok (sched : list lbl) : Prop :=
  forall t target v, In (LStoreSucc t target v) sched -> 0 <= target <= 1000.

Lemma conc_inflight sched : forall s s',
  crun s sched = Some s' -> k_inflight s' = k_inflight s + count_pick sched - count_begin sched.
Proof.
  induction sched as [|l r IH]; intros s s' H; cbn [crun] in H.
  - inversion H; subst. cbn. lia.
  - destruct (cstep s l) as [s1|] eqn:E; [|discriminate]. specialize (IH _ _ H). rewrite IH.
    destruct l; cbn [cstep] in E; unfold with_thread in E;
      try (destruct (nth_error (k_threads s) t) as [th|]; [|discriminate]; destruct (Nat.eqb (th_pc th) _); [|discriminate]);
      inversion E; subst; cbn [k_inflight count_pick count_begin]; lia.
Qed.

Lemma clampv_between old sample v : Z.min old sample <= clampv old sample v <= Z.max old sample.
Proof. unfold clampv. destruct (_ <? _) eqn:E1; [lia|]. destruct (_ >? _) eqn:E2; lia. Qed.

Definition cinv (s : cst) : Prop :=
  0 <= k_success s <= 1000 /\ Forall (fun th => 0 <= th_osucc th <= 1000) (k_threads s).

Lemma Forall_set_nth {A} (P : A -> Prop) i x l : Forall P l -> P x -> Forall P (set_nth i x l).
Proof.
  intros Hl Hx. revert i. induction Hl as [|a l Ha Hl IH]; intro i.
  - rewrite set_nth_nil. constructor.
  - destruct i; [constructor; assumption|]. rewrite set_nth_S. constructor; auto.
Qed.

Lemma conc_score sched : forall s s',
  targets_ok sched -> cinv s -> crun s sched = Some s' -> cinv s'.
Proof.
  induction sched as [|l r IH]; intros s s' Ht Hi H; cbn [crun] in H.
  - inversion H; subst; exact Hi.
  - destruct (cstep s l) as [s1|] eqn:E; [|discriminate].
    apply (IH s1 s'); [intros t tg v Hin; apply (Ht t tg v); right; exact Hin| |exact H].
    destruct Hi as (Hs & Hth).
    destruct l; cbn [cstep] in E; unfold with_thread in E;
      try (destruct (nth_error (k_threads s) t) as [th|] eqn:En; [|discriminate]; destruct (Nat.eqb (th_pc th) _); [|discriminate]);
      inversion E; subst; unfold cinv; cbn [k_success k_threads].
    + split; assumption.
    + split; [assumption|]. apply Forall_app. split; [assumption|]. constructor; [cbn; lia|constructor].
    + assert (Hin : 0 <= th_osucc th <= 1000) by (rewrite Forall_forall in Hth; apply Hth; eapply nth_error_In; eauto).
      split; [assumption|]. apply Forall_set_nth; assumption.
    + assert (Hin : 0 <= th_osucc th <= 1000) by (rewrite Forall_forall in Hth; apply Hth; eapply nth_error_In; eauto).
      split; [assumption|]. apply Forall_set_nth; assumption.
    + split; [assumption|]. apply Forall_set_nth; [assumption|cbn; lia].
    + assert (Hin : 0 <= th_osucc th <= 1000) by (rewrite Forall_forall in Hth; apply Hth; eapply nth_error_In; eauto).
      assert (Htg : 0 <= target <= 1000) by (apply (Ht t target v); left; reflexivity).
      pose proof (clampv_between (th_osucc th) target v). split; [lia|]. apply Forall_set_nth; assumption.
Qed.

Lemma cinv_init : cinv cinit.
Proof. unfold cinv, cinit, initSuccess. cbn. split; [lia|constructor]. Qed.

(* ------------------------------------------------------------------ "each done func is called at most once" *)
Definition calls_at (L : list entry) (k : nat) : Z :=
  match nth_error L k with Some e => e_calls e | None => 0 end.

Lemma calls_at_upd k0 L k : calls_at (upd_calls k0 L) k <= calls_at L k + (if Nat.eqb k0 k then 1 else 0).
Proof.
  unfold calls_at. revert k0 k. induction L as [|e r IH]; intros k0 k.
  - destruct k0, k; cbn; try lia. destruct (Nat.eqb k0 k); lia.
  - destruct k0, k; cbn [upd_calls nth_error Nat.eqb].
    + cbn; lia.
    + destruct (nth_error r k); lia.
    + lia.
    + apply IH.
Qed.

Lemma calls_at_app L e k : e_calls e = 0 -> calls_at (L ++ [e]) k = calls_at L k.
Proof.
  intro H. unfold calls_at. destruct (Nat.lt_ge_cases k (List.length L)) as [Hl|Hl].
  - rewrite nth_error_app1 by exact Hl. reflexivity.
  - rewrite nth_error_app2 by exact Hl. assert (E : nth_error L k = None) by (apply nth_error_None; exact Hl). rewrite E.
    destruct (k - List.length L)%nat as [|m]; cbn; [exact H|]. destruct m; reflexivity.
Qed.

Section Once.
  Variable W : Type.
  Variable wzero : W.
  Variable fexpr : W -> Z -> Z -> Z.
  Variable fsqrt : Z -> Z.
  Notation op := (op W).

  (* how often the history calls the k-th done func *)
  Fixpoint done_calls_of (k : nat) (ops : list op) : Z :=
    match ops with
    | [] => 0
    | Done _ k' _ _ :: r => (if Nat.eqb k' k then 1 else 0) + done_calls_of k r
    | _ :: r => done_calls_of k r
    end.

  Lemma done_calls_nonneg k ops : 0 <= done_calls_of k ops.
  Proof. induction ops as [|o r IH]; cbn [done_calls_of]; [lia|]. destruct o; try assumption. destruct (Nat.eqb _ _); lia. Qed.

  Lemma once_run ops : forall sg,
    (forall k, calls_at (g_L (snd sg)) k + done_calls_of k ops <= 1) ->
    forall k, calls_at (g_L (snd (grun W wzero fexpr fsqrt sg ops))) k <= 1.
  Proof.
    induction ops as [|o r IH]; intros [s g] H k.
    - specialize (H k). cbn in *. lia.
    - unfold grun. cbn [fold_left]. apply IH. clear IH k. intro k. specialize (H k). cbn [snd] in H.
      destruct o as [d|k0 code w|dt]; cbn [gstep done_calls_of] in *.
      + destruct (pick fsqrt s d) as [[[[i id] u] s']| |]; cbn [snd g_L]; try exact H.
        rewrite calls_at_app by reflexivity. exact H.
      + pose proof (done_calls_nonneg k r).
        destruct (done W wzero fexpr s k0 code w) as [s'| |]; cbn [snd g_L]; try (destruct (Nat.eqb k0 k); lia).
        destruct (nth_error (tokens s) k0); cbn [snd g_L]; try (destruct (Nat.eqb k0 k); lia).
        pose proof (calls_at_upd k0 (g_L g) k). destruct (Nat.eqb k0 k); lia.
      + exact H.
  Qed.

  (* a history that calls no done func twice yields an at-most-once ledger *)
  Lemma once_ledger s0 ops :
    (forall k, done_calls_of k ops <= 1) -> at_most_once (g_L (ledger W wzero fexpr fsqrt s0 ops)).
  Proof.
    intros H e Hin. apply In_nth_error in Hin as (k & Hk). unfold ledger in *.
    pose proof (once_run ops (s0, ghost0 (List.length (conns s0)))) as R.
    assert (R0 : forall k0, calls_at (g_L (snd (s0, ghost0 (List.length (conns s0))))) k0 + done_calls_of k0 ops <= 1).
    { intro k0. unfold calls_at. cbn [snd ghost0 g_L]. destruct k0; cbn [nth_error]; apply H. }
    specialize (R R0 k). unfold calls_at in R. rewrite Hk in R. exact R.
  Qed.
End Once.

(* ------------------------------------------------------------------ every ready SubConn is tracked; pair force pick *)
Section Tracked.
  Variable W : Type.
  Variable wzero : W.
  Variable fexpr : W -> Z -> Z -> Z.
  Variable fsqrt : Z -> Z.

  (* Build makes one connection per ENTRY of the ReadySCs map, whatever Addresses the entries carry (shared
     Addr, different ServerName/Attributes, exact duplicates), and no history ever loses one. *)
  Lemma tracks_all_ready start (ready : ready_set) order s0 ops id :
    build_ready start ready order = Some s0 ->
    (forall x, In x (map fst ready) -> In x order) ->
    In id (map fst ready) ->
    List.length (conns (run W wzero fexpr fsqrt s0 ops)) = List.length order /\
    exists pos c, nth_error (conns (run W wzero fexpr fsqrt s0 ops)) pos = Some c /\ scid c = id /\
                  nth_error order pos = Some id.
  Proof.
    unfold build_ready. intros Hb Hperm Hin. pose proof (wf_run W wzero fexpr fsqrt _ _ _ ops Hb) as Hwf.
    rewrite (run_grun W wzero fexpr fsqrt s0 ops (ghost0 (List.length (conns s0)))).
    destruct (grun _ _ _ _ _ ops) as [s g]. cbn [fst]. destruct Hwf as (Hid & _).
    split; [rewrite <- Hid; rewrite map_length; reflexivity|].
    apply Hperm in Hin. apply In_nth_error in Hin as (pos & Hpos). exists pos.
    rewrite <- Hid in Hpos. rewrite nth_error_map in Hpos.
    destruct (nth_error (conns s) pos) as [c|] eqn:E; [|discriminate]. cbn in Hpos. inversion Hpos as [H1].
    exists c. repeat split; auto. rewrite <- Hid, nth_error_map, E. cbn. congruence.
  Qed.

  (* the Addresses recorded are those of the SubConns, position by position *)
  Lemma conn_addrs_spec (ready : ready_set) order pos id :
    nth_error order pos = Some id -> nth_error (conn_addrs ready order) pos = Some (alookup Nat.eqb id ready).
  Proof. intro H. unfold conn_addrs. rewrite nth_error_map, H. reflexivity. Qed.
End Tracked.

Section PairForce.
  Variable fsqrt : Z -> Z.

  Lemma choose_force t cs i1 i2 c1 c2 i cs' :
    nth_error cs i1 = Some c1 -> nth_error cs i2 = Some c2 ->
    choose fsqrt t cs i1 (Some i2) = Ok (i, cs') ->
    (t - pickt c1 > forcePick -> t - pickt c2 <= forcePick -> i = i1) /\
    (t - pickt c2 > forcePick -> t - pickt c1 <= forcePick -> i = i2).
  Proof.
    intros H1 H2. unfold choose. rewrite H1, H2.
    destruct (load fsqrt c1 >? load fsqrt c2);
      match goal with |- context [if ?b then _ else _] => destruct b eqn:G end;
      intro H; inversion H; subst; split; intros; try reflexivity; lia.
  Qed.

  (* >= 3 connections: of the pair handed to choose, the connection not picked for more than forcePick is
     picked now when the other one was picked within the last forcePick *)
  Lemma pair_force_pick s d i id u s' :
    (3 <= List.length (conns s))%nat -> pick fsqrt s d = Ok (i, id, u, s') ->
    exists i1 i2 c1 c2,
      draw_loop (conns s) pickTimes d None 0 = Ok (i1, i2, u) /\
      nth_error (conns s) i1 = Some c1 /\ nth_error (conns s) i2 = Some c2 /\ (i = i1 \/ i = i2) /\
      (now s - pickt c1 > forcePick -> now s - pickt c2 <= forcePick -> i = i1) /\
      (now s - pickt c2 > forcePick -> now s - pickt c1 <= forcePick -> i = i2).
  Proof.
    intros Hlen E. apply pick_spec in E as (c & i1 & o2 & Hch & Hc & _ & _ & Hshape).
    destruct Hshape as [(F & _)|[(F & _)|(_ & j & -> & Hdl)]]; try lia.
    destruct (draw_loop_in _ _ _ _ _ _ _ _ Hdl) as (L1 & L2); [discriminate|].
    destruct (nth_error (conns s) i1) as [c1|] eqn:E1; [|apply nth_error_None in E1; lia].
    destruct (nth_error (conns s) j) as [c2|] eqn:E2; [|apply nth_error_None in E2; lia].
    exists i1, j, c1, c2. destruct (choose_force _ _ _ _ _ _ _ _ E1 E2 Hch) as (A & B).
    apply choose_spec in Hch as (c' & _ & _ & Hor).
    repeat split; auto. destruct Hor as [->|Hj]; [left; reflexivity|right; inversion Hj; reflexivity].
  Qed.
End PairForce.

(* ------------------------------------------------------------------ several pickers, one builder *)
Section World.
  Variable W : Type.
  Variable wzero : W.
  Variable fexpr : W -> Z -> Z -> Z.
  Variable fsqrt : Z -> Z.
  Notation wrun := (wrun W wzero fexpr fsqrt).
  Notation wstep := (wstep W wzero fexpr fsqrt).
  Notation run := (run W wzero fexpr fsqrt).
  Notation step := (step W wzero fexpr fsqrt).

  (* whatever is built later and whatever happens on other pickers, picker p sees exactly its own operations *)
  Lemma pickers_independent xs : forall w p s,
    nth_error w p = Some (Some s) ->
    nth_error (wrun w xs) p = Some (Some (run s (wproj W p xs))).
  Proof.
    induction xs as [|x r IH]; intros w p s H; [exact H|].
    unfold Model.wrun. cbn [fold_left]. fold (wrun (wstep w x) r).
    destruct x as [start order|q o]; cbn [Model.wstep wproj flat_map app].
    - apply IH. rewrite nth_error_app1; [exact H|]. eapply nth_error_lt; eauto.
    - destruct (Nat.eqb_spec q p) as [->|N].
      + rewrite H. cbn [app]. unfold Model.run. cbn [fold_left]. apply IH.
        apply nth_error_set_nth_eq. eapply nth_error_lt; eauto.
      + cbn [app]. apply IH. destruct (nth_error w q) as [[sq|]|]; try exact H.
        rewrite nth_error_set_nth_neq by exact N. exact H.
  Qed.

  Lemma wrun_app w xs ys : wrun w (xs ++ ys) = wrun (wrun w xs) ys.
  Proof. unfold Model.wrun. apply fold_left_app. Qed.

  (* a picker owns its connections: the picker built from `order`, after ANY further world history (Builds with
     any ready sets, operations on any picker), still returns only SubConns of `order` *)
  Lemma picker_owns_connections w xs start order s0 ys d i id u s' sp :
    build start order = Some s0 ->
    nth_error (wrun w (xs ++ [WBuild W start order] ++ ys)) (List.length (wrun w xs)) = Some (Some sp) ->
    pick fsqrt sp d = Ok (i, id, u, s') ->
    nth_error order i = Some id /\ In id order.
  Proof.
    intros Hb Hn Hp. rewrite wrun_app, wrun_app in Hn.
    set (w1 := wrun w xs) in *. 
    assert (H1 : nth_error (wrun w1 [WBuild W start order]) (List.length w1) = Some (Some s0)).
    { unfold Model.wrun. cbn [fold_left Model.wstep]. rewrite nth_error_app2 by lia. rewrite Nat.sub_diag, Hb. reflexivity. }
    rewrite (pickers_independent ys _ _ _ H1) in Hn. inversion Hn; subst sp.
    eapply pick_is_ready; eauto.
  Qed.
End World.
