(* C14 Exec: the checkers evaluated by vm_compute on (history, observations of the Go picker).
   model_ok: the Model, instantiated with Coq's primitive binary64 floats for the two float
             expressions (ewma's convex combination, load's square root) and fed with the weight
             w = math.Exp(..) reported by the driver (oracle, bit pattern), reproduces every counter
             of every connection after every step, the chosen connection and the number of draws.
   spec_ok : the observed numbers satisfy the clauses of the property, without the Model. *)
From Coq Require Import Floats Uint63.
From Coq Require Import String.
From God Require Import Base.Prelude C14.Model C14.Spec C14.Client.
Local Open Scope Z_scope.

(* ---------- binary64 instance of the oracles ---------- *)
Definition two52 : Z := 4503599627370496.
Definition two64 : Z := 18446744073709551616.
Definition one_bits : Z := 4607182418800017408.     (* math.Float64bits(1.0) *)

(* the nonnegative float with the given IEEE-754 bit pattern (sign bit clear) *)
Definition float_of_bits (b : Z) : float :=
  let e := (b / two52) mod 2048 in
  let f := b mod two52 in
  if e =? 0 then Z.ldexp (of_uint63 (Uint63.of_Z f)) (-1074)
  else Z.ldexp (of_uint63 (Uint63.of_Z (f + two52))) (e - 1075).

Definition float_of_Z (x : Z) : float := of_uint63 (Uint63.of_Z x).   (* float64(uint64) for x < 2^63 *)

(* uint64(f) / int64(f) on amd64: truncation toward zero, two's complement for negatives *)
Definition trunc_float (x : float) : Z :=
  match Prim2SF x with
  | S754_zero _ => 0
  | S754_finite s m e =>
      let v := if 0 <=? e then Zpos m * 2 ^ e else Zpos m / 2 ^ (- e) in
      if s then - v else v
  | _ => - (two64 / 2)
  end.

(* p2c.go:179  uint64(float64(old)*w + float64(sample)*(1-w)) *)
Definition fexprF (wbits old sample : Z) : Z :=
  let w := float_of_bits wbits in
  (trunc_float (float_of_Z old * w + float_of_Z sample * (1 - w))%float) mod two64.

(* p2c.go:219  int64(math.Sqrt(float64(x))) *)
Definition fsqrtF (x : Z) : Z := trunc_float (PrimFloat.sqrt (float_of_Z x)).

Definition pickF := pick fsqrtF.
Definition doneF := done_info Z 0 fexprF.
Definition info_of (code flags : Z) (msg : nat) : doneinfo :=
  mkinfo (if code =? -1 then None else Some code) (Z.testbit flags 0) (Z.testbit flags 1) (Z.testbit flags 2) (Z.testbit flags 3) msg.

(* ---------- cases ---------- *)
Inductive xop :=
| XPick (draws : list Z)          (* values returned by the successive Intn calls *)
| XDone (k : nat) (code : Z) (flags : Z) (msg : nat)
    (* code -1: nil error, otherwise grpc status code (plain error = 2 Unknown); flags: the rest of the DoneInfo,
       1 BytesSent, 2 BytesReceived, 4 Trailer present, 8 ServerLoad present; msg: which status message the error
       carries (1 = "context deadline exceeded" as status.FromContextError makes it, 2 = "deadline", 3 = "", ...) *)
| XAdv (dt : Z).

Record xobs := mkobs {
  o_idx : Z;                (* pick: position of the chosen conn, -1 none *)
  o_id : Z;                 (* pick: id of the returned SubConn, -1 none *)
  o_err : Z;                (* pick: 0 none, 1 ErrNoSubConnAvailable, 2 other *)
  o_used : Z;               (* pick: Int63 values consumed *)
  o_over : Z;               (* pick: values requested beyond the script *)
  o_conn : Z;               (* done: position of the completed conn *)
  o_td : Z;                 (* done: td *)
  o_wbits : Z;              (* done: bits of math.Exp(float64(-td)/float64(decayTime)) *)
  o_now : Z;
  o_conns : list (nat * list Z);  (* rows of the dump that differ from the previous step's dump (position, row);
                               row = lag, inflight, success, requests, last, pick *)
  o_stamp : Z
}.

Record bcase := mkcase {
  c_n : nat;
  c_start : Z;
  c_order : list nat;       (* observed: ids of p.conns in order (iteration order of the ReadySCs map) *)
  c_addrs : list (Z * Z);   (* input: per SubConn id, key of its Address.Addr (may be shared) and of its ServerName *)
  c_connaddr : list (Z * Z);(* observed: per tracked conn, the keys of the Address it recorded *)
  c_stat : bool;            (* verdict of the harness' statistical test on this case (>= 3 conns, random draws: the
                               failing connection is picked markedly less often, nobody unpicked for 2 s); true if none *)
  c_steps : list (xop * xobs)
}.

Definition Zlist_eqb := list_eqb Z.eqb.

Fixpoint pairs (l : list Z) : list (Z * Z) :=
  match l with
  | a :: b :: r => (a, b) :: pairs r
  | _ => []
  end.

Definition code_of (c : Z) : option Z := if c =? -1 then None else Some c.

Definition dump_conn (c : conn) : list Z :=
  [lag c; inflight c; success c; requests c; last c; pickt c].
(* the full dump after a step: the previous one with the reported rows replaced *)
Definition apply_delta (d : list (list Z)) (delta : list (nat * list Z)) : list (list Z) :=
  fold_left (fun acc ir => set_nth (fst ir) (snd ir) acc) delta d.
Definition init_row : list Z := [0; 0; 1000; 0; 0; 0].
Definition dump_ok (s : st) (d : list (list Z)) (o : xobs) : bool :=
  list_eqb Zlist_eqb (map dump_conn (conns s)) d && (now s =? o_now o) && (stamp s =? o_stamp o).

(* the order reported by the driver must be a permutation of 0..n-1 *)
Definition perm_ok (n : nat) (order : list nat) : bool :=
  Nat.eqb (List.length order) n && forallb (fun i => existsb (Nat.eqb i) order) (seq 0 n).

(* the two properties assumed of math.Exp (DESIGN C14), measured on every value used *)
Definition w_hyp_ok (td wbits : Z) : bool :=
  (0 <=? wbits) && (wbits <=? one_bits) && (if td >? 0 then wbits <? one_bits else wbits =? one_bits).

(* ---------- model agreement ---------- *)
(* one step of the model against one observation; None = the observation is not what the model does *)
Definition model_step (s : st) (d : list (list Z)) (xo : xop * xobs) : option (st * list (list Z)) :=
  let (x, o) := xo in
  let d' := apply_delta d (o_conns o) in
  match x with
  | XPick dr =>
      match pickF s (pairs dr) with
      | Ok (i, id, used, s') =>
          if (o_err o =? 0) && (o_idx o =? Z.of_nat i) && (o_id o =? Z.of_nat id) &&
             (o_used o =? 2 * Z.of_nat used) && (o_over o =? 0) && dump_ok s' d' o
          then Some (s', d') else None
      | _ => None
      end
  | XDone k code flags msg =>
      match nth_error (tokens s) k with
      | Some tk =>
          match nth_error (conns s) (t_conn tk) with
          | Some c =>
              if (o_conn o =? Z.of_nat (t_conn tk)) && (o_td o =? td_of (now s) c) && w_hyp_ok (o_td o) (o_wbits o)
              then match doneF s k (info_of code flags msg) (o_wbits o) with
                   | Ok s' => if dump_ok s' d' o then Some (s', d') else None
                   | _ => None
                   end
              else None
          | None => None
          end
      | None => None
      end
  | XAdv dt => let s' := advance s dt in if dump_ok s' d' o then Some (s', d') else None
  end.

Fixpoint model_steps (s : st) (d : list (list Z)) (steps : list (xop * xobs)) : bool :=
  match steps with
  | [] => true
  | xo :: r => match model_step s d xo with Some (s', d') => model_steps s' d' r | None => false end
  end.

(* n = 0: base.NewErrPicker -- every Pick fails with ErrNoSubConnAvailable *)
Definition errpicker_steps (steps : list (xop * xobs)) : bool :=
  forallb (fun so => match fst so with
                     | XPick _ => (o_err (snd so) =? 1) && (o_id (snd so) =? -1)
                     | XDone _ _ _ _ => false
                     | XAdv _ => true
                     end) steps.

Definition pairZ_eqb (a b : Z * Z) : bool := (fst a =? fst b) && (snd a =? snd b).
Definition opair_eqb (a : option (Z * Z)) (b : Z * Z) : bool :=
  match a with Some x => pairZ_eqb x b | None => false end.
Fixpoint all2b {A B} (f : A -> B -> bool) (l1 : list A) (l2 : list B) : bool :=
  match l1, l2 with
  | [], [] => true
  | a :: r1, b :: r2 => f a b && all2b f r1 r2
  | _, _ => false
  end.
Definition ready_of (c : bcase) : ready_set := combine (seq 0 (c_n c)) (c_addrs c).

Definition bmodel_ok (c : bcase) : bool :=
  perm_ok (c_n c) (c_order c) &&
  Nat.eqb (List.length (c_addrs c)) (c_n c) &&
  all2b opair_eqb (conn_addrs (ready_of c) (c_order c)) (c_connaddr c) &&
  match build (c_start c) (c_order c) with
  | None => errpicker_steps (c_steps c)
  | Some s => model_steps s (repeat init_row (c_n c)) (c_steps c)
  end.

(* ---------- the property's clauses on the observations alone ---------- *)
Definition col (k : nat) (row : list Z) : Z := nth k row (-1).
Definition c_lag := col 0. Definition c_inflight := col 1. Definition c_success := col 2. Definition c_pick := col 5.
Definition row_of (d : list (list Z)) (i : nat) : list Z := nth i d [].

Record sst := mksst {
  s_now : Z;
  s_prev : list (list Z);          (* last dump *)
  s_L : list entry;                (* ledger: one entry per successful pick *)
  s_tok : list (nat * Z);          (* conn and start time of every done func *)
  s_samples : list (list Z);       (* observed latencies per conn *)
  s_fail : list Z;                 (* per conn: failing completions with td > 0 since its last acceptable completion *)
  s_lastc : list Z;                (* per conn: time of its last completion (0 = never), as p2c keeps it *)
  s_lastp : list Z                 (* per SubConn id: time of the last Pick that returned it (0 = never) *)
}.

Definition upd {A} (i : nat) (f : A -> A) (l : list A) : list A :=
  match nth_error l i with Some x => set_nth i (f x) l | None => l end.

Definition min_l (l : list Z) : Z := fold_right Z.min (hd 0 l) l.
Definition max_l (l : list Z) : Z := fold_right Z.max (hd 0 l) l.

(* clauses that must hold of every dump *)
Definition dump_clauses (n : nat) (t : sst) (d : list (list Z)) : bool :=
  Nat.eqb (List.length d) n &&
  forallb (fun i =>
    let row := row_of d i in
    (* inflight = picks - completions; nonnegative when no done func was called twice *)
    (c_inflight row =? picks_of (s_L t) i - completions_of (s_L t) i) &&
    (if forallb (fun e => e_calls e <=? 1) (s_L t) then 0 <=? c_inflight row else true) &&
    (* score range *)
    (0 <=? c_success row) && (c_success row <=? 1000) &&
    (* latency estimate within the observed latencies *)
    (match nth i (s_samples t) [] with
     | [] => true
     | smp => (min_l smp <=? c_lag row) && (c_lag row <=? max_l smp)
     end) &&
    (* f failing completions (each a positive time after the previous completion, whatever the DoneInfo flags) and no
       acceptable one since: score <= max 0 (1000 - f) (c14_all_fail_unhealthy_within_500), hence unhealthy after 500 *)
    (let f := nth i (s_fail t) 0 in
     (c_success row <=? Z.max 0 (1000 - f)) && (if f >=? 500 then c_success row <=? 500 else true))) (seq 0 n).

Definition healthy_obs (d : list (list Z)) (i : Z) : bool := c_success (row_of d (Z.to_nat i)) >? 500.

(* the first of the (at most 3) drawn pairs whose members are both healthy *)
Fixpoint first_healthy_pair (d : list (list Z)) (fuel : nat) (ps : list (Z * Z)) : option (Z * Z) :=
  match fuel, ps with
  | S f, (a, b0) :: r =>
      let b := if b0 >=? a then b0 + 1 else b0 in
      if healthy_obs d a && healthy_obs d b then Some (a, b) else first_healthy_pair d f r
  | _, _ => None
  end.

(* the SubConn with this id was not returned by any Pick for more than a second, judged from the observed
   picks (not from p2c's own stamps, not from positions in p.conns) *)
Definition stale_obs (t : sst) (id : nat) : bool := s_now t - nth id (s_lastp t) 0 >? 1000000000.

(* the pair handed to choose: the first all-healthy one of the three drawn pairs, else the third *)
Fixpoint final_pair (d : list (list Z)) (fuel : nat) (ps : list (Z * Z)) (cur : option (Z * Z)) : option (Z * Z) :=
  match fuel, ps with
  | S f, (a, b0) :: r =>
      let b := if b0 >=? a then b0 + 1 else b0 in
      if healthy_obs d a && healthy_obs d b then Some (a, b) else final_pair d f r (Some (a, b))
  | _, _ => cur
  end.

Definition pick_clauses (n : nat) (order : list nat) (t : sst) (draws : list Z) (o : xobs) : bool :=
  match n with
  | O => (o_err o =? 1) && (o_id o =? -1)
  | _ =>
      (* the returned SubConn is one of the ready connections *)
      (o_err o =? 0) && (0 <=? o_id o) && (o_id o <? Z.of_nat n) &&
      (0 <=? o_idx o) && (o_idx o <? Z.of_nat n) && (Z.of_nat (nth (Z.to_nat (o_idx o)) order n) =? o_id o) &&
      (* >= 3 conns: a drawn pair of healthy conns exists => the chosen one is in the first such pair *)
      (if Nat.leb 3 n then
         match first_healthy_pair (s_prev t) 3 (pairs draws) with
         | Some (a, b) => (o_idx o =? a) || (o_idx o =? b)
         | None => true
         end
       else true) &&
      (* >= 3 conns: of the two connections handed to choose, the one not picked for more than a second is
         picked now (if the other is not stale too) -- by SubConn identity *)
      (if Nat.leb 3 n && Nat.leb 3 (List.length (pairs draws)) then
         match final_pair (s_prev t) 3 (pairs draws) None with
         | Some (a, b) =>
             if (0 <=? a) && (a <? Z.of_nat n) && (0 <=? b) && (b <? Z.of_nat n) then
               let ia := nth (Z.to_nat a) order n in
               let ib := nth (Z.to_nat b) order n in
               (if stale_obs t ia && negb (stale_obs t ib) then o_id o =? Z.of_nat ia else true) &&
               (if stale_obs t ib && negb (stale_obs t ia) then o_id o =? Z.of_nat ib else true)
             else true
         | None => true
         end
       else true) &&
      (* 2 ready SubConns: the one not picked for more than a second is picked now (if the other is not stale too) *)
      (if Nat.eqb n 2 then
         (if stale_obs t 0 && negb (stale_obs t 1) then o_id o =? 0 else true) &&
         (if stale_obs t 1 && negb (stale_obs t 0) then o_id o =? 1 else true)
       else true)
  end.

Definition done_clauses (t : sst) (i : nat) (code : Z) (dump : list (list Z)) : bool :=
  let old := c_success (row_of (s_prev t) i) in
  let new := c_success (row_of dump i) in
  let target := match code_of code with None => 1000 | Some c => if acceptable c then 1000 else 0 end in
  (Z.min old target <=? new) && (new <=? Z.max old target).

(* the clauses on one step; None = violated *)
Definition spec_step (n : nat) (order : list nat) (t : sst) (xo : xop * xobs) : option sst :=
  let (x, o) := xo in
  match x with
  | XPick d =>
      if pick_clauses n order t d o then
        match n with
        | O => Some t
        | _ =>
            let i := Z.to_nat (o_idx o) in
            let dump := apply_delta (s_prev t) (o_conns o) in
            let t' := mksst (s_now t) dump (s_L t ++ [mkentry i 0]) (s_tok t ++ [(i, s_now t)])
                            (s_samples t) (s_fail t) (s_lastc t) (upd (Z.to_nat (o_id o)) (fun _ => s_now t) (s_lastp t)) in
            if dump_clauses n t' dump then Some t' else None
        end
      else None
  | XDone k code _ _ =>
      (* whatever BytesSent / BytesReceived / Trailer / ServerLoad and the status message say: only the status
         CODE decides the target *)
      match nth_error (s_tok t) k with
      | None => None
      | Some (i, start) =>
          let sample := Z.max 0 (s_now t - start) in
          let td := Z.max 0 (s_now t - nth i (s_lastc t) 0) in
          let failed := match code_of code with None => false | Some c => negb (acceptable c) end in
          let dump := apply_delta (s_prev t) (o_conns o) in
          let t' := mksst (s_now t) dump
                          (upd k (fun e => mkentry (e_conn e) (e_calls e + 1)) (s_L t)) (s_tok t)
                          (upd i (fun l => sample :: l) (s_samples t))
                          (upd i (fun f => if failed then (if td >? 0 then f + 1 else f) else 0) (s_fail t))
                          (upd i (fun _ => s_now t) (s_lastc t)) (s_lastp t) in
          if done_clauses t i code dump && dump_clauses n t' dump then Some t' else None
      end
  | XAdv dt =>
      let dump := apply_delta (s_prev t) (o_conns o) in
      let t' := mksst (s_now t + dt) dump (s_L t) (s_tok t) (s_samples t) (s_fail t) (s_lastc t) (s_lastp t) in
      if dump_clauses n t' dump then Some t' else None
  end.

Fixpoint spec_steps (n : nat) (order : list nat) (t : sst) (steps : list (xop * xobs)) : bool :=
  match steps with
  | [] => true
  | xo :: r => match spec_step n order t xo with Some t' => spec_steps n order t' r | None => false end
  end.

Definition sst0 (start : Z) (n : nat) : sst :=
  mksst start (repeat init_row n) [] [] (repeat [] n) (repeat 0 n) (repeat 0 n) (repeat 0 n).

Definition bspec_ok (c : bcase) : bool :=
  let n := c_n c in
  (* the probabilistic clauses, as a test with tolerance (harness/props/c14.py stat_check) *)
  c_stat c &&
  (* every ready SubConn -- whatever Address it carries, shared or not -- is tracked by the picker, once *)
  perm_ok n (c_order c) &&
  spec_steps n (c_order c) (sst0 (c_start c) n) (c_steps c).

(* ================= client wiring cases (rpc/internal/client.go) ================= *)
Inductive xcopt := XDial (tag : nat) | XNonBlock | XTimeout (ms : Z) | XCreds | XUnary | XStream.

Record ccase := mkccase {
  cc_backends : nat;            (* in-process grpc servers behind the target *)
  cc_manual : bool;             (* target form: false direct:///a,b[,c]; true a comma-less target whose (manual) resolver
                                   returns the backends -- the wiring and the clauses do not depend on it *)
  cc_opts : list xcopt;         (* the ClientOptions handed to NewClient, in order *)
  cc_min_calls : Z;
  cc_labels : list Z;           (* observed: the assembled dial options; tag of a user option, -2 the balancer's
                                   service config, -1 any other *)
  cc_dial_err : bool;           (* observed: NewClient failed *)
  cc_svc : string;              (* observed: default service config JSON of the ClientConn *)
  cc_balancer : string;         (* observed: name of the balancer the ClientConn runs *)
  cc_counts : list Z;           (* observed: calls served per backend *)
  cc_calls : Z;                 (* observed: calls issued *)
  cc_errs : Z                   (* observed: calls that failed *)
}.

Definition to_copt (o : xcopt) : copt :=
  match o with
  | XDial t => WithDialOption (DUser t)
  | XNonBlock => WithNonBlock
  | XTimeout ms => WithTimeout (ms * 1000000)
  | XCreds => WithTransportCredentials
  | XUnary => WithUnaryClientInterceptor
  | XStream => WithStreamClientInterceptor
  end.

Definition label_of (d : dialopt) : Z :=
  match d with DSvcCfg _ => -2 | DUser t => Z.of_nat t | _ => -1 end.

(* fmt.Sprintf(`{"loadBalancingPolicy":"%s"}`, p2c.Name)  (client.go:50) *)
Definition svc_json (name : string) : string :=
  ("{""loadBalancingPolicy"":""" ++ name ++ """}")%string.

(* the option-list model reproduces number and order of the assembled dial options; the ClientConn carries
   the service config NewClient formats and runs the balancer registered under that name *)
Definition cmodel_ok (c : ccase) : bool :=
  let ds := new_client_dial_options p2c_name (map to_copt (cc_opts c)) in
  Zlist_eqb (map label_of ds) (cc_labels c) &&
  negb (cc_dial_err c) &&
  String.eqb (cc_svc c) (svc_json p2c_name) &&
  match effective_policy ds with Some p => String.eqb (cc_balancer c) p | None => false end &&
  Nat.eqb (List.length (cc_counts c)) (cc_backends c) &&
  (cc_min_calls c <=? cc_calls c).

(* the property, on the observations alone: the client runs the P2C balancer ("p2c_ewma", Client.p2c_name; no
   regenerated definition is used by the checkers) and, under sustained calls, every ready backend is picked *)
Definition cspec_ok (c : ccase) : bool :=
  negb (cc_dial_err c) &&
  existsb (Z.eqb (-2)) (cc_labels c) &&
  String.eqb (cc_balancer c) p2c_name &&
  Nat.eqb (List.length (cc_counts c)) (cc_backends c) &&
  forallb (fun n => 0 <? n) (cc_counts c).

(* ================= several pickers built by one picker builder ================= *)
(* SubConn ids are global in these cases; a picker's ready set is a list of them.  After every step the driver
   dumps EVERY live picker; the dumps are concatenated (Build order) into one list of rows
   [lag; inflight; success; requests; last; pick; SubConn id] and delta-encoded against the previous step. *)
Inductive mop :=
| MBuild (ready : list nat) (order : list nat)   (* Build(ReadySCs = ready); observed p.conns order *)
| MPick (p : nat) (draws : list Z)
| MDone (p k : nat) (code flags : Z) (msg : nat)
| MAdv (dt : Z).

Record mcase := mkmcase {
  m_start : Z;
  m_health : Z;    (* observed: base.Config.HealthCheck of the registered balancer builder (1 true, 0 false, -1 not observable) *)
  m_steps : list (mop * xobs)
}.

Definition id_col (row : list Z) : Z := nth 6 row (-1).
Definition sizes_off (sizes : list nat) (p : nat) : nat := fold_right Nat.add 0%nat (firstn p sizes).
Definition in_range (off n pos : nat) : bool := Nat.leb off pos && Nat.ltb pos (off + n).
(* the part of a global delta that concerns the rows [off, off+n), re-based, without the id column *)
Definition local_delta (off n : nat) (delta : list (nat * list Z)) : list (nat * list Z) :=
  map (fun ir => ((fst ir - off)%nat, firstn 6 (snd ir))) (filter (fun ir => in_range off n (fst ir)) delta).
Definition local_dump (off n : nat) (gd : list (list Z)) : list (list Z) := map (firstn 6) (firstn n (skipn off gd)).
Definition with_conns (o : xobs) (dl : list (nat * list Z)) (id : Z) : xobs :=
  mkobs (o_idx o) id (o_err o) (o_used o) (o_over o) (o_conn o) (o_td o) (o_wbits o) (o_now o) dl (o_stamp o).
(* Build: rows at positions >= the old length are the new picker's, in order *)
Definition new_rows (len : nat) (delta : list (nat * list Z)) : list (list Z) :=
  map snd (filter (fun ir => Nat.leb len (fst ir)) delta).
Definition old_delta (len : nat) (delta : list (nat * list Z)) : list (nat * list Z) :=
  filter (fun ir => Nat.ltb (fst ir) len) delta.

(* order is a permutation of ready (ready: distinct ids) *)
Definition perm_list (ready order : list nat) : bool :=
  Nat.eqb (List.length ready) (List.length order) &&
  forallb (fun i => existsb (Nat.eqb i) order) ready && forallb (fun i => existsb (Nat.eqb i) ready) order.

(* ---- model: the builder has no state; every Build makes an independent picker (None = error picker) ---- *)
Definition dump7 (c : conn) : list Z := dump_conn c ++ [Z.of_nat (scid c)].
Definition gdump (w : list (option st)) : list (list Z) :=
  flat_map (fun os => match os with Some s => map dump7 (conns s) | None => [] end) w.
Definition wsize (os : option st) : nat := match os with Some s => List.length (conns s) | None => 0%nat end.

Fixpoint mmodel_steps (w : list (option st)) (t : Z) (gd : list (list Z)) (steps : list (mop * xobs)) : bool :=
  match steps with
  | [] => true
  | (m, o) :: r =>
      let sizes := map wsize w in
      match m with
      | MBuild ready order =>
          let gd' := apply_delta gd (old_delta (List.length gd) (o_conns o)) ++ new_rows (List.length gd) (o_conns o) in
          let w' := w ++ [build t order] in
          perm_list ready order && list_eqb Zlist_eqb (gdump w') gd' && (o_now o =? t) && mmodel_steps w' t gd' r
      | MAdv dt =>
          let gd' := apply_delta gd (o_conns o) in
          let w' := map (option_map (fun s => advance s dt)) w in
          list_eqb Zlist_eqb (gdump w') gd' && (o_now o =? t + dt) && mmodel_steps w' (t + dt) gd' r
      | MPick p _ | MDone p _ _ _ _ =>
          let x := match m with MPick _ d => XPick d | MDone _ k c f g => XDone k c f g | _ => XAdv 0 end in
          let gd' := apply_delta gd (o_conns o) in
          let off := sizes_off sizes p in
          match nth_error w p with
          | Some (Some s) =>
              let n := List.length (conns s) in
              match model_step s (local_dump off n gd) (x, with_conns o (local_delta off n (o_conns o)) (o_id o)) with
              | Some (s', _) =>
                  let w' := set_nth p (Some s') w in
                  list_eqb Zlist_eqb (gdump w') gd' && mmodel_steps w' t gd' r
              | None => false
              end
          | Some None =>
              (* base.NewErrPicker *)
              match m with
              | MPick _ _ => (o_err o =? 1) && (o_id o =? -1) && list_eqb Zlist_eqb (gdump w) gd' && mmodel_steps w t gd' r
              | _ => false
              end
          | None => false
          end
      end
  end.

(* newBuilder (p2c.go:39-41) registers the picker builder with base.Config{HealthCheck: true} *)
Definition mmodel_ok (c : mcase) : bool := negb (m_health c =? 0) && mmodel_steps [] (m_start c) [] (m_steps c).

(* ---- spec: every picker owns its connections ---- *)
Record mpk := mkmpk { k_n : nat; k_ready : list nat; k_order : list nat; k_sst : sst }.

Fixpoint index_of (x : nat) (l : list nat) : nat :=
  match l with [] => 0%nat | a :: r => if Nat.eqb a x then 0%nat else S (index_of x r) end.
(* position of a SubConn in the picker's ready set (= its size when the SubConn is not one of them) *)
Definition local_id (ready : list nat) (gid : Z) : Z :=
  if gid <? 0 then gid else Z.of_nat (index_of (Z.to_nat gid) ready).
Definition is_nil {A} (l : list A) : bool := match l with [] => true | _ => false end.

Fixpoint all_adv (dt : Z) (o : xobs) (ps : list mpk) : option (list mpk) :=
  match ps with
  | [] => Some []
  | k :: r =>
      match spec_step (k_n k) (k_order k) (k_sst k) (XAdv dt, with_conns o [] (-1)), all_adv dt o r with
      | Some t', Some r' => Some (mkmpk (k_n k) (k_ready k) (k_order k) t' :: r')
      | _, _ => None
      end
  end.

Fixpoint mspec_steps (ps : list mpk) (t : Z) (gd : list (list Z)) (steps : list (mop * xobs)) : bool :=
  match steps with
  | [] => true
  | (m, o) :: r =>
      let sizes := map k_n ps in
      match m with
      | MBuild ready order =>
          let len := List.length gd in
          let n := List.length ready in
          (* a Build does not disturb the pickers built before (they own their connections) ... *)
          is_nil (old_delta len (o_conns o)) &&
          (* ... and the new picker tracks exactly its own ready set, with fresh counters *)
          perm_list ready order &&
          list_eqb Zlist_eqb (new_rows len (o_conns o)) (map (fun id => init_row ++ [Z.of_nat id]) order) &&
          mspec_steps (ps ++ [mkmpk n ready (map (fun g => index_of g ready) order) (sst0 t n)]) t
                      (gd ++ new_rows len (o_conns o)) r
      | MAdv dt =>
          is_nil (o_conns o) &&
          match all_adv dt o ps with Some ps' => mspec_steps ps' (t + dt) gd r | None => false end
      | MPick p _ | MDone p _ _ _ _ =>
          let x := match m with MPick _ d => XPick d | MDone _ k c f g => XDone k c f g | _ => XAdv 0 end in
          match nth_error ps p with
          | Some k =>
              let off := sizes_off sizes p in
              let n := k_n k in
              (* a Pick / completion on this picker touches this picker's connections only, and never changes
                 which SubConn a connection stands for *)
              forallb (fun ir => in_range off n (fst ir) && (id_col (snd ir) =? id_col (nth (fst ir) gd []))) (o_conns o) &&
              (* and on this picker all the clauses hold (a returned SubConn outside ITS ready set has local id n) *)
              match spec_step n (k_order k) (k_sst k)
                              (x, with_conns o (local_delta off n (o_conns o)) (local_id (k_ready k) (o_id o))) with
              | Some t' => mspec_steps (set_nth p (mkmpk n (k_ready k) (k_order k) t') ps) t (apply_delta gd (o_conns o)) r
              | None => false
              end
          | None => false
          end
      end
  end.

(* "ready" means serving: the balancer is registered with health checking enabled *)
Definition mspec_ok (c : mcase) : bool := negb (m_health c =? 0) && mspec_steps [] (m_start c) [] (m_steps c).

Inductive case := CB (b : bcase) | CC (c : ccase) | CM (m : mcase).
Definition model_ok (c : case) : bool := match c with CB b => bmodel_ok b | CC c => cmodel_ok c | CM m => mmodel_ok m end.
Definition spec_ok (c : case) : bool := match c with CB b => bspec_ok b | CC c => cspec_ok c | CM m => mspec_ok m end.
