(* C14 Spec: what the property says about a balancer, as predicates over a ledger of what happened.
   Independent of the model: numbers only.  One ledger entry per successful Pick (which connection
   was returned, how often its done func has been called so far); one list of observed latencies
   (now - start of every completion) per connection. *)
From God Require Import Base.Prelude.
Local Open Scope Z_scope.

Record entry := mkentry { e_conn : nat; e_calls : Z }.

Definition sumZ (l : list Z) : Z := fold_right Z.add 0 l.
Definition of_conn (i : nat) (L : list entry) : list entry := filter (fun e => Nat.eqb (e_conn e) i) L.
Definition picks_of (L : list entry) (i : nat) : Z := Z.of_nat (List.length (of_conn i L)).
Definition completions_of (L : list entry) (i : nat) : Z := sumZ (map e_calls (of_conn i L)).

(* "each connection's in-flight count always equals its picks minus its completions" *)
Definition inflight_ok (L : list entry) (i : nat) (inflight : Z) : Prop :=
  inflight = picks_of L i - completions_of L i.
(* every done func called at most once *)
Definition at_most_once (L : list entry) : Prop := forall e, In e L -> e_calls e <= 1.

(* "success score stays within [0, 1000]" *)
Definition score_ok (s : Z) : Prop := 0 <= s <= 1000.
(* "moves towards 1000 on acceptable completions and towards 0 on unacceptable ones" (non-strict) *)
Definition toward (old target new : Z) : Prop := Z.min old target <= new <= Z.max old target.
(* "latency estimate stays between the smallest and largest observed latency" *)
Definition within_samples (samples : list Z) (lag : Z) : Prop :=
  samples <> [] -> (exists x, In x samples /\ x <= lag) /\ (exists y, In y samples /\ lag <= y).
(* healthy > 500 (anchor) *)
Definition unhealthy (s : Z) : Prop := s <= 500.
(* "picked at least about once per second": not picked for more than forcePick = 1 s *)
Definition stale (now pickt : Z) : Prop := now - pickt > 1000000000.
(* the last picks of all connections lie within one second of each other *)
Definition spread (picks : list Z) : Prop := forall p q, In p picks -> In q picks -> p - q <= 1000000000.
