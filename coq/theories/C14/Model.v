(* C14 Model: transcription of rpc/internal/balancer/p2c/p2c.go (commit b7aa5ff: D4 repaired, ewma clamped)
   and rpc/internal/codes/accept.go.  Executable definitions only, in source order.

   Inputs that are not computed by the model (explicit oracles / Section variables):
     W      the type of the decay weight  w = math.Exp(float64(-td)/float64(decayTime))  (binary64 in Go)
     wzero  the weight 0 (assigned when olag == 0, p2c.go:150-152)
     fexpr  the float expression of ewma,  uint64(float64(old)*w + float64(sample)*(1-w))  (p2c.go:179)
     fsqrt  int64(math.Sqrt(float64(x)))  (p2c.go:219)
   The weight itself is an input of every completion (history op Done), the pair draws of Pick
   (p.r.Intn) are an input of every Pick, the iteration order of the ReadySCs map an input of Build.
   Every Pick and every done func is one atomic step here (Pick holds p.lock; the done func is a
   sequence of atomics -- the interleaved reading is C14.Proofs section Conc). *)
From God Require Import Base.Prelude.
Local Open Scope Z_scope.

(* p2c.go:20-31 *)
Definition initSuccess : Z := 1000.
Definition throttleSuccess : Z := initSuccess / 2.
Definition penalty : Z := 2147483647.            (* int64(math.MaxInt32) *)
Definition pickTimes : nat := 3.
Definition forcePick : Z := 1000000000.          (* int64(time.Second) *)
Definition logInterval : Z := 60000000000.       (* 1 * time.Minute *)
Definition decayTime : Z := 10000000000.         (* int64(10 * time.Second) *)

(* codes/accept.go:9-16 ; grpc status codes as numbers (codes.Code) *)
Definition acceptable (code : Z) : bool :=
  match code with
  | 4 (* DeadlineExceeded *) | 13 (* Internal *) | 14 (* Unavailable *) | 15 (* DataLoss *) | 12 (* Unimplemented *) => false
  | _ => true
  end.

(* p2c.go:203-212 subConn (addr omitted; conn = identity of the balancer.SubConn) *)
Record conn := mkconn {
  lag : Z; inflight : Z; success : Z; requests : Z; last : Z; pickt : Z; scid : nat
}.

(* p2c.go:54-58 *)
Definition new_conn (id : nat) : conn := mkconn 0 0 initSuccess 0 0 0 id.

(* a done func: the connection it closes over and `start` (p2c.go:136) *)
Record token := mktoken { t_conn : nat; t_start : Z }.

(* p2cPicker (p2c.go:69-74) + the virtual clock + the done funcs handed out so far *)
Record st := mkst { now : Z; conns : list conn; stamp : Z; tokens : list token }.

(* p2c.go:46-66 Build; `order` = iteration order of the ReadySCs map (a permutation of the ready ids).
   None = base.NewErrPicker(ErrNoSubConnAvailable). *)
Definition build (start : Z) (order : list nat) : option st :=
  match order with
  | [] => None
  | _ => Some (mkst start (map new_conn order) 0 [])
  end.

(* The ReadySCs map as gRPC hands it over: SubConn id |-> (key of Address.Addr, key of Address.ServerName).
   The map is keyed by the SubConn, so the ids are distinct, but several SubConns may carry the same Addr
   (differing in ServerName / Attributes, or not at all).  Build (p2c.go:52-59) ranges over the map and makes
   one subConn per ENTRY; the Address is only recorded (logStats prints it), it plays no role in identity. *)
Definition ready_set := list (nat * (Z * Z)).
Definition build_ready (start : Z) (ready : ready_set) (order : list nat) : option st := build start order.
(* the Address recorded in the i-th subConn *)
Definition conn_addrs (ready : ready_set) (order : list nat) : list (option (Z * Z)) :=
  map (fun id => alookup Nat.eqb id ready) order.

Definition set_nth {A} (i : nat) (x : A) (l : list A) : list A :=
  firstn i l ++ match skipn i l with [] => [] | _ :: r => x :: r end.

Section Model.
  Variable W : Type.
  Variable wzero : W.
  Variable fexpr : W -> Z -> Z -> Z.
  Variable fsqrt : Z -> Z.

  (* p2c.go:214-216 *)
  Definition healthy (c : conn) : bool := success c >? throttleSuccess.

  (* p2c.go:218-227 *)
  Definition load (c : conn) : Z :=
    let l := fsqrt (lag c + 1) in
    let ld := l * (inflight c + 1) in
    if ld =? 0 then penalty else ld.

  Definition set_pick (t : Z) (c : conn) : conn :=
    mkconn (lag c) (inflight c) (success c) (requests c) (last c) t (scid c).

  (* p2c.go:115-133 choose; c2 = None is `nil`. Returns the chosen position and the updated conns.
     Sequentially the CompareAndSwap (line 127) always succeeds. *)
  Definition choose (t : Z) (cs : list conn) (i1 : nat) (o2 : option nat) : result (nat * list conn) :=
    match nth_error cs i1 with
    | None => Panic
    | Some c1 =>
        match o2 with
        | None => Ok (i1, set_nth i1 (set_pick t c1) cs)
        | Some i2 =>
            match nth_error cs i2 with
            | None => Panic
            | Some c2 =>
                let '(a, ca, b, cb) := if load c1 >? load c2 then (i2, c2, i1, c1) else (i1, c1, i2, c2) in
                if t - pickt cb >? forcePick
                then Ok (b, set_nth b (set_pick t cb) cs)
                else Ok (a, set_nth a (set_pick t ca) cs)
            end
        end
    end.

  (* p2c.go:89-101: the loop over at most pickTimes pairs of draws (a := Intn(n), b := Intn(n-1)).
     Returns the last (node1, node2) and the number of pairs consumed.  Err 1: the script of draws is
     too short (ill-formed input, cannot happen with a rand source); Panic: index out of range. *)
  Fixpoint draw_loop (cs : list conn) (fuel : nat) (draws : list (Z * Z)) (cur : option (nat * nat)) (used : nat)
    : result (nat * nat * nat) :=
    match fuel with
    | O => match cur with Some (i, j) => Ok (i, j, used) | None => Panic (* nil node1 *) end
    | S f =>
        match draws with
        | [] => Err 1
        | (a, b0) :: rest =>
            let b := if b0 >=? a then b0 + 1 else b0 in
            if (a <? 0) || (b <? 0) then Panic else
            match nth_error cs (Z.to_nat a), nth_error cs (Z.to_nat b) with
            | Some n1, Some n2 =>
                if healthy n1 && healthy n2 then Ok (Z.to_nat a, Z.to_nat b, S used)
                else draw_loop cs f rest (Some (Z.to_nat a, Z.to_nat b)) (S used)
            | _, _ => Panic
            end
        end
    end.

  Definition bump (c : conn) : conn :=
    mkconn (lag c) (inflight c + 1) (success c) (requests c + 1) (last c) (pickt c) (scid c).

  (* p2c.go:76-113 Pick.  Ok (position, SubConn id, pairs of draws consumed, new state); Err 0 = ErrNoSubConnAvailable *)
  Definition pick (s : st) (draws : list (Z * Z)) : result (nat * nat * nat * st) :=
    let cs := conns s in
    let chosen :=
      match cs with
      | [] => Err 0
      | [_] => match choose (now s) cs 0 None with Ok r => Ok (r, 0%nat) | Err e => Err e | Panic => Panic end
      | [_; _] => match choose (now s) cs 0 (Some 1%nat) with Ok r => Ok (r, 0%nat) | Err e => Err e | Panic => Panic end
      | _ =>
          match draw_loop cs pickTimes draws None 0 with
          | Ok (i, j, used) =>
              match choose (now s) cs i (Some j) with Ok r => Ok (r, used) | Err e => Err e | Panic => Panic end
          | Err e => Err e
          | Panic => Panic
          end
      end in
    match chosen with
    | Ok ((i, cs'), used) =>
        match nth_error cs' i with
        | Some c =>
            Ok (i, scid c, used,
                mkst (now s) (set_nth i (bump c) cs') (stamp s) (tokens s ++ [mktoken i (now s)]))
        | None => Panic
        end
    | Err e => Err e
    | Panic => Panic
    end.

  (* p2c.go:172-190 ewma: the truncated float expression, clamped to [min old sample, max old sample] *)
  Definition ewma (old sample : Z) (w : W) : Z :=
    let lo := Z.min old sample in
    let hi := Z.max old sample in
    let v := fexpr w old sample in
    if v <? lo then lo else if v >? hi then hi else v.

  (* p2c.go:137-160 the done func on its connection; `code` = None for a nil error *)
  Definition target_of (code : option Z) : Z :=
    match code with
    | None => initSuccess
    | Some c => if acceptable c then initSuccess else 0
    end.

  Definition done_conn (t start : Z) (code : option Z) (w : W) (c : conn) : conn :=
    let sample := Z.max 0 (t - start) in
    let olag := lag c in
    let w' := if olag =? 0 then wzero else w in
    mkconn (ewma olag sample w') (inflight c - 1) (ewma (success c) (target_of code) w')
           (requests c) t (pickt c) (scid c).

  (* td as the done func computes it (p2c.go:141-144); the weight handed to Done is exp(-td/decayTime) *)
  Definition td_of (t : Z) (c : conn) : Z := Z.max 0 (t - last c).

  Definition reset_requests (c : conn) : conn :=
    mkconn (lag c) (inflight c) (success c) 0 (last c) (pickt c) (scid c).

  (* p2c.go:162-167 + logStats (192-201): once per logInterval the request counters are swapped to 0 *)
  Definition log_stats (s : st) : st :=
    if now s - stamp s >=? logInterval
    then mkst (now s) (map reset_requests (conns s)) (now s) (tokens s)
    else s.

  (* calling the k-th done func handed out. Err 2: no such done func (ill-formed history) *)
  Definition done (s : st) (k : nat) (code : option Z) (w : W) : result st :=
    match nth_error (tokens s) k with
    | None => Err 2
    | Some tk =>
        match nth_error (conns s) (t_conn tk) with
        | None => Panic
        | Some c =>
            Ok (log_stats (mkst (now s) (set_nth (t_conn tk) (done_conn (now s) (t_start tk) code w c) (conns s))
                                (stamp s) (tokens s)))
        end
    end.

  (* balancer.DoneInfo as gRPC fills it: Err (None = nil, Some c = status code), BytesSent, BytesReceived,
     Trailer present, ServerLoad present; the status MESSAGE of the error.  The done func reads info.Err and nothing
     else (p2c.go:155-158), and codes.Acceptable (accept.go:10) looks at status.Code(err) only, never at the message. *)
  Record doneinfo := mkinfo { d_err : option Z; d_sent : bool; d_recv : bool; d_trailer : bool; d_load : bool;
                              d_msg : nat (* which status message the error carries *) }.
  Definition done_info (s : st) (k : nat) (info : doneinfo) (w : W) : result st := done s k (d_err info) w.

  Definition advance (s : st) (dt : Z) : st := mkst (now s + dt) (conns s) (stamp s) (tokens s).

  (* histories *)
  Inductive op :=
  | Pick (draws : list (Z * Z))
  | Done (k : nat) (code : option Z) (w : W)
  | Advance (dt : Z).

  (* one step; ill-formed ops (Err) and panics leave the state unchanged *)
  Definition step (s : st) (o : op) : st :=
    match o with
    | Pick d => match pick s d with Ok (_, _, _, s') => s' | _ => s end
    | Done k code w => match done s k code w with Ok s' => s' | _ => s end
    | Advance dt => advance s dt
    end.

  Definition run (s : st) (ops : list op) : st := fold_left step ops s.

  (* Several pickers from one picker builder.  p2cPickerBuilder has no fields and Build (p2c.go:46-66) allocates a
     new conns slice and a new p2cPicker on every call: the builder is stateless, a picker owns its connections.
     A world is the list of pickers built so far (None = error picker); WOn p o runs o on picker p. *)
  Inductive wop := WBuild (start : Z) (order : list nat) | WOn (p : nat) (o : op).
  Definition wstep (w : list (option st)) (x : wop) : list (option st) :=
    match x with
    | WBuild start order => w ++ [build start order]
    | WOn p o => match nth_error w p with Some (Some s) => set_nth p (Some (step s o)) w | _ => w end
    end.
  Definition wrun (w : list (option st)) (xs : list wop) : list (option st) := fold_left wstep xs w.
  (* the operations of a world history that are addressed to picker p *)
  Definition wproj (p : nat) (xs : list wop) : list op :=
    flat_map (fun x => match x with WOn q o => if Nat.eqb q p then [o] else [] | WBuild _ _ => [] end) xs.
End Model.
