(* C14 Link: the constants, the Acceptable case table and the call skeletons regenerated from
   rpc/internal/balancer/p2c/p2c.go and rpc/internal/codes/accept.go are the ones the model and the
   theorems use; the executable checkers of Exec agree with the Spec predicates. *)
From Coq Require Import String Floats.
From God Require Import Base.Prelude C14.Model C14.Spec C14.Proofs C14.Client C14.Exec.
From GodGen Require C14_Gen.
Local Open Scope Z_scope.

(* ---------- constants (the numbers of the property statement: 1000, 500, 3 draws, 1 s, 10 s) ---------- *)
Lemma link_initSuccess : C14_Gen.initSuccess = 1000 /\ Model.initSuccess = C14_Gen.initSuccess.
Proof. split; reflexivity. Qed.
Lemma link_throttleSuccess : C14_Gen.throttleSuccess = 500 /\ Model.throttleSuccess = C14_Gen.throttleSuccess.
Proof. split; reflexivity. Qed.
Lemma link_pickTimes : C14_Gen.pickTimes = 3 /\ Z.of_nat Model.pickTimes = C14_Gen.pickTimes.
Proof. split; reflexivity. Qed.
Lemma link_forcePick : C14_Gen.forcePick = 1000000000 /\ Model.forcePick = C14_Gen.forcePick.
Proof. split; reflexivity. Qed.
Lemma link_logInterval : C14_Gen.logInterval = 60 * 1000000000 /\ Model.logInterval = C14_Gen.logInterval.
Proof. split; reflexivity. Qed.
Lemma link_decayTime : C14_Gen.decayTime = 10 * 1000000000 /\ Model.decayTime = C14_Gen.decayTime.
Proof. split; reflexivity. Qed.
(* the Spec's stale/spread bound and unhealthy threshold are these constants *)
Lemma link_spec_stale now p : stale now p <-> now - p > C14_Gen.forcePick.
Proof. reflexivity. Qed.
Lemma link_spec_unhealthy c : healthy c = false <-> unhealthy (success c).
Proof. unfold healthy, unhealthy. change throttleSuccess with 500. rewrite Z.gtb_ltb, Z.ltb_ge. reflexivity. Qed.

(* ---------- codes.Acceptable: the generated case table, read with grpc's code numbering ---------- *)
Definition code_names : list (string * Z) :=
  [("codes.OK", 0); ("codes.Canceled", 1); ("codes.Unknown", 2); ("codes.InvalidArgument", 3);
   ("codes.DeadlineExceeded", 4); ("codes.NotFound", 5); ("codes.AlreadyExists", 6);
   ("codes.PermissionDenied", 7); ("codes.ResourceExhausted", 8); ("codes.FailedPrecondition", 9);
   ("codes.Aborted", 10); ("codes.OutOfRange", 11); ("codes.Unimplemented", 12); ("codes.Internal", 13);
   ("codes.Unavailable", 14); ("codes.DataLoss", 15); ("codes.Unauthenticated", 16)]%string.

Definition name_code (n : string) : option Z := alookup String.eqb n code_names.

Definition row_matches (code : Z) (row : list string * string) : bool :=
  existsb (fun n => match name_code n with Some c => c =? code | None => false end) (fst row).

(* first clause listing the code, else the default clause (the one without constants) *)
Definition gen_acceptable (code : Z) : option bool :=
  let rows := C14_Gen.acceptable_cases in
  let res := match find (row_matches code) rows with
             | Some r => Some (snd r)
             | None => option_map snd (find (fun r => match fst r with [] => true | _ => false end) rows)
             end in
  match res with
  | Some r => if String.eqb r "true" then Some true else if String.eqb r "false" then Some false else None
  | None => None
  end.

Lemma link_acceptable_names :
  forallb (fun n => match name_code n with Some _ => true | None => false end)
          (flat_map fst C14_Gen.acceptable_cases) = true.
Proof. vm_compute. reflexivity. Qed.

Lemma link_acceptable : forall code, 0 <= code <= 16 -> gen_acceptable code = Some (acceptable code).
Proof.
  intros code H.
  assert (E : forallb (fun c => match gen_acceptable c with Some b => Bool.eqb b (acceptable c) | None => false end)
                      (map Z.of_nat (seq 0 17)) = true) by (vm_compute; reflexivity).
  rewrite forallb_forall in E. specialize (E code).
  assert (Hin : In code (map Z.of_nat (seq 0 17))).
  { apply in_map_iff. exists (Z.to_nat code). split; [lia|]. apply in_seq. lia. }
  specialize (E Hin). destruct (gen_acceptable code) as [b|]; [|discriminate].
  apply eqb_prop in E. congruence.
Qed.

(* ---------- call skeletons: the structure the model transcribes ---------- *)
Lemma link_pick_calls : C14_Gen.pick_calls =
  ["p.lock.Lock"; "defer:p.lock.Unlock"; "len"; "return"; "p.choose"; "p.choose"; "len"; "p.r.Intn"; "len"; "p.r.Intn";
   "node1.healthy"; "node2.healthy"; "p.choose"; "atomic.AddInt64"; "atomic.AddInt64"; "p.buildDoneFunc"; "return"]%string.
Proof. reflexivity. Qed.
Lemma link_choose_calls : C14_Gen.choose_calls =
  ["timex.Now"; "int64"; "atomic.StoreInt64"; "return"; "c1.load"; "c2.load"; "atomic.LoadInt64";
   "atomic.CompareAndSwapInt64"; "return"; "atomic.StoreInt64"; "return"]%string.
Proof. reflexivity. Qed.
Lemma link_done_calls : C14_Gen.done_calls =
  ["timex.Now"; "int64"; "atomic.AddInt64"; "timex.Now"; "int64"; "atomic.SwapInt64"; "int64"; "float64"; "float64";
   "math.Exp"; "int64"; "atomic.LoadUint64"; "uint64"; "ewma"; "atomic.StoreUint64"; "codes.Acceptable";
   "atomic.LoadUint64"; "uint64"; "ewma"; "atomic.StoreUint64"; "p.stamp.Load"; "p.stamp.CompareAndSwap";
   "p.logStats"; "return"]%string.
Proof. reflexivity. Qed.
Lemma link_ewma_calls : C14_Gen.ewma_calls = ["float64"; "float64"; "uint64"; "return"; "return"; "return"]%string.
Proof. reflexivity. Qed.
Lemma link_healthy_calls : C14_Gen.healthy_calls = ["atomic.LoadUint64"; "return"]%string.
Proof. reflexivity. Qed.
Lemma link_load_calls : C14_Gen.load_calls =
  ["atomic.LoadUint64"; "float64"; "math.Sqrt"; "int64"; "atomic.LoadInt64"; "return"; "return"]%string.
Proof. reflexivity. Qed.

(* ---------- the binary64 instance used by model_ok ---------- *)
(* bit patterns decode to the intended floats; weight 0 returns the sample (hypothesis of
   c14_lag_between_min_max) and a weight < 1 lowers a positive score (hypothesis of
   c14_all_fail_unhealthy_within_500) on sample values; on every value met they are checked by model_ok *)
Lemma link_float_bits :
  Prim2SF (float_of_bits one_bits) = Prim2SF 1%float /\ Prim2SF (float_of_bits 0) = Prim2SF 0%float /\
  Prim2SF (float_of_bits 4602678819172646912) = Prim2SF 0.5%float.
Proof. vm_compute. repeat split; reflexivity. Qed.

Lemma link_fexprF_samples :
  forallb (fun x => fexprF 0 0 x =? x) [0; 1; 999; 5000000; 82153552; 3600000000000; 9007199254740991] = true /\
  forallb (fun o => fexprF 4607182418800017407 (* 1 - 2^-53 *) o 0 <? o) [1; 2; 499; 500; 501; 999; 1000] = true /\
  (* the roundings the clamp repairs: td = 15715050020 ns and td = 31947779410 ns *)
  fexprF 4596652365501547758 1000 1000 = 999 /\ ewma Z fexprF 1000 1000 4596652365501547758 = 1000 /\
  fexprF 4586066030704554025 82153552 82153552 = 82153551 /\ ewma Z fexprF 82153552 82153552 4586066030704554025 = 82153552.
Proof. vm_compute. repeat split; reflexivity. Qed.

Lemma link_fsqrtF_samples :
  forallb (fun x => fsqrtF x =? Z.sqrt x) [1; 2; 3; 4; 15; 16; 17; 5000001; 82153553; 3600000000001; 4503599627370496] = true.
Proof. vm_compute. reflexivity. Qed.

(* ---------- soundness of the executable forms used by spec_ok ---------- *)
Lemma min_l_spec l : l <> [] -> In (min_l l) l /\ forall y, In y l -> min_l l <= y.
Proof.
  unfold min_l. destruct l as [|a l]; [congruence|]. intros _. cbn [hd].
  assert (G : forall m, In (fold_right Z.min a m) (a :: m) /\ forall y, In y m -> fold_right Z.min a m <= y).
  { induction m as [|b m IH]; cbn [fold_right].
    - split; [left; reflexivity|intros y []].
    - destruct IH as (I1 & I2). split.
      + destruct (Z.min_spec b (fold_right Z.min a m)) as [(_ & ->)|(_ & ->)]; [right; left; reflexivity|].
        destruct I1 as [<-|I1]; [left; reflexivity|right; right; exact I1].
      + intros y [<-|Hy]; [lia|]. specialize (I2 y Hy). lia. }
  destruct (G (a :: l)) as (I1 & I2). split.
  - destruct I1 as [<-|I1]; [left; reflexivity|exact I1].
  - exact I2.
Qed.

Lemma max_l_spec l : l <> [] -> In (max_l l) l /\ forall y, In y l -> y <= max_l l.
Proof.
  unfold max_l. destruct l as [|a l]; [congruence|]. intros _. cbn [hd].
  assert (G : forall m, In (fold_right Z.max a m) (a :: m) /\ forall y, In y m -> y <= fold_right Z.max a m).
  { induction m as [|b m IH]; cbn [fold_right].
    - split; [left; reflexivity|intros y []].
    - destruct IH as (I1 & I2). split.
      + destruct (Z.max_spec b (fold_right Z.max a m)) as [(_ & ->)|(_ & ->)]; [|right; left; reflexivity].
        destruct I1 as [<-|I1]; [left; reflexivity|right; right; exact I1].
      + intros y [<-|Hy]; [lia|]. specialize (I2 y Hy). lia. }
  destruct (G (a :: l)) as (I1 & I2). split.
  - destruct I1 as [<-|I1]; [left; reflexivity|exact I1].
  - exact I2.
Qed.

(* the lag clause of spec_ok is exactly Spec.within_samples *)
Lemma within_samples_exec l x :
  l <> [] -> ((min_l l <=? x) && (x <=? max_l l) = true <-> within_samples l x).
Proof.
  intro Hl. destruct (min_l_spec l Hl) as (A1 & A2). destruct (max_l_spec l Hl) as (B1 & B2).
  unfold within_samples. rewrite andb_true_iff, Z.leb_le, Z.leb_le. split.
  - intros (H1 & H2) _. split; [exists (min_l l)|exists (max_l l)]; auto.
  - intro H. destruct (H Hl) as ((a & Ia & La) & (b & Ib & Lb)). specialize (A2 a Ia). specialize (B2 b Ib). lia.
Qed.

(* the score clauses of spec_ok are Spec.score_ok / Spec.toward *)
Lemma score_ok_exec s : (0 <=? s) && (s <=? 1000) = true <-> score_ok s.
Proof. unfold score_ok. rewrite andb_true_iff, Z.leb_le, Z.leb_le. reflexivity. Qed.
Lemma toward_exec old t new : (Z.min old t <=? new) && (new <=? Z.max old t) = true <-> toward old t new.
Proof. unfold toward. rewrite andb_true_iff, Z.leb_le, Z.leb_le. reflexivity. Qed.

(* ---------- client wiring (rpc/internal/client.go) ---------- *)
(* the balancer registers under the name the client's service config asks for, and that is "p2c_ewma" *)
Lemma link_p2c_name : C14_Gen.Name = p2c_name /\ p2c_name = "p2c_ewma"%string /\
  svc_json C14_Gen.Name = "{""loadBalancingPolicy"":""p2c_ewma""}"%string.
Proof. repeat split; reflexivity. Qed.

(* NewClient: Sprintf the service config, wrap it with WithDialOption, PREPEND it (append([]ClientOption{..}, opts...)), dial *)
Lemma link_newclient_calls : C14_Gen.newclient_calls =
  ["fmt.Sprintf"; "grpc.WithDefaultServiceConfig"; "WithDialOption"; "append"; "cli.dial"; "return"; "return"]%string.
Proof. reflexivity. Qed.

(* buildDialOptions: apply every option; insecure / block by flag; the two chains; then append cliOpts.DialOptions *)
Lemma link_build_calls : C14_Gen.build_calls =
  ["opt"; "<*ast.ArrayType>"; "insecure.NewCredentials"; "grpc.WithTransportCredentials"; "append"; "grpc.WithBlock"; "append";
   "clientinterceptors.TimeoutInterceptor"; "WithUnaryClientInterceptors"; "WithStreamClientInterceptors"; "append"; "append";
   "return"]%string.
Proof. reflexivity. Qed.

(* every ClientOption that touches DialOptions does so through exactly one append; the flag options touch nothing *)
Lemma link_option_calls :
  C14_Gen.with_dialoption_calls = ["append"; "return"]%string /\
  C14_Gen.with_nonblock_calls = ["return"]%string /\
  C14_Gen.with_timeout_calls = ["return"]%string /\
  C14_Gen.with_creds_calls = ["grpc.WithTransportCredentials"; "append"; "return"]%string /\
  C14_Gen.with_unary_calls = ["WithUnaryClientInterceptors"; "append"; "return"]%string /\
  C14_Gen.with_stream_calls = ["WithStreamClientInterceptors"; "append"; "return"]%string /\
  C14_Gen.unary_chain_calls = ["grpc.WithChainUnaryInterceptor"; "return"]%string /\
  C14_Gen.stream_chain_calls = ["grpc.WithChainStreamInterceptor"; "return"]%string.
Proof. repeat split; reflexivity. Qed.

(* the model's options are the ones with an append in their skeleton: exactly those grow `dials` *)
Lemma link_appending_options c o :
  List.length (dials (apply_opt c o)) =
  (List.length (dials c) + match o with WithNonBlock | WithTimeout _ => 0 | _ => 1 end)%nat.
Proof. destruct o; cbn [apply_opt dials]; rewrite ?app_length; cbn [List.length]; lia. Qed.

(* the checker's reading of the observations is the Spec's: label -2 present <-> wired *)
Lemma link_label_wired ds : existsb (Z.eqb (-2)) (map label_of ds) = true <-> exists p, In (DSvcCfg p) ds.
Proof.
  rewrite existsb_exists. split.
  - intros (x & Hin & Hx). apply in_map_iff in Hin as (d & Hd & Hin). apply Z.eqb_eq in Hx. subst x.
    destruct d; cbn in Hx; try lia; eauto.
  - intros (p & Hin). exists (-2). split; [|reflexivity]. apply in_map_iff. exists (DSvcCfg p). auto.
Qed.

(* ---------- picker construction: one append per entry of the ReadySCs map, nothing keyed by Address ---------- *)
Lemma link_build_picker_calls : C14_Gen.build_picker_calls =
  ["len"; "base.NewErrPicker"; "return"; "append"; "time.Now().UnixNano"; "rand.NewSource"; "rand.New";
   "syncx.NewAtomicDuration"; "return"]%string.
Proof. reflexivity. Qed.

(* the model's Build makes exactly one connection per entry, in iteration order, ignoring the addresses *)
Lemma link_build_ready start (ready : ready_set) order s0 :
  build_ready start ready order = Some s0 -> map scid (conns s0) = order /\ order <> [].
Proof.
  assert (G : forall l, map scid (map new_conn l) = l).
  { induction l as [|x l IH]; cbn [map]; [reflexivity|]. rewrite IH. reflexivity. }
  unfold build_ready, build. intro H. assert (E : s0 = mkst start (map new_conn order) 0 [] /\ order <> []).
  { destruct order; [discriminate|]. inversion H. split; [reflexivity|discriminate]. }
  destruct E as (-> & Hne). cbn [conns]. split; [apply G|exact Hne].
Qed.

(* newBuilder: the picker builder goes through base.NewBalancerBuilder (with base.Config{HealthCheck: true}; the
   flag itself is observed on the registered builder by the multi-picker driver and required by model_ok/spec_ok) *)
Lemma link_newbuilder_calls : C14_Gen.newbuilder_calls = ["new"; "base.NewBalancerBuilder"; "return"]%string.
Proof. reflexivity. Qed.
