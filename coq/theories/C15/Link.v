(* C15 Link: what is regenerated from the Go source on every run (constants, call skeletons of the functions
   the model transcribes) is what the model was written from; the executable checkers of Exec.v compute the
   notions the theorems speak of. *)
From God Require Import Base.Prelude C15.Spec C15.Model C15.Proofs C15.Exec.
From GodGen Require C15_Gen.
From Coq Require Import String.
Local Open Scope string_scope.

(* keys under a subscriber's prefix are `key` + '/' (makeKeyPrefix); the timing constants only pace retries *)
Lemma link_delimiter : C15_Gen.Delimiter = 47%Z.            (* '/' *)
Proof. reflexivity. Qed.
Lemma link_cooldown : C15_Gen.coolDownInterval = (1 * 1000000000)%Z.
Proof. reflexivity. Qed.
Lemma link_autosync : C15_Gen.autoSyncInterval = (60 * 1000000000)%Z.
Proof. reflexivity. Qed.
Lemma link_request_timeout : C15_Gen.requestTimeout = (3 * 1000000000)%Z.
Proof. reflexivity. Qed.
Lemma link_ttl : C15_Gen.TimeToLive = 10%Z.
Proof. reflexivity. Qed.

(* Model.step (Subscribe): replay getCurrent as OnAdd when the cluster exists, then cluster.monitor *)
Lemma link_Monitor : C15_Gen.calls_Monitor =
  ["r.getCluster"; "c.getCurrent"; "l.OnAdd"; "c.monitor"; "return"].
Proof. reflexivity. Qed.

(* ... register the listener, load (= handle_changes on the snapshot), one more watch stream *)
Lemma link_monitor : C15_Gen.calls_monitor =
  ["c.lock.Lock"; "append"; "c.lock.Unlock"; "c.getClient"; "return"; "c.load"; "c.watch"; "c.watchGroup.Run"; "return"].
Proof. reflexivity. Qed.

(* Model.step (Reload): stop all streams (waiting for them with c.lock released), then per listened key load and one watch (nwatch := 1) *)
Lemma link_reload : C15_Gen.calls_reload =
  ["c.reloadLock.Lock"; "defer:c.reloadLock.Unlock"; "c.lock.Lock"; "close"; "c.lock.Unlock"; "group.Wait"; "c.lock.Lock"; "make";
   "threading.NewRoutineGroup"; "append"; "c.lock.Unlock"; "c.load"; "c.watch"; "c.watchGroup.Run"].
Proof. reflexivity. Qed.

(* D23: the watch group is awaited with c.lock RELEASED (a stream goroutine that has just taken a response needs the
   lock in handleWatchEvents before it can see c.done closed): walking the skeleton, no c.lock is held at a Wait *)
Fixpoint waits_unlocked (held : bool) (l : list string) : bool :=
  match l with
  | [] => true
  | x :: r =>
      if String.eqb x "c.lock.Lock" then waits_unlocked true r
      else if String.eqb x "c.lock.Unlock" then waits_unlocked false r
      else if String.eqb x "group.Wait" || String.eqb x "c.watchGroup.Wait" then negb held && waits_unlocked held r
      else waits_unlocked held r
  end.

Lemma link_reload_waits_unlocked :
  waits_unlocked false C15_Gen.calls_reload = true /\
  existsb (fun x => String.eqb x "group.Wait" || String.eqb x "c.watchGroup.Wait") C15_Gen.calls_reload = true.
Proof. split; reflexivity. Qed.

(* Model.snapshot_of: Get(makeKeyPrefix(key), WithPrefix) handed to handleChanges *)
Lemma link_load : C15_Gen.calls_load =
  ["c.context"; "context.WithTimeout"; "makeKeyPrefix"; "clientv3.WithPrefix"; "cli.Get"; "cancel"; "logx.Error";
   "time.Sleep"; "string"; "string"; "append"; "c.handleChanges"; "return"].
Proof. reflexivity. Qed.

(* Model.handle_changes: under the lock compute add/remove; outside it OnAdd for all adds, then OnDelete *)
Lemma link_handleChanges : C15_Gen.calls_handleChanges =
  ["c.lock.Lock"; "<*ast.ArrayType>"; "append"; "make"; "make"; "append"; "append"; "c.lock.Unlock"; "l.OnAdd"; "l.OnDelete"].
Proof. reflexivity. Qed.

(* Model.watch_put / watch_del *)
Lemma link_handleWatchEvents : C15_Gen.calls_handleWatchEvents =
  ["c.lock.Lock"; "<*ast.ArrayType>"; "append"; "c.lock.Unlock";
   "c.lock.Lock"; "string"; "string"; "string"; "string"; "c.lock.Unlock"; "string"; "string"; "l.OnAdd";
   "c.lock.Lock"; "string"; "delete"; "c.lock.Unlock"; "string"; "string"; "l.OnDelete"; "logx.Errorf"].
Proof. reflexivity. Qed.

(* the reconnect path the driver reproduces with a scripted connection *)
Lemma link_watchConnState : C15_Gen.calls_watchConnState =
  ["newStateWatcher"; "go:c.reload"; "watcher.addListener"; "cli.ActiveConnection"; "watcher.watch"].
Proof. reflexivity. Qed.
Lemma link_updateState : C15_Gen.calls_updateState = ["conn.GetState"; "w.notifyListeners"].
Proof. reflexivity. Qed.
Lemma link_getCurrent : C15_Gen.calls_getCurrent = ["c.lock.Lock"; "defer:c.lock.Unlock"; "append"; "return"].
Proof. reflexivity. Qed.

(* Model.on_add / on_delete / add_kv / remove_key / do_remove_key / notify_change / get_values *)
Lemma link_OnAdd : C15_Gen.calls_OnAdd = ["c.addKv"; "c.notifyChange"].
Proof. reflexivity. Qed.
Lemma link_OnDelete : C15_Gen.calls_OnDelete = ["c.removeKey"; "c.notifyChange"].
Proof. reflexivity. Qed.
Lemma link_addKv : C15_Gen.calls_addKv =
  ["c.lock.Lock"; "defer:c.lock.Unlock"; "c.dirty.Set"; "<*ast.ArrayType>"; "append"; "len"; "c.doRemoveKey"; "append";
   "return"; "return"].
Proof. reflexivity. Qed.
Lemma link_removeKey : C15_Gen.calls_removeKey = ["c.lock.Lock"; "defer:c.lock.Unlock"; "c.dirty.Set"; "c.doRemoveKey"].
Proof. reflexivity. Qed.
Lemma link_doRemoveKey : C15_Gen.calls_doRemoveKey = ["return"; "delete"; "append"; "len"; "delete"].
Proof. reflexivity. Qed.
Lemma link_notifyChange : C15_Gen.calls_notifyChange =
  ["c.lock.Lock"; "(<*ast.ArrayType>)"; "append"; "c.lock.Unlock"; "listener"].
Proof. reflexivity. Qed.
Lemma link_getValues : C15_Gen.calls_getValues =
  ["c.dirty.True"; "c.snapshot.Load"; "return"; "c.lock.Lock"; "defer:c.lock.Unlock"; "append"; "c.snapshot.Store";
   "c.dirty.Set"; "return"].
Proof. reflexivity. Qed.
(* the driver builds the container the way NewSubscriber does and hands it to Registry.Monitor *)
Lemma link_NewSubscriber : C15_Gen.calls_NewSubscriber =
  ["opt"; "newContainer"; "internal.GetRegistry().Monitor"; "return"; "return"].
Proof. reflexivity. Qed.

Local Close Scope string_scope.

(* ---------------------------------------------------------------- soundness of Exec's helpers *)
(* infos lists (Spec store, synced) after every non-empty prefix of the history *)
Lemma infos_gen u h : forall pre,
  infos u (spec_etcd pre) (sync_state u pre) h =
  map (fun j => (spec_etcd (pre ++ firstn (S j) h), synced u (pre ++ firstn (S j) h))) (seq 0 (List.length h)).
Proof.
  induction h as [|e h IH]; intro pre; [reflexivity|]. cbn [infos List.length seq map].
  rewrite <- seq_shift, map_map.
  assert (E1 : spec_step (spec_etcd pre) e = spec_etcd (pre ++ [e])) by (unfold spec_etcd; rewrite fold_left_app; reflexivity).
  assert (E2 : sync_step u (sync_state u pre) e = sync_state u (pre ++ [e])) by (rewrite sync_snoc; reflexivity).
  rewrite E1, E2, IH. f_equal.
  apply map_ext. intro j. rewrite (firstn_cons (S j) e h), <- !app_assoc. reflexivity.
Qed.

Lemma link_infos u h j : j < List.length h ->
  nth_error (infos u [] (false, false) h) j = Some (spec_etcd (firstn (S j) h), synced u (firstn (S j) h)).
Proof.
  intro L. change (infos u [] (false, false) h) with (infos u (spec_etcd []) (sync_state u []) h).
  rewrite infos_gen. simpl app.
  rewrite (nth_error_map (fun j => (spec_etcd (firstn (S j) h), synced u (firstn (S j) h)))).
  replace (nth_error (seq 0 (List.length h)) j) with (Some j); [reflexivity|].
  symmetry. rewrite nth_error_nth' with (d := 0) by (rewrite seq_length; assumption). rewrite seq_nth by assumption. reflexivity.
Qed.

(* calls_consistent decides the proviso: it exhibits the key -> value function *)
Fixpoint first_val (k : key) (l : list call) : val :=
  match l with
  | [] => 0
  | CAdd k' v :: r => if Nat.eqb k k' then v else first_val k r
  | CDel _ :: r => first_val k r
  end.

Lemma link_calls_consistent l : forall seen, calls_consistent seen l = true ->
  calls_ok (fun k => match kget k seen with Some v => v | None => first_val k l end) l.
Proof.
  induction l as [|[k v|k] r IH]; intros seen H; [constructor| |].
  - simpl in H. destruct (kget k seen) as [v'|] eqn:G.
    + apply andb_true_iff in H as [H1 H2]. apply Nat.eqb_eq in H1; subst v'. constructor.
      * simpl. rewrite G. reflexivity.
      * eapply Forall_impl; [|apply (IH seen H2)]. intros [k0 v0|k0]; simpl; [|auto].
        destruct (kget k0 seen) eqn:G0; [auto|]. destruct (Nat.eqb k0 k) eqn:Q; [|auto].
        apply Nat.eqb_eq in Q; subst. congruence.
    + constructor.
      * simpl. rewrite G, Nat.eqb_refl. reflexivity.
      * eapply Forall_impl; [|apply (IH _ H)]. intros [k0 v0|k0]; simpl; [|auto].
        unfold kget. simpl. fold (kget k0 seen). destruct (Nat.eqb k0 k) eqn:Q; [|auto].
        apply Nat.eqb_eq in Q; subst. rewrite G. auto.
  - simpl in H. constructor; [exact I|]. eapply Forall_impl; [|apply (IH seen H)]. intros [k0 v0|k0]; simpl; auto.
Qed.

(* ---------------------------------------------------------------- the resolver's Build *)
Local Open Scope string_scope.
Lemma link_Build : C15_Gen.calls_Build =
  ["targets.GetAuthority"; "return"; "strings.FieldsFunc"; "targets.GetEndpoints"; "discov.NewSubscriber"; "return";
   "sub.Values"; "subset"; "append"; "cc.UpdateState"; "logx.Error"; "sub.AddListener"; "update"; "return"].
Proof. reflexivity. Qed.

(* the order of Build's three effects, read off the regenerated skeleton, is the model's build_order:
   the listener is registered BEFORE the initial push (the hypothesis of c15_resolver_no_lost_update) *)
Definition bstep_of (s : string) : list bstep :=
  if String.eqb s "discov.NewSubscriber" then [BSubscribe]
  else if String.eqb s "sub.AddListener" then [BListen]
  else if String.eqb s "update" then [BPush]
  else [].

Lemma link_build_order : flat_map bstep_of C15_Gen.calls_Build = build_order.
Proof. reflexivity. Qed.

(* the closure `update` pushes the subscriber's values through subset to cc.UpdateState *)
Lemma link_update_body :
  filter (fun s => String.eqb s "sub.Values" || String.eqb s "subset" || String.eqb s "cc.UpdateState") C15_Gen.calls_Build =
  ["sub.Values"; "subset"; "cc.UpdateState"].
Proof. reflexivity. Qed.

Lemma link_subsetSize : C15_Gen.subsetSize = 32%Z.
Proof. reflexivity. Qed.
Local Close Scope string_scope.

(* ---------------------------------------------------------------- round 4: publisher, watch stream *)
Local Open Scope string_scope.
(* Model.p_register + `p.lease = ...`: KeepAlive = GetConn; register; keepAliveAsync *)
Lemma link_KeepAlive : C15_Gen.calls_KeepAlive =
  ["internal.GetRegistry().GetConn"; "return"; "p.register"; "return"; "p.Stop"; "proc.AddWrapUpListener"; "p.keepAliveAsync"; "return"].
Proof. reflexivity. Qed.
(* Grant, then Put of the full key WithLease *)
Lemma link_register : C15_Gen.calls_register =
  ["client.Ctx"; "client.Grant"; "return"; "makeEtcdKey"; "int64"; "makeEtcdKey"; "client.Ctx"; "clientv3.WithLease"; "client.Put"; "return"].
Proof. reflexivity. Qed.
(* Model.pstep: channel closed -> revoke, KeepAlive, return; pause -> revoke, then resume -> KeepAlive | quit; quit -> revoke *)
Lemma link_keepAliveAsync : C15_Gen.calls_keepAliveAsync =
  ["client.Ctx"; "client.KeepAlive"; "return"; "select";
   "case:"; "recv:ch"; "p.revoke"; "p.KeepAlive"; "err.Error"; "logx.Errorf"; "return";
   "case:"; "recv:p.pauseChan"; "logx.Infof"; "p.revoke"; "select";
   "case:"; "recv:p.resumeChan"; "p.KeepAlive"; "err.Error"; "logx.Errorf"; "return";
   "case:"; "recv:p.quit.Done()"; "return";
   "case:"; "recv:p.quit.Done()"; "p.revoke"; "return";
   "threading.GoSafe"; "return"].
Proof. reflexivity. Qed.
Lemma link_revoke : C15_Gen.calls_revoke = ["client.Ctx"; "client.Revoke"; "logx.Error"].
Proof. reflexivity. Qed.
Lemma link_Stop : C15_Gen.calls_Stop = ["p.quit.Close"].
Proof. reflexivity. Qed.
(* one response = one handleWatchEvents call with all its events (Model.apply_batch) *)
Lemma link_watchStream : C15_Gen.calls_watchStream =
  ["c.context"; "clientv3.WithRequireLeader"; "makeKeyPrefix"; "clientv3.WithPrefix"; "clientv3.WithRev"; "cli.Watch";
   "c.context"; "clientv3.WithRequireLeader"; "makeKeyPrefix"; "clientv3.WithPrefix"; "cli.Watch";
   "select"; "case:"; "recv:watchCh"; "logx.Error"; "return"; "resp.Err"; "logx.Errorf"; "return"; "resp.Err"; "resp.Err";
   "logx.Errorf"; "return"; "c.handleWatchEvents"; "case:"; "recv:c.done"; "return"].
Proof. reflexivity. Qed.
Local Close Scope string_scope.

(* ---------------------------------------------------------------- round 6 *)
Local Open Scope string_scope.
(* publisher-first start-up: GetConn goes through the SAME registry entry as Monitor (getCluster), and the cluster
   that creates the client is the one whose watchConnState is started *)
Lemma link_GetConn : C15_Gen.calls_GetConn = ["r.getCluster"; "c.getClient"; "return"].
Proof. reflexivity. Qed.
Lemma link_getClient : C15_Gen.calls_getClient = ["c.newClient"; "return"; "connManager.Get"; "return"; "return"].
Proof. reflexivity. Qed.
Lemma link_newClient : C15_Gen.calls_newClient = ["NewClient"; "return"; "go:c.watchConnState"; "return"].
Proof. reflexivity. Qed.
(* Model.step Rewatch: watch keeps calling watchStream (with the revision of its load) until it is told to stop *)
Lemma link_watch : C15_Gen.calls_watch = ["c.watchStream"; "return"].
Proof. reflexivity. Qed.
Local Close Scope string_scope.

(* ---------------------------------------------------------------- round 8 *)
Local Open Scope string_scope.
(* Model.sw_run: read the state once, then for ever: wait for a change of currentState, updateState *)
Lemma link_swatch : C15_Gen.calls_swatch = ["conn.GetState"; "context.Background"; "conn.WaitForStateChange"; "w.updateState"].
Proof. reflexivity. Qed.
Local Close Scope string_scope.
