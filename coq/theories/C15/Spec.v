(* C15 Spec: the property's vocabulary. A registry store `key |-> value`, a history of publisher
   registrations (Put) / expirations (Del), each either delivered through the watch or missed (only
   visible in the next snapshot), connection recoveries (Reload) and subscribers attaching (Subscribe);
   what a subscriber must show once everything delivered has been processed. *)
From God Require Import Base.Prelude.

Definition key := nat.
Definition val := nat.
Definition amap := list (key * val).

Definition kget (k : key) (m : amap) : option val := alookup Nat.eqb k m.
Definition kset (k : key) (v : val) (m : amap) : amap := aset Nat.eqb k v m.
Definition kdel (k : key) (m : amap) : amap := aremove Nat.eqb k m.

(* The lists carried by Reload / Subscribe are scheduling oracles: the order in which Go's map iteration
   (getCurrent, the snapshot diff) happened to enumerate keys. They carry no information about the store. *)
(* one event inside a watch response *)
Inductive bev := BPut (k : key) (v : val) | BDel (k : key).
Definition bkey (b : bev) : key := match b with BPut k _ => k | BDel k => k end.
Definition bev_step (m : amap) (b : bev) : amap :=
  match b with BPut k v => kset k v m | BDel k => kdel k m end.

Inductive ev :=
| Put (k : key) (v : val) (delivered : bool)
| Del (k : key) (delivered : bool)
| Reload (oa od : list key)
| Subscribe (oc oa od : list key)
| Batch (items : list bev)    (* several changes committed together: they arrive in ONE watch response, in order *)
| GetFail                     (* the snapshot Get of a pending (re)load fails or times out; the load retries *)
| Rewatch.                    (* the server cancels the most recent watch stream (the connection stays up); the
                                 replacement stream asks for everything after the revision of its snapshot *)

(* what a listener is told *)
Inductive call := CAdd (k : key) (v : val) | CDel (k : key).

(* the true store after a history *)
Definition spec_step (m : amap) (e : ev) : amap :=
  match e with
  | Put k v _ => kset k v m
  | Del k _ => kdel k m
  | Batch items => fold_left bev_step items m
  | _ => m
  end.
Definition spec_etcd (h : list ev) : amap := fold_left spec_step h [].

Section Spec.
  Variable under : key -> bool.            (* the keys below the subscriber's prefix *)

  (* v is the value of some key currently present under the prefix *)
  Definition live (m : amap) (v : val) : Prop := exists k, under k = true /\ kget k m = Some v.

  (* "all delivered events processed, nothing missed since the last (re)load":
     (something is being watched, no change under the prefix was missed since the last snapshot) *)
  Definition sync_step (st : bool * bool) (e : ev) : bool * bool :=
    match e with
    | Put k _ d => (fst st, snd st && (d || negb (under k)))
    | Del k d => (fst st, snd st && (d || negb (under k)))
    | Reload _ _ => (fst st, snd st || fst st)
    | Subscribe _ _ _ => (true, true)
    | Batch _ => st
    | GetFail => st
    | Rewatch => (fst st, snd st || fst st)   (* the server replays everything committed since the last snapshot *)
    end.
  Definition sync_state (h : list ev) : bool * bool := fold_left sync_step h (false, false).
  Definition synced (h : list ev) : bool := fst (sync_state h) && snd (sync_state h).
End Spec.

(* the quantifier's proviso: a key carries one value during its life (vf k) *)
Definition ev_ok (vf : key -> val) (e : ev) : Prop :=
  match e with
  | Put k v _ => v = vf k
  | Batch items => Forall (fun b => match b with BPut k v => v = vf k | BDel _ => True end) items
  | _ => True
  end.
Definition consistent (vf : key -> val) (h : list ev) : Prop := Forall (ev_ok vf) h.

Definition call_ok (vf : key -> val) (c : call) : Prop :=
  match c with CAdd k v => v = vf k | CDel _ => True end.
Definition calls_ok (vf : key -> val) (l : list call) : Prop := Forall (call_ok vf) l.

(* the key -> value view a sequence of listener calls describes *)
Definition view_step (m : amap) (c : call) : amap :=
  match c with CAdd k v => kset k v m | CDel k => kdel k m end.
Definition view (l : list call) : amap := fold_left view_step l [].

(* the most recent key that published value v to this listener *)
Definition last_add_step (v : val) (acc : option key) (c : call) : option key :=
  match c with CAdd k v' => if Nat.eqb v' v then Some k else acc | CDel _ => acc end.
Definition last_add (l : list call) (v : val) : option key := fold_left (last_add_step v) l None.
