(* C15 Props: the property theorems, nothing else.
   u          : which keys lie under the subscriber's prefix
   h          : ANY history of Put/Del (delivered through the watch or missed), Reload and Subscribe events
   vf         : the proviso "each key carries one value during its life" (consistent vf h)
   run u h    : the transcription of Registry/cluster (Model.v) after h; subs = one call log per listener
   crun x ops : the transcription of a subscriber's container (exclusive iff x) after the operations ops;
                calls_of ops = log says: it received exactly the listener calls of that log, with AddListener
                and getValues interleaved at arbitrary places
   spec_etcd h, synced u h, live, last_add : Spec.v *)
From God Require Import Base.Prelude C15.Spec C15.Model C15.Proofs.

(* After any (re)load, and after delivered events with nothing missed since, the cluster knows exactly
   the store under the prefix. *)
Theorem c15_cluster_tracks : forall u h, synced u h = true ->
  exists m, cvals (run u h) = Some m /\
            forall k, kget k m = if u k then kget k (etcd (run u h)) else None.
Proof. exact cluster_tracks. Qed.
Print Assumptions c15_cluster_tracks.

(* ... where the model's store is the Spec's store. *)
Theorem c15_store_is_spec : forall u h k, kget k (etcd (run u h)) = kget k (spec_etcd h).
Proof. exact etcd_spec. Qed.
Print Assumptions c15_store_is_spec.

(* At every moment a subscriber's mapping is what the cluster knows (in exclusive mode: restricted to the
   most recent publisher of each value), and values is the inverse of mapping. *)
Theorem c15_container_tracks : forall u vf h, consistent vf h ->
  forall log, In log (subs (run u h)) -> forall x ops, calls_of ops = log ->
  let c := crun x ops in
  (forall k v, kget k (mapping c) = Some v <->
               kget k (cur (run u h)) = Some v /\ (x = true -> last_add log v = Some k)) /\
  (forall k v, (exists l, alookup Nat.eqb v (values c) = Some l /\ In k l) <-> kget k (mapping c) = Some v).
Proof. exact container_tracks. Qed.
Print Assumptions c15_container_tracks.

(* Convergence: once everything delivered is processed and nothing was missed since the last (re)load,
   getValues does not panic and lists, without repetition, exactly the values of the keys present under
   the prefix (exclusive: those whose most recent publisher is present). For every history. *)
Theorem c15_converges : forall u vf h, consistent vf h -> synced u h = true ->
  forall log, In log (subs (run u h)) -> forall x ops, calls_of ops = log ->
  exists vs, fst (get_values (crun x ops)) = Ok vs /\ NoDup vs /\
    forall v, In v vs <->
      exists k, u k = true /\ kget k (spec_etcd h) = Some v /\ (x = true -> last_add log v = Some k).
Proof. exact converges. Qed.
Print Assumptions c15_converges.

Theorem c15_converges_shared : forall u vf h, consistent vf h -> synced u h = true ->
  forall log, In log (subs (run u h)) -> forall ops, calls_of ops = log ->
  exists vs, fst (get_values (crun false ops)) = Ok vs /\ NoDup vs /\
    forall v, In v vs <-> live u (spec_etcd h) v.
Proof. exact converges_shared. Qed.
Print Assumptions c15_converges_shared.

(* Exclusive mode: a value is retained only under the most recent key that published it (and under that
   key alone); a later publisher takes the value over. *)
Theorem c15_exclusive_latest : forall vf ops, calls_ok vf (calls_of ops) ->
  forall k v, kget k (mapping (crun true ops)) = Some v ->
    last_add (calls_of ops) v = Some k /\ alookup Nat.eqb v (values (crun true ops)) = Some [k].
Proof. exact exclusive_latest. Qed.
Print Assumptions c15_exclusive_latest.

Theorem c15_exclusive_takeover : forall vf ops k2 v, calls_ok vf (calls_of ops) -> v = vf k2 ->
  forall k1, kget k1 (mapping (crun true (ops ++ [OCall (CAdd k2 v)]))) = Some v -> k1 = k2.
Proof. exact exclusive_takeover. Qed.
Print Assumptions c15_exclusive_takeover.

(* Change listeners run on every update: a func registered by AddListener has been invoked once per
   OnAdd/OnDelete that followed its registration ... *)
Theorem c15_listeners_every_update : forall x ops1 ops2,
  nth_error (listeners (crun x (ops1 ++ OListen :: ops2))) (length (listeners (crun x ops1))) =
  Some (length (calls_of ops2)).
Proof. exact listeners_every_update. Qed.
Print Assumptions c15_listeners_every_update.

(* ... and every delivered change reaches every attached listener (once per open stream, at least one
   stream being open whenever a listener is attached); a reload tells every listener the keys that
   appeared, then the keys that vanished. *)
Theorem c15_updates_reach_listeners : forall u h,
  (forall k v, u k = true ->
     subs (run u (h ++ [Put k v true])) =
       map (fun l => l ++ repeat (CAdd k v) (nwatch (run u h))) (subs (run u h)) /\
     (subs (run u h) <> [] -> 1 <= nwatch (run u h))) /\
  (forall k, u k = true -> kget k (etcd (run u h)) <> None ->
     subs (run u (h ++ [Del k true])) =
       map (fun l => l ++ repeat (CDel k) (nwatch (run u h))) (subs (run u h))) /\
  (forall oa od, subs (run u h) <> [] ->
     exists adds dels,
       subs (run u (h ++ [Reload oa od])) =
         map (fun l => l ++ map add_call adds ++ map del_call dels) (subs (run u h)) /\
       Permutation.Permutation adds (changed (to_map (snapshot_of u (run u h))) (cur (run u h))) /\
       Permutation.Permutation dels (changed (cur (run u h)) (to_map (snapshot_of u (run u h))))).
Proof.
  intros u h. split; [intros; apply put_reaches; assumption|].
  split; [intros; apply del_reaches; assumption|intros; apply reload_reaches; assumption].
Qed.
Print Assumptions c15_updates_reach_listeners.

(* A subscriber joining a cluster that is already watched is first told everything the cluster knows,
   and -- whatever was missed before -- as soon as Monitor returns it shows the live set AND holds the same
   keys as the store (every key of a shared value, not one key per value), hence the same mapping as every
   other non-exclusive subscriber: deleting keys afterwards affects all of them alike. *)
Theorem c15_late_join_current : forall u vf h oc oa od x, consistent vf h ->
  let h' := h ++ [Subscribe oc oa od] in
  let log := last (subs (run u h')) [] in
  In log (subs (run u h')) /\
  (subs (run u h) <> [] ->
     exists rest, log = map add_call (order_by oc (cur (run u h))) ++ rest /\
                  Permutation.Permutation (order_by oc (cur (run u h))) (cur (run u h))) /\
  (forall ops, calls_of ops = log ->
     exists vs, fst (get_values (crun x ops)) = Ok vs /\ NoDup vs /\
       forall v, In v vs <->
         exists k, u k = true /\ kget k (spec_etcd h') = Some v /\ (x = true -> last_add log v = Some k)) /\
  (forall ops, calls_of ops = log ->
     forall k v, kget k (mapping (crun x ops)) = Some v <->
                 u k = true /\ kget k (spec_etcd h') = Some v /\ (x = true -> last_add log v = Some k)).
Proof.
  intros u vf h oc oa od x C. destruct (late_join u vf h oc oa od x C) as (A & B & D).
  split; [exact A|]. split; [exact B|]. split; [exact D|]. apply (late_join_mapping u vf h oc oa od x C).
Qed.
Print Assumptions c15_late_join_current.

(* the keys, not only the values: at every synced point a subscriber's mapping is the store under the prefix *)
Theorem c15_mapping_converges : forall u vf h, consistent vf h -> synced u h = true ->
  forall log, In log (subs (run u h)) -> forall x ops, calls_of ops = log ->
  forall k v, kget k (mapping (crun x ops)) = Some v <->
              u k = true /\ kget k (spec_etcd h) = Some v /\ (x = true -> last_add log v = Some k).
Proof. exact mapping_converges. Qed.
Print Assumptions c15_mapping_converges.

(* at every moment (synced or not) all non-exclusive subscribers of a cluster hold the same mapping *)
Theorem c15_subscribers_agree : forall u vf h, consistent vf h ->
  forall log1 log2, In log1 (subs (run u h)) -> In log2 (subs (run u h)) ->
  forall ops1 ops2, calls_of ops1 = log1 -> calls_of ops2 = log2 ->
  forall k, kget k (mapping (crun false ops1)) = kget k (mapping (crun false ops2)).
Proof. exact subscribers_agree. Qed.
Print Assumptions c15_subscribers_agree.

(* The same (key, value) delivered any number of times (a publisher re-putting its key; one delivery per
   watch stream) followed by ONE delete of the key: the key is gone, and the value is shown only if another
   key still carries it. Exclusive or not. *)
Theorem c15_duplicate_delivery : forall vf x ops k v n, calls_ok vf (calls_of ops) -> v = vf k ->
  let c := crun x (ops ++ map OCall (repeat (CAdd k v) n) ++ [OCall (CDel k)]) in
  kget k (mapping c) = None /\
  exists vs, fst (get_values c) = Ok vs /\ NoDup vs /\
    forall v', In v' vs <-> exists k', k' <> k /\ kget k' (mapping c) = Some v'.
Proof. exact duplicate_delivery. Qed.
Print Assumptions c15_duplicate_delivery.

(* The gRPC resolver (discovBuilder.Build = NewSubscriber; AddListener(update); update()): for EVERY
   interleaving of Build's steps with calls delivered by the watch goroutines, once Build has finished the
   last state pushed to the ClientConn is the value list of a container that has received every call
   (those made during NewSubscriber and all that arrived since): no update is lost. *)
Theorem c15_resolver_no_lost_update : forall init sched,
  let r := rrun build_order init sched in
  r_todo r = [] ->
  exists ops ps, calls_of ops = init ++ arrived sched /\
                 r_pushes r = ps ++ [fst (get_values (crun false ops))].
Proof. exact resolver_no_lost_update. Qed.
Print Assumptions c15_resolver_no_lost_update.

(* ... hence at a synced point the ClientConn has last been told exactly the live values *)
Theorem c15_resolver_current : forall u vf h log init sched,
  consistent vf h -> synced u h = true -> In log (subs (run u h)) -> init ++ arrived sched = log ->
  let r := rrun build_order init sched in
  r_todo r = [] ->
  exists ps vs, r_pushes r = ps ++ [Ok vs] /\ NoDup vs /\ forall v, In v vs <-> live u (spec_etcd h) v.
Proof. exact resolver_current. Qed.
Print Assumptions c15_resolver_current.

(* the order matters: pushing before registering loses an update that arrives in between *)
Example c15_resolver_push_first_loses :
  let sched := [None; None; Some (CAdd 1 7); None] in
  let r := rrun [BSubscribe; BPush; BListen] [] sched in
  r_todo r = [] /\ r_pushes r = [Ok []] /\
  option_map (fun ops => fst (get_values (crun false ops))) (r_ops r) = Some (Ok [7]).
Proof. exact resolver_push_first_loses. Qed.

(* keys sharing a value: a late joiner that was told one key per value would drop a live value *)
Example c15_late_join_shared_keys :
  let u := fun _ : key => true in
  let h := [Subscribe [] [] []; Put 1 7 true; Put 2 7 true; Subscribe [] [] []; Del 1 true] in
  synced u h = true /\
  map (fun log => fst (get_values (crun false (map OCall log)))) (subs (run u h)) = [Ok [7]; Ok [7]] /\
  map (fun log => mapping (crun false (map OCall log))) (subs (run u h)) = [[(2, 7)]; [(2, 7)]].
Proof. vm_compute. repeat split; reflexivity. Qed.

(* Finding D5 (repaired): without `c.values[key] = m` in handleChanges the second reload diffs against the
   first snapshot; a key that appeared during one outage and vanished during a later one stays forever. *)
Example c15_stale_snapshot_regression :
  let u := fun _ : key => true in
  let h := [Subscribe [] [] []; Put 1 7 false; Reload [] []; Del 1 false; Reload [] []] in
  synced u h = true /\ spec_etcd h = [] /\
  map (fun log => fst (get_values (crun false (map OCall log)))) (subs (run u h)) = [Ok []] /\
  map (fun log => fst (get_values (crun false (map OCall log)))) (subs (run_prefix u h)) = [Ok [7]].
Proof. exact stale_snapshot_regression. Qed.

(* non-vacuity: a history inside the proviso with two subscribers, missed changes and a reload; it is
   synced, has subscribers, and they show the two live values *)
Example c15_nonvacuous :
  let u := fun k => Nat.ltb k 10 in
  let vf := fun k => if Nat.eqb k 3 then 8 else 7 in
  let h := [Subscribe [] [] []; Put 1 7 true; Put 2 7 false; Put 3 8 false; Put 11 7 true; Del 1 false;
            Reload [] []; Subscribe [] [] []; Put 1 7 true] in
  consistent vf h /\ synced u h = true /\ length (subs (run u h)) = 2 /\
  map (fun log => fst (get_values (crun false (map OCall log)))) (subs (run u h)) = [Ok [7; 8]; Ok [7; 8]].
Proof.
  split; [repeat constructor|]. vm_compute. repeat split; reflexivity.
Qed.

(* the proviso matters: a key re-published with another value between two snapshots loses its entry *)
Example c15_proviso_needed :
  let u := fun _ : key => true in
  let h := [Subscribe [] [] []; Put 1 7 true; Del 1 false; Put 1 8 false; Reload [] []] in
  synced u h = true /\ spec_etcd h = [(1, 8)] /\
  map (fun log => fst (get_values (crun false (map OCall log)))) (subs (run u h)) = [Ok [7]].
Proof. vm_compute. repeat split; reflexivity. Qed.

(* what the exclusive clause means for the value list: once the most recent publisher of a value is gone the
   value is gone, even if an earlier publisher of the same value is still registered (c15_converges, x = true) *)
Example c15_exclusive_drops_value :
  let u := fun _ : key => true in
  let h := [Subscribe [] [] []; Put 1 7 true; Put 2 7 true; Del 2 true] in
  synced u h = true /\ spec_etcd h = [(1, 7)] /\
  map (fun log => fst (get_values (crun true (map OCall log)))) (subs (run u h)) = [Ok []] /\
  map (fun log => fst (get_values (crun false (map OCall log)))) (subs (run u h)) = [Ok [7]].
Proof. vm_compute. repeat split; reflexivity. Qed.

(* ---------------------------------------------------------------- round 4 *)
(* (All theorems above quantify over histories that may contain `Batch` events: several changes arriving in ONE
   watch response, handled one after the other in order.) A batch reaches every listener as the calls of its
   events, in the order of the response, once per open stream -- so c15_converges / c15_subscribers_agree hold
   across delete-then-put and put-then-delete of one key inside a response. *)
Theorem c15_batch_in_order : forall u h items,
  subs (run u (h ++ [Batch items])) =
  map (fun l => l ++ concat (repeat (map bcall (filter (fun b => u (bkey b)) items)) (nwatch (run u h))))
      (subs (run u h)).
Proof. exact batch_reaches. Qed.
Print Assumptions c15_batch_in_order.

Example c15_batch_restart :
  let u := fun _ : key => true in
  (* an instance restarting: its key is deleted and put again within one response; and the converse *)
  let h := [Subscribe [] [] []; Put 1 7 true; Put 2 8 true; Batch [BDel 1; BPut 1 7; BPut 3 8; BDel 2]; Subscribe [] [] [];
            Batch [BPut 2 8; BDel 2]] in
  synced u h = true /\ consistent (fun k => if Nat.eqb k 1 then 7 else 8) h /\
  map (fun log => fst (get_values (crun false (map OCall log)))) (subs (run u h)) = [Ok [8; 7]; Ok [8; 7]] /\
  map (fun log => mapping (crun false (map OCall log))) (subs (run u h)) = [[(3, 8); (1, 7)]; [(1, 7); (3, 8)]].
Proof. split; [reflexivity|]. split; [repeat constructor|]. vm_compute. split; reflexivity. Qed.

(* Several prefixes subscribed on one cluster (mrun = one single-prefix cluster per prefix over the same store and
   connection events): a reload re-reads and re-watches EVERY prefix that has a listener. *)
Theorem c15_every_prefix_reloaded : forall us h oa od i, subs (mrun us h i) <> [] ->
  synced (us i) (project i (h ++ [MEv (Reload oa od)])) = true /\
  exists m, cvals (mrun us (h ++ [MEv (Reload oa od)]) i) = Some m /\
            forall k, kget k m = if us i k then kget k (etcd (mrun us (h ++ [MEv (Reload oa od)]) i)) else None.
Proof. exact every_prefix_reloaded. Qed.
Print Assumptions c15_every_prefix_reloaded.

(* The publisher (register; keep-alive loss -> revoke + re-register under a new lease, any number of times;
   Pause / Resume / Stop), against an etcd with leases: whenever it is not active NO key of it remains, and while it
   is active exactly its one key does, attached to the lease p.lease that Stop/Pause will revoke. *)
Theorem c15_publisher_unregisters : forall id v ops,
  let s := prun id v ops in
  match p_mode s with
  | PActive => p_store s = [(full_key id (p_lease s), p_lease s)] /\
               forall k', kget k' (spec_etcd (p_events s)) = if Nat.eqb k' (full_key id (p_lease s)) then Some v else None
  | _ => p_store s = [] /\ forall k', kget k' (spec_etcd (p_events s)) = None
  end.
Proof. exact prun_good. Qed.
Print Assumptions c15_publisher_unregisters.

(* ... and a subscriber lists the instance iff the publisher is active (its key lying under the prefix). *)
Theorem c15_publisher_view : forall id v ops u log cops,
  let s := prun id v ops in
  let h := Subscribe [] [] [] :: p_events s in
  In log (subs (run u h)) -> calls_of cops = log ->
  exists vs, fst (get_values (crun false cops)) = Ok vs /\ NoDup vs /\
    forall v', In v' vs <-> (p_mode s = PActive /\ u (full_key id (p_lease s)) = true /\ v' = v).
Proof. exact publisher_view. Qed.
Print Assumptions c15_publisher_view.

Example c15_publisher_nonvacuous :
  let s := prun None 7 [OStart; OLose false; OLose true; OPause; OResume; OLose false; OStop] in
  p_mode s = PStopped /\ p_store s = [] /\ p_next s = 6 /\
  p_store (prun (Some 5) 7 [OStart; OLose false; OLose true]) = [(10, 3)].
Proof. vm_compute. repeat split; reflexivity. Qed.

(* ---------------------------------------------------------------- round 5 *)
(* A snapshot Get that fails or times out (GetFail) leaves nothing behind: every attempt of load has its own
   request context, so wherever failed attempts occur in a history, cluster, store and "synced" are what they are
   without them. Hence every theorem above holds for (re)loads that only succeed after any number of failures, with
   registry changes made meanwhile: once the Get succeeds (the Reload / Subscribe event) the view is the registry
   and a watch is running again (c15_cluster_tracks, c15_converges, c15_updates_reach_listeners). *)
Theorem c15_failed_snapshot_attempts : forall u h1 h2,
  run u (h1 ++ GetFail :: h2) = run u (h1 ++ h2) /\
  sync_state u (h1 ++ GetFail :: h2) = sync_state u (h1 ++ h2) /\
  spec_etcd (h1 ++ GetFail :: h2) = spec_etcd (h1 ++ h2).
Proof. exact getfail_skip. Qed.
Print Assumptions c15_failed_snapshot_attempts.

Example c15_retry_converges :
  let u := fun _ : key => true in
  (* connection lost; the first two snapshot attempts fail while an instance leaves and another arrives *)
  let h := [Subscribe [] [] []; Put 1 7 true; GetFail; Del 1 false; GetFail; Put 2 8 false; Reload [] []; Put 3 7 true] in
  synced u h = true /\ nwatch (run u h) = 1 /\
  map (fun log => fst (get_values (crun false (map OCall log)))) (subs (run u h)) = [Ok [7; 8]].
Proof. vm_compute. repeat split; reflexivity. Qed.

(* ---------------------------------------------------------------- round 6 *)
(* The server cancels a watch stream while the connection stays up (Rewatch: channel closed / cancel response).
   watch() creates the replacement WithRev(rev+1) for the revision of that stream's snapshot, so the server sends
   everything committed since, in order -- whether it was delivered before, missed, or committed between the
   cancellation and the creation of the replacement. Afterwards nothing is missing: the history is synced again
   (so c15_cluster_tracks / c15_converges give view = registry), every listener was told the replayed changes,
   and the same number of streams is running. *)
Theorem c15_rewatch_no_gap : forall u h, subs (run u h) <> [] ->
  synced u (h ++ [Rewatch]) = true /\
  subs (run u (h ++ [Rewatch])) =
    map (fun l => l ++ map bcall (filter (fun b => u (bkey b)) (wlog (run u h)))) (subs (run u h)) /\
  nwatch (run u (h ++ [Rewatch])) = nwatch (run u h).
Proof.
  intros u h H. split; [apply rewatch_resyncs; assumption|]. apply rewatch_reaches.
  apply watching_of_subs. assumption.
Qed.
Print Assumptions c15_rewatch_no_gap.

Example c15_rewatch_example :
  let u := fun _ : key => true in
  (* svc/1 leaves and svc/2 arrives after the stream was cancelled (not delivered); the replacement replays *)
  let h := [Subscribe [] [] []; Put 1 7 true; Del 1 false; Put 2 8 false; Rewatch; Put 3 7 true] in
  synced u h = true /\
  map (fun log => fst (get_values (crun false (map OCall log)))) (subs (run u h)) = [Ok [7; 8]] /\
  map (fun log => mapping (crun false (map OCall log))) (subs (run u h)) = [[(3, 7); (2, 8)]].
Proof. vm_compute. repeat split; reflexivity. Qed.

(* Several discov:// targets built by one builder in one process (target i = key i on the cluster, mrun): every
   Build has its own subscriber and its own ClientConn, so for EVERY target, whatever was built before or after it,
   the last state pushed to its ClientConn is the live set under ITS key. *)
Theorem c15_resolver_per_target : forall us vf h i log init sched,
  consistent vf (project i h) -> synced (us i) (project i h) = true ->
  In log (subs (mrun us h i)) -> init ++ arrived sched = log ->
  let r := rrun build_order init sched in
  r_todo r = [] ->
  exists ps vs, r_pushes r = ps ++ [Ok vs] /\ NoDup vs /\ forall v, In v vs <-> live (us i) (spec_etcd (project i h)) v.
Proof. exact resolver_per_target. Qed.
Print Assumptions c15_resolver_per_target.

(* ---------------------------------------------------------------- round 8 *)
(* The connection-state watcher (sw_update = updateState applied to every state it reads). Once it has read a failed
   state, WHATEVER it reads before it reads Ready (nothing, Connecting, further failures: the connection may already be
   Ready again before its next wait, which then returns at once) the reload listeners run when it reads Ready --
   exactly once; and without a failed state read there is no reload. *)
Theorem c15_watcher_reload_once : forall w mid, w_disc w = true -> Forall (fun s => s <> SReady) mid ->
  let w' := sw_run w (mid ++ [SReady]) in
  w_notified w' = S (w_notified w) /\ w_disc w' = false /\ w_cur w' = SReady.
Proof. exact sw_reload_once. Qed.
Print Assumptions c15_watcher_reload_once.

Theorem c15_watcher_no_spurious_reload : forall rs w, w_disc w = false ->
  Forall (fun s => s <> SFailure /\ s <> SShutdown) rs ->
  w_notified (sw_run w rs) = w_notified w /\ w_disc (sw_run w rs) = false.
Proof. exact sw_no_spurious. Qed.
Print Assumptions c15_watcher_no_spurious_reload.

(* a blink the watcher never reads (Ready -> failure -> Ready between its wake-up and its GetState) is not followed by a
   reload: the code only knows the states it reads *)
Example c15_watcher_unseen_blink :
  w_notified (sw_run (mkW false SReady 0) [SReady]) = 0 /\
  w_notified (sw_run (mkW false SReady 0) [SFailure; SConnecting; SReady]) = 1.
Proof. split; reflexivity. Qed.
