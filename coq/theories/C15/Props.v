(* C15 Props: the property theorems, nothing else.
   u          : which keys lie under the subscriber's prefix
   h          : ANY history of Put/Del (delivered through the watch or missed), Reload and Subscribe events
   vf         : the proviso "each key carries one value during its life" (consistent vf h)
   run u h    : the transcription of Registry/cluster (Model.v) after h; subs = one call log per listener
   crun x ops : the transcription of a subscriber's container (exclusive iff x) after the operations ops;
                calls_of ops = log says: it received exactly the listener calls of that log, with AddListener
                and getValues interleaved at arbitrary places
   spec_etcd h, synced u h, live, last_add : Spec.v *)
From God Require Import Base.Prelude C15.Spec C15.Model C15.Proofs.

(* After any (re)load, and after delivered events with nothing missed since, the cluster knows exactly
   the store under the prefix. *)
Theorem c15_cluster_tracks : forall u h, synced u h = true ->
  exists m, cvals (run u h) = Some m /\
            forall k, kget k m = if u k then kget k (etcd (run u h)) else None.
Proof. exact cluster_tracks. Qed.
Print Assumptions c15_cluster_tracks.

(* ... where the model's store is the Spec's store. *)
Theorem c15_store_is_spec : forall u h k, kget k (etcd (run u h)) = kget k (spec_etcd h).
Proof. exact etcd_spec. Qed.
Print Assumptions c15_store_is_spec.

(* At every moment a subscriber's mapping is what the cluster knows (in exclusive mode: restricted to the
   most recent publisher of each value), and values is the inverse of mapping. *)
Theorem c15_container_tracks : forall u vf h, consistent vf h ->
  forall log, In log (subs (run u h)) -> forall x ops, calls_of ops = log ->
  let c := crun x ops in
  (forall k v, kget k (mapping c) = Some v <->
               kget k (cur (run u h)) = Some v /\ (x = true -> last_add log v = Some k)) /\
  (forall k v, (exists l, alookup Nat.eqb v (values c) = Some l /\ In k l) <-> kget k (mapping c) = Some v).
Proof. exact container_tracks. Qed.
Print Assumptions c15_container_tracks.

(* Convergence: once everything delivered is processed and nothing was missed since the last (re)load,
   getValues does not panic and lists, without repetition, exactly the values of the keys present under
   the prefix (exclusive: those whose most recent publisher is present). For every history. *)
Theorem c15_converges : forall u vf h, consistent vf h -> synced u h = true ->
  forall log, In log (subs (run u h)) -> forall x ops, calls_of ops = log ->
  exists vs, fst (get_values (crun x ops)) = Ok vs /\ NoDup vs /\
    forall v, In v vs <->
      exists k, u k = true /\ kget k (spec_etcd h) = Some v /\ (x = true -> last_add log v = Some k).
Proof. exact converges. Qed.
Print Assumptions c15_converges.

Theorem c15_converges_shared : forall u vf h, consistent vf h -> synced u h = true ->
  forall log, In log (subs (run u h)) -> forall ops, calls_of ops = log ->
  exists vs, fst (get_values (crun false ops)) = Ok vs /\ NoDup vs /\
    forall v, In v vs <-> live u (spec_etcd h) v.
Proof. exact converges_shared. Qed.
Print Assumptions c15_converges_shared.

(* Exclusive mode: a value is retained only under the most recent key that published it (and under that
   key alone); a later publisher takes the value over. *)
Theorem c15_exclusive_latest : forall vf ops, calls_ok vf (calls_of ops) ->
  forall k v, kget k (mapping (crun true ops)) = Some v ->
    last_add (calls_of ops) v = Some k /\ alookup Nat.eqb v (values (crun true ops)) = Some [k].
Proof. exact exclusive_latest. Qed.
Print Assumptions c15_exclusive_latest.

Theorem c15_exclusive_takeover : forall vf ops k2 v, calls_ok vf (calls_of ops) -> v = vf k2 ->
  forall k1, kget k1 (mapping (crun true (ops ++ [OCall (CAdd k2 v)]))) = Some v -> k1 = k2.
Proof. exact exclusive_takeover. Qed.
Print Assumptions c15_exclusive_takeover.

(* Change listeners run on every update: a func registered by AddListener has been invoked once per
   OnAdd/OnDelete that followed its registration ... *)
Theorem c15_listeners_every_update : forall x ops1 ops2,
  nth_error (listeners (crun x (ops1 ++ OListen :: ops2))) (length (listeners (crun x ops1))) =
  Some (length (calls_of ops2)).
Proof. exact listeners_every_update. Qed.
Print Assumptions c15_listeners_every_update.

(* ... and every delivered change reaches every attached listener (once per open stream, at least one
   stream being open whenever a listener is attached); a reload tells every listener the keys that
   appeared, then the keys that vanished. *)
Theorem c15_updates_reach_listeners : forall u h,
  (forall k v, u k = true ->
     subs (run u (h ++ [Put k v true])) =
       map (fun l => l ++ repeat (CAdd k v) (nwatch (run u h))) (subs (run u h)) /\
     (subs (run u h) <> [] -> 1 <= nwatch (run u h))) /\
  (forall k, u k = true -> kget k (etcd (run u h)) <> None ->
     subs (run u (h ++ [Del k true])) =
       map (fun l => l ++ repeat (CDel k) (nwatch (run u h))) (subs (run u h))) /\
  (forall oa od, subs (run u h) <> [] ->
     exists adds dels,
       subs (run u (h ++ [Reload oa od])) =
         map (fun l => l ++ map add_call adds ++ map del_call dels) (subs (run u h)) /\
       Permutation.Permutation adds (changed (to_map (snapshot_of u (run u h))) (cur (run u h))) /\
       Permutation.Permutation dels (changed (cur (run u h)) (to_map (snapshot_of u (run u h))))).
Proof.
  intros u h. split; [intros; apply put_reaches; assumption|].
  split; [intros; apply del_reaches; assumption|intros; apply reload_reaches; assumption].
Qed.
Print Assumptions c15_updates_reach_listeners.

(* A subscriber joining a cluster that is already watched is first told everything the cluster knows,
   and -- whatever was missed before -- shows the live set as soon as Monitor returns. *)
Theorem c15_late_join_current : forall u vf h oc oa od x, consistent vf h ->
  let h' := h ++ [Subscribe oc oa od] in
  let log := last (subs (run u h')) [] in
  In log (subs (run u h')) /\
  (subs (run u h) <> [] ->
     exists rest, log = map add_call (order_by oc (cur (run u h))) ++ rest /\
                  Permutation.Permutation (order_by oc (cur (run u h))) (cur (run u h))) /\
  (forall ops, calls_of ops = log ->
     exists vs, fst (get_values (crun x ops)) = Ok vs /\ NoDup vs /\
       forall v, In v vs <->
         exists k, u k = true /\ kget k (spec_etcd h') = Some v /\ (x = true -> last_add log v = Some k)).
Proof. exact late_join. Qed.
Print Assumptions c15_late_join_current.

(* Finding D5 (repaired): without `c.values[key] = m` in handleChanges the second reload diffs against the
   first snapshot; a key that appeared during one outage and vanished during a later one stays forever. *)
Example c15_stale_snapshot_regression :
  let u := fun _ : key => true in
  let h := [Subscribe [] [] []; Put 1 7 false; Reload [] []; Del 1 false; Reload [] []] in
  synced u h = true /\ spec_etcd h = [] /\
  map (fun log => fst (get_values (crun false (map OCall log)))) (subs (run u h)) = [Ok []] /\
  map (fun log => fst (get_values (crun false (map OCall log)))) (subs (run_prefix u h)) = [Ok [7]].
Proof. exact stale_snapshot_regression. Qed.

(* non-vacuity: a history inside the proviso with two subscribers, missed changes and a reload; it is
   synced, has subscribers, and they show the two live values *)
Example c15_nonvacuous :
  let u := fun k => Nat.ltb k 10 in
  let vf := fun k => if Nat.eqb k 3 then 8 else 7 in
  let h := [Subscribe [] [] []; Put 1 7 true; Put 2 7 false; Put 3 8 false; Put 11 7 true; Del 1 false;
            Reload [] []; Subscribe [] [] []; Put 1 7 true] in
  consistent vf h /\ synced u h = true /\ length (subs (run u h)) = 2 /\
  map (fun log => fst (get_values (crun false (map OCall log)))) (subs (run u h)) = [Ok [7; 8]; Ok [7; 8]].
Proof.
  split; [repeat constructor|]. vm_compute. repeat split; reflexivity.
Qed.

(* the proviso matters: a key re-published with another value between two snapshots loses its entry *)
Example c15_proviso_needed :
  let u := fun _ : key => true in
  let h := [Subscribe [] [] []; Put 1 7 true; Del 1 false; Put 1 8 false; Reload [] []] in
  synced u h = true /\ spec_etcd h = [(1, 8)] /\
  map (fun log => fst (get_values (crun false (map OCall log)))) (subs (run u h)) = [Ok [7]].
Proof. vm_compute. repeat split; reflexivity. Qed.

(* what the exclusive clause means for the value list: once the most recent publisher of a value is gone the
   value is gone, even if an earlier publisher of the same value is still registered (c15_converges, x = true) *)
Example c15_exclusive_drops_value :
  let u := fun _ : key => true in
  let h := [Subscribe [] [] []; Put 1 7 true; Put 2 7 true; Del 2 true] in
  synced u h = true /\ spec_etcd h = [(1, 7)] /\
  map (fun log => fst (get_values (crun true (map OCall log)))) (subs (run u h)) = [Ok []] /\
  map (fun log => fst (get_values (crun false (map OCall log)))) (subs (run u h)) = [Ok [7]].
Proof. vm_compute. repeat split; reflexivity. Qed.
