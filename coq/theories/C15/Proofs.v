(* C15 Proofs *)
From God Require Import Base.Prelude C15.Spec C15.Model.
From Coq Require Import Permutation.

Arguments kget : simpl never.
Arguments kset : simpl never.
Arguments kdel : simpl never.

(* ------------------------------------------------------------------ association lists *)
Section AL.
  Context {V : Type}.
  Implicit Types m : list (nat * V).

  Lemma al_remove k k' m :
    alookup Nat.eqb k (aremove Nat.eqb k' m) = if Nat.eqb k k' then None else alookup Nat.eqb k m.
  Proof.
    induction m as [|[a b] r IH]; simpl.
    - destruct (Nat.eqb k k'); reflexivity.
    - destruct (Nat.eqb k' a) eqn:E1.
      + apply Nat.eqb_eq in E1; subst a. rewrite IH. destruct (Nat.eqb k k'); reflexivity.
      + simpl. rewrite IH. destruct (Nat.eqb k a) eqn:E2; [|reflexivity].
        apply Nat.eqb_eq in E2; subst a. rewrite Nat.eqb_sym, E1. reflexivity.
  Qed.

  Lemma al_set k k' v m :
    alookup Nat.eqb k (aset Nat.eqb k' v m) = if Nat.eqb k k' then Some v else alookup Nat.eqb k m.
  Proof.
    unfold aset. simpl. destruct (Nat.eqb k k') eqn:E; [reflexivity|]. rewrite al_remove, E. reflexivity.
  Qed.

  Lemma al_in k v m : alookup Nat.eqb k m = Some v -> In (k, v) m.
  Proof.
    induction m as [|[a b] r IH]; simpl; [discriminate|].
    destruct (Nat.eqb k a) eqn:E; intro H.
    - apply Nat.eqb_eq in E; subst. inversion H; subst. left; reflexivity.
    - right; auto.
  Qed.

  Lemma al_has k m : In k (map fst m) <-> exists v, alookup Nat.eqb k m = Some v.
  Proof.
    induction m as [|[a b] r IH]; simpl.
    - split; [tauto|intros [v H]; discriminate].
    - destruct (Nat.eqb k a) eqn:E.
      + apply Nat.eqb_eq in E; subst. split; [eauto|auto].
      + apply Nat.eqb_neq in E. rewrite <- IH. split; [intros [H|H]; [congruence|assumption]|auto].
  Qed.

  Lemma in_remove x k m : In x (map fst (aremove Nat.eqb k m)) <-> x <> k /\ In x (map fst m).
  Proof.
    rewrite !al_has. setoid_rewrite al_remove. destruct (Nat.eqb x k) eqn:E.
    - apply Nat.eqb_eq in E. split; [intros [v H]; discriminate|tauto].
    - apply Nat.eqb_neq in E. tauto.
  Qed.

  Lemma nodup_remove k m : NoDup (map fst m) -> NoDup (map fst (aremove Nat.eqb k m)).
  Proof.
    induction m as [|[a b] r IH]; simpl; intro H; [constructor|]. inversion H; subst.
    destruct (Nat.eqb k a); simpl; auto. constructor; auto. rewrite in_remove. tauto.
  Qed.

  Lemma nodup_set k v m : NoDup (map fst m) -> NoDup (map fst (aset Nat.eqb k v m)).
  Proof.
    intro H. unfold aset; simpl. constructor; [rewrite in_remove; tauto|apply nodup_remove; assumption].
  Qed.
End AL.

Lemma kget_kset k k' v m : kget k (kset k' v m) = if Nat.eqb k k' then Some v else kget k m.
Proof. apply al_set. Qed.
Lemma kget_kdel k k' m : kget k (kdel k' m) = if Nat.eqb k k' then None else kget k m.
Proof. apply al_remove. Qed.

Lemma kget_filter (u : key -> bool) k m :
  kget k (filter (fun kv => u (fst kv)) m) = if u k then kget k m else None.
Proof.
  unfold kget. induction m as [|[a b] r IH]; simpl; [destruct (u k); reflexivity|].
  destruct (u a) eqn:Ua; simpl; destruct (Nat.eqb k a) eqn:E; try (apply Nat.eqb_eq in E; subst a);
    rewrite ?Ua; auto. rewrite IH, Ua. reflexivity.
Qed.

Lemma nodup_filter (f : key * val -> bool) (m : amap) : NoDup (map fst m) -> NoDup (map fst (filter f m)).
Proof.
  induction m as [|a r IH]; simpl; intro H; [constructor|]. inversion H; subst.
  destruct (f a); simpl; auto. constructor; auto. intro Hin. apply H2.
  apply in_map_iff in Hin as [x [E Hx]]. apply filter_In in Hx as [Hx _]. apply in_map_iff. eauto.
Qed.

Lemma to_map_gen kvs : forall acc k, NoDup (map fst kvs) ->
  kget k (fold_left (fun m kv => kset (fst kv) (snd kv) m) kvs acc) =
  match kget k kvs with Some v => Some v | None => kget k acc end.
Proof.
  induction kvs as [|[a b] r IH]; intros acc k H; [reflexivity|]. simpl in H. inversion H; subst.
  cbn [fold_left fst snd]. rewrite IH by assumption. rewrite kget_kset.
  change (kget k ((a, b) :: r)) with (if Nat.eqb k a then Some b else kget k r).
  destruct (Nat.eqb k a) eqn:E; [|reflexivity].
  apply Nat.eqb_eq in E; subst a.
  destruct (kget k r) eqn:G; [exfalso; apply H2; apply al_has; eauto|reflexivity].
Qed.

Lemma to_map_get kvs k : NoDup (map fst kvs) -> kget k (to_map kvs) = kget k kvs.
Proof. intro H. unfold to_map. rewrite to_map_gen by assumption. destruct (kget k kvs); reflexivity. Qed.

(* ------------------------------------------------------------------ order_by is a permutation *)
Lemma extract_perm k l x r : extract k l = Some (x, r) -> Permutation l (x :: r).
Proof.
  revert x r. induction l as [|[a b] t IH]; simpl; intros x r H; [discriminate|].
  destruct (Nat.eqb k a).
  - inversion H; subst. reflexivity.
  - destruct (extract k t) as [[y r']|] eqn:E; [|discriminate]. inversion H; subst.
    rewrite (IH _ _ eq_refl). apply perm_swap.
Qed.

Lemma pull_perm k l : Permutation (pull k l) l.
Proof. unfold pull. destruct (extract k l) as [[x r]|] eqn:E; [symmetry; eapply extract_perm; eauto|reflexivity]. Qed.

Lemma order_by_perm o l : Permutation (order_by o l) l.
Proof. induction o as [|k o IH]; simpl; [reflexivity|]. rewrite pull_perm. assumption. Qed.

Lemma order_by_in o l x : In x (order_by o l) <-> In x l.
Proof. split; apply Permutation_in; [apply order_by_perm|symmetry; apply order_by_perm]. Qed.

(* ------------------------------------------------------------------ run, one event at a time *)
Lemma run_snoc u h e : run u (h ++ [e]) = step u true (run u h) e.
Proof. unfold run, run_from. rewrite fold_left_app. reflexivity. Qed.

Lemma sync_snoc u h e : sync_state u (h ++ [e]) = sync_step u (sync_state u h) e.
Proof. unfold sync_state. rewrite fold_left_app. reflexivity. Qed.

Lemma iter_inv (P : state -> Prop) f : (forall s, P s -> P (f s)) -> forall n s, P s -> P (iter n f s).
Proof. intros H n. induction n; simpl; auto. Qed.

Lemma deliver_nil cs ss : deliver cs ss = [] <-> ss = [].
Proof. unfold deliver. destruct ss; simpl; split; congruence. Qed.

(* ------------------------------------------------------------------ the cluster tracks the store *)
Definition exact (u : key -> bool) (s : state) : Prop :=
  exists m, cvals s = Some m /\ forall k, kget k m = if u k then kget k (etcd s) else None.

Definition watching (s : state) : Prop := subs s <> [] /\ 1 <= nwatch s /\ cvals s <> None.
Definition idle (s : state) : Prop := subs s = [] /\ nwatch s = 0 /\ cvals s = None.

Lemma hc_fields oa od kvs s :
  let s' := handle_changes true oa od kvs s in
  etcd s' = etcd s /\ rev s' = rev s /\ nwatch s' = nwatch s /\ cvals s' = Some (to_map kvs) /\
  (subs s' = [] <-> subs s = []).
Proof.
  unfold handle_changes. destruct (cvals s); simpl; repeat split; try apply deliver_nil; auto;
    try (intro H; apply deliver_nil in H; assumption); intro H; apply deliver_nil; assumption.
Qed.

Lemma snapshot_exact u s oa od :
  NoDup (map fst (etcd s)) -> exact u (handle_changes true oa od (snapshot_of u s) s).
Proof.
  intro N. destruct (hc_fields oa od (snapshot_of u s) s) as (E & _ & _ & C & _).
  exists (to_map (snapshot_of u s)). split; [assumption|]. intro k. rewrite E.
  unfold snapshot_of. rewrite to_map_get by (apply nodup_filter; assumption). apply kget_filter.
Qed.

Lemma watch_put_exact u k v E s :
  u k = true -> kget k E = Some v -> etcd s = E ->
  (exists m, cvals s = Some m /\ forall k', k' <> k -> kget k' m = if u k' then kget k' E else None) ->
  etcd (watch_put k v s) = E /\ exact u (watch_put k v s).
Proof.
  intros U G Es (m & C & A). split; [assumption|]. unfold exact, watch_put; simpl. rewrite C.
  eexists; split; [reflexivity|]. intro k'. rewrite kget_kset, Es. destruct (Nat.eqb k' k) eqn:Q.
  - apply Nat.eqb_eq in Q; subst. rewrite U, G. reflexivity.
  - apply Nat.eqb_neq in Q. auto.
Qed.

Lemma watch_del_exact u k E s :
  u k = true -> kget k E = None -> etcd s = E ->
  (exists m, cvals s = Some m /\ forall k', k' <> k -> kget k' m = if u k' then kget k' E else None) ->
  etcd (watch_del k s) = E /\ exact u (watch_del k s).
Proof.
  intros U G Es (m & C & A). split; [assumption|]. unfold exact, watch_del; simpl. rewrite C. simpl.
  eexists; split; [reflexivity|]. intro k'. rewrite kget_kdel, Es. destruct (Nat.eqb k' k) eqn:Q.
  - apply Nat.eqb_eq in Q; subst. rewrite U, G. reflexivity.
  - apply Nat.eqb_neq in Q. auto.
Qed.

Lemma exact_weaken u s k : exact u s ->
  exists m, cvals s = Some m /\ forall k', k' <> k -> kget k' m = if u k' then kget k' (etcd s) else None.
Proof. intros (m & C & A). exists m; split; auto. Qed.

Lemma watching_put k v s : watching s -> watching (watch_put k v s).
Proof.
  intros (A & B & C). unfold watching, watch_put; simpl. repeat split; auto.
  - intro H. apply deliver_nil in H. auto.
  - discriminate.
Qed.

Lemma watching_del k s : watching s -> watching (watch_del k s).
Proof.
  intros (A & B & C). unfold watching, watch_del; simpl. repeat split; auto.
  - intro H. apply deliver_nil in H. auto.
  - destruct (cvals s); simpl; congruence.
Qed.

Lemma etcd_iter_put k v n s : etcd (iter n (watch_put k v) s) = etcd s /\ nwatch (iter n (watch_put k v) s) = nwatch s.
Proof. revert s. induction n; simpl; intro s; [auto|]. destruct (IHn (watch_put k v s)) as [A B]. rewrite A, B. auto. Qed.
Lemma etcd_iter_del k n s : etcd (iter n (watch_del k) s) = etcd s /\ nwatch (iter n (watch_del k) s) = nwatch s.
Proof. revert s. induction n; simpl; intro s; [auto|]. destruct (IHn (watch_del k s)) as [A B]. rewrite A, B. auto. Qed.


(* ------------------------------------------------------------------ several events in one response *)
Definition bapply (m : amap) (evs : list bev) : amap := fold_left bev_step evs m.
Definition bres (b : bev) : option val := match b with BPut _ v => Some v | BDel _ => None end.
(* the last event of the batch that concerns k *)
Definition bget (k : key) (evs : list bev) : option (option val) :=
  fold_left (fun acc b => if Nat.eqb (bkey b) k then Some (bres b) else acc) evs None.

Lemma bget_snoc k evs b : bget k (evs ++ [b]) = if Nat.eqb (bkey b) k then Some (bres b) else bget k evs.
Proof. unfold bget. rewrite fold_left_app. reflexivity. Qed.

Lemma kget_bapply evs : forall m k,
  kget k (bapply m evs) = match bget k evs with Some r => r | None => kget k m end.
Proof.
  induction evs as [|b evs IH] using rev_ind; intros m k; [reflexivity|].
  unfold bapply. rewrite fold_left_app. fold (bapply m evs). cbn [fold_left]. rewrite bget_snoc.
  destruct b as [k0 v|k0]; cbn [bev_step bkey bres]; [rewrite kget_kset|rewrite kget_kdel];
    rewrite (Nat.eqb_sym k k0); destruct (Nat.eqb k0 k); auto.
Qed.

Lemma bget_filter (u : key -> bool) items k :
  bget k (filter (fun b => u (bkey b)) items) = if u k then bget k items else None.
Proof.
  induction items as [|x items IH] using rev_ind; [destruct (u k); reflexivity|].
  rewrite filter_app. cbn [filter]. destruct (u (bkey x)) eqn:U.
  - rewrite !bget_snoc, IH. destruct (Nat.eqb (bkey x) k) eqn:Q; [|reflexivity].
    apply Nat.eqb_eq in Q; subst. rewrite U. reflexivity.
  - rewrite app_nil_r, IH, bget_snoc. destruct (Nat.eqb (bkey x) k) eqn:Q; [|reflexivity].
    apply Nat.eqb_eq in Q; subst. rewrite U. reflexivity.
Qed.

Lemma batch_pass (u : key -> bool) items E' m :
  (forall k, u k = false -> kget k m = None) ->
  (forall k, u k = true -> bget k items = None -> kget k m = kget k E') ->
  (forall k r, bget k items = Some r -> kget k E' = r) ->
  forall k, kget k (bapply m (filter (fun b => u (bkey b)) items)) = if u k then kget k E' else None.
Proof.
  intros H1 H2 H3 k. rewrite kget_bapply, bget_filter. destruct (u k) eqn:U; [|apply H1; assumption].
  destruct (bget k items) eqn:B; [symmetry; apply H3; assumption|apply H2; assumption].
Qed.

Lemma ab_cons b evs s :
  apply_batch (b :: evs) s = apply_batch evs (match b with BPut k v => watch_put k v s | BDel k => watch_del k s end).
Proof. reflexivity. Qed.

Lemma ab_etcd evs : forall s, etcd (apply_batch evs s) = etcd s /\ nwatch (apply_batch evs s) = nwatch s.
Proof.
  induction evs as [|b evs IH]; intro s; [auto|]. rewrite ab_cons. destruct (IH (match b with BPut k v => watch_put k v s | BDel k => watch_del k s end)) as [A B].
  rewrite A, B. destruct b; auto.
Qed.

Lemma ab_cvals evs : forall s m, cvals s = Some m -> cvals (apply_batch evs s) = Some (bapply m evs).
Proof.
  induction evs as [|b evs IH]; intros s m C; [assumption|]. rewrite ab_cons. destruct b as [k v|k]; cbn [bapply fold_left bev_step].
  - apply IH. unfold watch_put; simpl. rewrite C. reflexivity.
  - apply IH. unfold watch_del; simpl. rewrite C. reflexivity.
Qed.

Lemma ab_subs evs : forall s, subs (apply_batch evs s) = map (fun l => l ++ map bcall evs) (subs s).
Proof.
  induction evs as [|b evs IH]; intro s.
  - simpl. rewrite <- (map_id (subs s)) at 1. apply map_ext. intro l. rewrite app_nil_r. reflexivity.
  - rewrite ab_cons, IH. destruct b as [k v|k]; simpl; unfold deliver; rewrite map_map; apply map_ext; intro l;
      rewrite <- app_assoc; reflexivity.
Qed.

Lemma ab_watching evs : forall s, watching s -> watching (apply_batch evs s).
Proof.
  induction evs as [|b evs IH]; intros s W; [assumption|]. rewrite ab_cons. apply IH.
  destruct b; [apply watching_put|apply watching_del]; assumption.
Qed.

Lemma nodup_bapply items : forall m, NoDup (map fst m) -> NoDup (map fst (bapply m items)).
Proof.
  induction items as [|b items IH]; intros m N; [assumption|]. cbn [bapply fold_left]. apply IH.
  destruct b; [apply nodup_set|apply nodup_remove]; assumption.
Qed.

Lemma etcd_iter_batch evs n : forall s, etcd (iter n (apply_batch evs) s) = etcd s /\ nwatch (iter n (apply_batch evs) s) = nwatch s.
Proof.
  induction n; intro s; simpl; [auto|]. destruct (IHn (apply_batch evs s)) as [A B]. rewrite A, B. apply ab_etcd.
Qed.

Lemma batch_exact (u : key -> bool) items E' s :
  etcd s = E' -> (forall k r, bget k items = Some r -> kget k E' = r) ->
  (exists m, cvals s = Some m /\ (forall k, u k = false -> kget k m = None) /\
             (forall k, u k = true -> bget k items = None -> kget k m = kget k E')) ->
  etcd (apply_batch (filter (fun b => u (bkey b)) items) s) = E' /\
  exact u (apply_batch (filter (fun b => u (bkey b)) items) s).
Proof.
  intros Es H3 (m & C & H1 & H2). destruct (ab_etcd (filter (fun b => u (bkey b)) items) s) as [A _].
  split; [congruence|]. exists (bapply m (filter (fun b => u (bkey b)) items)). split; [apply ab_cvals; assumption|].
  intro k. rewrite A, Es. apply batch_pass; assumption.
Qed.

(* ------------------------------------------------------------------ the change log since the last snapshot *)
Lemma bget_app k a b : bget k (a ++ b) = match bget k b with Some r => Some r | None => bget k a end.
Proof.
  induction b as [|x b IH] using rev_ind; [rewrite app_nil_r; reflexivity|].
  rewrite app_assoc, !bget_snoc, IH. destruct (Nat.eqb (bkey x) k); reflexivity.
Qed.

Lemma bget_none k l : bget k l = None <-> (forall b, In b l -> bkey b <> k).
Proof.
  induction l as [|x l IH] using rev_ind; [split; [intros _ b []|reflexivity]|].
  rewrite bget_snoc. destruct (Nat.eqb (bkey x) k) eqn:Q.
  - apply Nat.eqb_eq in Q. split; [discriminate|]. intro H. exfalso. apply (H x); [apply in_app_iff; right; left; reflexivity|assumption].
  - apply Nat.eqb_neq in Q. rewrite IH. split; intros H b Hb.
    + apply in_app_iff in Hb as [Hb|[<-|[]]]; auto.
    + apply H. apply in_app_iff. auto.
Qed.

Lemma ab_app a b s : apply_batch (a ++ b) s = apply_batch b (apply_batch a s).
Proof. unfold apply_batch. apply fold_left_app. Qed.

Lemma iter_batch evs n : forall s, iter n (apply_batch evs) s = apply_batch (concat (repeat evs n)) s.
Proof. induction n; intro s; simpl; [reflexivity|]. rewrite IHn, ab_app. reflexivity. Qed.

Lemma iter_put_batch k v n s : iter n (watch_put k v) s = iter n (apply_batch [BPut k v]) s.
Proof. reflexivity. Qed.
Lemma iter_del_batch k n s : iter n (watch_del k) s = iter n (apply_batch [BDel k]) s.
Proof. reflexivity. Qed.

Lemma ab_wlog evs : forall s, wlog (apply_batch evs s) = wlog s.
Proof.
  induction evs as [|b evs IH]; intro s; [reflexivity|]. rewrite ab_cons, IH. destruct b; reflexivity.
Qed.

Definition loginv (u : key -> bool) (s : state) : Prop :=
  (forall k r, bget k (wlog s) = Some r -> kget k (etcd s) = r) /\
  (cvals s = None -> nwatch s = 0) /\
  (forall m, cvals s = Some m ->
     (forall k, u k = false -> kget k m = None) /\
     (forall k, u k = true -> bget k (wlog s) = None -> kget k m = kget k (etcd s))).

(* a change of the store, logged *)
Lemma loginv_base u s items r :
  loginv u s ->
  loginv u (mkS (fold_left bev_step items (etcd s)) r (cvals s) (subs s) (nwatch s) (wlog s ++ items)).
Proof.
  intros (L1 & L0 & L2). fold (bapply (etcd s) items). split; [|split]; simpl.
  - intros k x. rewrite bget_app, kget_bapply. destruct (bget k items); [intro H; inversion H; reflexivity|apply L1].
  - assumption.
  - intros m C. destruct (L2 m C) as [A B]. split; [assumption|]. intros k U. rewrite bget_app, kget_bapply.
    destruct (bget k items); [discriminate|]. apply B. assumption.
Qed.

(* events already in the log (under the prefix) handled by a stream *)
Lemma loginv_deliver u s pl : cvals s <> None ->
  (forall b, In b pl -> u (bkey b) = true /\ exists b', In b' (wlog s) /\ bkey b' = bkey b) ->
  loginv u s -> loginv u (apply_batch pl s).
Proof.
  intros NN P (L1 & L0 & L2). destruct (ab_etcd pl s) as [E N]. destruct (cvals s) as [m|] eqn:C; [|congruence].
  split; [|split]; rewrite ?ab_wlog, ?E, ?N.
  - assumption.
  - rewrite (ab_cvals pl s m C). discriminate.
  - intros m' C'. rewrite (ab_cvals pl s m C) in C'. inversion C'; subst m'. destruct (L2 m eq_refl) as [A B]. split.
    + intros k U. rewrite kget_bapply. destruct (bget k pl) eqn:G; [|auto]. exfalso.
      assert (Hn : ~ (forall b, In b pl -> bkey b <> k)) by (rewrite <- bget_none, G; discriminate).
      apply Hn. intros b Hb Q. destruct (P b Hb) as [Ub _]. congruence.
    + intros k U Bn. rewrite kget_bapply. destruct (bget k pl) eqn:G; [|auto]. exfalso.
      assert (Hn : ~ (forall b, In b pl -> bkey b <> k)) by (rewrite <- bget_none, G; discriminate).
      apply Hn. intros b Hb Q. destruct (P b Hb) as [_ (b' & Hb' & Kb)].
      apply (proj1 (bget_none k (wlog s)) Bn b' Hb'). congruence.
Qed.

(* a logged change delivered to the n open streams *)
Lemma loginv_change u s items r pl : pl = filter (fun b => u (bkey b)) items ->
  loginv u s ->
  loginv u (iter (nwatch s) (apply_batch pl)
                 (mkS (fold_left bev_step items (etcd s)) r (cvals s) (subs s) (nwatch s) (wlog s ++ items))).
Proof.
  intros -> L. pose proof (loginv_base u s items r L) as L'. destruct L as (_ & L0 & _).
  assert (D : cvals s = None \/ cvals s <> None) by (destruct (cvals s); [right; discriminate|left; reflexivity]).
  destruct D as [C|C].
  - revert L'. rewrite (L0 C). intro L'. exact L'.
  - rewrite iter_batch. apply loginv_deliver; [exact C| |exact L'].
    intros b Hb. apply in_concat in Hb as (l & Hl & Hb). apply repeat_spec in Hl. subst l.
    apply filter_In in Hb as [Hb U]. split; [assumption|]. exists b. simpl. split; [apply in_app_iff; auto|reflexivity].
Qed.

Lemma loginv_snapshot u s oa od l n : NoDup (map fst (etcd s)) ->
  let s1 := handle_changes true oa od (snapshot_of u s) s in
  loginv u (mkS (etcd s1) (rev s1) (cvals s1) l n []).
Proof.
  intros N s1. destruct (snapshot_exact u s oa od N) as (m & C & A). fold s1 in C, A.
  split; [|split]; simpl.
  - intros k r H. discriminate.
  - rewrite C. discriminate.
  - intros m' C'. rewrite C in C'. inversion C'; subst m'. split; intros k U; [|intros _]; rewrite A, U; reflexivity.
Qed.

Lemma loginv_step u s e : NoDup (map fst (etcd s)) -> loginv u s -> loginv u (step u true s e).
Proof.
  intros N L. destruct e as [k v d|k d|oa od|oc oa od|items| |]; simpl.
  - destruct (d && u k) eqn:DU.
    + apply andb_true_iff in DU as [_ U]. rewrite iter_put_batch.
      apply (loginv_change u s [BPut k v]); [simpl; rewrite U; reflexivity|assumption].
    + apply (loginv_base u s [BPut k v]). assumption.
  - destruct (kget k (etcd s)); [|assumption]. destruct (d && u k) eqn:DU.
    + apply andb_true_iff in DU as [_ U]. rewrite iter_del_batch.
      apply (loginv_change u s [BDel k]); [simpl; rewrite U; reflexivity|assumption].
    + apply (loginv_base u s [BDel k]). assumption.
  - destruct (subs s); [assumption|]. apply loginv_snapshot. assumption.
  - match goal with |- loginv u (mkS (etcd (handle_changes true oa od ?kv ?s1)) _ _ _ _ _) =>
      change kv with (snapshot_of u s1); apply (loginv_snapshot u s1 oa od) end. assumption.
  - apply (loginv_change u s items); [reflexivity|assumption].
  - assumption.
  - destruct (nwatch s) eqn:NW; [assumption|]. destruct L as (L1 & L0 & L2).
    apply loginv_deliver; [intro C; rewrite (L0 C) in NW; discriminate| |exact (conj L1 (conj L0 L2))].
    intros b Hb. apply filter_In in Hb as [Hb U]. split; [assumption|]. exists b. auto.
Qed.

Definition inv (u : key -> bool) (st : bool * bool) (s : state) : Prop :=
  NoDup (map fst (etcd s)) /\
  (fst st = true -> watching s) /\
  (fst st = false -> idle s) /\
  (fst st = true -> snd st = true -> exact u s).

Lemma inv_step u st s e : loginv u s -> inv u st s -> inv u (sync_step u st e) (step u true s e).
Proof.
  intros LG (N & W & I & X). destruct e as [k v d|k d|oa od|oc oa od|items| |]; simpl.
  - (* Put *)
    set (s1 := mkS (kset k v (etcd s)) (S (rev s)) (cvals s) (subs s) (nwatch s) (wlog s ++ [BPut k v])).
    assert (N1 : NoDup (map fst (etcd s1))) by (apply nodup_set; assumption).
    destruct (d && u k) eqn:DU.
    + apply andb_true_iff in DU as [-> U]. simpl. rewrite andb_true_r.
      destruct (etcd_iter_put k v (nwatch s) s1) as [E1 _].
      split; [rewrite E1; assumption|]. split; [|split].
      * intro L. apply iter_inv; [apply watching_put|]. apply (W L).
      * intro L. destruct (I L) as (A & B & C). rewrite B. simpl. repeat split; assumption.
      * intros L O. destruct (W L) as (_ & NW & _). specialize (X L O).
        destruct (nwatch s) as [|n]; [lia|]. simpl.
        assert (G : kget k (etcd s1) = Some v) by (simpl; rewrite kget_kset, Nat.eqb_refl; reflexivity).
        assert (P1 : etcd (watch_put k v s1) = etcd s1 /\ exact u (watch_put k v s1)).
        { apply watch_put_exact; auto. destruct X as (m & C & A). exists m. split; [assumption|].
          intros k' Q. simpl. rewrite kget_kset. apply Nat.eqb_neq in Q. rewrite Q. apply A. }
        apply (iter_inv (fun s' => etcd s' = etcd s1 /\ exact u s')); [|assumption].
        intros s' [Es' Xs']. apply watch_put_exact; auto. rewrite <- Es'. apply exact_weaken. assumption.
    + split; [assumption|]. split; [|split]; try assumption.
      intros L O. apply andb_true_iff in O as [O1 O2]. specialize (X L O1).
      destruct X as (m & C & A). exists m. split; [assumption|]. intro k'. simpl. rewrite kget_kset.
      destruct (Nat.eqb k' k) eqn:Q; [|apply A]. apply Nat.eqb_eq in Q; subst k'.
      assert (U : u k = false). { destruct d; simpl in *; [assumption|]. destruct (u k); simpl in *; congruence. }
      rewrite A, U. reflexivity.
  - (* Del *)
    destruct (kget k (etcd s)) as [v0|] eqn:G0.
    2:{ split; [assumption|]. split; [|split]; try assumption.
        intros L O. apply andb_true_iff in O as [O1 _]. auto. }
    set (s1 := mkS (kdel k (etcd s)) (S (rev s)) (cvals s) (subs s) (nwatch s) (wlog s ++ [BDel k])).
    assert (N1 : NoDup (map fst (etcd s1))) by (apply nodup_remove; assumption).
    destruct (d && u k) eqn:DU.
    + apply andb_true_iff in DU as [-> U]. simpl. rewrite andb_true_r.
      destruct (etcd_iter_del k (nwatch s) s1) as [E1 _].
      split; [rewrite E1; assumption|]. split; [|split].
      * intro L. apply iter_inv; [apply watching_del|]. apply (W L).
      * intro L. destruct (I L) as (A & B & C). rewrite B. simpl. repeat split; assumption.
      * intros L O. destruct (W L) as (_ & NW & _). specialize (X L O).
        destruct (nwatch s) as [|n]; [lia|]. simpl.
        assert (G : kget k (etcd s1) = None) by (simpl; rewrite kget_kdel, Nat.eqb_refl; reflexivity).
        assert (P1 : etcd (watch_del k s1) = etcd s1 /\ exact u (watch_del k s1)).
        { apply watch_del_exact; auto. destruct X as (m & C & A). exists m. split; [assumption|].
          intros k' Q. simpl. rewrite kget_kdel. apply Nat.eqb_neq in Q. rewrite Q. apply A. }
        apply (iter_inv (fun s' => etcd s' = etcd s1 /\ exact u s')); [|assumption].
        intros s' [Es' Xs']. apply watch_del_exact; auto. rewrite <- Es'. apply exact_weaken. assumption.
    + split; [assumption|]. split; [|split]; try assumption.
      intros L O. apply andb_true_iff in O as [O1 O2]. specialize (X L O1).
      destruct X as (m & C & A). exists m. split; [assumption|]. intro k'. simpl. rewrite kget_kdel.
      destruct (Nat.eqb k' k) eqn:Q; [|apply A]. apply Nat.eqb_eq in Q; subst k'.
      assert (U : u k = false). { destruct d; simpl in *; [assumption|]. destruct (u k); simpl in *; congruence. }
      rewrite A, U. reflexivity.
  - (* Reload *)
    destruct (subs s) as [|l0 ls] eqn:Sb.
    + split; [assumption|]. destruct (fst st) eqn:L.
      * destruct (W eq_refl) as (A & _). congruence.
      * split; [discriminate|]. split; [auto|discriminate].
    + destruct (hc_fields oa od (snapshot_of u s) s) as (E & _ & _ & C & SB).
      simpl. split; [rewrite E; assumption|].
      assert (WW : watching (let s1 := handle_changes true oa od (snapshot_of u s) s in
                             mkS (etcd s1) (rev s1) (cvals s1) (subs s1) 1 [])).
      { unfold watching; simpl. repeat split; [|lia|rewrite C; discriminate].
        intro H. apply SB in H. congruence. }
      destruct (fst st) eqn:L.
      * split; [auto|]. split; [discriminate|]. intros _ _.
        destruct (snapshot_exact u s oa od N) as (m & Cm & A). exists m. split; assumption.
      * destruct (I eq_refl) as (A & _). congruence.
  - (* Subscribe *)
    set (replay := match subs s with [] => [] | _ => map add_call (order_by oc (cur s)) end).
    set (s1 := mkS (etcd s) (rev s) (cvals s) (subs s ++ [replay]) (nwatch s) (wlog s)).
    destruct (hc_fields oa od (snapshot_of u s1) s1) as (E & _ & _ & C & SB).
    split; [rewrite E; assumption|]. split; [|split].
    + intros _. unfold watching; simpl. repeat split; [|lia|rewrite C; discriminate].
      intro H. apply SB in H. simpl in H. destruct (subs s); discriminate.
    + discriminate.
    + intros _ _. destruct (snapshot_exact u s1 oa od N) as (m & Cm & A). exists m. split; assumption.
  - (* Batch *)
    set (E' := fold_left bev_step items (etcd s)).
    set (s1 := mkS E' (length items + rev s) (cvals s) (subs s) (nwatch s) (wlog s ++ items)).
    set (evs := filter (fun b => u (bkey b)) items).
    assert (H3 : forall k r, bget k items = Some r -> kget k E' = r).
    { intros k r B. unfold E'. fold (bapply (etcd s) items). rewrite kget_bapply, B. reflexivity. }
    assert (HN : forall k, bget k items = None -> kget k E' = kget k (etcd s)).
    { intros k B. unfold E'. fold (bapply (etcd s) items). rewrite kget_bapply, B. reflexivity. }
    assert (ET : forall n s0, etcd (iter n (apply_batch evs) s0) = etcd s0).
    { induction n; intro s0; simpl; [reflexivity|]. rewrite IHn. apply ab_etcd. }
    split; [rewrite ET; apply (nodup_bapply items); assumption|]. split; [|split].
    + intro L. apply iter_inv; [apply ab_watching|]. apply (W L).
    + intro L. destruct (I L) as (A & B & C). rewrite B. simpl. repeat split; assumption.
    + intros L O. destruct (W L) as (_ & NW & _). specialize (X L O). destruct X as (m & C & A).
      destruct (nwatch s) as [|n]; [lia|]. simpl.
      assert (P1 : etcd (apply_batch evs s1) = E' /\ exact u (apply_batch evs s1)).
      { apply batch_exact; [reflexivity|assumption|]. exists m. split; [assumption|]. split.
        - intros k U. rewrite A, U. reflexivity.
        - intros k U B. rewrite A, U. symmetry. apply HN. assumption. }
      apply (iter_inv (fun s' => etcd s' = E' /\ exact u s')); [|assumption].
      intros s' [Es' (m' & C' & A')]. apply batch_exact; [assumption|assumption|].
      exists m'. split; [assumption|]. split.
      * intros k U. rewrite A', U. reflexivity.
      * intros k U _. rewrite A', U, Es'. reflexivity.
  - (* GetFail *) exact (conj N (conj W (conj I X))).
  - (* Rewatch *)
    destruct LG as (L1 & L0 & L2). destruct (nwatch s) as [|n] eqn:NW.
    + split; [assumption|]. split; [assumption|]. split; [assumption|]. intros L _.
      destruct (W L) as (_ & A & _). lia.
    + set (pl := filter (fun b => u (bkey b)) (wlog s)). destruct (ab_etcd pl s) as [E _].
      split; [rewrite E; assumption|]. split; [intro L; apply ab_watching; auto|]. split.
      * intro L. destruct (I L) as (_ & A & _). congruence.
      * intros L _. destruct (W L) as (_ & _ & C). destruct (cvals s) as [m|] eqn:Cm; [|congruence].
        destruct (L2 m eq_refl) as [A B].
        apply (batch_exact u (wlog s) (etcd s) s eq_refl L1). exists m. auto.
Qed.

Lemma run_inv2 u h : inv u (sync_state u h) (run u h) /\ loginv u (run u h).
Proof.
  induction h as [|e h IH] using rev_ind.
  - split.
    + unfold inv, idle; simpl. repeat split; try constructor; try discriminate.
    + unfold loginv; simpl. split; [intros k r H; discriminate|]. split; [reflexivity|discriminate].
  - destruct IH as [IH1 IH2]. rewrite run_snoc, sync_snoc. split.
    + apply inv_step; assumption.
    + apply loginv_step; [apply IH1|assumption].
Qed.

Lemma run_inv u h : inv u (sync_state u h) (run u h).
Proof. apply run_inv2. Qed.

Lemma cluster_tracks u h : synced u h = true ->
  exists m, cvals (run u h) = Some m /\
            forall k, kget k m = if u k then kget k (etcd (run u h)) else None.
Proof.
  unfold synced. intro H. apply andb_true_iff in H as [A B].
  destruct (run_inv u h) as (_ & _ & _ & X). apply X; assumption.
Qed.

(* the model's store is the Spec's store *)
Lemma etcd_spec u h : forall k, kget k (etcd (run u h)) = kget k (spec_etcd h).
Proof.
  induction h as [|e h IH] using rev_ind; intro k; [reflexivity|].
  rewrite run_snoc. unfold spec_etcd. rewrite fold_left_app. fold (spec_etcd h). simpl.
  destruct e as [k0 v d|k0 d|oa od|oc oa od|items| |]; simpl.
  - destruct (d && u k0).
    + destruct (etcd_iter_put k0 v (nwatch (run u h)) (mkS (kset k0 v (etcd (run u h))) (S (rev (run u h))) (cvals (run u h)) (subs (run u h)) (nwatch (run u h)) (wlog (run u h) ++ [BPut k0 v]))) as [-> _].
      simpl. rewrite !kget_kset, IH. reflexivity.
    + simpl. rewrite !kget_kset, IH. reflexivity.
  - destruct (kget k0 (etcd (run u h))) eqn:G.
    + destruct (d && u k0).
      * destruct (etcd_iter_del k0 (nwatch (run u h)) (mkS (kdel k0 (etcd (run u h))) (S (rev (run u h))) (cvals (run u h)) (subs (run u h)) (nwatch (run u h)) (wlog (run u h) ++ [BDel k0]))) as [-> _].
        simpl. rewrite !kget_kdel, IH. reflexivity.
      * simpl. rewrite !kget_kdel, IH. reflexivity.
    + rewrite kget_kdel, <- IH. destruct (Nat.eqb k k0) eqn:Q; [|reflexivity].
      apply Nat.eqb_eq in Q; subst. assumption.
  - destruct (subs (run u h)); [apply IH|]. simpl.
    destruct (hc_fields oa od (snapshot_of u (run u h)) (run u h)) as (E & _). rewrite E. apply IH.
  - match goal with |- kget k (etcd (handle_changes true oa od ?kv ?s1)) = _ =>
      destruct (hc_fields oa od kv s1) as (E & _); rewrite E end. simpl. apply IH.
  - rewrite (proj1 (etcd_iter_batch _ _ _)). simpl. fold (bapply (etcd (run u h)) items). fold (bapply (spec_etcd h) items).
    rewrite !kget_bapply, IH. reflexivity.
  - apply IH.
  - destruct (nwatch (run u h)); [apply IH|]. rewrite (proj1 (ab_etcd _ _)). apply IH.
Qed.

(* ------------------------------------------------------------------ maps whose values are vf *)
Definition has (k : key) (m : amap) : bool := existsb (Nat.eqb k) (map fst m).
Definition typed (vf : key -> val) (m : amap) : Prop := forall k v, In (k, v) m -> v = vf k.

Lemma has_in k m : has k m = true <-> exists v, In (k, v) m.
Proof.
  unfold has. rewrite existsb_exists. split.
  - intros (x & Hin & E). apply Nat.eqb_eq in E; subst x. apply in_map_iff in Hin as ([a b] & E & Hin).
    simpl in E; subst. eauto.
  - intros (v & Hin). exists k. split; [apply in_map_iff; exists (k, v); auto|apply Nat.eqb_refl].
Qed.

Lemma has_get k m : has k m = true <-> exists v, kget k m = Some v.
Proof.
  rewrite has_in. split; intros (v & H).
  - apply (al_has k m). apply in_map_iff. exists (k, v); auto.
  - exists v. apply al_in. assumption.
Qed.

Lemma typed_get vf m k : typed vf m -> kget k m = if has k m then Some (vf k) else None.
Proof.
  intro T. destruct (has k m) eqn:H.
  - apply has_get in H as (v & G). rewrite G. f_equal. apply T. apply al_in. assumption.
  - destruct (kget k m) eqn:G; [|reflexivity]. assert (has k m = true) by (apply has_get; eauto). congruence.
Qed.

Lemma has_congr k m m' : (forall x, In x m <-> In x m') -> has k m = has k m'.
Proof.
  intro H. destruct (has k m) eqn:A; destruct (has k m') eqn:B; auto.
  - apply has_in in A as (v & A). apply H in A. assert (has k m' = true) by (apply has_in; eauto). congruence.
  - apply has_in in B as (v & B). apply H in B. assert (has k m = true) by (apply has_in; eauto). congruence.
Qed.

Lemma has_kset k k' v m : has k (kset k' v m) = Nat.eqb k k' || has k m.
Proof.
  destruct (Nat.eqb k k' || has k m) eqn:E.
  - apply has_get. rewrite kget_kset. destruct (Nat.eqb k k'); [eauto|]. simpl in E. apply has_get in E. assumption.
  - apply orb_false_iff in E as [E1 E2]. destruct (has k (kset k' v m)) eqn:H; [|reflexivity].
    apply has_get in H as (x & H). rewrite kget_kset, E1 in H.
    assert (has k m = true) by (apply has_get; eauto). congruence.
Qed.

Lemma has_filter (p : key -> bool) k m : has k (filter (fun kv => p (fst kv)) m) = p k && has k m.
Proof.
  destruct (p k && has k m) eqn:E.
  - apply andb_true_iff in E as [E1 E2]. apply has_in in E2 as (v & Hin). apply has_in. exists v.
    apply filter_In. auto.
  - destruct (has k (filter _ m)) eqn:H; [|reflexivity]. apply has_in in H as (v & Hin).
    apply filter_In in Hin as [Hin P]. simpl in P. assert (has k m = true) by (apply has_in; eauto).
    rewrite P, H in E. discriminate.
Qed.

Lemma in_aremove {V} k (m : list (nat * V)) x : In x (aremove Nat.eqb k m) -> In x m.
Proof.
  induction m as [|[a b] r IH]; simpl; [tauto|].
  destruct (Nat.eqb k a); [right; auto|]. intros [H|H]; [left; assumption|right; auto].
Qed.

Lemma typed_kset vf k v m : typed vf m -> v = vf k -> typed vf (kset k v m).
Proof.
  intros T E a b H. unfold kset, aset in H. destruct H as [H|H]; [inversion H; subst; reflexivity|].
  apply T. eapply in_aremove; eauto.
Qed.

Lemma typed_kdel vf k m : typed vf m -> typed vf (kdel k m).
Proof. intros T a b H. apply T. eapply in_aremove; eauto. Qed.

Lemma typed_filter vf f m : typed vf m -> typed vf (filter f m).
Proof. intros T a b H. apply filter_In in H as [H _]. auto. Qed.

Lemma typed_order vf o m : typed vf m -> typed vf (order_by o m).
Proof. intros T a b H. apply order_by_in in H. auto. Qed.

Lemma typed_to_map vf kvs : typed vf kvs -> typed vf (to_map kvs).
Proof.
  unfold to_map. assert (G : forall acc, typed vf kvs -> typed vf acc ->
    typed vf (fold_left (fun m kv => kset (fst kv) (snd kv) m) kvs acc)).
  { induction kvs as [|[a b] r IH]; intros acc T Ta; simpl; [assumption|].
    apply IH; [intros x y H; apply T; right; assumption|]. apply typed_kset; [assumption|]. apply T. left; reflexivity. }
  intro T. apply G; [assumption|]. intros a b [].
Qed.

Lemma has_to_map k kvs : has k (to_map kvs) = has k kvs.
Proof.
  unfold to_map. assert (G : forall acc, has k (fold_left (fun m kv => kset (fst kv) (snd kv) m) kvs acc) = has k kvs || has k acc).
  { induction kvs as [|[a b] r IH]; intro acc; simpl; [reflexivity|]. rewrite IH, has_kset. simpl.
    unfold has at 3. simpl. fold (has k r). destruct (Nat.eqb k a), (has k r), (has k acc); reflexivity. }
  rewrite G. unfold has at 2. simpl. apply orb_false_r.
Qed.

(* under the proviso the snapshot diff is: keys that appeared, keys that vanished *)
Lemma changed_typed vf a b : typed vf a -> typed vf b ->
  changed a b = filter (fun kv => negb (has (fst kv) b)) a.
Proof.
  intros Ta Tb. unfold changed. apply filter_ext_in. intros [k v] Hin. simpl.
  rewrite (typed_get vf b k Tb). destruct (has k b); [|reflexivity]. simpl.
  rewrite (Ta _ _ Hin). rewrite Nat.eqb_refl. reflexivity.
Qed.

Lemma has_changed vf a b k : typed vf a -> typed vf b -> has k (changed a b) = negb (has k b) && has k a.
Proof. intros Ta Tb. rewrite (changed_typed vf) by assumption. apply (has_filter (fun k => negb (has k b))). Qed.

(* ------------------------------------------------------------------ views *)
Lemma view_app l cs : view (l ++ cs) = fold_left view_step cs (view l).
Proof. unfold view. apply fold_left_app. Qed.

Lemma view_adds vf L : typed vf L -> forall M k,
  kget k (fold_left view_step (map add_call L) M) = if has k L then Some (vf k) else kget k M.
Proof.
  induction L as [|[a b] r IH]; intros T M k; simpl; [reflexivity|].
  rewrite IH by (intros x y H; apply T; right; assumption).
  unfold has at 2. simpl. fold (has k r). destruct (has k r); [rewrite orb_true_r; reflexivity|].
  rewrite orb_false_r. rewrite kget_kset. destruct (Nat.eqb k a) eqn:E; [|reflexivity].
  apply Nat.eqb_eq in E; subst a. f_equal. apply T. left; reflexivity.
Qed.

Lemma view_dels L : forall M k,
  kget k (fold_left view_step (map del_call L) M) = if has k L then None else kget k M.
Proof.
  induction L as [|[a b] r IH]; intros M k; simpl; [reflexivity|]. rewrite IH.
  unfold has at 2. simpl. fold (has k r). destruct (has k r); [rewrite orb_true_r; reflexivity|].
  rewrite orb_false_r. rewrite kget_kdel. reflexivity.
Qed.

Lemma calls_ok_adds vf L : typed vf L -> calls_ok vf (map add_call L).
Proof.
  intro T. apply Forall_forall. intros c H. apply in_map_iff in H as ([a b] & <- & Hin). simpl. apply T. assumption.
Qed.

Lemma calls_ok_dels vf L : calls_ok vf (map del_call L).
Proof. apply Forall_forall. intros c H. apply in_map_iff in H as ([a b] & <- & Hin). exact I. Qed.

(* every listener's calls describe what the cluster currently knows *)
Definition log_ok (vf : key -> val) (m : amap) (log : list call) : Prop :=
  calls_ok vf log /\ forall k, kget k (view log) = kget k m.

Definition linv (vf : key -> val) (s : state) : Prop :=
  typed vf (etcd s) /\ typed vf (cur s) /\ Forall (log_ok vf (cur s)) (subs s) /\
  (subs s = [] -> cvals s = None /\ nwatch s = 0).

Lemma Forall_deliver (P Q : list call -> Prop) cs ss :
  (forall l, P l -> Q (l ++ cs)) -> Forall P ss -> Forall Q (deliver cs ss).
Proof. intros H F. unfold deliver. apply Forall_forall. intros x Hin. apply in_map_iff in Hin as (l & <- & Hin).
  apply H. eapply Forall_forall in F; eauto. Qed.

Lemma linv_hc vf oa od kvs s :
  linv vf s -> typed vf kvs -> subs s <> [] -> linv vf (handle_changes true oa od kvs s).
Proof.
  intros (Te & Tc & F & Z) Tk NE. unfold handle_changes, linv. destruct (cvals s) as [vals|] eqn:C.
  - unfold cur in *. rewrite C in *. simpl. split; [assumption|]. split; [apply typed_to_map; assumption|].
    split; [|intro H; apply deliver_nil in H; contradiction].
    assert (Tm : typed vf (to_map kvs)) by (apply typed_to_map; assumption).
    eapply Forall_deliver; [|exact F]. intros l [Ok V]. split.
    + apply Forall_app. split; [assumption|]. apply Forall_app. split.
      * apply calls_ok_adds, typed_order. unfold changed. apply typed_filter. assumption.
      * apply calls_ok_dels.
    + intro k. rewrite view_app, fold_left_app. rewrite view_dels.
      rewrite (view_adds vf) by (apply typed_order; unfold changed; apply typed_filter; assumption).
      rewrite (has_congr k _ _ (order_by_in od _)), (has_congr k _ _ (order_by_in oa _)).
      rewrite !(has_changed vf) by assumption. rewrite V.
      rewrite (typed_get vf vals k Tc), (typed_get vf (to_map kvs) k Tm).
      destruct (has k vals), (has k (to_map kvs)); reflexivity.
  - unfold cur in *. rewrite C in *. simpl. split; [assumption|]. split; [apply typed_to_map; assumption|].
    split; [|intro H; apply deliver_nil in H; contradiction].
    eapply Forall_deliver; [|exact F]. intros l [Ok V]. split.
    + apply Forall_app. split; [assumption|]. apply calls_ok_adds, typed_order. assumption.
    + intro k. rewrite view_app. rewrite (view_adds vf) by (apply typed_order; assumption).
      rewrite (has_congr k _ _ (order_by_in oa _)). rewrite V.
      rewrite (typed_get vf (to_map kvs) k (typed_to_map vf kvs Tk)), has_to_map.
      destruct (has k kvs); reflexivity.
Qed.

Lemma linv_put vf k v s : v = vf k ->
  (typed vf (cur s) /\ Forall (log_ok vf (cur s)) (subs s)) ->
  (typed vf (cur (watch_put k v s)) /\ Forall (log_ok vf (cur (watch_put k v s))) (subs (watch_put k v s))).
Proof.
  intros E (Tc & F).
  assert (G : forall k', kget k' (cur (watch_put k v s)) = if Nat.eqb k' k then Some v else kget k' (cur s)).
  { intro k'. unfold cur, watch_put; simpl. destruct (cvals s); [apply kget_kset|].
    unfold kget; simpl. destruct (Nat.eqb k' k); reflexivity. }
  split.
  - unfold cur, watch_put; simpl. destruct (cvals s) eqn:C.
    + apply typed_kset; [|assumption]. unfold cur in Tc. rewrite C in Tc. assumption.
    + intros a b [H|[]]. inversion H; subst. reflexivity.
  - unfold watch_put at 2; simpl. eapply Forall_deliver; [|exact F]. intros l [Ok V]. split.
    + apply Forall_app. split; [assumption|]. constructor; [exact E|constructor].
    + intro k'. rewrite view_app. simpl. rewrite kget_kset, G, V. reflexivity.
Qed.

Lemma linv_del vf k s :
  (typed vf (cur s) /\ Forall (log_ok vf (cur s)) (subs s)) ->
  (typed vf (cur (watch_del k s)) /\ Forall (log_ok vf (cur (watch_del k s))) (subs (watch_del k s))).
Proof.
  intros (Tc & F).
  assert (G : forall k', kget k' (cur (watch_del k s)) = if Nat.eqb k' k then None else kget k' (cur s)).
  { intro k'. unfold cur, watch_del; simpl. destruct (cvals s); simpl; [apply kget_kdel|].
    destruct (Nat.eqb k' k); reflexivity. }
  split.
  - unfold cur, watch_del; simpl. destruct (cvals s) eqn:C; simpl.
    + apply typed_kdel. unfold cur in Tc. rewrite C in Tc. assumption.
    + intros a b [].
  - unfold watch_del at 2; simpl. eapply Forall_deliver; [|exact F]. intros l [Ok V]. split.
    + apply Forall_app. split; [assumption|]. constructor; [exact I|constructor].
    + intro k'. rewrite view_app. simpl. rewrite kget_kdel, G, V. reflexivity.
Qed.

Lemma subs_iter_nil f n s : (forall s, subs (f s) = [] <-> subs s = []) -> (subs (iter n f s) = [] <-> subs s = []).
Proof. intro H. revert s. induction n; simpl; intro s; [tauto|]. rewrite IHn. apply H. Qed.

Definition bev_ok (vf : key -> val) (b : bev) : Prop := match b with BPut k v => v = vf k | BDel _ => True end.

Lemma typed_bapply vf items : forall m, Forall (bev_ok vf) items -> typed vf m -> typed vf (bapply m items).
Proof.
  induction items as [|b items IH]; intros m F T; [assumption|]. inversion F; subst. cbn [bapply fold_left]. apply IH; [assumption|].
  destruct b; [apply typed_kset|apply typed_kdel]; assumption.
Qed.

Lemma ab_linv vf evs : Forall (bev_ok vf) evs -> forall s,
  (typed vf (cur s) /\ Forall (log_ok vf (cur s)) (subs s)) ->
  (typed vf (cur (apply_batch evs s)) /\ Forall (log_ok vf (cur (apply_batch evs s))) (subs (apply_batch evs s))).
Proof.
  induction evs as [|b evs IH]; intros F s H; [assumption|]. inversion F; subst. rewrite ab_cons. apply IH; [assumption|].
  destruct b; [apply linv_put|apply linv_del]; assumption.
Qed.

Lemma wlog_iter (f : state -> state) : (forall s, wlog (f s) = wlog s) -> forall n s, wlog (iter n f s) = wlog s.
Proof. intros H n. induction n; intro s; simpl; [reflexivity|]. rewrite IHn. apply H. Qed.

Lemma wlog_step vf u s e : ev_ok vf e -> Forall (bev_ok vf) (wlog s) -> Forall (bev_ok vf) (wlog (step u true s e)).
Proof.
  intros Ok F. destruct e as [k v d|k d|oa od|oc oa od|items| |]; simpl in *.
  - assert (G : Forall (bev_ok vf) (wlog s ++ [BPut k v])) by (apply Forall_app; split; [assumption|constructor; [exact Ok|constructor]]).
    destruct (d && u k); [rewrite (wlog_iter (watch_put k v) (fun s0 => eq_refl))|]; exact G.
  - destruct (kget k (etcd s)); [|assumption].
    assert (G : Forall (bev_ok vf) (wlog s ++ [BDel k])) by (apply Forall_app; split; [assumption|constructor; [exact I|constructor]]).
    destruct (d && u k); [rewrite (wlog_iter (watch_del k) (fun s0 => eq_refl))|]; exact G.
  - destruct (subs s); [assumption|constructor].
  - constructor.
  - rewrite (wlog_iter _ (ab_wlog _)). simpl. apply Forall_app. split; assumption.
  - assumption.
  - destruct (nwatch s); [assumption|]. rewrite ab_wlog. assumption.
Qed.

Lemma linv_step vf u s e : ev_ok vf e -> Forall (bev_ok vf) (wlog s) -> linv vf s -> linv vf (step u true s e).
Proof.
  intros Ok WL L0. pose proof L0 as (Te & Tc & F & Z). destruct e as [k v d|k d|oa od|oc oa od|items| |]; simpl in *.
  - set (s1 := mkS (kset k v (etcd s)) (S (rev s)) (cvals s) (subs s) (nwatch s) (wlog s ++ [BPut k v])).
    assert (L1 : typed vf (etcd s1)) by (apply typed_kset; assumption).
    destruct (d && u k).
    + destruct (etcd_iter_put k v (nwatch s) s1) as [E1 E2].
      assert (P : typed vf (cur (iter (nwatch s) (watch_put k v) s1)) /\
                  Forall (log_ok vf (cur (iter (nwatch s) (watch_put k v) s1))) (subs (iter (nwatch s) (watch_put k v) s1))).
      { apply (iter_inv (fun s' => typed vf (cur s') /\ Forall (log_ok vf (cur s')) (subs s'))).
        - intros s' H. apply linv_put; auto.
        - split; assumption. }
      destruct P as [P1 P2]. split; [rewrite E1; assumption|]. split; [assumption|]. split; [assumption|].
      intro H. apply subs_iter_nil in H; [|intro s'; unfold watch_put; simpl; apply deliver_nil].
      simpl in H. destruct (Z H) as [Z1 Z2]. subst s1. rewrite Z2. simpl. split; auto.
    + split; [assumption|]. split; [assumption|]. split; assumption.
  - destruct (kget k (etcd s)); [|assumption].
    set (s1 := mkS (kdel k (etcd s)) (S (rev s)) (cvals s) (subs s) (nwatch s) (wlog s ++ [BDel k])).
    assert (L1 : typed vf (etcd s1)) by (apply typed_kdel; assumption).
    destruct (d && u k).
    + destruct (etcd_iter_del k (nwatch s) s1) as [E1 E2].
      assert (P : typed vf (cur (iter (nwatch s) (watch_del k) s1)) /\
                  Forall (log_ok vf (cur (iter (nwatch s) (watch_del k) s1))) (subs (iter (nwatch s) (watch_del k) s1))).
      { apply (iter_inv (fun s' => typed vf (cur s') /\ Forall (log_ok vf (cur s')) (subs s'))).
        - intros s' H. apply linv_del; auto.
        - split; assumption. }
      destruct P as [P1 P2]. split; [rewrite E1; assumption|]. split; [assumption|]. split; [assumption|].
      intro H. apply subs_iter_nil in H; [|intro s'; unfold watch_del; simpl; apply deliver_nil].
      simpl in H. destruct (Z H) as [Z1 Z2]. subst s1. rewrite Z2. simpl. split; auto.
    + split; [assumption|]. split; [assumption|]. split; assumption.
  - destruct (subs s) as [|l0 ls] eqn:Sb; [assumption|].
    assert (H : linv vf (handle_changes true oa od (snapshot_of u s) s)).
    { apply linv_hc; [assumption|apply typed_filter; assumption|congruence]. }
    destruct H as (A & B & C & D). split; [assumption|]. split; [assumption|]. split; [assumption|].
    simpl. intro H. destruct (hc_fields oa od (snapshot_of u s) s) as (_ & _ & _ & _ & SB). apply SB in H. congruence.
  - set (replay := match subs s with [] => [] | _ => map add_call (order_by oc (cur s)) end).
    set (s1 := mkS (etcd s) (rev s) (cvals s) (subs s ++ [replay]) (nwatch s) (wlog s)).
    assert (L1 : linv vf s1).
    { split; [assumption|]. split; [assumption|]. split; simpl.
      - change (cur s1) with (cur s). apply Forall_app. split; [assumption|]. constructor; [|constructor]. unfold replay.
        destruct (subs s) eqn:Sb.
        + split; [constructor|]. intro k. destruct (Z eq_refl) as [Z1 _]. unfold cur. rewrite Z1. reflexivity.
        + split; [apply calls_ok_adds, typed_order; assumption|]. intro k. unfold view.
          rewrite (view_adds vf) by (apply typed_order; assumption).
          rewrite (has_congr k _ _ (order_by_in oc _)). rewrite (typed_get vf (cur s) k Tc).
          destruct (has k (cur s)); reflexivity.
      - intro H. destruct (subs s); discriminate. }
    assert (H : linv vf (handle_changes true oa od (snapshot_of u s1) s1)).
    { apply linv_hc; [assumption|apply typed_filter; assumption|simpl; destruct (subs s); discriminate]. }
    destruct H as (A & B & C & D). split; [assumption|]. split; [assumption|]. split; [assumption|].
    simpl. intro H. destruct (hc_fields oa od (snapshot_of u s1) s1) as (_ & _ & _ & _ & SB). apply SB in H. simpl in H.
    destruct (subs s); discriminate.
  - set (evs := filter (fun b => u (bkey b)) items).
    set (s1 := mkS (fold_left bev_step items (etcd s)) (length items + rev s) (cvals s) (subs s) (nwatch s) (wlog s ++ items)).
    assert (Fe : Forall (bev_ok vf) evs).
    { apply Forall_forall. intros b Hb. apply filter_In in Hb as [Hb _]. eapply Forall_forall in Ok; eauto. }
    destruct (etcd_iter_batch evs (nwatch s) s1) as [E1 E2].
    assert (P : typed vf (cur (iter (nwatch s) (apply_batch evs) s1)) /\
                Forall (log_ok vf (cur (iter (nwatch s) (apply_batch evs) s1))) (subs (iter (nwatch s) (apply_batch evs) s1))).
    { apply (iter_inv (fun s' => typed vf (cur s') /\ Forall (log_ok vf (cur s')) (subs s'))).
      - intros s' H. apply ab_linv; assumption.
      - split; assumption. }
    destruct P as [P1 P2]. split; [rewrite E1; apply (typed_bapply vf items); assumption|]. split; [assumption|]. split; [assumption|].
    intro H. apply subs_iter_nil in H; [|intro s'; rewrite ab_subs; destruct (subs s'); simpl; split; congruence].
    simpl in H. destruct (Z H) as [Z1 Z2]. subst s1. rewrite Z2. simpl. split; auto.
  - exact L0.
  - destruct (nwatch s) eqn:NW; [exact L0|].
    set (pl := filter (fun b => u (bkey b)) (wlog s)).
    assert (Fe : Forall (bev_ok vf) pl).
    { apply Forall_forall. intros b Hb. apply filter_In in Hb as [Hb _]. eapply Forall_forall in WL; eauto. }
    destruct (ab_linv vf pl Fe s (conj Tc F)) as [P1 P2]. destruct (ab_etcd pl s) as [E1 E2].
    split; [rewrite E1; assumption|]. split; [assumption|]. split; [assumption|].
    intro H. rewrite ab_subs in H. destruct (subs s) eqn:Sb; [|discriminate]. destruct (Z eq_refl) as [_ Z2]. congruence.
Qed.

Lemma run_linv2 vf u h : consistent vf h -> linv vf (run u h) /\ Forall (bev_ok vf) (wlog (run u h)).
Proof.
  induction h as [|e h IH] using rev_ind; intro C.
  - split; [|constructor]. unfold linv, run, run_from, cur; simpl. split; [intros a b []|]. split; [intros a b []|]. split; [constructor|auto].
  - apply Forall_app in C as [C1 C2]. inversion C2; subst. destruct (IH C1) as [IH1 IH2]. rewrite run_snoc. split.
    + apply linv_step; auto.
    + apply wlog_step; auto.
Qed.

Lemma run_linv vf u h : consistent vf h -> linv vf (run u h).
Proof. intro C. apply run_linv2. assumption. Qed.

(* ------------------------------------------------------------------ the container *)
Definition vals_get (v : val) (vs : list (val * list key)) : option (list key) := alookup Nat.eqb v vs.

Record cstruct (vf : key -> val) (c : container) : Prop := {
  cs_typed : forall k v, kget k (mapping c) = Some v -> v = vf k;
  cs_vals : forall v l, vals_get v (values c) = Some l ->
                        l <> [] /\ forall k, In k l -> kget k (mapping c) = Some v;
  cs_map : forall k v, kget k (mapping c) = Some v -> In k (vget v c);
  cs_excl : excl c = true -> forall v l, vals_get v (values c) = Some l -> length l <= 1;
  cs_nodup : NoDup (map fst (values c))
}.

Lemma in_without x k l : In x (without k l) <-> In x l /\ x <> k.
Proof.
  unfold without. rewrite filter_In, negb_true_iff, Nat.eqb_neq. tauto.
Qed.

Lemma without_length k l : length (without k l) <= length l.
Proof. unfold without. induction l; simpl; [lia|]. destruct (negb (Nat.eqb a k)); simpl; lia. Qed.

Lemma vget_some v c l : vals_get v (values c) = Some l -> vget v c = l.
Proof. unfold vget, vals_get. intros ->. reflexivity. Qed.

Lemma vget_in v c k : In k (vget v c) -> vals_get v (values c) = Some (vget v c).
Proof. unfold vget, vals_get. destruct (alookup Nat.eqb v (values c)); [reflexivity|intros []]. Qed.

Lemma values_after v server (remain : list key) vs :
  vals_get v (match remain with [] => aremove Nat.eqb server vs | _ => aset Nat.eqb server remain vs end) =
  if Nat.eqb v server then (match remain with [] => None | _ => Some remain end) else vals_get v vs.
Proof.
  unfold vals_get. destruct remain; [rewrite al_remove|rewrite al_set]; destruct (Nat.eqb v server); reflexivity.
Qed.

Lemma drk_mapping k c k' :
  kget k' (mapping (do_remove_key k c)) = if Nat.eqb k' k then None else kget k' (mapping c).
Proof.
  unfold do_remove_key. destruct (kget k (mapping c)) eqn:G; simpl.
  - apply kget_kdel.
  - destruct (Nat.eqb k' k) eqn:E; [|reflexivity]. apply Nat.eqb_eq in E; subst. assumption.
Qed.

Lemma drk_fields k c :
  excl (do_remove_key k c) = excl c /\ dirty (do_remove_key k c) = dirty c /\
  snapshot (do_remove_key k c) = snapshot c /\ listeners (do_remove_key k c) = listeners c.
Proof. unfold do_remove_key. destruct (kget k (mapping c)); simpl; auto. Qed.

Lemma drk_struct vf k c : cstruct vf c -> cstruct vf (do_remove_key k c).
Proof.
  intros [T Vl Mp Ex Nd]. destruct (kget k (mapping c)) as [server|] eqn:G.
  2:{ unfold do_remove_key. rewrite G. constructor; assumption. }
  pose proof (Mp _ _ G) as Hin. pose proof (vget_in _ _ _ Hin) as VS.
  assert (VA : forall v, vals_get v (values (do_remove_key k c)) =
               if Nat.eqb v server then (match without k (vget server c) with [] => None | r => Some r end)
               else vals_get v (values c)).
  { intro v. unfold do_remove_key. rewrite G. simpl. rewrite values_after.
    destruct (Nat.eqb v server); [destruct (without k (vget server c)); reflexivity|reflexivity]. }
  constructor.
  - intros k' v. rewrite drk_mapping. destruct (Nat.eqb k' k); [discriminate|apply T].
  - intros v l. rewrite VA. destruct (Nat.eqb v server) eqn:E.
    + apply Nat.eqb_eq in E; subst v. destruct (without k (vget server c)) eqn:W; [discriminate|].
      intro H; inversion H; subst l. split; [discriminate|]. intros k' Hk. rewrite <- W in Hk.
      apply in_without in Hk as [Hk Ne]. rewrite drk_mapping. apply Nat.eqb_neq in Ne. rewrite Ne.
      destruct (Vl _ _ VS) as [_ A]. auto.
    + intro H. destruct (Vl _ _ H) as [A B]. split; [assumption|]. intros k' Hk. rewrite drk_mapping.
      destruct (Nat.eqb k' k) eqn:Q; [|auto]. apply Nat.eqb_eq in Q; subst k'.
      rewrite (B _ Hk) in G. inversion G; subst. rewrite Nat.eqb_refl in E. discriminate.
  - intros k' v. rewrite drk_mapping. destruct (Nat.eqb k' k) eqn:Q; [discriminate|]. intro H.
    pose proof (Mp _ _ H) as Hk. unfold vget. fold (vals_get v (values (do_remove_key k c))). rewrite VA.
    destruct (Nat.eqb v server) eqn:E.
    + apply Nat.eqb_eq in E; subst v. assert (W : In k' (without k (vget server c))).
      { apply in_without. split; [assumption|]. apply Nat.eqb_neq. assumption. }
      destruct (without k (vget server c)); [destruct W|assumption].
    + unfold vget, vals_get in *. assumption.
  - intros X v l. rewrite VA. destruct (Nat.eqb v server).
    + destruct (without k (vget server c)) eqn:W; [discriminate|]. intro H; inversion H; subst l.
      rewrite <- W. pose proof (without_length k (vget server c)). pose proof (Ex (eq_trans (eq_sym (proj1 (drk_fields k c))) X) _ _ VS).
      lia.
    + apply Ex. rewrite <- X. symmetry. apply drk_fields.
  - unfold do_remove_key. rewrite G. simpl. destruct (without k (vget server c)); [apply nodup_remove|apply nodup_set]; assumption.
Qed.

(* addKv once the exclusive-mode eviction is done *)
Definition plain (k : key) (v : val) (c : container) : container :=
  mkC (excl c) (aset Nat.eqb v (vget v c ++ [k]) (values c)) (kset k v (mapping c))
      (snapshot c) (dirty c) (listeners c).

Lemma plain_struct vf k v c :
  cstruct vf c -> v = vf k -> (excl c = true -> vget v c = []) -> cstruct vf (plain k v c).
Proof.
  intros [T Vl Mp Ex Nd] E X.
  assert (K : forall v', kget k (mapping c) = Some v' -> v' = v) by (intros v' H; rewrite E; apply T; assumption).
  assert (VA : forall v', vals_get v' (values (plain k v c)) =
                          if Nat.eqb v' v then Some (vget v c ++ [k]) else vals_get v' (values c)).
  { intro v'. unfold plain, vals_get. simpl. apply al_set. }
  constructor.
  - intros k' v'. simpl. rewrite kget_kset. destruct (Nat.eqb k' k) eqn:Q; [|apply T].
    apply Nat.eqb_eq in Q; subst. intro H; inversion H; subst. reflexivity.
  - intros v' l. rewrite VA. simpl. destruct (Nat.eqb v' v) eqn:Q.
    + apply Nat.eqb_eq in Q; subst v'. intro H; inversion H; subst l. split; [destruct (vget v c); discriminate|].
      intros k' Hk. rewrite kget_kset. destruct (Nat.eqb k' k) eqn:Q; [reflexivity|].
      apply in_app_iff in Hk as [Hk|[Hk|[]]]; [|subst; rewrite Nat.eqb_refl in Q; discriminate].
      destruct (Vl _ _ (vget_in _ _ _ Hk)) as [_ A]. auto.
    + intro H. destruct (Vl _ _ H) as [A B]. split; [assumption|]. intros k' Hk. rewrite kget_kset.
      destruct (Nat.eqb k' k) eqn:Q2; [|auto]. apply Nat.eqb_eq in Q2; subst k'.
      rewrite (K _ (B _ Hk)) in Q. rewrite Nat.eqb_refl in Q. discriminate.
  - intros k' v'. simpl. rewrite kget_kset. unfold vget. fold (vals_get v' (values (plain k v c))). rewrite VA.
    destruct (Nat.eqb k' k) eqn:Q.
    + apply Nat.eqb_eq in Q; subst. intro H; inversion H; subst. rewrite Nat.eqb_refl. apply in_app_iff. right; left; reflexivity.
    + intro H. pose proof (Mp _ _ H) as Hk. destruct (Nat.eqb v' v) eqn:Q2.
      * apply Nat.eqb_eq in Q2; subst. apply in_app_iff. left; assumption.
      * exact Hk.
  - intros Xc v' l. rewrite VA. destruct (Nat.eqb v' v).
    + intro H; inversion H; subst. rewrite (X Xc). simpl. lia.
    + apply Ex. assumption.
  - apply (nodup_set v (vget v c ++ [k]) (values c)). assumption.
Qed.

Lemma plain_mapping k v c k' : kget k' (mapping (plain k v c)) = if Nat.eqb k' k then Some v else kget k' (mapping c).
Proof. simpl. apply kget_kset. Qed.

(* addKv under the structural invariant: at most one key is evicted, so the aliasing of
   `keys` with the array compacted by doRemoveKey cannot be observed *)
Lemma add_kv_cases vf k v c : cstruct vf c ->
  (add_kv k v c = plain k v (set_dirty c) /\ (excl c = true -> vget v c = [])) \/
  (exists k0, excl c = true /\ vget v c = [k0] /\ kget k0 (mapping c) = Some v /\
              add_kv k v c = plain k v (do_remove_key k0 (set_dirty c))).
Proof.
  intros [T Vl Mp Ex Nd]. unfold add_kv. change (vget v (set_dirty c)) with (vget v c).
  change (excl (set_dirty c)) with (excl c). destruct (excl c) eqn:X; simpl.
  2:{ left. split; [reflexivity|discriminate]. }
  destruct (vget v c) as [|k0 r] eqn:VG; simpl.
  - left. split; [reflexivity|auto].
  - right. assert (VS : vals_get v (values c) = Some (k0 :: r)).
    { rewrite <- VG. apply (vget_in v c k0). rewrite VG. left; reflexivity. }
    pose proof (Ex eq_refl _ _ VS) as Len. destruct r; [|simpl in Len; lia].
    exists k0. split; [reflexivity|]. split; [reflexivity|]. split; [apply (Vl _ _ VS); left; reflexivity|].
    reflexivity.
Qed.

Lemma set_dirty_struct vf c : cstruct vf c -> cstruct vf (set_dirty c).
Proof. intros [A B C D E]. constructor; assumption. Qed.

Lemma add_kv_struct vf k v c : cstruct vf c -> v = vf k -> cstruct vf (add_kv k v c).
Proof.
  intros S E. destruct (add_kv_cases vf k v c S) as [[-> X]|(k0 & X & VG & G & ->)].
  - apply plain_struct; [apply set_dirty_struct; assumption|assumption|exact X].
  - apply plain_struct; [apply drk_struct, set_dirty_struct; assumption|assumption|]. intros _.
    unfold vget. unfold do_remove_key. change (mapping (set_dirty c)) with (mapping c). rewrite G. simpl.
    change (vget v (set_dirty c)) with (vget v c). rewrite VG. unfold without. simpl. rewrite Nat.eqb_refl. simpl.
    rewrite al_remove, Nat.eqb_refl. reflexivity.
Qed.

Lemma add_kv_mapping vf k v c k' : cstruct vf c ->
  kget k' (mapping (add_kv k v c)) =
  if Nat.eqb k' k then Some v
  else if excl c && existsb (Nat.eqb k') (vget v c) then None else kget k' (mapping c).
Proof.
  intro S. destruct (add_kv_cases vf k v c S) as [[-> X]|(k0 & X & VG & G & ->)]; rewrite plain_mapping.
  - destruct (Nat.eqb k' k); [reflexivity|]. destruct (excl c); [rewrite X by reflexivity|]; reflexivity.
  - destruct (Nat.eqb k' k); [reflexivity|]. rewrite drk_mapping, X, VG. simpl. rewrite orb_false_r.
    destruct (Nat.eqb k' k0); reflexivity.
Qed.

Lemma add_kv_fields k v c : excl (add_kv k v c) = excl c /\ listeners (add_kv k v c) = listeners c.
Proof.
  unfold add_kv. simpl.
  assert (G : forall fuel i arr c0, excl (evict fuel i arr v c0) = excl c0 /\ listeners (evict fuel i arr v c0) = listeners c0).
  { induction fuel; simpl; intros; [auto|]. destruct (nth_error arr i); [|auto].
    destruct (IHfuel (S i) (match kget k0 (mapping c0) with
       | Some server => if Nat.eqb server v then without k0 (vget v c0) ++ skipn (length (without k0 (vget v c0))) arr else arr
       | None => arr end) (do_remove_key k0 c0)) as [A B].
    rewrite A, B. destruct (drk_fields k0 c0) as (P & _ & _ & Q). auto. }
  destruct (excl c && negb (Nat.eqb (length (vget v (set_dirty c))) 0)); [|auto].
  destruct (G (length (vget v (set_dirty c))) 0 (vget v (set_dirty c)) (set_dirty c)) as [A B]. rewrite A, B. auto.
Qed.

Lemma add_kv_dirty vf k v c : cstruct vf c -> dirty (add_kv k v c) = true.
Proof.
  intro S. destruct (add_kv_cases vf k v c S) as [[-> X]|(k0 & X & VG & G & ->)]; simpl; [reflexivity|].
  destruct (drk_fields k0 (set_dirty c)) as (_ & D & _). rewrite D. reflexivity.
Qed.

(* ------------------------------------------------------------------ container vs. the calls it received *)
Lemma last_add_app l c v : last_add (l ++ [c]) v = last_add_step v (last_add l v) c.
Proof. unfold last_add. rewrite fold_left_app. reflexivity. Qed.

Lemma view_snoc l c : view (l ++ [c]) = view_step (view l) c.
Proof. rewrite view_app. reflexivity. Qed.

Record cinv (vf : key -> val) (c : container) (calls : list call) : Prop := {
  ci_struct : cstruct vf c;
  ci_view : forall k v, kget k (mapping c) = Some v <->
                        kget k (view calls) = Some v /\ (excl c = true -> last_add calls v = Some k);
  ci_snap : dirty c = false -> snapshot c = Some (map fst (values c))
}.

Lemma cinv_init vf x : cinv vf (new_container x) [].
Proof.
  constructor.
  - constructor; simpl; try discriminate; try constructor.
  - intros k v. simpl. split; [discriminate|intros [H _]; discriminate].
  - simpl. discriminate.
Qed.

Lemma cinv_add vf k v c calls : v = vf k -> cinv vf c calls -> cinv vf (on_add k v c) (calls ++ [CAdd k v]).
Proof.
  intros E [S V Sn]. constructor.
  - pose proof (add_kv_struct vf k v c S E) as [A B C D F]. constructor; assumption.
  - intros k' v'. change (mapping (on_add k v c)) with (mapping (add_kv k v c)).
    change (excl (on_add k v c)) with (excl (add_kv k v c)). rewrite (proj1 (add_kv_fields k v c)).
    rewrite (add_kv_mapping vf) by assumption. rewrite view_snoc, last_add_app. simpl. rewrite kget_kset.
    destruct (Nat.eqb k' k) eqn:Q.
    + apply Nat.eqb_eq in Q; subst k'. split.
      * intro H; inversion H; subst. split; [reflexivity|]. intros _. rewrite Nat.eqb_refl. reflexivity.
      * intros [H _]. assumption.
    + destruct (excl c) eqn:X; simpl.
      * destruct (existsb (Nat.eqb k') (vget v c)) eqn:Ev.
        -- split; [discriminate|]. intros [H L]. specialize (L eq_refl). exfalso.
           apply existsb_exists in Ev as (x & Hin & Ex). apply Nat.eqb_eq in Ex; subst x.
           destruct (cs_vals vf c S _ _ (vget_in _ _ _ Hin)) as [_ A]. specialize (A _ Hin).
           destruct (Nat.eqb v v') eqn:Qv.
           ++ inversion L; subst. rewrite Nat.eqb_refl in Q. discriminate.
           ++ assert (kget k' (mapping c) = Some v') by (apply V; split; [assumption|intros _; assumption]).
              rewrite A in H0. inversion H0; subst. rewrite Nat.eqb_refl in Qv. discriminate.
        -- rewrite V. split; intros [H L]; (split; [assumption|]); intros _; specialize (L eq_refl).
           ++ destruct (Nat.eqb v v') eqn:Qv; [|assumption]. exfalso. apply Nat.eqb_eq in Qv; subst v'.
              assert (G : kget k' (mapping c) = Some v) by (apply V; split; [assumption|intros _; assumption]).
              pose proof (cs_map vf c S _ _ G) as Hin.
              assert (existsb (Nat.eqb k') (vget v c) = true) by (apply existsb_exists; exists k'; split; [assumption|apply Nat.eqb_refl]).
              congruence.
           ++ destruct (Nat.eqb v v') eqn:Qv; [|assumption]. inversion L; subst. rewrite Nat.eqb_refl in Q. discriminate.
      * rewrite V. split; intros [H L]; (split; [assumption|discriminate]).
  - intro D. change (dirty (on_add k v c)) with (dirty (add_kv k v c)) in D. rewrite (add_kv_dirty vf) in D by assumption.
    discriminate.
Qed.

Lemma cinv_del vf k c calls : cinv vf c calls -> cinv vf (on_delete k c) (calls ++ [CDel k]).
Proof.
  intros [S V Sn]. constructor.
  - pose proof (drk_struct vf k (set_dirty c) (set_dirty_struct vf c S)) as [A B C D F]. constructor; assumption.
  - intros k' v'. change (mapping (on_delete k c)) with (mapping (do_remove_key k (set_dirty c))).
    change (excl (on_delete k c)) with (excl (do_remove_key k (set_dirty c))).
    rewrite (proj1 (drk_fields k (set_dirty c))). change (excl (set_dirty c)) with (excl c).
    rewrite drk_mapping. change (mapping (set_dirty c)) with (mapping c).
    rewrite view_snoc, last_add_app. simpl. rewrite kget_kdel.
    destruct (Nat.eqb k' k); [split; [discriminate|intros [H _]; discriminate]|apply V].
  - intro D. change (dirty (on_delete k c)) with (dirty (do_remove_key k (set_dirty c))) in D.
    destruct (drk_fields k (set_dirty c)) as (_ & Dd & _). rewrite Dd in D. discriminate.
Qed.

Lemma cinv_get vf c calls : cinv vf c calls -> cinv vf (snd (get_values c)) calls.
Proof.
  intros [S V Sn]. unfold get_values. destruct (dirty c) eqn:D; simpl.
  - constructor; simpl; try assumption; [destruct S; constructor; assumption|reflexivity].
  - constructor; try assumption. intros _. apply Sn. reflexivity.
Qed.

Lemma cinv_listen vf c calls : cinv vf c calls -> cinv vf (add_listener c) calls.
Proof. intros [S V Sn]. constructor; try assumption. destruct S; constructor; assumption. Qed.

Lemma calls_of_snoc ops o : calls_of (ops ++ [o]) = calls_of ops ++ calls_of [o].
Proof. unfold calls_of. apply flat_map_app. Qed.

Lemma crun_snoc x ops o : crun x (ops ++ [o]) = cstep (crun x ops) o.
Proof. unfold crun. rewrite fold_left_app. reflexivity. Qed.

Lemma excl_cstep c o : excl (cstep c o) = excl c.
Proof.
  destruct o as [[k v|k]| |].
  - exact (proj1 (add_kv_fields k v c)).
  - exact (proj1 (drk_fields k (set_dirty c))).
  - reflexivity.
  - simpl. unfold get_values. destruct (dirty c); reflexivity.
Qed.

Lemma crun_inv vf x ops : calls_ok vf (calls_of ops) ->
  cinv vf (crun x ops) (calls_of ops) /\ excl (crun x ops) = x.
Proof.
  induction ops as [|o ops IH] using rev_ind; intro C.
  - split; [apply cinv_init|reflexivity].
  - rewrite calls_of_snoc in C. apply Forall_app in C as [C1 C2]. destruct (IH C1) as [I X].
    rewrite crun_snoc, calls_of_snoc, excl_cstep. split; [|assumption].
    destruct o as [[k v|k]| |]; simpl in *.
    + inversion C2; subst. apply cinv_add; assumption.
    + apply cinv_del; assumption.
    + rewrite app_nil_r. apply cinv_listen. assumption.
    + rewrite app_nil_r. apply cinv_get. assumption.
Qed.

(* getValues: never panics, lists every value exactly once, the values some key maps to *)
Lemma get_values_spec vf c calls : cinv vf c calls ->
  exists vs, fst (get_values c) = Ok vs /\ NoDup vs /\
             forall v, In v vs <-> exists k, kget k (mapping c) = Some v.
Proof.
  intros [S V Sn]. exists (map fst (values c)). split; [|split].
  - unfold get_values. destruct (dirty c) eqn:D; simpl; [reflexivity|]. rewrite (Sn eq_refl). reflexivity.
  - apply (cs_nodup vf c S).
  - intro v. rewrite (al_has v (values c)). split.
    + intros (l & H). destruct (cs_vals vf c S v l H) as [Ne A]. destruct l as [|k r]; [congruence|].
      exists k. apply A. left; reflexivity.
    + intros (k & H). pose proof (cs_map vf c S _ _ H) as Hin. exists (vget v c).
      apply (vget_in v c k Hin).
Qed.

(* values = mapping^-1 *)
Lemma values_inverse vf c calls : cinv vf c calls ->
  forall k v, (exists l, vals_get v (values c) = Some l /\ In k l) <-> kget k (mapping c) = Some v.
Proof.
  intros [S _ _] k v. split.
  - intros (l & H & Hin). apply (cs_vals vf c S v l H). assumption.
  - intro H. pose proof (cs_map vf c S _ _ H) as Hin. exists (vget v c). split; [apply (vget_in v c k Hin)|assumption].
Qed.

(* ------------------------------------------------------------------ change listeners *)
Definition ncalls (ops : list cop) : nat := length (calls_of ops).

Lemma listeners_cstep_call c cl : listeners (cstep c (OCall cl)) = map S (listeners c).
Proof.
  destruct cl as [k v|k].
  - change (listeners (cstep c (OCall (CAdd k v)))) with (map S (listeners (add_kv k v c))).
    rewrite (proj2 (add_kv_fields k v c)). reflexivity.
  - change (listeners (cstep c (OCall (CDel k)))) with (map S (listeners (do_remove_key k (set_dirty c)))).
    destruct (drk_fields k (set_dirty c)) as (_ & _ & _ & L). rewrite L. reflexivity.
Qed.

Lemma listener_counts ops : forall c i n,
  nth_error (listeners c) i = Some n ->
  nth_error (listeners (fold_left cstep ops c)) i = Some (n + ncalls ops).
Proof.
  induction ops as [|o ops IH]; intros c i n H; simpl.
  - rewrite Nat.add_0_r. assumption.
  - destruct o as [cl| |].
    + rewrite (IH _ i (S n)).
      * f_equal. unfold ncalls. simpl. lia.
      * rewrite listeners_cstep_call. rewrite nth_error_map, H. reflexivity.
    + rewrite (IH _ i n); [reflexivity|]. simpl. rewrite nth_error_app1; [assumption|].
      apply nth_error_Some. congruence.
    + rewrite (IH _ i n); [reflexivity|]. simpl. unfold get_values. destruct (dirty c); assumption.
Qed.

Lemma listeners_every_update x ops1 ops2 :
  nth_error (listeners (crun x (ops1 ++ OListen :: ops2))) (length (listeners (crun x ops1))) = Some (ncalls ops2).
Proof.
  unfold crun. rewrite fold_left_app. simpl. fold (crun x ops1).
  rewrite (listener_counts ops2 _ (length (listeners (crun x ops1))) 0); [reflexivity|].
  simpl. rewrite nth_error_app2 by lia. rewrite Nat.sub_diag. reflexivity.
Qed.

(* ------------------------------------------------------------------ assembling the property *)
Lemma sub_log_ok u vf h log : consistent vf h -> In log (subs (run u h)) ->
  calls_ok vf log /\ forall k, kget k (view log) = kget k (cur (run u h)).
Proof.
  intros C Hin. destruct (run_linv vf u h C) as (_ & _ & F & _). eapply Forall_forall in F; eauto.
Qed.

Lemma container_tracks u vf h : consistent vf h ->
  forall log, In log (subs (run u h)) -> forall x ops, calls_of ops = log ->
  let c := crun x ops in
  (forall k v, kget k (mapping c) = Some v <->
               kget k (cur (run u h)) = Some v /\ (x = true -> last_add log v = Some k)) /\
  (forall k v, (exists l, alookup Nat.eqb v (values c) = Some l /\ In k l) <-> kget k (mapping c) = Some v).
Proof.
  intros C log Hin x ops E c. destruct (sub_log_ok u vf h log C Hin) as [Ok V].
  destruct (crun_inv vf x ops) as [I X]; [rewrite E; assumption|]. split.
  - intros k v. unfold c. rewrite (ci_view vf _ _ I). rewrite E, V, X. reflexivity.
  - apply (values_inverse vf _ _ I).
Qed.

Lemma converges u vf h : consistent vf h -> synced u h = true ->
  forall log, In log (subs (run u h)) -> forall x ops, calls_of ops = log ->
  exists vs, fst (get_values (crun x ops)) = Ok vs /\ NoDup vs /\
    forall v, In v vs <->
      exists k, u k = true /\ kget k (spec_etcd h) = Some v /\ (x = true -> last_add log v = Some k).
Proof.
  intros C Sy log Hin x ops E. destruct (container_tracks u vf h C log Hin x ops E) as [M _].
  destruct (sub_log_ok u vf h log C Hin) as [Ok _].
  destruct (crun_inv vf x ops) as [I _]; [rewrite E; assumption|].
  destruct (get_values_spec vf _ _ I) as (vs & G & Nd & Iv). exists vs. split; [assumption|]. split; [assumption|].
  destruct (cluster_tracks u h Sy) as (m & Cm & A).
  intro v. rewrite Iv. split.
  - intros (k & H). apply M in H as [H L]. unfold cur in H. rewrite Cm, A in H.
    exists k. destruct (u k); [|discriminate]. rewrite <- etcd_spec with (u := u). auto.
  - intros (k & U & H & L). exists k. apply M. split; [|assumption]. unfold cur. rewrite Cm, A, U.
    rewrite etcd_spec. assumption.
Qed.

Lemma converges_shared u vf h : consistent vf h -> synced u h = true ->
  forall log, In log (subs (run u h)) -> forall ops, calls_of ops = log ->
  exists vs, fst (get_values (crun false ops)) = Ok vs /\ NoDup vs /\
    forall v, In v vs <-> live u (spec_etcd h) v.
Proof.
  intros C Sy log Hin ops E. destruct (converges u vf h C Sy log Hin false ops E) as (vs & G & Nd & Iv).
  exists vs. split; [assumption|]. split; [assumption|]. intro v. rewrite Iv. unfold live. split.
  - intros (k & U & H & _). eauto.
  - intros (k & U & H). exists k. split; [assumption|]. split; [assumption|discriminate].
Qed.

Lemma exclusive_latest vf ops : calls_ok vf (calls_of ops) ->
  forall k v, kget k (mapping (crun true ops)) = Some v ->
    last_add (calls_of ops) v = Some k /\ alookup Nat.eqb v (values (crun true ops)) = Some [k].
Proof.
  intros C k v H. destruct (crun_inv vf true ops C) as [I X]. split.
  - apply (ci_view vf _ _ I) in H as [_ L]. auto.
  - pose proof (ci_struct vf _ _ I) as S. pose proof (cs_map vf _ S _ _ H) as Hin.
    pose proof (vget_in _ _ _ Hin) as VS. pose proof (cs_excl vf _ S X _ _ VS) as Len.
    unfold vals_get in VS. rewrite VS. f_equal.
    destruct (vget v (crun true ops)) as [|a [|b r]]; simpl in *; [contradiction| |lia].
    destruct Hin as [->|[]]. reflexivity.
Qed.

Lemma exclusive_takeover vf ops k2 v : calls_ok vf (calls_of ops) -> v = vf k2 ->
  forall k1, kget k1 (mapping (crun true (ops ++ [OCall (CAdd k2 v)]))) = Some v -> k1 = k2.
Proof.
  intros C E k1 H.
  assert (C' : calls_ok vf (calls_of (ops ++ [OCall (CAdd k2 v)]))).
  { rewrite calls_of_snoc. apply Forall_app. split; [assumption|]. constructor; [exact E|constructor]. }
  destruct (exclusive_latest vf _ C' _ _ H) as [L _]. rewrite calls_of_snoc in L. simpl in L.
  rewrite last_add_app in L. simpl in L. rewrite Nat.eqb_refl in L. inversion L. reflexivity.
Qed.

Lemma subs_iter (cl : call) (f : state -> state) :
  (forall s, subs (f s) = deliver [cl] (subs s)) ->
  forall n s, subs (iter n f s) = map (fun l => l ++ repeat cl n) (subs s).
Proof.
  intros H n. induction n; intro s; simpl.
  - rewrite <- (map_id (subs s)) at 1. apply map_ext. intro l. rewrite app_nil_r. reflexivity.
  - rewrite IHn, H. unfold deliver. rewrite map_map. apply map_ext. intro l. rewrite <- app_assoc. reflexivity.
Qed.

Lemma watching_of_subs u h : subs (run u h) <> [] -> 1 <= nwatch (run u h) /\ cvals (run u h) <> None.
Proof.
  intro H. destruct (run_inv u h) as (_ & W & I & _). destruct (fst (sync_state u h)).
  - destruct (W eq_refl) as (_ & A & B). auto.
  - destruct (I eq_refl) as (A & _). contradiction.
Qed.

Lemma put_reaches u h k v : u k = true ->
  subs (run u (h ++ [Put k v true])) =
    map (fun l => l ++ repeat (CAdd k v) (nwatch (run u h))) (subs (run u h)) /\
  (subs (run u h) <> [] -> 1 <= nwatch (run u h)).
Proof.
  intro U. split; [|intro H; apply watching_of_subs; assumption].
  rewrite run_snoc. simpl. rewrite U. simpl. rewrite (subs_iter (CAdd k v)); [reflexivity|]. intro s. reflexivity.
Qed.

Lemma del_reaches u h k : u k = true -> kget k (etcd (run u h)) <> None ->
  subs (run u (h ++ [Del k true])) =
    map (fun l => l ++ repeat (CDel k) (nwatch (run u h))) (subs (run u h)).
Proof.
  intros U G. rewrite run_snoc. simpl. destruct (kget k (etcd (run u h))); [|congruence]. rewrite U. simpl.
  rewrite (subs_iter (CDel k)); [reflexivity|]. intro s. reflexivity.
Qed.

Lemma hc_subs oa od kvs s : exists cs, subs (handle_changes true oa od kvs s) = deliver cs (subs s).
Proof. unfold handle_changes. destruct (cvals s); simpl; eauto. Qed.

Lemma reload_reaches u h oa od : subs (run u h) <> [] ->
  exists adds dels,
    subs (run u (h ++ [Reload oa od])) = map (fun l => l ++ map add_call adds ++ map del_call dels) (subs (run u h)) /\
    Permutation adds (changed (to_map (snapshot_of u (run u h))) (cur (run u h))) /\
    Permutation dels (changed (cur (run u h)) (to_map (snapshot_of u (run u h)))).
Proof.
  intro H. destruct (watching_of_subs u h H) as [_ C]. rewrite run_snoc. simpl.
  destruct (subs (run u h)) eqn:Sb; [congruence|]. rewrite <- Sb. unfold handle_changes, cur.
  destruct (cvals (run u h)) as [vals|]; [|congruence]. simpl.
  eexists; eexists. split; [reflexivity|]. split; apply order_by_perm.
Qed.

Lemma synced_subscribe u h oc oa od : synced u (h ++ [Subscribe oc oa od]) = true.
Proof. unfold synced. rewrite sync_snoc. reflexivity. Qed.

Lemma late_join u vf h oc oa od x : consistent vf h ->
  let h' := h ++ [Subscribe oc oa od] in
  let log := last (subs (run u h')) [] in
  In log (subs (run u h')) /\
  (* it is first told everything the cluster currently knows (when the cluster is already watched) ... *)
  (subs (run u h) <> [] ->
     exists rest, log = map add_call (order_by oc (cur (run u h))) ++ rest /\
                  Permutation (order_by oc (cur (run u h))) (cur (run u h))) /\
  (* ... and with the load that follows it shows the live set *)
  (forall ops, calls_of ops = log ->
     exists vs, fst (get_values (crun x ops)) = Ok vs /\ NoDup vs /\
       forall v, In v vs <->
         exists k, u k = true /\ kget k (spec_etcd h') = Some v /\ (x = true -> last_add log v = Some k)).
Proof.
  intros C h' log.
  assert (C' : consistent vf h') by (apply Forall_app; split; [assumption|constructor; [exact I|constructor]]).
  assert (SB : exists cs replay, subs (run u h') = deliver cs (subs (run u h) ++ [replay]) /\
               (subs (run u h) <> [] -> replay = map add_call (order_by oc (cur (run u h))))).
  { unfold h'. rewrite run_snoc. simpl.
    match goal with |- context [handle_changes true oa od ?kv ?s1] => destruct (hc_subs oa od kv s1) as (cs & E) end.
    simpl in E. eexists; eexists. split; [exact E|]. intro H. destruct (subs (run u h)); [congruence|reflexivity]. }
  destruct SB as (cs & replay & E & R).
  assert (L : log = replay ++ cs).
  { unfold log. rewrite E. unfold deliver. rewrite map_app. simpl. apply last_last. }
  assert (Hin : In log (subs (run u h'))).
  { rewrite L, E. unfold deliver. rewrite map_app. apply in_app_iff. right. left. reflexivity. }
  split; [assumption|]. split.
  - intro H. exists cs. rewrite L, (R H). split; [reflexivity|apply order_by_perm].
  - intros ops Eo. apply (converges u vf h' C' (synced_subscribe u h oc oa od) log Hin x ops Eo).
Qed.

(* the pre-repair tree: the snapshot stored by the first load is never replaced *)
Lemma stale_snapshot_regression :
  let u := fun _ : key => true in
  let h := [Subscribe [] [] []; Put 1 7 false; Reload [] []; Del 1 false; Reload [] []] in
  synced u h = true /\ spec_etcd h = [] /\
  (* current code: the value is gone *)
  map (fun log => fst (get_values (crun false (map OCall log)))) (subs (run u h)) = [Ok []] /\
  (* without `c.values[key] = m`: the second reload diffs against the empty first snapshot and never removes it *)
  map (fun log => fst (get_values (crun false (map OCall log)))) (subs (run_prefix u h)) = [Ok [7]].
Proof. vm_compute. repeat split; reflexivity. Qed.

(* ------------------------------------------------------------------ late joiner: same keys *)
Lemma mapping_converges u vf h : consistent vf h -> synced u h = true ->
  forall log, In log (subs (run u h)) -> forall x ops, calls_of ops = log ->
  forall k v, kget k (mapping (crun x ops)) = Some v <->
              u k = true /\ kget k (spec_etcd h) = Some v /\ (x = true -> last_add log v = Some k).
Proof.
  intros C Sy log Hin x ops E k v. destruct (container_tracks u vf h C log Hin x ops E) as [M _].
  destruct (cluster_tracks u h Sy) as (m & Cm & A). rewrite M. unfold cur. rewrite Cm, A, etcd_spec.
  destruct (u k); split.
  - intros [H L]. auto.
  - intros (_ & H & L). auto.
  - intros [H _]. discriminate.
  - intros (H & _). discriminate.
Qed.

Lemma subscribers_agree u vf h : consistent vf h ->
  forall log1 log2, In log1 (subs (run u h)) -> In log2 (subs (run u h)) ->
  forall ops1 ops2, calls_of ops1 = log1 -> calls_of ops2 = log2 ->
  forall k, kget k (mapping (crun false ops1)) = kget k (mapping (crun false ops2)).
Proof.
  intros C log1 log2 H1 H2 ops1 ops2 E1 E2 k.
  destruct (container_tracks u vf h C log1 H1 false ops1 E1) as [M1 _].
  destruct (container_tracks u vf h C log2 H2 false ops2 E2) as [M2 _].
  destruct (kget k (mapping (crun false ops1))) as [v|] eqn:G1.
  - apply M1 in G1 as [G1 _]. symmetry. apply M2. split; [assumption|discriminate].
  - destruct (kget k (mapping (crun false ops2))) as [v|] eqn:G2; [|reflexivity].
    apply M2 in G2 as [G2 _]. rewrite <- G1. apply M1. split; [assumption|discriminate].
Qed.

Lemma late_join_mapping u vf h oc oa od x : consistent vf h ->
  let h' := h ++ [Subscribe oc oa od] in
  let log := last (subs (run u h')) [] in
  forall ops, calls_of ops = log ->
  forall k v, kget k (mapping (crun x ops)) = Some v <->
              u k = true /\ kget k (spec_etcd h') = Some v /\ (x = true -> last_add log v = Some k).
Proof.
  intros C h' log ops E.
  assert (C' : consistent vf h') by (apply Forall_app; split; [assumption|constructor; [exact I|constructor]]).
  destruct (late_join u vf h oc oa od x C) as (Hin & _).
  apply (mapping_converges u vf h' C' (synced_subscribe u h oc oa od) log Hin x ops E).
Qed.

(* ------------------------------------------------------------------ the same key delivered several times *)
Lemma view_repeat_add k v n m k' :
  kget k' (fold_left view_step (repeat (CAdd k v) n) m) =
  match n with 0 => kget k' m | S _ => if Nat.eqb k' k then Some v else kget k' m end.
Proof.
  revert m. induction n as [|n IH]; intro m; [reflexivity|]. simpl. rewrite IH. destruct n.
  - apply kget_kset.
  - rewrite kget_kset. destruct (Nat.eqb k' k); reflexivity.
Qed.

Lemma duplicate_delivery vf x ops k v n : calls_ok vf (calls_of ops) -> v = vf k ->
  let c := crun x (ops ++ map OCall (repeat (CAdd k v) n) ++ [OCall (CDel k)]) in
  kget k (mapping c) = None /\
  exists vs, fst (get_values c) = Ok vs /\ NoDup vs /\
    forall v', In v' vs <-> exists k', k' <> k /\ kget k' (mapping c) = Some v'.
Proof.
  intros C E c.
  assert (CO : calls_of (ops ++ map OCall (repeat (CAdd k v) n) ++ [OCall (CDel k)]) =
               calls_of ops ++ repeat (CAdd k v) n ++ [CDel k]).
  { unfold calls_of. rewrite !flat_map_app. f_equal. f_equal.
    induction n; simpl; [reflexivity|]. f_equal. assumption. }
  assert (C' : calls_ok vf (calls_of (ops ++ map OCall (repeat (CAdd k v) n) ++ [OCall (CDel k)]))).
  { rewrite CO. apply Forall_app. split; [assumption|]. apply Forall_app. split.
    - apply Forall_forall. intros y Hy. apply repeat_spec in Hy. subst y. exact E.
    - constructor; [exact I|constructor]. }
  destruct (crun_inv vf x _ C') as [I X]. fold c in I.
  assert (N : kget k (mapping c) = None).
  { destruct (kget k (mapping c)) as [v'|] eqn:G; [|reflexivity]. apply (ci_view vf _ _ I) in G as [G _].
    rewrite CO in G. rewrite app_assoc, view_snoc in G. simpl in G. rewrite kget_kdel, Nat.eqb_refl in G. discriminate. }
  split; [assumption|]. destruct (get_values_spec vf _ _ I) as (vs & G & Nd & Iv).
  exists vs. split; [assumption|]. split; [assumption|]. intro v'. rewrite Iv. split.
  - intros (k' & H). exists k'. split; [|assumption]. intro Q; subst. congruence.
  - intros (k' & _ & H). eauto.
Qed.

(* ------------------------------------------------------------------ the resolver *)
Definition rphase (init : list call) (r : rstate) (cs : list call) : Prop :=
  exists ops, r_ops r = Some ops /\ calls_of ops = cs /\
    ((r_todo r = [BListen; BPush] /\ r_reg r = false) \/
     (r_todo r = [BPush] /\ r_reg r = true) \/
     (r_todo r = [] /\ r_reg r = true /\
      exists ops' ps, ops = ops' ++ [OGet] /\ r_pushes r = ps ++ [fst (get_values (crun false ops'))])).

Lemma calls_of_app a b : calls_of (a ++ b) = calls_of a ++ calls_of b.
Proof. unfold calls_of. apply flat_map_app. Qed.

Lemma rphase_step init r cs i : rphase init r cs ->
  rphase init (rstep init r i) (cs ++ match i with Some c => [c] | None => [] end).
Proof.
  intros (ops & O & Cs & Ph). destruct i as [c|]; simpl.
  - rewrite O. destruct Ph as [[T Rg]|[[T Rg]|(T & Rg & ops' & ps & Eo & Ep)]]; rewrite Rg.
    + exists (ops ++ [OCall c]). simpl. split; [reflexivity|]. split; [rewrite calls_of_app, Cs; reflexivity|]. left. auto.
    + unfold r_push. simpl. exists ((ops ++ [OCall c]) ++ [OGet]). simpl. split; [reflexivity|].
      split; [rewrite !calls_of_app, Cs; simpl; rewrite app_nil_r; reflexivity|]. right. left. auto.
    + unfold r_push. simpl. exists ((ops ++ [OCall c]) ++ [OGet]). simpl. split; [reflexivity|].
      split; [rewrite !calls_of_app, Cs; simpl; rewrite app_nil_r; reflexivity|]. right. right.
      split; [auto|]. split; [auto|]. exists (ops ++ [OCall c]), (r_pushes r). auto.
  - rewrite app_nil_r. destruct Ph as [[T Rg]|[[T Rg]|(T & Rg & ops' & ps & Eo & Ep)]]; rewrite T.
    + exists (ops ++ [OListen]). simpl. rewrite O. simpl. split; [reflexivity|].
      split; [rewrite calls_of_app, Cs; simpl; apply app_nil_r|]. right. left. auto.
    + unfold r_push. simpl. rewrite O. exists (ops ++ [OGet]). simpl. split; [reflexivity|].
      split; [rewrite calls_of_app, Cs; simpl; apply app_nil_r|]. right. right.
      split; [reflexivity|]. split; [assumption|]. exists ops, (r_pushes r). auto.
    + exists ops. split; [assumption|]. split; [assumption|]. right. right. split; [assumption|]. split; [assumption|].
      exists ops', ps. auto.
Qed.

Lemma rphase_run init sched : forall r cs, rphase init r cs ->
  rphase init (fold_left (rstep init) sched r) (cs ++ somes sched).
Proof.
  induction sched as [|i sched IH]; intros r cs H; simpl.
  - rewrite app_nil_r. assumption.
  - unfold somes in *. simpl. rewrite app_assoc. apply IH. apply rphase_step. assumption.
Qed.

Lemma calls_of_ocalls l : calls_of (map OCall l) = l.
Proof. unfold calls_of. induction l; simpl; [reflexivity|]. f_equal. assumption. Qed.

Lemma resolver_no_lost_update init sched :
  let r := rrun build_order init sched in
  r_todo r = [] ->
  exists ops ps, calls_of ops = init ++ arrived sched /\
                 r_pushes r = ps ++ [fst (get_values (crun false ops))].
Proof.
  unfold rrun. induction sched as [|[c|] sched IH]; simpl.
  - discriminate.
  - exact IH.
  - intro T.
    assert (P : rphase init (mkR (Some (map OCall init)) [BListen; BPush] false []) init).
    { exists (map OCall init). split; [reflexivity|]. split; [apply calls_of_ocalls|left; auto]. }
    apply (rphase_run init sched) in P. destruct P as (ops & O & Cs & Ph).
    destruct Ph as [[T' _]|[[T' _]|(_ & _ & ops' & ps & Eo & Ep)]]; try congruence.
    exists ops', ps. split; [|assumption]. rewrite <- Cs, Eo, calls_of_app. simpl. symmetry. apply app_nil_r.
Qed.

Lemma resolver_current u vf h log init sched :
  consistent vf h -> synced u h = true -> In log (subs (run u h)) -> init ++ arrived sched = log ->
  let r := rrun build_order init sched in
  r_todo r = [] ->
  exists ps vs, r_pushes r = ps ++ [Ok vs] /\ NoDup vs /\ forall v, In v vs <-> live u (spec_etcd h) v.
Proof.
  intros C Sy Hin E r T. destruct (resolver_no_lost_update init sched T) as (ops & ps & Co & Ep).
  rewrite E in Co. destruct (converges_shared u vf h C Sy log Hin ops Co) as (vs & G & Nd & Iv).
  exists ps, vs. fold r in Ep. rewrite Ep, G. auto.
Qed.

(* pushing before registering loses an update that arrives in between *)
Lemma resolver_push_first_loses :
  let sched := [None; None; Some (CAdd 1 7); None] in
  let r := rrun [BSubscribe; BPush; BListen] [] sched in
  r_todo r = [] /\ r_pushes r = [Ok []] /\
  option_map (fun ops => fst (get_values (crun false ops))) (r_ops r) = Some (Ok [7]).
Proof. vm_compute. repeat split; reflexivity. Qed.

(* ------------------------------------------------------------------ batches reach listeners in order *)
Lemma batch_reaches u h items :
  subs (run u (h ++ [Batch items])) =
  map (fun l => l ++ concat (repeat (map bcall (filter (fun b => u (bkey b)) items)) (nwatch (run u h))))
      (subs (run u h)).
Proof.
  rewrite run_snoc. simpl. generalize (nwatch (run u h)) as n.
  set (evs := filter (fun b => u (bkey b)) items).
  assert (G : forall n s, subs (iter n (apply_batch evs) s) = map (fun l => l ++ concat (repeat (map bcall evs) n)) (subs s)).
  { induction n; intro s; simpl.
    - rewrite <- (map_id (subs s)) at 1. apply map_ext. intro l. rewrite app_nil_r. reflexivity.
    - rewrite IHn, ab_subs, map_map. apply map_ext. intro l. rewrite <- app_assoc. reflexivity. }
  intro n. rewrite G. reflexivity.
Qed.

(* ------------------------------------------------------------------ a reload re-syncs every listened prefix *)
Lemma subs_loaded u h : subs (run u h) <> [] -> fst (sync_state u h) = true.
Proof.
  intro H. destruct (run_inv u h) as (_ & _ & I & _). destruct (fst (sync_state u h)); [reflexivity|].
  destruct (I eq_refl) as (A & _). contradiction.
Qed.

Lemma reload_resyncs u h oa od : subs (run u h) <> [] -> synced u (h ++ [Reload oa od]) = true.
Proof.
  intro H. unfold synced. rewrite sync_snoc. simpl. rewrite (subs_loaded u h H). rewrite orb_true_r. reflexivity.
Qed.

(* ------------------------------------------------------------------ several prefixes *)
Lemma project_snoc_ev i h e : project i (h ++ [MEv e]) = project i h ++ [e].
Proof. unfold project. rewrite flat_map_app. simpl. reflexivity. Qed.

Lemma every_prefix_reloaded us h oa od i : subs (mrun us h i) <> [] ->
  synced (us i) (project i (h ++ [MEv (Reload oa od)])) = true /\
  exists m, cvals (mrun us (h ++ [MEv (Reload oa od)]) i) = Some m /\
            forall k, kget k m = if us i k then kget k (etcd (mrun us (h ++ [MEv (Reload oa od)]) i)) else None.
Proof.
  intro H. unfold mrun in *. rewrite project_snoc_ev.
  pose proof (reload_resyncs (us i) (project i h) oa od H) as Sy. split; [assumption|]. apply cluster_tracks. assumption.
Qed.

(* ------------------------------------------------------------------ the publisher *)
Definition pgood (id : option nat) (v : val) (s : pstate) : Prop :=
  match p_mode s with
  | PActive => p_store s = [(full_key id (p_lease s), p_lease s)] /\
               forall k', kget k' (spec_etcd (p_events s)) = if Nat.eqb k' (full_key id (p_lease s)) then Some v else None
  | _ => p_store s = [] /\ forall k', kget k' (spec_etcd (p_events s)) = None
  end.

Lemma spec_etcd_snoc h e : spec_etcd (h ++ [e]) = spec_step (spec_etcd h) e.
Proof. unfold spec_etcd. rewrite fold_left_app. reflexivity. Qed.

Lemma p_revoke_active id v s : p_mode s = PActive -> pgood id v s ->
  p_store (p_revoke s) = [] /\ (forall k', kget k' (spec_etcd (p_events (p_revoke s))) = None) /\
  p_mode (p_revoke s) = PActive /\ p_next (p_revoke s) = p_next s /\ p_lease (p_revoke s) = p_lease s.
Proof.
  unfold pgood. intros M G. rewrite M in G. destruct G as [St Em]. unfold p_revoke. rewrite St. simpl.
  rewrite Nat.eqb_refl. simpl. split; [reflexivity|]. split; [|auto]. intro k'. rewrite spec_etcd_snoc. simpl.
  rewrite kget_kdel, Em. destruct (Nat.eqb k' (full_key id (p_lease s))); reflexivity.
Qed.

Lemma p_revoke_empty s : p_store s = [] -> p_revoke s = s.
Proof. intro E. unfold p_revoke. rewrite E. simpl. rewrite app_nil_r. destruct s; simpl in *; subst; reflexivity. Qed.

Lemma p_register_good id v s : p_store s = [] -> (forall k', kget k' (spec_etcd (p_events s)) = None) ->
  pgood id v (p_register id v s).
Proof.
  intros St Em. unfold pgood, p_register. simpl. rewrite St. simpl. split; [reflexivity|]. intro k'.
  rewrite spec_etcd_snoc. simpl. rewrite kget_kset, Em. reflexivity.
Qed.

Lemma pstep_good id v s o : pgood id v s -> pgood id v (pstep id v s o).
Proof.
  intro G. unfold pstep. destruct o as [|ex| | |]; destruct (p_mode s) eqn:M; try assumption.
  - unfold pgood in G. rewrite M in G. destruct G. apply p_register_good; assumption.
  - destruct ex.
    + destruct (p_revoke_active id v s M G) as (A & B & C & _). rewrite (p_revoke_empty (p_revoke s) A).
      apply p_register_good; assumption.
    + destruct (p_revoke_active id v s M G) as (A & B & C & _). apply p_register_good; assumption.
  - destruct (p_revoke_active id v s M G) as (A & B & C & _). unfold pgood. simpl. split; assumption.
  - unfold pgood in G. rewrite M in G. destruct G. apply p_register_good; assumption.
  - destruct (p_revoke_active id v s M G) as (A & B & C & _). unfold pgood. simpl. split; assumption.
  - unfold pgood in *. rewrite M in G. simpl. assumption.
Qed.

Lemma prun_good id v ops : pgood id v (prun id v ops).
Proof.
  unfold prun. induction ops as [|o ops IH] using rev_ind.
  - unfold pgood; simpl. split; reflexivity.
  - rewrite fold_left_app. simpl. apply pstep_good. assumption.
Qed.

(* what the store emitted: delivered puts of v and delivered deletes *)
Definition pev_ok (v : val) (e : ev) : Prop :=
  match e with Put _ v' true => v' = v | Del _ true => True | _ => False end.

Lemma p_revoke_events v s : Forall (pev_ok v) (p_events s) -> Forall (pev_ok v) (p_events (p_revoke s)).
Proof.
  intro F. unfold p_revoke; simpl. apply Forall_app. split; [assumption|]. apply Forall_forall. intros e H.
  apply in_map_iff in H as (kl & <- & _). exact I.
Qed.

Lemma p_register_events id v s : Forall (pev_ok v) (p_events s) -> Forall (pev_ok v) (p_events (p_register id v s)).
Proof. intro F. unfold p_register; simpl. apply Forall_app. split; [assumption|]. constructor; [reflexivity|constructor]. Qed.

Lemma prun_events id v ops : Forall (pev_ok v) (p_events (prun id v ops)).
Proof.
  unfold prun. induction ops as [|o ops IH] using rev_ind; [constructor|]. rewrite fold_left_app. simpl.
  set (s := fold_left (pstep id v) ops pinit) in *. unfold pstep.
  destruct o as [|ex| | |]; destruct (p_mode s); try assumption.
  - apply p_register_events; assumption.
  - apply p_register_events, p_revoke_events. destruct ex; [apply p_revoke_events|]; assumption.
  - cbn [p_events]. apply p_revoke_events; assumption.
  - apply p_register_events; assumption.
  - cbn [p_events]. apply p_revoke_events; assumption.
Qed.

Lemma sync_delivered u v evs : Forall (pev_ok v) evs -> forall h, sync_state u (h ++ evs) = sync_state u h.
Proof.
  induction evs as [|e evs IH] using rev_ind; intros F h; [rewrite app_nil_r; reflexivity|].
  apply Forall_app in F as [F1 F2]. inversion F2; subst. rewrite app_assoc, sync_snoc, IH by assumption.
  destruct e as [k v' [|]|k [|]| | | | |]; simpl in *; try contradiction;
    rewrite andb_true_r; destruct (sync_state u h); reflexivity.
Qed.

Lemma consistent_delivered v evs : Forall (pev_ok v) evs -> consistent (fun _ => v) evs.
Proof.
  intro F. eapply Forall_impl; [|exact F]. intros e H. destruct e as [k v' [|]|k [|]| | | | |]; simpl in *; try contradiction; auto.
Qed.

(* a subscriber that was there before the publisher started lists the instance iff the publisher is active *)
Lemma publisher_view id v ops u log cops :
  let s := prun id v ops in
  let h := Subscribe [] [] [] :: p_events s in
  In log (subs (run u h)) -> calls_of cops = log ->
  exists vs, fst (get_values (crun false cops)) = Ok vs /\ NoDup vs /\
    forall v', In v' vs <-> (p_mode s = PActive /\ u (full_key id (p_lease s)) = true /\ v' = v).
Proof.
  intros s h Hin E.
  assert (F : Forall (pev_ok v) (p_events s)) by apply prun_events.
  assert (C : consistent (fun _ => v) h) by (constructor; [exact I|apply consistent_delivered; assumption]).
  assert (Sy : synced u h = true).
  { unfold synced, h. change (Subscribe [] [] [] :: p_events s) with ([Subscribe [] [] []] ++ p_events s).
    rewrite (sync_delivered u v _ F). reflexivity. }
  destruct (converges_shared u _ h C Sy log Hin cops E) as (vs & G & Nd & Iv).
  exists vs. split; [assumption|]. split; [assumption|]. intro v'. rewrite Iv. unfold live.
  assert (SE : spec_etcd h = spec_etcd (p_events s)) by reflexivity. rewrite SE.
  pose proof (prun_good id v ops) as PG. fold s in PG. unfold pgood in PG. destruct (p_mode s) eqn:M.
  - destruct PG as [_ Em]. split; [intros (k & _ & H); rewrite Em in H; discriminate|intros (H & _); discriminate].
  - destruct PG as [_ Em]. split.
    + intros (k & U & H). rewrite Em in H. destruct (Nat.eqb k (full_key id (p_lease s))) eqn:Q; [|discriminate].
      apply Nat.eqb_eq in Q; subst k. inversion H. auto.
    + intros (_ & U & ->). exists (full_key id (p_lease s)). split; [assumption|]. rewrite Em, Nat.eqb_refl. reflexivity.
  - destruct PG as [_ Em]. split; [intros (k & _ & H); rewrite Em in H; discriminate|intros (H & _); discriminate].
  - destruct PG as [_ Em]. split; [intros (k & _ & H); rewrite Em in H; discriminate|intros (H & _); discriminate].
Qed.

(* ------------------------------------------------------------------ failed snapshot attempts *)
Lemma getfail_skip u h1 h2 :
  run u (h1 ++ GetFail :: h2) = run u (h1 ++ h2) /\
  sync_state u (h1 ++ GetFail :: h2) = sync_state u (h1 ++ h2) /\
  spec_etcd (h1 ++ GetFail :: h2) = spec_etcd (h1 ++ h2).
Proof.
  unfold run, run_from, sync_state, spec_etcd. rewrite !fold_left_app. simpl. auto.
Qed.

(* ------------------------------------------------------------------ a watch stream cancelled by the server *)
Lemma rewatch_resyncs u h : subs (run u h) <> [] -> synced u (h ++ [Rewatch]) = true.
Proof.
  intro H. unfold synced. rewrite sync_snoc. simpl. rewrite (subs_loaded u h H). rewrite orb_true_r. reflexivity.
Qed.

Lemma rewatch_reaches u h : 1 <= nwatch (run u h) ->
  subs (run u (h ++ [Rewatch])) =
  map (fun l => l ++ map bcall (filter (fun b => u (bkey b)) (wlog (run u h)))) (subs (run u h)) /\
  nwatch (run u (h ++ [Rewatch])) = nwatch (run u h).
Proof.
  intro H. rewrite run_snoc. simpl. destruct (nwatch (run u h)) eqn:N; [lia|]. rewrite ab_subs.
  rewrite (proj2 (ab_etcd _ _)). auto.
Qed.

(* ------------------------------------------------------------------ one resolver per target *)
Lemma resolver_per_target us vf h i log init sched :
  consistent vf (project i h) -> synced (us i) (project i h) = true ->
  In log (subs (mrun us h i)) -> init ++ arrived sched = log ->
  let r := rrun build_order init sched in
  r_todo r = [] ->
  exists ps vs, r_pushes r = ps ++ [Ok vs] /\ NoDup vs /\ forall v, In v vs <-> live (us i) (spec_etcd (project i h)) v.
Proof. intros C Sy Hin E. apply (resolver_current (us i) vf (project i h) log init sched C Sy Hin E). Qed.

(* ------------------------------------------------------------------ the connection-state watcher *)
Definition not_ready (s : cstate) : Prop := s <> SReady.
Definition not_failed (s : cstate) : Prop := s <> SFailure /\ s <> SShutdown.

Lemma sw_keeps_disc mid : forall w, w_disc w = true -> Forall not_ready mid ->
  w_disc (sw_run w mid) = true /\ w_notified (sw_run w mid) = w_notified w.
Proof.
  induction mid as [|s mid IH]; intros w D F; [auto|]. inversion F; subst. unfold sw_run in *. simpl.
  destruct (IH (sw_update w s)) as [A B]; [|assumption|].
  - destruct s; simpl; try assumption; try reflexivity. exfalso. apply H1. reflexivity.
  - split; [assumption|]. rewrite B. destruct s; simpl; try reflexivity. exfalso. apply H1. reflexivity.
Qed.

Lemma sw_reload_once w mid : w_disc w = true -> Forall not_ready mid ->
  let w' := sw_run w (mid ++ [SReady]) in
  w_notified w' = S (w_notified w) /\ w_disc w' = false /\ w_cur w' = SReady.
Proof.
  intros D F. unfold sw_run. rewrite fold_left_app. fold (sw_run w mid). destruct (sw_keeps_disc mid w D F) as [A B].
  simpl. rewrite A. simpl. rewrite B. auto.
Qed.

Lemma sw_no_spurious rs : forall w, w_disc w = false -> Forall not_failed rs ->
  w_notified (sw_run w rs) = w_notified w /\ w_disc (sw_run w rs) = false.
Proof.
  induction rs as [|s rs IH]; intros w D F; [auto|]. inversion F; subst. destruct H1 as [N1 N2]. unfold sw_run in *. simpl.
  destruct (IH (sw_update w s)) as [A B]; [|assumption|].
  - destruct s; simpl; try assumption; try reflexivity; try (rewrite D; reflexivity); congruence.
  - split; [|assumption]. rewrite A. destruct s; simpl; try reflexivity; try (rewrite D; reflexivity); congruence.
Qed.
