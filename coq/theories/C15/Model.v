(* C15 Model: transcription of lib/discov/subscriber.go (container) and of
   lib/discov/internal/registry.go (Registry.Monitor, cluster) -- executable definitions only.
   Keys and values are nat identifiers of the strings. *)
From God Require Import Base.Prelude C15.Spec.

(* ------------------------------------------------------------------ subscriber.go: container *)
Record container := mkC {
  excl : bool;                          (* subscriber.go:75 *)
  values : list (val * list key);       (* :76  map[string][]string, value |-> keys *)
  mapping : amap;                       (* :77  key |-> value *)
  snapshot : option (list val);         (* :78  atomic.Value, None = nothing stored yet *)
  dirty : bool;                         (* :79 *)
  listeners : list nat                  (* :80  one invocation counter per registered func() *)
}.

(* newContainer :84 *)
Definition new_container (x : bool) : container := mkC x [] [] None true [].

Definition vget (v : val) (c : container) : list key :=
  match alookup Nat.eqb v (values c) with Some l => l | None => [] end.

Definition set_dirty (c : container) : container :=
  mkC (excl c) (values c) (mapping c) (snapshot c) true (listeners c).

Definition without (k : key) (l : list key) : list key := filter (fun x => negb (Nat.eqb x k)) l.

(* doRemoveKey :135-156 *)
Definition do_remove_key (k : key) (c : container) : container :=
  match kget k (mapping c) with
  | None => c
  | Some server =>
      let remain := without k (vget server c) in
      mkC (excl c)
          (match remain with
           | [] => aremove Nat.eqb server (values c)
           | _ => aset Nat.eqb server remain (values c)
           end)
          (kdel k (mapping c)) (snapshot c) (dirty c) (listeners c)
  end.

(* the exclusive-mode loop of addKv :113-115, `for _, k := range keys { c.doRemoveKey(k) }`.
   `keys` aliases the backing array of c.values[val], which doRemoveKey compacts in place
   (`remain := keys[:0]`), so the i-th iteration reads the array as left by the earlier ones:
   arr is that array (length fixed), i the loop index. *)
Fixpoint evict (fuel i : nat) (arr : list key) (v : val) (c : container) : container :=
  match fuel with
  | O => c
  | S fuel' =>
      match nth_error arr i with
      | None => c                        (* not reachable: the length of arr never changes *)
      | Some k =>
          let arr' :=
            match kget k (mapping c) with
            | Some server =>
                if Nat.eqb server v then
                  let remain := without k (vget v c) in remain ++ skipn (length remain) arr
                else arr
            | None => arr
            end in
          evict fuel' (S i) arr' v (do_remove_key k c)
      end
  end.

(* addKv :104-125 (its results are unused by OnAdd) *)
Definition add_kv (k : key) (v : val) (c : container) : container :=
  let c1 := set_dirty c in
  let keys := vget v c1 in
  let early := negb (Nat.eqb (length keys) 0) in
  let c2 := if excl c1 && early then evict (length keys) 0 keys v c1 else c1 in
  mkC (excl c2) (aset Nat.eqb v (vget v c2 ++ [k]) (values c2)) (kset k v (mapping c2))
      (snapshot c2) (dirty c2) (listeners c2).

(* removeKey :127-133 *)
Definition remove_key (k : key) (c : container) : container := do_remove_key k (set_dirty c).

(* notifyChange :158-166 *)
Definition notify_change (c : container) : container :=
  mkC (excl c) (values c) (mapping c) (snapshot c) (dirty c) (map S (listeners c)).

(* OnAdd :93, OnDelete :98 *)
Definition on_add (k : key) (v : val) (c : container) : container := notify_change (add_kv k v c).
Definition on_delete (k : key) (c : container) : container := notify_change (remove_key k c).

(* addListener :168 *)
Definition add_listener (c : container) : container :=
  mkC (excl c) (values c) (mapping c) (snapshot c) (dirty c) (listeners c ++ [0]).

(* getValues :174-190; `c.snapshot.Load().([]string)` panics if nothing was ever stored *)
Definition get_values (c : container) : result (list val) * container :=
  if negb (dirty c) then
    (match snapshot c with Some l => Ok l | None => Panic end, c)
  else
    let vals := map fst (values c) in
    (Ok vals, mkC (excl c) (values c) (mapping c) (Some vals) false (listeners c)).

(* what a subscriber's container goes through *)
Inductive cop := OCall (c : call) | OListen | OGet.

Definition cstep (c : container) (o : cop) : container :=
  match o with
  | OCall (CAdd k v) => on_add k v c
  | OCall (CDel k) => on_delete k c
  | OListen => add_listener c
  | OGet => snd (get_values c)
  end.

Definition crun (x : bool) (ops : list cop) : container := fold_left cstep ops (new_container x).

Definition calls_of (ops : list cop) : list call :=
  flat_map (fun o => match o with OCall c => [c] | _ => [] end) ops.

(* ------------------------------------------------------------------ registry.go: cluster *)
(* One watched prefix key. A listener is represented by the calls it has received. *)
Record state := mkS {
  etcd : amap;                  (* the true store (all keys) *)
  rev : nat;                    (* its revision *)
  cvals : option amap;          (* registry.go:72 c.values[key]; None = no entry *)
  subs : list (list call);      (* :73 c.listeners[key], in registration order *)
  nwatch : nat;                 (* running watchStream goroutines for the key *)
  wlog : list bev               (* the store's change log since the last snapshot was read: what a watch created
                                   `WithRev(rev+1)` for that snapshot's revision is sent first *)
}.

Definition init : state := mkS [] 1 None [] 0 [].

Definition cur (s : state) : amap := match cvals s with Some m => m | None => [] end.

(* Go map iteration order is unspecified: an oracle list o says which keys came first *)
Fixpoint extract (k : key) (l : amap) : option ((key * val) * amap) :=
  match l with
  | [] => None
  | (k', v) :: r =>
      if Nat.eqb k k' then Some ((k', v), r)
      else match extract k r with
           | Some (x, r') => Some (x, (k', v) :: r')
           | None => None
           end
  end.

Definition pull (k : key) (acc : amap) : amap :=
  match extract k acc with Some (x, r) => x :: r | None => acc end.

Definition order_by (o : list key) (l : amap) : amap := fold_right pull l o.

Definition add_call (kv : key * val) : call := CAdd (fst kv) (snd kv).
Definition del_call (kv : key * val) : call := CDel (fst kv).

Definition deliver (cs : list call) (ss : list (list call)) : list (list call) :=
  map (fun l => l ++ cs) ss.

(* entries of a that are absent from b or carry another value in b (:192-207) *)
Definition changed (a b : amap) : amap :=
  filter (fun kv => match kget (fst kv) b with
                    | Some v' => negb (Nat.eqb (snd kv) v')
                    | None => true
                    end) a.

(* m[kv.Key] = kv.Val for every kv (:183-185, :188-191) *)
Definition to_map (kvs : amap) : amap := fold_left (fun m kv => kset (fst kv) (snd kv) m) kvs [].

(* handleChanges :173-225. store = false is the tree before the D5 repair, where line 208
   (`c.values[key] = m`) was missing; the model of the current code is store = true. *)
Definition handle_changes (store : bool) (oa od : list key) (kvs : amap) (s : state) : state :=
  match cvals s with
  | None =>
      mkS (etcd s) (rev s) (Some (to_map kvs))
          (deliver (map add_call (order_by oa kvs)) (subs s)) (nwatch s) (wlog s)
  | Some vals =>
      let m := to_map kvs in
      let remove := order_by od (changed vals m) in
      let add := order_by oa (changed m vals) in
      mkS (etcd s) (rev s) (Some (if store then m else vals))
          (deliver (map add_call add ++ map del_call remove) (subs s)) (nwatch s) (wlog s)
  end.

(* handleWatchEvents :275-312, one event arriving on one stream *)
Definition watch_put (k : key) (v : val) (s : state) : state :=
  mkS (etcd s) (rev s)
      (Some (match cvals s with Some vals => kset k v vals | None => [(k, v)] end))
      (deliver [CAdd k v] (subs s)) (nwatch s) (wlog s).

Definition watch_del (k : key) (s : state) : state :=
  mkS (etcd s) (rev s) (option_map (kdel k) (cvals s)) (deliver [CDel k] (subs s)) (nwatch s) (wlog s).

Fixpoint iter (n : nat) (f : state -> state) (s : state) : state :=
  match n with O => s | S n' => iter n' f (f s) end.

(* handleWatchEvents :275-312 on a response carrying several events: one after the other, in order *)
Definition apply_batch (evs : list bev) (s : state) : state :=
  fold_left (fun s b => match b with BPut k v => watch_put k v s | BDel k => watch_del k s end) evs s.

Definition bcall (b : bev) : call := match b with BPut k v => CAdd k v | BDel k => CDel k end.

Section Cluster.
  Variable under : key -> bool.   (* keys selected by makeKeyPrefix(key) + WithPrefix *)
  Variable store : bool.

  (* cli.Get(prefix, WithPrefix) in load :145-171 *)
  Definition snapshot_of (s : state) : amap := filter (fun kv => under (fst kv)) (etcd s).

  Definition step (s : state) (e : ev) : state :=
    match e with
    | Put k v d =>
        let s1 := mkS (kset k v (etcd s)) (S (rev s)) (cvals s) (subs s) (nwatch s) (wlog s ++ [BPut k v]) in
        (* every open stream of the prefix receives the event *)
        if d && under k then iter (nwatch s) (watch_put k v) s1 else s1
    | Del k d =>
        match kget k (etcd s) with
        | None => s                                   (* deleting an absent key is not an event *)
        | Some _ =>
            let s1 := mkS (kdel k (etcd s)) (S (rev s)) (cvals s) (subs s) (nwatch s) (wlog s ++ [BDel k]) in
            if d && under k then iter (nwatch s) (watch_del k) s1 else s1
        end
    | Reload oa od =>
        (* reload :124-143: stop the streams; per listened key: load, then one watch *)
        match subs s with
        | [] => s
        | _ => let s1 := handle_changes store oa od (snapshot_of s) s in
               mkS (etcd s1) (rev s1) (cvals s1) (subs s1) 1 []
        end
    | Subscribe oc oa od =>
        (* Registry.Monitor :44-54: a cluster that already exists replays getCurrent to the new
           listener; cluster.monitor :329-345: register, load, one more watch *)
        let replay := match subs s with
                      | [] => []
                      | _ => map add_call (order_by oc (cur s))
                      end in
        let s1 := mkS (etcd s) (rev s) (cvals s) (subs s ++ [replay]) (nwatch s) (wlog s) in
        let s2 := handle_changes store oa od (snapshot_of s1) s1 in
        mkS (etcd s2) (rev s2) (cvals s2) (subs s2) (S (nwatch s)) []
    | Batch items =>
        (* every open stream of the prefix receives the response (the events under the prefix) *)
        let s1 := mkS (fold_left bev_step items (etcd s)) (length items + rev s) (cvals s) (subs s) (nwatch s) (wlog s ++ items) in
        iter (nwatch s) (apply_batch (filter (fun b => under (bkey b)) items)) s1
    | GetFail =>
        (* load :145-158: the attempt had its own context (context.WithTimeout per iteration, cancelled right
           after), the error is logged, the loop sleeps coolDownInterval and tries again: nothing is kept *)
        s
    | Rewatch =>
        (* watchStream :235-273 returns false on a closed channel / a cancel response; watch :227-233 calls it
           again with the SAME rev (the revision of its load): the new stream is created WithRev(rev+1) and the
           server first sends what was committed since (under the prefix), whether or not it was seen before *)
        match nwatch s with
        | O => s
        | S _ => apply_batch (filter (fun b => under (bkey b)) (wlog s)) s
        end
    end.

  Definition run_from (s : state) (h : list ev) : state := fold_left step h s.
End Cluster.

(* the code as it is now *)
Definition run (under : key -> bool) (h : list ev) : state := run_from under true init h.
(* the tree before the D5 repair (kept for the regression example) *)
Definition run_prefix (under : key -> bool) (h : list ev) : state := run_from under false init h.

(* ------------------------------------------------------------------ rpc/resolver/internal/discovbuilder.go *)
(* Build: sub := discov.NewSubscriber(hosts, key) (:17, Registry.Monitor inside: its calls are `init`);
   sub.AddListener(update) (:31); update() (:32), where update pushes subset(sub.Values(), subsetSize) to
   cc.UpdateState. The subscriber is not exclusive. (subset only permutes while there are at most subsetSize
   = 32 values; the model records the whole list.) *)
Inductive bstep := BSubscribe | BListen | BPush.
Definition build_order : list bstep := [BSubscribe; BListen; BPush].

Record rstate := mkR {
  r_ops : option (list cop);            (* what sub's container went through; None = no subscriber yet *)
  r_todo : list bstep;                  (* what Build still has to do *)
  r_reg : bool;                         (* update is registered as change listener *)
  r_pushes : list (result (list val))   (* cc.UpdateState calls *)
}.

(* update() *)
Definition r_push (r : rstate) : rstate :=
  match r_ops r with
  | Some ops => mkR (Some (ops ++ [OGet])) (r_todo r) (r_reg r)
                    (r_pushes r ++ [fst (get_values (crun false ops))])
  | None => mkR None (r_todo r) (r_reg r) (r_pushes r ++ [Panic])
  end.

(* a schedule item: None = Build executes its next step; Some c = the cluster delivers c to the container
   (concurrently with Build: watch goroutines) *)
Definition rstep (init : list call) (r : rstate) (i : option call) : rstate :=
  match i with
  | None =>
      match r_todo r with
      | [] => r
      | BSubscribe :: t => mkR (Some (map OCall init)) t (r_reg r) (r_pushes r)
      | BListen :: t => mkR (option_map (fun ops => ops ++ [OListen]) (r_ops r)) t true (r_pushes r)
      | BPush :: t => r_push (mkR (r_ops r) t (r_reg r) (r_pushes r))
      end
  | Some c =>
      match r_ops r with
      | None => r                        (* nothing is subscribed: nothing can be delivered *)
      | Some ops =>
          let r' := mkR (Some (ops ++ [OCall c])) (r_todo r) (r_reg r) (r_pushes r) in
          if r_reg r then r_push r' else r'    (* notifyChange runs the registered listener *)
      end
  end.

Definition rrun (order : list bstep) (init : list call) (sched : list (option call)) : rstate :=
  fold_left (rstep init) sched (mkR None order false []).

Definition somes (sched : list (option call)) : list call :=
  flat_map (fun i => match i with Some c => [c] | None => [] end) sched.

(* the calls delivered after NewSubscriber returned *)
Fixpoint arrived (sched : list (option call)) : list call :=
  match sched with
  | [] => []
  | None :: r => somes r
  | Some _ :: r => arrived r
  end.

(* ------------------------------------------------------------------ several prefixes on one cluster *)
(* c.values and c.listeners are keyed by the subscribed key; Registry.Monitor / cluster.monitor touch only
   their key; reload (:124-143) runs load + watch for EVERY key of c.listeners, each goroutine with its own copy
   (`k := key`, go 1.19 loop-variable semantics). So a cluster with several prefixes is the product of
   single-prefix clusters over the same store and the same connection events. *)
Inductive mev := MEv (e : ev) | MSub (i : nat) (oc oa od : list key).

Definition project (i : nat) (h : list mev) : list ev :=
  flat_map (fun m => match m with
                     | MEv e => [e]
                     | MSub j oc oa od => if Nat.eqb i j then [Subscribe oc oa od] else []
                     end) h.

Definition mrun (us : nat -> key -> bool) (h : list mev) (i : nat) : state := run (us i) (project i h).

(* ------------------------------------------------------------------ publisher.go *)
(* The scripted etcd with leases: key |-> lease it is attached to (the value is the publisher's constant value);
   Grant hands out p_next. fullKey = key/id (WithId) or key/lease (:92-96), encoded 2*id / 2*lease+1. *)
Inductive pmode := PIdle | PActive | PPaused | PStopped.

Record pstate := mkP {
  p_store : list (key * nat);
  p_next : nat;
  p_lease : nat;              (* p.lease :24 *)
  p_mode : pmode;             (* what the keepAliveAsync goroutine is doing *)
  p_events : list ev          (* what the store emitted (all delivered) *)
}.

Definition pinit : pstate := mkP [] 1 0 PIdle [].

Definition full_key (id : option nat) (lease : nat) : key :=
  match id with Some n => 2 * n | None => 2 * lease + 1 end.

(* client.Revoke: every key attached to the lease disappears *)
Definition p_revoke (s : pstate) : pstate :=
  let gone := filter (fun kl => Nat.eqb (snd kl) (p_lease s)) (p_store s) in
  mkP (filter (fun kl => negb (Nat.eqb (snd kl) (p_lease s))) (p_store s)) (p_next s) (p_lease s) (p_mode s)
      (p_events s ++ map (fun kl => Del (fst kl) true) gone).

(* KeepAlive :53-68 = register (:85-100: Grant, Put with the lease) and p.lease = the new lease *)
Definition p_register (id : option nat) (v : val) (s : pstate) : pstate :=
  let l := p_next s in
  let k := full_key id l in
  mkP ((k, l) :: filter (fun kl => negb (Nat.eqb (fst kl) k)) (p_store s)) (S l) l PActive
      (p_events s ++ [Put k v true]).

Inductive pop := OStart | OLose (expired : bool) | OPause | OResume | OStop.

(* keepAliveAsync :102-139 *)
Definition pstep (id : option nat) (v : val) (s : pstate) (o : pop) : pstate :=
  match o, p_mode s with
  | OStart, PIdle => p_register id v s
  | OLose expired, PActive =>
      (* the keep-alive channel closes (:111-118); when the lease really expired etcd has dropped its keys already *)
      let s1 := if expired then p_revoke s else s in
      p_register id v (p_revoke s1)
  | OPause, PActive =>
      let s1 := p_revoke s in mkP (p_store s1) (p_next s1) (p_lease s1) PPaused (p_events s1)
  | OResume, PPaused => p_register id v s
  | OStop, PActive =>
      let s1 := p_revoke s in mkP (p_store s1) (p_next s1) (p_lease s1) PStopped (p_events s1)
  | OStop, PPaused => mkP (p_store s) (p_next s) (p_lease s) PStopped (p_events s)
  | _, _ => s          (* the call is not possible in this state (it would block) *)
  end.

Definition prun (id : option nat) (v : val) (ops : list pop) : pstate := fold_left (pstep id v) ops pinit.

(* ------------------------------------------------------------------ statwatcher.go *)
(* watch :37-44 reads the connection state after every WaitForStateChange(ctx, currentState), which (grpc) returns at
   once when the state already differs from currentState; updateState :46-57 is applied to what was read. *)
Inductive cstate := SIdle | SConnecting | SReady | SFailure | SShutdown.

Record swatch := mkW {
  w_disc : bool;          (* disconnected *)
  w_cur : cstate;         (* currentState: the source state of the next wait *)
  w_notified : nat        (* how often the listeners (go c.reload(cli)) were run *)
}.

Definition sw_update (w : swatch) (s : cstate) : swatch :=
  match s with
  | SFailure | SShutdown => mkW true s (w_notified w)
  | SReady => if w_disc w then mkW false s (S (w_notified w)) else mkW false s (w_notified w)
  | _ => mkW (w_disc w) s (w_notified w)
  end.

Definition sw_run (w : swatch) (reads : list cstate) : swatch := fold_left sw_update reads w.
