(* C15 Exec: checkers evaluated by vm_compute on (history, what the Go code was observed to do). *)
From God Require Import Base.Prelude.
From God Require Export C15.Spec C15.Model.

(* observed at the end of one history event (lib/discov/internal driver) *)
Record stepobs := mkstep {
  o_calls : list (list call);     (* per listener (registration order): calls received during the event *)
  o_cvals : option amap;          (* cluster.values[prefix], None = no entry *)
  o_watchers : nat;               (* watch streams being read *)
  o_gets : nat;                   (* Get calls during the event *)
  o_opened : nat;                 (* Watch calls during the event *)
  o_getrev : nat;                 (* revision of the snapshot (when o_gets > 0) *)
  o_watchrev : nat;               (* WithRev of the new stream (when o_opened > 0) *)
  o_fine : bool                   (* no barrier timed out; the stream asks for prefix key + Delimiter *)
}.

(* observed when a subscriber's container is sampled (lib/discov driver) *)
Record sample := mksample {
  p_dirty_before : bool;
  p_get : list val;                       (* getValues(), canonical order *)
  p_values : list (val * list key);       (* container.values, key slices in slice order *)
  p_mapping : amap;                       (* container.mapping *)
  p_lst : list nat;                       (* invocation counts of the registered listeners *)
  p_dirty_after : bool
}.

(* one subscriber: the event at which it attached, the operations its container went through
   (its listener calls, AddListener, one OGet after every history event), the samples of the OGets *)
Record contobs := mkcont {
  t_excl : bool;
  t_start : nat;
  t_ops : list cop;
  t_samples : list sample
}.

(* a resolver built on the history (rpc/resolver/internal driver): Build runs at the history's (only)
   Subscribe event; every later event is delivered while or after Build pushes its first state *)
Record resobs := mkres {
  q_states : list (list val);      (* addresses of every cc.UpdateState, in call order *)
  q_fine : bool                    (* no barrier timed out, Build reached UpdateState, one watch stream *)
}.

Record pcase := mkcase {
  c_under : list key;
  c_events : list ev;
  c_steps : list stepobs;
  c_conts : list contobs;
  c_res : option resobs;
  c_loose : bool      (* observed through the real etcd client: the request counters / revisions are not compared *)
}.

Definition under_of (c : pcase) (k : key) : bool := existsb (Nat.eqb k) (c_under c).

(* ---------------------------------------------------------------- small executable helpers *)
Fixpoint all2 {A B} (f : A -> B -> bool) (l1 : list A) (l2 : list B) : bool :=
  match l1, l2 with
  | [], [] => true
  | a :: r1, b :: r2 => f a b && all2 f r1 r2
  | _, _ => false
  end.

Definition call_eqb (a b : call) : bool :=
  match a, b with
  | CAdd k v, CAdd k' v' => Nat.eqb k k' && Nat.eqb v v'
  | CDel k, CDel k' => Nat.eqb k k'
  | _, _ => false
  end.

Definition mem (n : nat) (l : list nat) : bool := existsb (Nat.eqb n) l.
Definition subset (l1 l2 : list nat) : bool := forallb (fun x => mem x l2) l1.
Fixpoint nodupb (l : list nat) : bool :=
  match l with [] => true | a :: r => negb (mem a r) && nodupb r end.
(* equal as sets, and the first one lists every element once *)
Definition set_eqb (l1 l2 : list nat) : bool := subset l1 l2 && subset l2 l1 && nodupb l1.

(* two association lists describe the same map; the first has no repeated key *)
Definition amap_eqb (a b : amap) : bool :=
  nodupb (map fst a) &&
  forallb (fun kv => option_eqb Nat.eqb (kget (fst kv) b) (Some (snd kv))) a &&
  forallb (fun kv => option_eqb Nat.eqb (kget (fst kv) a) (kget (fst kv) b)) b.

Definition values_eqb (obs mdl : list (val * list key)) : bool :=
  nodupb (map fst obs) &&
  forallb (fun vl => match alookup Nat.eqb (fst vl) mdl with
                     | Some l => list_eqb Nat.eqb l (snd vl)
                     | None => false
                     end) obs &&
  forallb (fun vl => mem (fst vl) (map fst obs)) mdl.

Definition is_nil {A} (l : list A) : bool := match l with [] => true | _ => false end.

(* ---------------------------------------------------------------- model agreement *)
Definition sample_matches (c : container) (p : sample) : bool :=
  let (r, c') := get_values c in
  Bool.eqb (dirty c) (p_dirty_before p) &&
  match r with Ok l => set_eqb (p_get p) l | _ => false end &&
  values_eqb (p_values p) (values c') &&
  amap_eqb (p_mapping p) (mapping c') &&
  list_eqb Nat.eqb (p_lst p) (listeners c') &&
  Bool.eqb (dirty c') (p_dirty_after p).

Fixpoint cont_rows (c : container) (ops : list cop) (ps : list sample) : bool :=
  match ops with
  | [] => is_nil ps
  | OGet :: ops' =>
      match ps with
      | p :: ps' => sample_matches c p && cont_rows (cstep c OGet) ops' ps'
      | [] => false
      end
  | o :: ops' => cont_rows (cstep c o) ops' ps
  end.

Definition cont_ok (t : contobs) : bool := cont_rows (new_container (t_excl t)) (t_ops t) (t_samples t).

Definition expects_load (s : state) (e : ev) : bool :=
  match e with
  | Subscribe _ _ _ => true
  | Reload _ _ => negb (is_nil (subs s))
  | _ => false
  end.

(* calls appended to each listener's log by one step *)
Fixpoint deltas (old new : list (list call)) : list (list call) :=
  match new with
  | [] => []
  | l :: r =>
      match old with
      | o :: ro => skipn (length o) l :: deltas ro r
      | [] => l :: deltas [] r
      end
  end.

Definition step_matches (loose : bool) (s s' : state) (e : ev) (o : stepobs) : bool :=
  o_fine o &&
  all2 (list_eqb call_eqb) (deltas (subs s) (subs s')) (o_calls o) &&
  match cvals s', o_cvals o with
  | Some m, Some m' => amap_eqb m' m
  | None, None => true
  | _, _ => false
  end &&
  (loose ||
  Nat.eqb (nwatch s') (o_watchers o) &&
  (if expects_load s e
   then Nat.eqb (o_gets o) 1 && Nat.eqb (o_opened o) 1 &&
        Nat.eqb (o_getrev o) (rev s') && Nat.eqb (o_watchrev o) (S (rev s'))   (* WithRev(rev+1) *)
   else match e with
        | Rewatch => Nat.eqb (o_gets o) 0 && Nat.eqb (o_opened o) (if Nat.eqb (nwatch s) 0 then 0 else 1)
        | _ => Nat.eqb (o_gets o) 0 && Nat.eqb (o_opened o) 0
        end)).

Fixpoint hist_rows (loose : bool) (u : key -> bool) (s : state) (h : list ev) (os : list stepobs) : bool :=
  match h, os with
  | [], [] => true
  | e :: h', o :: os' =>
      let s' := step u true s e in
      step_matches loose s s' e o && hist_rows loose u s' h' os'
  | _, _ => false
  end.

(* the calls the (single) subscriber receives: up to and including its Subscribe event / afterwards *)
Fixpoint split_log (u : key -> bool) (s : state) (h : list ev) : list call * list call :=
  match h with
  | [] => ([], [])
  | Subscribe oc oa od :: h' =>
      let s' := step u true s (Subscribe oc oa od) in
      let log0 := nth 0 (subs s') [] in
      (log0, skipn (length log0) (nth 0 (subs (run_from u true s' h')) []))
  | e :: h' => split_log u (step u true s e) h'
  end.

Definition res_model (u : key -> bool) (h : list ev) : list (result (list val)) :=
  let (log0, later) := split_log u init h in
  r_pushes (rrun build_order log0 ([None; None; None] ++ map (fun c => Some c) later)).

Definition res_ok (u : key -> bool) (h : list ev) (q : resobs) : bool :=
  q_fine q &&
  all2 (fun m o => match m with Ok l => set_eqb o l | _ => false end) (res_model u h) (q_states q).

Definition pmodel_ok (c : pcase) : bool :=
  let u := under_of c in
  match c_res c with
  | Some q => res_ok u (c_events c) q
  | None =>
      hist_rows (c_loose c) u init (c_events c) (c_steps c) &&
      (is_nil (c_events c) ||
       all2 (fun log t => list_eqb call_eqb (calls_of (t_ops t)) log) (subs (run u (c_events c))) (c_conts c)) &&
      forallb cont_ok (c_conts c)
  end.

(* ---------------------------------------------------------------- the property on the observations *)
Definition restrict (u : key -> bool) (m : amap) : amap := filter (fun kv => u (fst kv)) m.

(* (true store, synced) after every prefix of the history *)
Fixpoint infos (u : key -> bool) (m : amap) (st : bool * bool) (h : list ev) : list (amap * bool) :=
  match h with
  | [] => []
  | e :: r =>
      let m' := spec_step m e in
      let st' := sync_step u st e in
      (m', fst st' && snd st') :: infos u m' st' r
  end.

(* the proviso on a call sequence: every add of a key carries the same value *)
Fixpoint calls_consistent (seen : amap) (l : list call) : bool :=
  match l with
  | [] => true
  | CAdd k v :: r =>
      match kget k seen with
      | Some v' => Nat.eqb v v' && calls_consistent seen r
      | None => calls_consistent ((k, v) :: seen) r
      end
  | CDel _ :: r => calls_consistent seen r
  end.

(* values a subscriber must show, given the keys it should know (m) and what it was told (calls) *)
Definition expected_values (x : bool) (calls : list call) (m : amap) : list val :=
  map snd (filter (fun kv => if x then option_eqb Nat.eqb (last_add calls (snd kv)) (Some (fst kv)) else true) m).

Definition same_set (shown expected : list val) : bool :=
  subset shown expected && subset expected shown && nodupb shown.

(* invocations every registered listener must at least have seen *)
Fixpoint lcounts (acc : list nat) (ops : list cop) : list nat :=
  match ops with
  | [] => acc
  | OCall _ :: r => lcounts (map S acc) r
  | OListen :: r => lcounts (acc ++ [0]) r
  | OGet :: r => lcounts acc r
  end.

Definition sample_spec (x : bool) (done : list cop) (p : sample) : bool :=
  let calls := calls_of done in
  (* its change listeners run on every update *)
  all2 Nat.leb (lcounts [] done) (p_lst p) &&
  (if calls_consistent [] calls then
     (* the value list is the set of distinct values of the keys it has been told are present *)
     same_set (p_get p) (expected_values x calls (view calls)) &&
     (* exclusive: a value is retained only under the most recent key that published it *)
     (if x then forallb (fun kv => option_eqb Nat.eqb (last_add calls (snd kv)) (Some (fst kv))) (p_mapping p) &&
                forallb (fun vl => Nat.eqb (length (snd vl)) 1) (p_values p)
      else true)
   else true).

(* at a synced point: the value list is the set of distinct values of the keys present under the prefix *)
Definition sample_conv (u : key -> bool) (x : bool) (done : list cop) (m : amap) (p : sample) : bool :=
  same_set (p_get p) (expected_values x (calls_of done) (restrict u m)).

Fixpoint cont_spec (u : key -> bool) (inf : list (amap * bool)) (x : bool) (j : nat)
         (done : list cop) (ops : list cop) (ps : list sample) : bool :=
  match ops with
  | [] => true
  | OGet :: ops' =>
      match ps with
      | p :: ps' =>
          sample_spec x done p &&
          match nth_error inf j with
          | Some (m, true) => sample_conv u x done m p
          | _ => true
          end &&
          cont_spec u inf x (S j) (done ++ [OGet]) ops' ps'
      | [] => true
      end
  | o :: ops' => cont_spec u inf x j (done ++ [o]) ops' ps
  end.

Definition has_call (c : call) (d : list call) : bool := existsb (call_eqb c) d.

Definition has_key (k : key) (m : amap) : bool := negb (is_nil (filter (fun kv => Nat.eqb (fst kv) k) m)).

(* prev: what the cluster knew before the event (observed); pm: the true store before the event *)
Fixpoint steps_spec (u : key -> bool) (prev pm : amap) (h : list ev) (inf : list (amap * bool)) (os : list stepobs) : bool :=
  match h, inf, os with
  | e :: h', (m, sy) :: inf', o :: os' =>
      (* after a (re)load with nothing missed since, the cluster knows exactly the keys under the prefix *)
      (if sy then match o_cvals o with Some cv => amap_eqb cv (restrict u m) | None => false end else true) &&
      (* a delivered change of what is known reaches every attached listener *)
      match e with
      | Put k v true =>
          if u k && negb (has_key k prev) then forallb (has_call (CAdd k v)) (o_calls o) else true
      | Del k true =>
          if u k && has_key k prev && has_key k pm then forallb (has_call (CDel k)) (o_calls o) else true
      | _ => true
      end &&
      steps_spec u (match o_cvals o with Some cv => cv | None => [] end) m h' inf' os'
  | _, _, _ => true
  end.

(* the proviso on a history: a key is always published with the same value *)
Definition events_consistent (h : list ev) : bool :=
  calls_consistent [] (flat_map (fun e => match e with
                                          | Put k v _ => [CAdd k v]
                                          | Batch items => flat_map (fun b => match b with BPut k v => [CAdd k v] | BDel _ => [] end) items
                                          | _ => []
                                          end) h).

Definition pspec_ok (c : pcase) : bool :=
  let u := under_of c in
  let inf := if events_consistent (c_events c) then infos u [] (false, false) (c_events c) else [] in
  (* the resolver: once everything is processed the ClientConn has last been told the live values *)
  match c_res c with
  | Some q =>
      match last inf ([], false) with
      | (m, true) => match List.rev (q_states q) with
                     | shown :: _ => same_set shown (expected_values false [] (restrict u m))
                     | [] => false
                     end
      | _ => true
      end
  | None => true
  end &&
  steps_spec u [] [] (c_events c) inf (c_steps c) &&
  forallb (fun t => cont_spec u inf (t_excl t) (t_start t) [] (t_ops t) (t_samples t)) (c_conts c).

(* ---------------------------------------------------------------- the publisher (lib/discov driver, kind "pub") *)
Record pubrow := mkrow {
  w_store : list (key * nat);     (* (key, lease) of every key left in the scripted etcd *)
  w_values : list val;            (* what the subscriber of the key lists *)
  w_fine : bool                   (* no barrier timed out *)
}.

Record pubobs := mkpub {
  b_id : option nat;              (* WithId *)
  b_val : val;
  b_ops : list pop;
  b_rows : list pubrow            (* after every operation *)
}.

Definition store_eqb (a b : list (key * nat)) : bool :=
  list_eqb (fun x y => Nat.eqb (fst x) (fst y) && Nat.eqb (snd x) (snd y)) a b.

(* the subscriber attached before the publisher started, fed by what the store emitted *)
Definition pub_view (s : pstate) : result (list val) :=
  match subs (run (fun _ => true) (Subscribe [] [] [] :: p_events s)) with
  | log :: _ => fst (get_values (crun false (map OCall log)))
  | [] => Panic
  end.

Fixpoint pub_rows (id : option nat) (v : val) (s : pstate) (ops : list pop) (rows : list pubrow) : bool :=
  match ops, rows with
  | [], [] => true
  | o :: ops', r :: rows' =>
      let s' := pstep id v s o in
      w_fine r && store_eqb (w_store r) (p_store s') &&
      match pub_view s' with Ok l => set_eqb (w_values r) l | _ => false end &&
      pub_rows id v s' ops' rows'
  | _, _ => false
  end.

Definition pub_model_ok (b : pubobs) : bool := pub_rows (b_id b) (b_val b) pinit (b_ops b) (b_rows b).

(* the property: whenever the publisher is not registered (paused, stopped) no key of it remains and the
   subscriber does not list it; while it is registered the subscriber lists exactly its value *)
Fixpoint pub_spec_rows (id : option nat) (v : val) (s : pstate) (ops : list pop) (rows : list pubrow) : bool :=
  match ops, rows with
  | o :: ops', r :: rows' =>
      let s' := pstep id v s o in
      match p_mode s' with
      | PActive => Nat.eqb (length (w_store r)) 1 && list_eqb Nat.eqb (w_values r) [v]
      | _ => is_nil (w_store r) && is_nil (w_values r)
      end && pub_spec_rows id v s' ops' rows'
  | _, _ => true
  end.

Definition pub_spec_ok (b : pubobs) : bool := pub_spec_rows (b_id b) (b_val b) pinit (b_ops b) (b_rows b).

(* ---------------------------------------------------------------- a correspondence case *)
(* CHist: one pcase per prefix subscribed on the cluster (the history projected on the prefix) *)
Inductive case := CHist (l : list pcase) | CPub (b : pubobs).

Definition model_ok (c : case) : bool :=
  match c with CHist l => forallb pmodel_ok l | CPub b => pub_model_ok b end.
Definition spec_ok (c : case) : bool :=
  match c with CHist l => forallb pspec_ok l | CPub b => pub_spec_ok b end.
