(* C01 Link: constants, call skeletons and benign-outcome predicates regenerated from the Go
   source are the ones the model and the statement use. *)
From God Require Import Base.Prelude C09.RW C09.Integ C01.GenEnv C01.Spec C01.Model C01.Exec.
From Coq Require Import QArith String.
From GodGen Require C01_Gen.
Local Open Scope Z_scope.

(* ---- window = 10 s, buckets = 40, k = 3/2, protection = 5 ---- *)
Lemma link_window : C01_Gen.window = 10 * 1000000000 /\ C01_Gen.window = window_ns.
Proof. split; reflexivity. Qed.
Lemma link_buckets : C01_Gen.buckets = 40 /\ C01_Gen.buckets = nbuckets /\ nbuckets = N40.
Proof. repeat split. Qed.
Lemma link_bucket_ns : Z.quot C01_Gen.window C01_Gen.buckets = bucket_ns /\ bucket_ns = I250.
Proof. split; reflexivity. Qed.
Lemma link_k : C01_Gen.k = (3 # 2)%Q /\ (inject_Z k2 == 2 * C01_Gen.k)%Q.
Proof. split; reflexivity. Qed.
Lemma link_protection : C01_Gen.protection = 5 /\ C01_Gen.protection = protection.
Proof. split; reflexivity. Qed.
(* hence the model's doubled excess is 2 * ((total - protection) - k * accepts) *)
Lemma link_k2 : Qred (2 * C01_Gen.k) = inject_Z k2.
Proof. reflexivity. Qed.
Lemma link_excess a t : excess2 a t = 2 * (t - C01_Gen.protection) - k2 * a.
Proof. reflexivity. Qed.
Lemma link_ratio a t : ratio_num a t = excess2 a t.
Proof. reflexivity. Qed.

(* ---- call skeletons ---- *)
Lemma link_doreq_calls :
  C01_Gen.doreq_calls = ["b.accept"; "fallback"; "return"; "return"; "defer:func"; "{"; "b.markFailure"; "}";
                         "req"; "acceptable"; "b.markSuccess"; "b.markFailure"; "return"]%string.
Proof. reflexivity. Qed.
Lemma link_accept_calls :
  C01_Gen.accept_calls = ["b.history"; "float64"; "float64"; "float64"; "math.Max"; "return";
                          "b.proba.TrueOnProba"; "return"; "return"]%string.
Proof. reflexivity. Qed.
Lemma link_allow_calls : C01_Gen.allow_calls = ["b.accept"; "return"; "return"]%string.
Proof. reflexivity. Qed.
Lemma link_promise_calls :
  C01_Gen.paccept_calls = ["p.b.markSuccess"]%string /\ C01_Gen.preject_calls = ["p.b.markFailure"]%string.
Proof. split; reflexivity. Qed.
Lemma link_get_calls :
  C01_Gen.get_calls = ["lock.RLock"; "lock.RUnlock"; "return"; "lock.Lock"; "WithName"; "New"; "lock.Unlock"; "return"]%string.
Proof. reflexivity. Qed.
Lemma link_http_calls :
  C01_Gen.http_calls = ["strings.Join"; "breaker.WithName"; "breaker.New"; "brk.Allow"; "metrics.AddDrop";
    "httpx.GetRemoteAddr"; "r.UserAgent"; "logx.Errorf"; "w.WriteHeader"; "return"; "defer:func"; "{";
    "promise.Accept"; "http.StatusText"; "fmt.Sprintf"; "promise.Reject"; "}"; "next.ServeHTTP";
    "http.HandlerFunc"; "return"; "return"]%string.
Proof. reflexivity. Qed.

(* ---- benign-outcome predicates ---- *)
(* gRPC: exactly the five codes of the statement are unacceptable *)
Lemma link_grpc_cases :
  C01_Gen.grpc_cases =
    [(["codes.DeadlineExceeded"; "codes.Internal"; "codes.Unavailable"; "codes.DataLoss"; "codes.Unimplemented"], "false");
     ([], "true")]%string.
Proof. reflexivity. Qed.
(* name of a gRPC code constant -> its number (google.golang.org/grpc/codes) *)
Definition grpc_code (nm : string) : Z :=
  let tbl := [("codes.OK", 0); ("codes.Canceled", 1); ("codes.Unknown", 2); ("codes.InvalidArgument", 3);
              ("codes.DeadlineExceeded", 4); ("codes.NotFound", 5); ("codes.AlreadyExists", 6);
              ("codes.PermissionDenied", 7); ("codes.ResourceExhausted", 8); ("codes.FailedPrecondition", 9);
              ("codes.Aborted", 10); ("codes.OutOfRange", 11); ("codes.Unimplemented", 12); ("codes.Internal", 13);
              ("codes.Unavailable", 14); ("codes.DataLoss", 15); ("codes.Unauthenticated", 16)]%string in
  match alookup String.eqb nm tbl with Some c => c | None => -1 end.

(* codes.Acceptable read off the generated case table: first matching clause, else the default clause *)
Definition gen_grpc_acceptable (c : Z) : bool :=
  let fix go (rows : list (list string * string)) (dflt : bool) : bool :=
    match rows with
    | [] => dflt
    | (consts, ret) :: r =>
        if existsb (fun nm => grpc_code nm =? c) consts then String.eqb ret "true" else go r dflt
    end in
  let dflt := existsb (fun row => match fst row with [] => String.eqb (snd row) "true" | _ => false end) C01_Gen.grpc_cases in
  go C01_Gen.grpc_cases dflt.


Lemma link_grpc_gen : forall c, gen_grpc_acceptable c = grpc_acceptable c.
Proof.
  intro c. unfold gen_grpc_acceptable, grpc_acceptable. rewrite link_grpc_cases. cbn -[Z.eqb].
  rewrite (Z.eqb_sym 4 c), (Z.eqb_sym 13 c), (Z.eqb_sym 14 c), (Z.eqb_sym 15 c), (Z.eqb_sym 12 c).
  destruct (c =? 4), (c =? 13), (c =? 14), (c =? 15), (c =? 12); reflexivity.
Qed.
Lemma link_grpc : forall c, 0 <= c <= 16 ->
  grpc_acceptable c = negb (existsb (Z.eqb c) [4; 13; 14; 15; 12]).
Proof. reflexivity. Qed.
(* sqlx: nil, ErrNoRows, ErrTxDone, context.Canceled are acceptable whatever the user predicate is;
   without a user predicate nothing else is *)
Lemma link_sqlx : forall f e, C01_Gen.sqlx_acceptable f e = m_sqlx f e.
Proof.
  intros f e. unfold C01_Gen.sqlx_acceptable, m_sqlx, go_eqb, go_nil. simpl existsb.
  destruct (f =? 0), (e =? 0), (e =? sql_ErrNoRows), (e =? sql_ErrTxDone), (e =? context_Canceled), (f_accept_fn e); reflexivity.
Qed.
Lemma link_redis : forall e, C01_Gen.redis_acceptable e = m_redis e.
Proof.
  intro e. unfold C01_Gen.redis_acceptable, m_redis, go_eqb. simpl.
  destruct (e =? go_nil), (e =? red_Nil), (e =? context_Canceled); reflexivity.
Qed.
Lemma link_default_acceptable : forall e, C01_Gen.default_acceptable e = (e =? go_nil).
Proof. reflexivity. Qed.

(* every outcome the statement calls benign is mapped to a success mark by the generated predicates *)
Lemma benign_pred which arg : (which <= 2)%nat -> (which = 0%nat -> 0 <= arg <= 16) ->
  benign which arg = true -> pred which arg = true.
Proof.
  intros Hw Hg Hb. destruct which as [|[|[|w]]]; try lia; unfold benign, pred in *.
  - rewrite link_grpc by auto. exact Hb.
  - unfold m_sqlx. apply orb_true_iff. left. exact Hb.
  - unfold m_redis. simpl in *. rewrite orb_false_r in *.
    unfold go_nil, red_Nil, context_Canceled. rewrite orb_assoc in Hb.
    destruct (arg =? 0), (arg =? 3), (arg =? 4); simpl in *; auto.
Qed.

Lemma rpc_benign c : 0 <= c <= 16 -> benign 5 c = true -> rpc_mark c = true.
Proof.
  intros Hc Hb. unfold benign, rpc_mark in *. apply andb_true_iff in Hb as [H1 H2].
  rewrite H1. simpl. assert (c / 100 = 0) by lia. assert (Hm : c mod 100 = c) by (apply Z.mod_small; lia).
  rewrite Hm in *. rewrite link_grpc by assumption. exact H2.
Qed.

(* ---- RPC breaker interceptors go through breaker.DoWithAcceptable(name, ..., codes.Acceptable);
        WithCodeResponseWriter stores Code only in WriteHeader ---- *)
Lemma link_srv_int_calls : C01_Gen.srv_int_calls = ["handler"; "return"; "breaker.DoWithAcceptable"; "return"]%string.
Proof. reflexivity. Qed.
Lemma link_cli_int_calls :
  C01_Gen.cli_int_calls = ["conn.Target"; "path.Join"; "invoker"; "return"; "breaker.DoWithAcceptable"; "return"]%string.
Proof. reflexivity. Qed.
Lemma link_cw_calls :
  C01_Gen.cw_writeheader_calls = ["w.Writer.WriteHeader"]%string /\
  C01_Gen.cw_write_calls = ["w.Writer.Write"; "return"]%string.
Proof. split; reflexivity. Qed.

(* ---- round 4: call sites and context outcomes ---- *)
(* a stream element: what the generated codes.Acceptable marks is what the statement calls benign; the status
   of an expired caller deadline is a failure, the status of a cancelled context a success *)
Lemma ctx_outcomes :
  (forall cl c, (cl <= 2)%nat -> 0 <= c <= 16 -> m_mark cl c = m_benign cl c) /\
  (forall c, m_mark 1 c = false) /\ (forall c, m_mark 2 c = true) /\ (forall cl c, (3 <= cl)%nat -> m_mark cl c = false).
Proof.
  split; [|split; [|split]].
  - intros cl c Hcl Hc. unfold m_mark, m_benign, m_code. destruct cl as [|[|[|cl]]]; try lia.
    + rewrite link_grpc by assumption. reflexivity.
    + vm_compute. reflexivity.
    + vm_compute. reflexivity.
  - intro c. vm_compute. reflexivity.
  - intro c. vm_compute. reflexivity.
  - intros cl c H. unfold m_mark, m_code. destruct cl as [|[|[|[|[|[|[|cl]]]]]]]; try lia; try reflexivity.
Qed.

(* sqlx / redis call sites hand the error to the same generated predicates: benign classes are success marks *)
Lemma site_benign : forall arg, 0 <= arg ->
  (benign 7 arg = true -> pred 7 arg = true) /\ (benign 8 arg = true -> pred 8 arg = true).
Proof.
  intros arg Ha. split; intro Hb; unfold benign, pred in *.
  - set (cl := arg mod 100) in *. cbv zeta. unfold m_sqlx. apply orb_true_iff. left.
    assert (Hcl : cl = 0 \/ cl = 1 \/ cl = 2 \/ cl = 3).
    { simpl in Hb. rewrite orb_false_r in Hb. repeat (apply orb_true_iff in Hb as [Hb|Hb]); lia. }
    destruct Hcl as [-> | [-> | [-> | ->]]]; reflexivity.
  - unfold m_redis. set (cl := arg mod 100) in *.
    assert (Hcl : cl = 0 \/ cl = 3 \/ cl = 4).
    { simpl in Hb. rewrite orb_false_r in Hb. repeat (apply orb_true_iff in Hb as [Hb|Hb]); lia. }
    destruct Hcl as [-> | [-> | ->]]; reflexivity.
Qed.

(* ---- round 5 ---- *)
(* through the engine's default chain the breaker's mark is a success exactly when the client's status is below 500,
   for every response shape; a handler that panics is a failure (RecoverHandler inside turns it into a 500) *)
Lemma engine_marks : (forall cl c, h_mark cl c = h_benign cl c) /\ (forall cl c, (4 <= cl <= 9)%nat -> h_mark cl c = false) /\
  (forall c, h_mark 10 c = true /\ h_mark 11 c = true).
Proof.
  split; [|split].
  - intros cl c. unfold h_mark, h_benign, http_mark.
    do 12 (destruct cl as [|cl]; [reflexivity|]). reflexivity.
  - intros cl c H. do 10 (destruct cl as [|cl]; [try lia; reflexivity|]). lia.
  - intro c. split; reflexivity.
Qed.
