(* C01 Exec: checkers evaluated by vm_compute on every correspondence case.
   BCase: interleaved Begin/End/Allow/Accept/Reject/advance events over named breakers and what
   lib/breaker did; PCase: one value of a finite error / status set and what the real
   benign-outcome predicate of an integration answered. *)
From God Require Import Base.Prelude C09.RW C09.Spec C09.Integ C01.GenEnv C01.Spec C01.Registry.
From God Require Export C01.Model.
From Coq Require Import Floats String.
Local Open Scope Z_scope.

Definition t0 : Z := 3600000000000.

Definition f_of_Z (z : Z) : float :=
  if z <? 0 then PrimFloat.opp (PrimFloat.of_uint63 (Uint63.of_Z (- z)))
  else PrimFloat.of_uint63 (Uint63.of_Z z).

(* r.Float64() < dropRatio with r.Float64() = m/2^53 and
   dropRatio = (float64(total-5) - 1.5*float64(accepts)) / float64(total+1) = (n2/2) / d :
   the numerator is a half-integer, exact in float64; the division rounds to nearest *)
Definition coin_lt_f (m n2 d : Z) : bool :=
  PrimFloat.ltb (Z.ldexp (f_of_Z m) (-53))
                (PrimFloat.div (PrimFloat.div (f_of_Z n2) (f_of_Z 2)) (f_of_Z d)).

Inductive xev :=
| XBegin (name id : nat) (k : kind) (m : Z)
| XEnd (name id : nat) (k : kind) (o : outcome)
| XAllow (name id : nat) (m : Z)
| XAccept (name id : nat)
| XReject (name id : nat)
| XAdv (dt : Z).

Inductive case :=
| BCase (evs : list xev) (rows : list (Z * Z * Z))     (* per event: code, accepts, total *)
| PCase (which : nat) (arg : Z) (ok : bool)
    (* one value of a finite set; ok = the predicate's answer (0 gRPC code, 1 sqlx error, 2 redis error) or, for the
       sustained black-box streams (200 identical calls through one breaker), "never cut off":
       3 HTTP status written explicitly; 5 server unary / 9 server stream / 6 client breaker interceptor:
       code + 100*panic; 7 sqlx call site: site*1000 + mysql*100 + error class; 8 redis call site: site*100 + class *)
| HCase (shp : nat) (status code : Z) (ok : bool)
    (* HTTP response shape through BreakerHandler: Code held by WithCodeResponseWriter, never cut off in 200 requests? *)
| RCase (rows : list (list Z))
    (* registry, concurrent first use of fresh names: per name [g; do-entrants; distinct breakers; lost marks;
       probe via another handle rejected; probe via Do(name) rejected; forced] *)
| CCase (g fails let_in : Z)
    (* concurrent draws: after `fails` failures on a fresh breaker (frozen clock), g goroutines call Allow / Do together
       while the first draw is held inside Proba.TrueOnProba until all are inside; every draw is coin 0; let_in = how many
       were let through *)
| MCase (side : nat) (calls : list (nat * Z * nat)) (rej : list bool) (st : list Z).
    (* mixed stream on a frozen clock: side 0 client BreakerInterceptor, 1 server unary, 2 server stream interceptor,
       3 / 4 the HTTP engine's default chain (api/engine.go bindRoute) with Config.Timeout = 0 / > 0.
       Per call (class, code, name): name = which method (RPC: full method names, some sharing their base name) /
       which route (HTTP: method + path); RPC classes: 0 live context, status.Error(code) comes back; 1 the caller's
       own deadline has expired (DeadlineExceeded status); 2 cancelled context (Canceled status); 4, 5 panic;
       HTTP classes: 0 WriteHeader(code); 1 Write only; 2 nothing written; 4, 5 panic.
       rej: cut off by the breaker (callee not reached); st: HTTP status the client got (RPC: empty) *)

Definition to_ev (x : xev) : nat * ev :=
  match x with
  | XBegin n i k m => (n, Begin i k m)
  | XEnd n i k o => (n, End i k o)
  | XAllow n i m => (n, Allow i m)
  | XAccept n i => (n, PAccept i)
  | XReject n i => (n, PReject i)
  | XAdv dt => (0%nat, Advance dt)
  end.

Definition ocode (o : outcome) : Z := match o with OK => 0 | AcceptableErr => 1 | UnacceptableErr => 2 | Panics => 3 | PanicsNil => 4 | InnerUnavailable => 5 end.
Definition code_of (o : obs) : Z :=
  match o with
  | ONone => 0 | OLetIn => 1
  | ORejected RUnavailable => 2 | ORejected RFallback => 3 | ORejected (RRan _) => 99
  | OAllowRejected => 5
  | ODone (RRan o) => 10 + ocode o | ODone _ => 99
  end.

(* ---------- model agreement ---------- *)
Fixpoint b_run (r : registry) (now : Z) (evs : list xev) (rows : list (Z * Z * Z)) : bool :=
  match evs, rows with
  | [], [] => true
  | x :: es, (c, a, t) :: rs =>
      let ne := to_ev x in
      let '((r', now'), o) := rstep coin_lt_f (r, now) ne in
      (code_of o =? c) &&
      match x with
      | XAdv _ => (a =? -1) && (t =? -1)
      | _ => match alookup Nat.eqb (fst ne) r' with
             | Some w => let (a', t') := history w now' in (a =? a') && (t =? t')
             | None => false
             end
      end && b_run r' now' es rs
  | _, _ => false
  end.

(* the benign-outcome predicates of the integrations, transcribed by hand (Link.v proves that the definitions
   gogen regenerates from the Go source are these, for all inputs; this file does not depend on the generated
   module, so the checkers stay available when the translator or a link breaks) *)
(* rpc/internal/codes/accept.go:9-16: DeadlineExceeded Internal Unavailable DataLoss Unimplemented are not acceptable,
   every other code -- named or not -- is *)
Definition grpc_acceptable (c : Z) : bool := negb (existsb (Z.eqb c) [4; 13; 14; 15; 12]).
(* lib/store/sqlx/conn.go:279-286 *)
Definition m_sqlx (f : Z) (e : go_value) : bool :=
  (existsb (Z.eqb e) [go_nil; sql_ErrNoRows; sql_ErrTxDone; context_Canceled] || (negb (f =? 0) && f_accept_fn e))%bool.
(* lib/store/redis/redis.go acceptable *)
Definition m_redis (e : go_value) : bool := existsb (Z.eqb e) [go_nil; red_Nil; context_Canceled].

Definition http_threshold : Z := 500.        (* http.StatusInternalServerError, breakerhandler.go:34 *)

(* the interceptors mark through codes.Acceptable; a panic is a failure mark (googlebreaker.go:71-76) *)
Definition rpc_mark (arg : Z) : bool := (arg / 100 =? 0) && grpc_acceptable (arg mod 100).

Definition pred (which : nat) (arg : Z) : bool :=
  match which with
  | 0%nat => grpc_acceptable arg
  | 1%nat => m_sqlx (if 10 <=? arg then 1 else 0) (arg mod 10)
  | 2%nat => m_redis arg
  | 3%nat => arg <? http_threshold
  | 7%nat => let cl := arg mod 100 in
             m_sqlx ((arg / 100) mod 10) (if cl =? 9 then 99 else if cl =? 8 then 98 else cl)
  | 8%nat => m_redis (arg mod 100)
  | 10%nat => arg <? http_threshold        (* api/httpc service.go:66-68: err == nil && StatusCode < 500; 1000 = transport error *)
  | _ => rpc_mark arg
  end.

(* mixed streams: the gRPC code that comes back for a class, and the mark *)
Definition m_code (class : nat) (code : Z) : option Z :=
  match class with
  | 0%nat => Some code | 1%nat => Some 4 | 2%nat => Some 1
  | 6%nat => Some 4          (* the backend overruns the client's timeout: the transport answers DeadlineExceeded.
                                The budget is real time: the harness also encodes as class 6 a class-0 call that was let in
                                and came back DeadlineExceeded (an instant backend that still overran; c01.py overran()) *)
  | _ => None                (* panic *)
  end.
Definition m_mark (class : nat) (code : Z) : bool :=
  match m_code class code with Some c => grpc_acceptable c | None => false end.

(* HTTP through the engine's chain: RecoverHandler sits inside BreakerHandler, so a panic is a 500 *)
Definition h_shape (class : nat) (code : Z) : shape :=
  match class with
  | 0%nat => SHeader code | 1%nat => SWrite | 2%nat => SNothing
  (* the client disconnects MID-FLIGHT (request context cancelled after the breaker let the call in, while the route
     runs; the route gives up without writing): 10 with a timeout handler in the chain (Config.Timeout > 0), which
     answers 499 (timeouthandler.go:110-122); 11 without one (Timeout = 0): the route's empty response, an implicit 200 *)
  | 10%nat => SHeader 499 | 11%nat => SNothing
  | _ => SPanic
  end.
Definition h_mark (class : nat) (code : Z) : bool := http_mark true (h_shape class code).
Definition is_http (side : nat) : bool := Nat.eqb side 3 || Nat.eqb side 4.
Definition is_chain (side : nat) : bool := Nat.eqb side 5 || Nat.eqb side 6.   (* 6: a started rpc/internal Server (Start's chain + added timeout interceptor) *)     (* the composed client chain of rpc/internal/client.go *)

(* frozen clock, one breaker PER NAME: (accepts, total) only grow; a call may be cut off only when the excess of ITS
   name is positive (the coin is not scripted here: both answers are allowed then), and is let in and marked otherwise *)
Definition cnts := list (nat * (Z * Z)).
Definition cget (s : cnts) (n : nat) : Z * Z := match alookup Nat.eqb n s with Some x => x | None => (0, 0) end.

Fixpoint m_run (mark : nat -> Z -> bool) (s : cnts) (calls : list (nat * Z * nat)) (rej : list bool) : bool :=
  match calls, rej with
  | [], [] => true
  | (cl, c, n) :: cs, r :: rs =>
      let (a, t) := cget s n in
      if r then (0 <? excess2 a t) && m_run mark s cs rs
      else m_run mark (aset Nat.eqb n (if mark cl c then a + 1 else a, t + 1) s) cs rs
  | _, _ => false
  end.

(* HTTP: what the client gets: 503 when cut off, else what the handler produced (a recovered panic: 500) *)
Fixpoint h_status (calls : list (nat * Z * nat)) (rej : list bool) (st : list Z) : bool :=
  match calls, rej, st with
  | [], [], [] => true
  | (cl, c, _) :: cs, r :: rs, x :: xs =>
      (x =? (if r then 503 else http_status true (h_shape cl c))) && h_status cs rs xs
  | _, _, _ => false
  end.

(* composed client chain: the gRPC code the caller gets back (100: cut off): it is the STATUS code, so an overrun
   client timeout comes back -- and reaches the breaker's predicate -- as DeadlineExceeded, not as a raw context error *)
Fixpoint c_status (calls : list (nat * Z * nat)) (rej : list bool) (st : list Z) : bool :=
  match calls, rej, st with
  | [], [], [] => true
  | (cl, c, _) :: cs, r :: rs, x :: xs =>
      (x =? (if r then 100 else match m_code cl c with Some k => k | None => -2 end)) && c_status cs rs xs
  | _, _, _ => false
  end.

(* response shapes of the api/handler driver *)
Definition hshape (k : nat) (st : Z) : shape :=
  match k with
  | 0%nat => SHeader st | 1%nat | 4%nat => SWrite | 3%nat => SStream st | 5%nat => SPanic | _ => SNothing
  end.
Definition hguard (k : nat) : bool := Nat.eqb k 5.

(* registry stream: g goroutines (and the driver's final Get) make their first use of one name in the
   forced interleaving: every RLock-read first (all miss), then every write-locked section *)
Definition reg_ids (g : nat) : list nat :=
  let s := Registry.run true (Registry.init (repeat 0%nat (S g))) (seq 0 g ++ seq 0 g ++ [g; g]) in
  flat_map (fun tp => match snd (snd tp) with Done b => [b] | _ => [] end) (thr s).
Fixpoint ndistinct (l : list nat) : nat :=
  match l with [] => 0%nat | a :: r => if existsb (Nat.eqb a) r then ndistinct r else S (ndistinct r) end.

Definition r_row_ok (row : list Z) : bool :=
  match row with
  | [g; ndo; distinct; miss; pb; pd; forced] =>
      let one := Nat.eqb (ndistinct (reg_ids (Z.to_nat g))) 1 in
      (* one breaker: the do-entrants' marks are all in it, and 50 failures recorded through any handle are
         seen through any other: coin 0 is below the positive drop ratio *)
      let n2 := excess2 ndo (ndo + 50) in
      let rejected := (0 <? n2) && coin_lt_f 0 n2 (ndo + 50 + 1) in
      one && (distinct =? 1) && (miss =? 0) && (pb =? (if rejected then 1 else 0)) && (pd =? (if rejected then 1 else 0))
  | _ => false
  end.

Definition model_ok (c : case) : bool :=
  match c with
  | BCase evs rows => b_run [] t0 evs rows
  | PCase which arg ok => Bool.eqb (pred which arg) ok
  | HCase k st code ok =>
      (code =? http_code (hguard k) (hshape k st)) && Bool.eqb ok (http_mark (hguard k) (hshape k st))
  | RCase rows => forallb r_row_ok rows
  | CCase g fails let_in =>
      (* every caller makes its own draw (mathx/proba.go:26-31: Lock; r.Float64() < proba; Unlock): accept is the same
         function of the same window for each of them; let-in calls only add success marks, never lowering the excess below
         what a rejection needs here (the driver's callers succeed; with coin 0 nobody is let in when the excess is positive) *)
      let n2 := excess2 0 fails in
      let_in =? (if (0 <? n2) && coin_lt_f 0 n2 (fails + 1) then 0 else g)
  | MCase side calls rej st =>
      if is_http side then m_run h_mark [] calls rej && h_status calls rej st
      else m_run m_mark [] calls rej && (if is_chain side then c_status calls rej st else true)
  end.

(* ---------- the property on the observations ---------- *)
(* per breaker name: creation time and outcome log *)
Definition sreg := list (nat * (Z * log)).
Definition sget (r : sreg) (n : nat) (now : Z) : Z * log :=
  match alookup Nat.eqb n r with Some x => x | None => (now, []) end.

Definition b_spec_step (r : sreg) (now : Z) (x : xev) (row : Z * Z * Z) : bool * sreg * Z :=
  let '(c, oa, ot) := row in
  match x with
  | XAdv dt => ((c =? 0), r, now + dt)
  | XBegin n _ k m =>
      let (tn, l) := sget r n now in
      let (a, t) := visible_counts tn now l in
      let n2 := ratio_num a t in
      let rej := (0 <? n2) && (m * ratio_den t <? n2 * 2 ^ 53) in
      (* rejected only on excess and with the coin below the ratio; never cut off otherwise;
         a rejected call did not run req (codes 2/3 certify it) and the fallback got ErrServiceUnavailable *)
      (((c =? 1) || ((if has_fallback k then c =? 3 else c =? 2) && rej)) &&
       (if n2 <=? 0 then c =? 1 else true) && (oa =? a) && (ot =? t),
       aset Nat.eqb n (tn, l) r, now)
  | XAllow n _ m =>
      let (tn, l) := sget r n now in
      let (a, t) := visible_counts tn now l in
      let n2 := ratio_num a t in
      let rej := (0 <? n2) && (m * ratio_den t <? n2 * 2 ^ 53) in
      (((c =? 1) || ((c =? 5) && rej)) && (if n2 <=? 0 then c =? 1 else true) && (oa =? a) && (ot =? t),
       aset Nat.eqb n (tn, l) r, now)
  | XEnd n _ k o =>
      let (tn, l) := sget r n now in
      let l' := (now, if acceptable k o then 1 else 0) :: l in
      let (a, t) := visible_counts tn now l' in
      ((c =? 10 + ocode o) && (oa =? a) && (ot =? t), aset Nat.eqb n (tn, l') r, now)
  | XAccept n _ =>
      let (tn, l) := sget r n now in
      let l' := (now, 1) :: l in
      let (a, t) := visible_counts tn now l' in
      ((c =? 0) && (oa =? a) && (ot =? t), aset Nat.eqb n (tn, l') r, now)
  | XReject n _ =>
      let (tn, l) := sget r n now in
      let l' := (now, 0) :: l in
      let (a, t) := visible_counts tn now l' in
      ((c =? 0) && (oa =? a) && (ot =? t), aset Nat.eqb n (tn, l') r, now)
  end.

Fixpoint b_spec (r : sreg) (now : Z) (evs : list xev) (rows : list (Z * Z * Z)) : bool :=
  match evs, rows with
  | [], [] => true
  | x :: es, row :: rs => let '(ok, r', now') := b_spec_step r now x row in ok && b_spec r' now' es rs
  | _, _ => false
  end.

(* the outcomes the statement declares benign *)
Definition benign (which : nat) (arg : Z) : bool :=
  match which with
  | 0%nat => negb (existsb (Z.eqb arg) [4; 13; 14; 15; 12])   (* DeadlineExceeded Internal Unavailable DataLoss Unimplemented *)
  | 1%nat => existsb (Z.eqb (arg mod 10)) [0; 1; 2; 3]        (* nil ErrNoRows ErrTxDone context.Canceled *)
  | 2%nat => existsb (Z.eqb arg) [0; 3; 4]                    (* nil context.Canceled redis.Nil *)
  | 3%nat => arg <? 500                                        (* HTTP status below 500 *)
  | 7%nat => existsb (Z.eqb (arg mod 100)) [0; 1; 2; 3]       (* sqlx call sites: same classes *)
  | 8%nat => existsb (Z.eqb (arg mod 100)) [0; 3; 4]          (* redis call sites *)
  | 10%nat => arg <? 500                                       (* HTTP client: status below 500 *)
  | _ => (arg / 100 =? 0) && negb (existsb (Z.eqb (arg mod 100)) [4; 13; 14; 15; 12])   (* returned, benign code *)
  end.

(* 3, 5..9 and HCase are sustained black-box runs (200 calls through one breaker): a benign outcome is
   never cut off; one that keeps failing (status >= 500, one of the five codes, a panic, another error) is cut off.
   Not named by the statement, hence no demand: MySQL errors under NewMySQL's own accept option (classes 8, 9). *)
Definition sustained (which : nat) (arg : Z) : bool :=
  (3 <=? which)%nat && negb (Nat.eqb which 7 && (8 <=? arg mod 100)).

(* the statement's reading of a mixed stream: benign codes (Canceled included) are successes, DeadlineExceeded
   and the other four codes and panics are failures *)
Definition m_benign (class : nat) (code : Z) : bool :=
  match m_code class code with Some c => benign 0 c | None => false end.

Definition h_benign (class : nat) (code : Z) : bool := http_status true (h_shape class code) <? 500.

(* calls at whose start the drop ratio of their name was >= 1/2 (2*excess >= 2*(total+1)): with 40 of them, a fair
   coin has rejected none with probability 2^-40 *)
Fixpoint m_hot (ben : nat -> Z -> bool) (s : cnts) (calls : list (nat * Z * nat)) (rej : list bool) : Z :=
  match calls, rej with
  | (cl, c, n) :: cs, r :: rs =>
      let (a, t) := cget s n in
      (if (t + 1 <=? excess2 a t) then 1 else 0) +
      (if r then m_hot ben s cs rs else m_hot ben (aset Nat.eqb n (if ben cl c then a + 1 else a, t + 1) s) cs rs)
  | _, _ => 0
  end.

Definition spec_ok (c : case) : bool :=
  match c with
  | BCase evs rows =>
      if forallb (fun x => match x with XAdv dt => 0 <=? dt | _ => true end) evs
      then b_spec [] t0 evs rows else true
  | PCase which arg ok => if benign which arg then ok else if sustained which arg then negb ok else true
  | HCase k st code ok =>
      (* the status the client gets: written explicitly, else the implicit 200; a recovered panic is a 500 *)
      if http_status (hguard k) (hshape k st) <? 500 then ok else negb ok
  | RCase rows =>
      (* the same name is the same breaker for every goroutine, also at the concurrent first use: one identity,
         no outcome lost, failures recorded through one handle cut the name off through every other *)
      forallb (fun row => match row with
                          | [g; ndo; distinct; miss; pb; pd; forced] => (distinct =? 1) && (miss =? 0) && (pb =? 1) && (pd =? 1)
                          | _ => false
                          end) rows
  | CCase g fails let_in =>
      (* the draw (coin 0) says drop whenever the ratio is positive: then NONE of the concurrent callers may be let in --
         a caller is never let in just because another goroutine is sampling *)
      if 0 <? ratio_num 0 fails then let_in =? 0 else true
  | MCase side calls rej st =>
      (* cut off only on real failure excess OF THE SAME NAME (Canceled and the other benign codes, statuses below 500,
         and whatever happens under another method / route never move a breaker), and a dependency that keeps
         failing (DeadlineExceeded of an expired caller deadline, a handler that panics on every request) IS cut
         off; HTTP: the client gets 500 for every panic let in and 503 when cut off *)
      let ben := if is_http side then h_benign else m_benign in
      m_run ben [] calls rej &&
      (if is_http side then h_status calls rej st else if is_chain side then c_status calls rej st else true) &&
      (if 40 <=? m_hot ben [] calls rej then existsb (fun r => r) rej else true)
  end.
