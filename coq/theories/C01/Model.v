(* C01 Model: transcription of lib/breaker/googlebreaker.go (accept / doReq / allow+promise),
   lib/breaker/breaker.go (the four Do* entry points, loggedThrottle) and lib/breaker/breakers.go
   (registry) over the rolling window of C09/RW.v (40 buckets x 250 ms).

   Floats: accepts/total are integers, k = 1.5, so (total-protection) - k*accepts is computed
   exactly in float64; only the final division by float64(total+1) rounds.  With
   n2 := 2*(total-5) - 3*accepts:  dropRatio > 0  <=>  n2 > 0  (googlebreaker.go:40-43), and the
   random test `r.Float64() < dropRatio` (mathx/proba.go:28) is the Section variable `coin_lt`
   applied to the coin u = m/2^53 (m = the 53-bit integer behind rand.Float64), n2 and total+1.
   Hypothesis coin_lt_sound states what IEEE round-to-nearest guarantees: u < fl(r) implies u < r
   for a double u.  Exec instantiates coin_lt with PrimFloat.
   The coin is drawn only when dropRatio > 0. *)
From God Require Import Base.Prelude C09.RW.
Local Open Scope Z_scope.

Definition nbuckets : Z := 40.                    (* buckets, googlebreaker.go:13 *)
Definition bucket_ns : Z := 250000000.            (* window / buckets, :27 *)
Definition protection : Z := 5.                   (* :15 *)
Definition k2 : Z := 3.                           (* 2 * k, k = 1.5, :14 *)

(* history(), :88-95 *)
Definition history (w : rw) (now : Z) : Z * Z :=
  fold_left (fun acc b => (fst acc + fst b, snd acc + snd b)) (reduce w now) (0, 0).

Definition excess2 (accepts total : Z) : Z := 2 * (total - protection) - k2 * accepts.

Inductive outcome :=
| OK | AcceptableErr | UnacceptableErr
| Panics | PanicsNil          (* panic(v), panic(nil) *)
| InnerUnavailable.           (* the protected function itself returns ErrServiceUnavailable (an inner dependency's
                                 breaker is open) although THIS breaker let the call in: an ordinary error for this one *)
(* the caller's acceptable-predicate, as a table over the outcomes of req: any predicate is some such
   table; the driver uses these four.  A predicate may REJECT a nil error (it judges something else,
   e.g. a captured response code) and may accept non-nil errors. *)
Inductive pred :=
| PNilOrAcc        (* err == nil || err == the acceptable error *)
| PRejectsNil      (* only the acceptable error passes; nil does NOT *)
| PAll             (* every error (and nil) passes *)
| PNone.           (* nothing passes *)

Definition pred_ok (p : pred) (o : outcome) : bool :=
  match o, p with
  | (Panics | PanicsNil), _ => false                    (* the predicate is not consulted: googlebreaker.go doReq, deferred mark *)
  | OK, (PNilOrAcc | PAll) => true
  | OK, _ => false
  | AcceptableErr, PNone => false
  | AcceptableErr, _ => true
  | (UnacceptableErr | InnerUnavailable), PAll => true
  | (UnacceptableErr | InnerUnavailable), _ => false
  end.

Inductive kind :=
| KDo | KDoWithAcceptable | KDoWithFallback | KDoWithFallbackAcceptable      (* the last two of the four with PNilOrAcc *)
| KDoWithAcceptableP (p : pred) | KDoWithFallbackAcceptableP (p : pred).

Definition has_fallback (k : kind) : bool :=
  match k with KDoWithFallback | KDoWithFallbackAcceptable | KDoWithFallbackAcceptableP _ => true | _ => false end.

(* Do/DoWithFallback use defaultAcceptable (err == nil), breaker.go:114-132; the other two pass the
   caller's predicate through loggedThrottle.doReq (breaker.go:156-164) to googleBreaker.doReq :79 *)
Definition uses_default (k : kind) : bool := match k with KDo | KDoWithFallback => true | _ => false end.
Definition acceptable (k : kind) (o : outcome) : bool :=
  match k with
  | KDo | KDoWithFallback => match o with OK => true | _ => false end
  | KDoWithAcceptable | KDoWithFallbackAcceptable => pred_ok PNilOrAcc o
  | KDoWithAcceptableP p | KDoWithFallbackAcceptableP p => pred_ok p o
  end.

(* what the caller of doReq observes *)
Inductive result_obs :=
| RUnavailable                 (* ErrServiceUnavailable returned, req not run, no fallback *)
| RFallback                    (* fallback(ErrServiceUnavailable) ran, its result returned, req not run *)
| RRan (o : outcome).          (* req ran; its error is returned / its panic re-raised *)

Section Breaker.
  Variable coin_lt : Z -> Z -> Z -> bool.

  (* accept, :36-50 : true = let_in *)
  Definition accept (w : rw) (now m : Z) : bool :=
    let (a, t) := history w now in
    let n2 := excess2 a t in
    if n2 <=? 0 then true else negb (coin_lt m n2 (t + 1)).

  (* markSuccess / markFailure, :97-103 *)
  Definition mark (w : rw) (now : Z) (success : bool) : rw := add w now (if success then 1 else 0).

  (* doReq, :62-86, split at the call of req: begin = the accept gate *)
  Definition do_begin (w : rw) (now m : Z) (k : kind) : option result_obs :=
    if accept w now m then None
    else Some (if has_fallback k then RFallback else RUnavailable).

  (* ... end = req returned o (or panicked): exactly one mark *)
  Definition do_end (w : rw) (now : Z) (k : kind) (o : outcome) : rw * result_obs :=
    (mark w now (acceptable k o), RRan o).

  (* events; ids name calls / promises; time passes only through Advance *)
  Inductive ev :=
  | Begin (id : nat) (k : kind) (m : Z)
  | End (id : nat) (k : kind) (o : outcome)
  | Allow (id : nat) (m : Z)
  | PAccept (id : nat)
  | PReject (id : nat)
  | Advance (dt : Z).

  Inductive obs := ONone | OLetIn | ORejected (r : result_obs) | ODone (r : result_obs) | OAllowRejected.

  Definition bstep (st : rw * Z) (e : ev) : (rw * Z) * obs :=
    let '(w, now) := st in
    match e with
    | Begin _ k m => match do_begin w now m k with None => (st, OLetIn) | Some r => (st, ORejected r) end
    | End _ k o => let (w', r) := do_end w now k o in ((w', now), ODone r)
    | Allow _ m => if accept w now m then (st, OLetIn) else (st, OAllowRejected)
    | PAccept _ => ((mark w now true, now), ONone)
    | PReject _ => ((mark w now false, now), ONone)
    | Advance dt => ((w, now + dt), ONone)
    end.

  (* registry, breakers.go:39-56 : name |-> breaker, created on first use at the current time *)
  Definition registry := list (nat * rw).
  Definition get (r : registry) (name : nat) (now : Z) : registry * rw :=
    match alookup Nat.eqb name r with
    | Some w => (r, w)
    | None => match new_rw nbuckets bucket_ns false now with
              | Ok w => ((name, w) :: r, w)
              | _ => (r, mkrw nbuckets bucket_ns 0 false now [])      (* unreachable: 40 >= 1 *)
              end
    end.
  Definition put (r : registry) (name : nat) (w : rw) : registry := aset Nat.eqb name w r.

  (* one event under a name; the clock is global and advancing it touches no breaker *)
  Definition rstep (st : registry * Z) (ne : nat * ev) : (registry * Z) * obs :=
    let '(r, now) := st in
    match snd ne with
    | Advance dt => ((r, now + dt), ONone)
    | _ =>
      let (r1, w) := get r (fst ne) now in
      let '((w', now'), o) := bstep (w, now) (snd ne) in
      ((put r1 (fst ne) w', now'), o)
    end.
End Breaker.
