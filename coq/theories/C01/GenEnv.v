(* C01 GenEnv: meaning of the identifiers gogen leaves free in the GoLite translations of the
   benign-outcome predicates.  Errors are compared by identity (`==`) in the Go code, so an error
   value is a code: 0 = nil, 1.. = the sentinel errors, anything else = some other error. *)
From Coq Require Import ZArith Bool.
Local Open Scope Z_scope.
Definition go_value := Z.
Definition go_nil : go_value := 0.
Definition sql_ErrNoRows : go_value := 1.
Definition sql_ErrTxDone : go_value := 2.
Definition context_Canceled : go_value := 3.
Definition red_Nil : go_value := 4.
Definition go_eqb (a b : go_value) : bool := Z.eqb a b.
(* a user-supplied sqlx accept predicate (only used when the `accept` field is non-nil) *)
Definition f_accept_fn (e : go_value) : bool := Z.eqb e 99.
