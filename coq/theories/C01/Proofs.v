(* C01 Proofs. *)
From God Require Import Base.Prelude C09.RW C09.Spec C09.WProofs C01.Spec C01.Model.
Local Open Scope Z_scope.

Lemma fold_sum_total l : forall acc,
  fold_left (fun acc b => (fst acc + fst b, snd acc + snd b)) l acc =
  (fst acc + fst (total l), snd acc + snd (total l)).
Proof.
  induction l as [|b l IH]; intro acc; simpl.
  - destruct acc; simpl; f_equal; lia.
  - rewrite IH. simpl. f_equal; lia.
Qed.

Lemma history_total w now : history w now = total (reduce w now).
Proof. unfold history. rewrite fold_sum_total. simpl. destruct (total (reduce w now)); reflexivity. Qed.

Lemma log_total_nonneg (l0 : log) : 0 <= snd (log_total l0).
Proof. induction l0 as [|e l0 IH]; unfold log_total in *; cbn [fold_right fst snd]; lia. Qed.

Lemma log_total_bounds (l0 : log) : Forall (fun e => snd e = 0 \/ snd e = 1) l0 ->
  0 <= fst (log_total l0) <= snd (log_total l0).
Proof.
  induction 1 as [|e l0 He Hl IH]; unfold log_total in *; cbn [fold_right fst snd]; lia.
Qed.

Lemma filter_Forall {A} (P : A -> Prop) f (l0 : list A) : Forall P l0 -> Forall P (filter f l0).
Proof. induction 1; simpl; [constructor|]. destruct (f x); [constructor|]; assumption. Qed.

Lemma HI : 0 < I250. Proof. reflexivity. Qed.
Lemma Hn : 1 <= N40. Proof. discriminate. Qed.

Section B.
  Variable coin_lt : Z -> Z -> Z -> bool.
  Hypothesis coin_lt_sound : forall m n2 d, 0 < n2 -> 0 < d -> coin_lt m n2 d = true -> m * (2 * d) < n2 * 2 ^ 53.

  Notation accept := (accept coin_lt).
  Notation bstep := (bstep coin_lt).

  Definition ev_ok (e : ev) : Prop := match e with Advance dt => 0 <= dt | _ => True end.

  (* the marks an event list leaves in the outcome log (Spec side): one per End / Accept / Reject *)
  Definition mark_of (e : ev) : option Z :=
    match e with
    | End _ k o => Some (if acceptable k o then 1 else 0)
    | PAccept _ => Some 1
    | PReject _ => Some 0
    | _ => None
    end.

  Definition gstep (g : Z * log) (e : ev) : Z * log :=
    let (now, l) := g in
    match e with
    | Advance dt => (now + dt, l)
    | _ => match mark_of e with Some v => (now, (now, v) :: l) | None => (now, l) end
    end.

  Definition glog (t0 : Z) (evs : list ev) : Z * log := fold_left gstep evs (t0, []).
  Definition brun (st : rw * Z) (evs : list ev) : rw * Z := fold_left (fun st e => fst (bstep st e)) evs st.

  Section Run.
    Variable t0 : Z.
    Notation Inv := (Inv t0 I250 N40).


    Lemma step_Inv w now l e : ev_ok e -> Inv w now l ->
      Inv (fst (fst (bstep (w, now) e))) (snd (fst (bstep (w, now) e))) (snd (gstep (now, l) e)) /\
      snd (fst (bstep (w, now) e)) = fst (gstep (now, l) e).
    Proof.
      intros He HInv. destruct e as [id k m|id k o|id m|id|id|dt]; cbn [Model.bstep gstep mark_of].
      - unfold do_begin. destruct (accept w now m); cbn [fst snd]; split; auto.
      - cbn [do_end fst snd]. split; [|reflexivity]. unfold mark. apply Inv_add; [exact HI|exact Hn|assumption].
      - destruct (accept w now m); cbn [fst snd]; split; auto.
      - cbn [fst snd]. split; [|reflexivity]. apply (Inv_add t0 I250 N40 HI Hn). assumption.
      - cbn [fst snd]. split; [|reflexivity]. apply (Inv_add t0 I250 N40 HI Hn). assumption.
      - cbn [fst snd]. split; [|reflexivity]. apply Inv_advance; assumption.
    Qed.

    Lemma run_Inv evs : Forall ev_ok evs -> forall w now l, Inv w now l ->
      Inv (fst (brun (w, now) evs)) (snd (brun (w, now) evs)) (snd (fold_left gstep evs (now, l))) /\
      snd (brun (w, now) evs) = fst (fold_left gstep evs (now, l)).
    Proof.
      induction 1 as [|e r He Hr IH]; intros w now l HInv; [split; [assumption|reflexivity]|].
      cbn [brun fold_left]. destruct (step_Inv w now l e He HInv) as [H1 H2].
      destruct (bstep (w, now) e) as [[w' now'] o] eqn:E. cbn [fst snd] in *.
      destruct (gstep (now, l) e) as [now'' l'] eqn:G. cbn [fst snd] in *. subst now''.
      apply IH. assumption.
    Qed.

    (* the window's (accepts, total) is the outcome log's visible (successes, total) *)
    Lemma history_counts w now l : Inv w now l -> ignore_current w = false ->
      history w now = visible_counts t0 now l.
    Proof.
      intros HInv Hig. rewrite history_total. pose proof (reduce_exact t0 I250 N40 HI Hn w now l HInv) as Hex.
      rewrite Hig in Hex. apply (exact_total t0 I250 N40 Hn) in Hex. exact Hex.
    Qed.
  End Run.

  Lemma brun_ignore evs : forall w now, ignore_current (fst (brun (w, now) evs)) = ignore_current w.
  Proof.
    induction evs as [|e r IH]; intros w now; [reflexivity|].
    cbn [brun fold_left]. fold (brun (fst (bstep (w, now) e)) r).
    destruct (bstep (w, now) e) as [[w' now'] o] eqn:E. cbn [fst]. rewrite IH.
    destruct e; cbn [Model.bstep] in E.
    - destruct (do_begin coin_lt w now m k); inversion E; reflexivity.
    - inversion E. apply add_ignore.
    - destruct (accept w now m); inversion E; reflexivity.
    - inversion E. apply add_ignore.
    - inversion E. apply add_ignore.
    - inversion E. reflexivity.
  Qed.

  (* ---------- from creation ---------- *)
  Section Reach.
    Variable t0 : Z.
    Variable w0 : rw.
    Hypothesis Hw0 : new_rw nbuckets bucket_ns false t0 = Ok w0.
    Variable evs : list ev.
    Hypothesis Hevs : Forall ev_ok evs.

    Let w := fst (brun (w0, t0) evs).
    Let now := snd (brun (w0, t0) evs).
    Let l := snd (glog t0 evs).

    Lemma reach : Inv t0 I250 N40 w now l /\ ignore_current w = false /\ now = fst (glog t0 evs).
    Proof.
      destruct (Inv_init t0 I250 N40 Hn false) as (w0' & E & HInv & Hig).
      change (new_rw N40 I250 false t0) with (new_rw nbuckets bucket_ns false t0) in E.
      rewrite Hw0 in E. inversion E; subst w0'.
      destruct (run_Inv t0 evs Hevs w0 t0 [] HInv) as [H1 H2].
      split; [exact H1|]. split; [|exact H2]. unfold w. rewrite brun_ignore. assumption.
    Qed.

    Lemma window_refines_log : history w now = visible_counts t0 now l.
    Proof. destruct reach as (H1 & H2 & _). apply history_counts; assumption. Qed.

    Lemma reject_only_on_excess m :
      accept w now m = false ->
      let (a, t) := visible_counts t0 now l in may_reject a t /\ coin_below m a t.
    Proof.
      unfold Model.accept. rewrite window_refines_log. destruct (visible_counts t0 now l) as [a t] eqn:E.
      unfold excess2, protection, k2. destruct (Z.leb_spec (2 * (t - 5) - 3 * a) 0); [discriminate|].
      intro Hc. apply negb_false_iff in Hc.
      assert (Ht : 0 <= t).
      { unfold visible_counts in E. pose proof (log_total_nonneg (vis_log t0 I250 N40 false now l)) as H0.
        rewrite E in H0. exact H0. }
      apply coin_lt_sound in Hc; [|lia|lia]. split; [unfold may_reject; lia|].
      unfold coin_below, ratio_den, ratio_num. lia.
    Qed.

    Lemma never_cut_off m :
      (let (a, t) := visible_counts t0 now l in a = t \/ t <= 5) -> accept w now m = true.
    Proof.
      unfold Model.accept. rewrite window_refines_log. destruct (visible_counts t0 now l) as [a t] eqn:E.
      intro H. unfold excess2, protection, k2.
      assert (Ht : 0 <= a <= t).
      { unfold visible_counts in E.
        assert (Hv : Forall (fun e => snd e = 0 \/ snd e = 1) l).
        { unfold l, glog. clear. assert (G : Forall (fun e : Z * Z => snd e = 0 \/ snd e = 1) (@nil (Z * Z))) by constructor.
          revert G. generalize (@nil (Z * Z)) as l0. generalize t0 as t. induction evs as [|e r IH]; intros t l0 G; [exact G|].
          cbn [fold_left]. destruct e; cbn [gstep mark_of]; try (apply IH; assumption);
            apply IH; constructor; try assumption; cbn [snd]; try destruct (acceptable k o); auto. }
        pose proof (log_total_bounds _ (filter_Forall _ (fun e => in_visible t0 I250 N40 false now (fst e)) _ Hv)) as Hb.
        fold (vis_log t0 I250 N40 false now l) in Hb.
        rewrite E in Hb. exact Hb. }
      destruct (Z.leb_spec (2 * (t - 5) - 3 * a) 0); [reflexivity|]. lia.
    Qed.

    (* failures that are at least 10 s old are invisible, so they cannot cut the dependency off *)
    Lemma aged_out_never_cut_off m :
      (forall s, In (s, 0) l -> s + window_ns <= now) -> accept w now m = true.
    Proof.
      intro Hold. apply never_cut_off. destruct (visible_counts t0 now l) as [a t] eqn:E. left.
      unfold visible_counts in E.
      assert (Hv : Forall (fun e => snd e = 0 \/ snd e = 1) l).
      { unfold l, glog. clear. assert (G : Forall (fun e : Z * Z => snd e = 0 \/ snd e = 1) (@nil (Z * Z))) by constructor.
        revert G. generalize (@nil (Z * Z)) as l0. generalize t0 as t. induction evs as [|e r IH]; intros t l0 G; [exact G|].
        cbn [fold_left]. destruct e; cbn [gstep mark_of]; try (apply IH; assumption);
          apply IH; constructor; try assumption; cbn [snd]; try destruct (acceptable k o); auto. }
      assert (Hb : fst (log_total (vis_log t0 I250 N40 false now l)) = snd (log_total (vis_log t0 I250 N40 false now l))).
      { unfold vis_log. clear E. induction l as [|[s v] l1 IH]; [reflexivity|]. inversion Hv; subst.
        assert (IH' := IH (fun s' Hs' => Hold s' (or_intror Hs')) H2). clear IH.
        cbn [filter fst]. destruct (in_visible t0 I250 N40 false now s) eqn:Ev; [|exact IH'].
        cbn [log_total fold_right fst snd]. unfold log_total in IH'. cbn [snd] in H1.
        destruct H1 as [->| ->]; [|lia]. exfalso.
        specialize (Hold s (or_introl eq_refl)). unfold in_visible in Ev.
        apply andb_true_iff in Ev as [Ev _]. unfold Spec.J, I250, N40, window_ns in *.
        apply Z.ltb_lt in Ev.
        assert ((s - t0) / 250000000 <= (now - 10000000000 - t0) / 250000000) by (apply Z.div_le_mono; lia).
        replace (now - 10000000000 - t0) with (now - t0 + (-40) * 250000000) in H by lia.
        rewrite Z.div_add in H by lia. lia. }
      rewrite E in Hb. exact Hb.
    Qed.
  End Reach.

  (* ---------- call structure ---------- *)
  Lemma rejected_never_runs w now m k r : do_begin coin_lt w now m k = Some r ->
    accept w now m = false /\ (forall o, r <> RRan o) /\
    (has_fallback k = true -> r = RFallback) /\ (has_fallback k = false -> r = RUnavailable) /\
    fst (bstep (w, now) (Begin 0%nat k m)) = (w, now).
  Proof.
    unfold do_begin. cbn [Model.bstep]. unfold do_begin. destruct (accept w now m); [discriminate|].
    intro H. inversion H. destruct (has_fallback k); repeat split; try discriminate; try reflexivity.
  Qed.

  Lemma one_mark_per_end w now k o :
    do_end w now k o = (add w now (if acceptable k o then 1 else 0), RRan o) /\
    acceptable k Panics = false /\ acceptable k PanicsNil = false /\
    (uses_default k = true -> (acceptable k o = true <-> o = OK)) /\
    (forall p, acceptable (KDoWithAcceptableP p) o = pred_ok p o /\ acceptable (KDoWithFallbackAcceptableP p) o = pred_ok p o) /\
    pred_ok PRejectsNil OK = false /\ pred_ok PAll UnacceptableErr = true.
  Proof.
    unfold do_end, mark. split; [reflexivity|]. split; [destruct k as [| | | |p|p]; try destruct p; reflexivity|].
    split; [destruct k as [| | | |p|p]; try destruct p; reflexivity|].
    split; [|split; [intro p; split; reflexivity|split; reflexivity]].
    intro Hd. destruct k; try discriminate; destruct o; simpl; split; intro H; try discriminate; reflexivity.
  Qed.

  (* nested breakers: a protected function that itself fails with ErrServiceUnavailable, in a call this breaker let
     in, is an ordinary completed call: req ran, its error goes back to the caller, the fallback does not run
     (RFallback only comes out of do_begin, i.e. of a rejection), and the mark follows the predicate *)
  Lemma inner_unavailable w now k :
    snd (do_end w now k InnerUnavailable) = RRan InnerUnavailable /\
    fst (do_end w now k InnerUnavailable) = add w now (if acceptable k InnerUnavailable then 1 else 0) /\
    (uses_default k = true -> acceptable k InnerUnavailable = false) /\
    acceptable KDoWithAcceptable InnerUnavailable = false /\
    (forall p, acceptable (KDoWithFallbackAcceptableP p) InnerUnavailable = pred_ok p UnacceptableErr).
  Proof.
    unfold do_end, mark. repeat split; try reflexivity.
    all: try (intro H; destruct k; try discriminate; reflexivity).
    all: try (intro p; destruct p; reflexivity).
  Qed.

  Lemma marks_count t0 evs :
    Z.of_nat (length (snd (glog t0 evs))) =
    Z.of_nat (length (filter (fun e => match mark_of e with Some _ => true | None => false end) evs)).
  Proof.
    unfold glog. assert (G : forall g, Z.of_nat (length (snd (fold_left gstep evs g))) =
      Z.of_nat (length (snd g)) + Z.of_nat (length (filter (fun e => match mark_of e with Some _ => true | None => false end) evs))).
    { induction evs as [|e r IH]; intro g; [simpl; lia|]. cbn [fold_left filter]. rewrite IH.
      destruct g as [now l]. destruct e; cbn [gstep mark_of snd length]; lia. }
    rewrite G. simpl. lia.
  Qed.

  (* ---------- registry ---------- *)
  Lemma get_same r name now now' :
    let (r1, w1) := get r name now in get r1 name now' = (r1, w1).
  Proof.
    unfold get. destruct (alookup Nat.eqb name r) as [w|] eqn:E.
    - rewrite E. reflexivity.
    - cbn [new_rw nbuckets]. simpl. rewrite Nat.eqb_refl. reflexivity.
  Qed.

  Lemma alookup_aremove_other (a b : nat) (r : registry) : a <> b ->
    alookup Nat.eqb b (aremove Nat.eqb a r) = alookup Nat.eqb b r.
  Proof.
    intro H. induction r as [|[k v] r IH]; simpl; [reflexivity|].
    destruct (Nat.eqb_spec a k); simpl.
    - subst. destruct (Nat.eqb_spec b k); [congruence|assumption].
    - destruct (Nat.eqb_spec b k); [reflexivity|assumption].
  Qed.

  Lemma registry_independent r now a b e : a <> b ->
    alookup Nat.eqb b (fst (fst (rstep coin_lt (r, now) (a, e)))) = alookup Nat.eqb b r.
  Proof.
    intro H. unfold rstep. cbn [fst snd].
    assert (G0 : forall e', alookup Nat.eqb b (fst (fst (let (r1, w) := get r a now in
                 let '(w', now', o) := bstep (w, now) e' in (put r1 a w', now', o)))) = alookup Nat.eqb b r).
    { intro e'. destruct (get r a now) as [r1 w] eqn:G.
      destruct (bstep (w, now) e') as [[w' now'] o]. cbn [fst]. unfold put, aset. cbn [alookup].
      destruct (Nat.eqb_spec b a); [congruence|]. rewrite alookup_aremove_other by assumption.
      unfold get in G. destruct (alookup Nat.eqb a r).
      - inversion G; reflexivity.
      - simpl in G. inversion G. simpl. destruct (Nat.eqb_spec b a); [congruence|reflexivity]. }
    destruct e; try apply G0. reflexivity.
  Qed.

  Lemma registry_same r now a e : (forall dt, e <> Advance dt) ->
    alookup Nat.eqb a (fst (fst (rstep coin_lt (r, now) (a, e)))) =
    Some (fst (fst (bstep (snd (get r a now), now) e))).
  Proof.
    intro Hne. unfold rstep. cbn [fst snd].
    assert (G0 : alookup Nat.eqb a (fst (fst (let (r1, w) := get r a now in
                 let '(w', now', o) := bstep (w, now) e in (put r1 a w', now', o)))) =
                 Some (fst (fst (bstep (snd (get r a now), now) e)))).
    { destruct (get r a now) as [r1 w]. cbn [snd].
      destruct (bstep (w, now) e) as [[w' now'] o]. cbn [fst]. unfold put, aset. cbn [alookup].
      rewrite Nat.eqb_refl. reflexivity. }
    destruct e; try exact G0. exfalso. eapply Hne. reflexivity.
  Qed.
End B.

Lemma every_caller_draws coin_lt w now :
  (forall n2 d, 0 < n2 -> coin_lt 0 n2 d = true) ->
  0 < excess2 (fst (history w now)) (snd (history w now)) ->
  forall k id, (snd (bstep coin_lt (w, now) (Allow id 0)), snd (bstep coin_lt (w, now) (Begin id k 0))) =
               (OAllowRejected, ORejected (if has_fallback k then RFallback else RUnavailable)).
Proof.
  intros Hc Hx k id. cbn [bstep fst snd]. unfold do_begin, accept.
  destruct (history w now) as [a t]. cbn [fst snd] in Hx.
  destruct (Z.leb_spec (excess2 a t) 0); [lia|]. rewrite Hc by assumption. reflexivity.
Qed.

(* ---------- arithmetic of the ratio ---------- *)
Lemma failing_ratio t : ratio_den t - ratio_num 0 t = 12.
Proof. unfold ratio_den, ratio_num. lia. Qed.

Lemma failing_limit p q : 0 < p -> 0 < q ->
  exists N, forall t, N <= t -> q * (ratio_den t - ratio_num 0 t) < p * ratio_den t.
Proof. intros Hp Hq. exists (6 * q). intros t Ht. rewrite failing_ratio. unfold ratio_den. nia. Qed.

Lemma success_keeps_closed a t : may_reject (a + 1) (t + 1) -> may_reject a t.
Proof. unfold may_reject. lia. Qed.

Lemma success_lowers_ratio a t : 0 <= t -> 0 < ratio_num a t ->
  ratio_num (a + 1) (t + 1) * ratio_den t < ratio_num a t * ratio_den (t + 1).
Proof. unfold ratio_num, ratio_den. intros. nia. Qed.
