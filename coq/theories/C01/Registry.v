(* C01 Registry: lib/breaker/breakers.go Get (:39-56) under concurrent first use.
   Every goroutine runs   RLock; read; RUnlock; [found -> return]   then
                          Lock; re-read; [missing -> New; store]; Unlock; return.
   The two critical sections are atomic with respect to each other (sync.RWMutex: the write lock
   excludes readers and writers), so a thread is a two-step machine and an execution is an arbitrary
   interleaving (schedule) of thread steps: [RLock-read] and [Lock; re-check; create].
   `recheck = false` is the code without the second look-up under the write lock. *)
From God Require Import Base.Prelude.

Inductive phase :=
| Start                 (* has not looked yet *)
| Missed                (* looked under RLock, name was absent; queued for the write lock *)
| Done (b : nat).       (* returned breaker b *)

Record rstate := mkr {
  rmap : list (nat * nat);               (* name |-> breaker identity *)
  fresh : nat;                           (* next identity New() will produce *)
  thr : list (nat * (nat * phase))       (* thread |-> (name it asks for, phase) *)
}.

Definition tstep (recheck : bool) (s : rstate) (t : nat) : rstate :=
  match alookup Nat.eqb t (thr s) with
  | Some (n, Start) =>
      match alookup Nat.eqb n (rmap s) with                       (* :40-45 *)
      | Some b => mkr (rmap s) (fresh s) (aset Nat.eqb t (n, Done b) (thr s))
      | None => mkr (rmap s) (fresh s) (aset Nat.eqb t (n, Missed) (thr s))
      end
  | Some (n, Missed) =>
      match (if recheck then alookup Nat.eqb n (rmap s) else None) with   (* :47-53 *)
      | Some b => mkr (rmap s) (fresh s) (aset Nat.eqb t (n, Done b) (thr s))
      | None => mkr (aset Nat.eqb n (fresh s) (rmap s)) (S (fresh s))
                    (aset Nat.eqb t (n, Done (fresh s)) (thr s))
      end
  | _ => s
  end.

Definition run (recheck : bool) (s : rstate) (sched : list nat) : rstate := fold_left (tstep recheck) sched s.

(* threads 0..k-1, thread i asks for (nth i names): any number of goroutines, any names *)
Definition init (names : list nat) : rstate :=
  mkr [] 0 (combine (seq 0 (length names)) (map (fun n : nat => (n, Start)) names)).

(* ---------- association lists over nat keys ---------- *)
Lemma alookup_aremove_neq {V} (k k' : nat) (m : list (nat * V)) : k <> k' ->
  alookup Nat.eqb k (aremove Nat.eqb k' m) = alookup Nat.eqb k m.
Proof.
  intro H. induction m as [|[a v] r IH]; simpl; [reflexivity|].
  destruct (Nat.eqb_spec k' a); simpl.
  - subst. destruct (Nat.eqb_spec k a); [congruence|assumption].
  - destruct (Nat.eqb_spec k a); [reflexivity|assumption].
Qed.
Lemma alookup_aset_eq {V} (k : nat) (v : V) m : alookup Nat.eqb k (aset Nat.eqb k v m) = Some v.
Proof. unfold aset; simpl. rewrite Nat.eqb_refl. reflexivity. Qed.
Lemma alookup_aset_neq {V} (k k' : nat) (v : V) m : k <> k' ->
  alookup Nat.eqb k (aset Nat.eqb k' v m) = alookup Nat.eqb k m.
Proof. intro H. unfold aset; simpl. destruct (Nat.eqb_spec k k'); [congruence|]. apply alookup_aremove_neq; assumption. Qed.

(* ---------- with the re-check: a returned breaker is the registered one, for ever ---------- *)
Definition Inv (s : rstate) : Prop :=
  forall t n b, alookup Nat.eqb t (thr s) = Some (n, Done b) -> alookup Nat.eqb n (rmap s) = Some b.

Lemma Inv_step s t : Inv s -> Inv (tstep true s t).
Proof.
  intro H. unfold tstep. destruct (alookup Nat.eqb t (thr s)) as [[n [| |b]]|] eqn:Et; try exact H.
  - destruct (alookup Nat.eqb n (rmap s)) as [b|] eqn:En; intros t' n' b' Ht'; cbn [thr rmap] in *.
    + destruct (Nat.eq_dec t' t) as [->|Hne].
      * rewrite alookup_aset_eq in Ht'. inversion Ht'; subst. exact En.
      * rewrite alookup_aset_neq in Ht' by assumption. eapply H; eauto.
    + destruct (Nat.eq_dec t' t) as [->|Hne].
      * rewrite alookup_aset_eq in Ht'. discriminate.
      * rewrite alookup_aset_neq in Ht' by assumption. eapply H; eauto.
  - destruct (alookup Nat.eqb n (rmap s)) as [b|] eqn:En; intros t' n' b' Ht'; cbn [thr rmap] in *.
    + destruct (Nat.eq_dec t' t) as [->|Hne].
      * rewrite alookup_aset_eq in Ht'. inversion Ht'; subst. exact En.
      * rewrite alookup_aset_neq in Ht' by assumption. eapply H; eauto.
    + destruct (Nat.eq_dec t' t) as [->|Hne].
      * rewrite alookup_aset_eq in Ht'. inversion Ht'; subst. apply alookup_aset_eq.
      * rewrite alookup_aset_neq in Ht' by assumption. specialize (H _ _ _ Ht').
        destruct (Nat.eq_dec n' n) as [->|Hn]; [congruence|]. rewrite alookup_aset_neq by assumption. exact H.
Qed.

Lemma Inv_run sched : forall s, Inv s -> Inv (run true s sched).
Proof. induction sched as [|t r IH]; intros s H; [exact H|]. apply IH. apply Inv_step. exact H. Qed.

Lemma alookup_combine_start names : forall k t n p,
  alookup Nat.eqb t (combine (seq k (length names)) (map (fun n : nat => (n, Start)) names)) = Some (n, p) -> p = Start.
Proof.
  induction names as [|a l IH]; intros k t n p H; simpl in H; [discriminate|].
  destruct (Nat.eqb t k); [inversion H; reflexivity|]. eapply IH; eauto.
Qed.

Lemma Inv_init names : Inv (init names).
Proof. intros t n b H. apply alookup_combine_start in H. discriminate. Qed.

(* any number of goroutines, any names, any interleaving: two threads that asked for the same name
   and returned hold the same breaker, and it is the one the registry maps the name to *)
Lemma one_breaker_per_name names sched t1 t2 n b1 b2 :
  let s := run true (init names) sched in
  alookup Nat.eqb t1 (thr s) = Some (n, Done b1) ->
  alookup Nat.eqb t2 (thr s) = Some (n, Done b2) ->
  b1 = b2 /\ alookup Nat.eqb n (rmap s) = Some b1.
Proof.
  intros s H1 H2. pose proof (Inv_run sched _ (Inv_init names)) as HI.
  pose proof (HI _ _ _ H1) as E1. pose proof (HI _ _ _ H2) as E2. fold s in E1, E2.
  split; [congruence|assumption].
Qed.

(* a returned breaker stays registered under its name whatever happens later *)
Lemma registered_stays names sched more t n b :
  alookup Nat.eqb t (thr (run true (init names) sched)) = Some (n, Done b) ->
  alookup Nat.eqb n (rmap (run true (run true (init names) sched) more)) = Some b.
Proof.
  intro H. set (s := run true (init names) sched) in *.
  assert (HI : Inv s) by (apply Inv_run, Inv_init).
  assert (G : forall more s0, Inv s0 -> alookup Nat.eqb t (thr s0) = Some (n, Done b) ->
              alookup Nat.eqb t (thr (run true s0 more)) = Some (n, Done b)).
  { clear. induction more as [|u r IH]; intros s0 HI H; [exact H|]. cbn [run fold_left]. apply IH; [apply Inv_step; exact HI|].
    unfold tstep. destruct (alookup Nat.eqb u (thr s0)) as [[m [| |c]]|] eqn:Eu; try exact H.
    - assert (u <> t) by (intros ->; congruence).
      destruct (alookup Nat.eqb m (rmap s0)); cbn [thr]; rewrite alookup_aset_neq by congruence; exact H.
    - assert (u <> t) by (intros ->; congruence).
      destruct (alookup Nat.eqb m (rmap s0)); cbn [thr]; rewrite alookup_aset_neq by congruence; exact H. }
  apply (Inv_run more s HI t). apply G; assumption.
Qed.
